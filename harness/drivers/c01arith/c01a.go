// Package c01arith is the ARITHMETIC half of C01 (pod exposure never exceeds the step; the knob never moves back) and
// clause (e) of C07 (the update target the controller sets suffices for its own readiness criterion).
//
// Monitor: for every control (CloneSet / StatefulSet / Advanced StatefulSet-unordered / DaemonSet / Deployment partition-style,
// Deployment canary-style, CloneSet / Deployment blue-green) the REAL control plane (Initialize -> UpgradeBatch ->
// EnsureBatchPodsReadyAndLabeled, i.e. BuildController + CalculateBatchContext + UpgradeBatch + IsBatchReady) runs against a
// controller-runtime fake client behind a write-recording interposer; the workload object is read back and judged with the
// exposure()/planned() interpreters of interp.go.
//
// Violations carry the prefix "c01:" (bound / monotone / panic) or "c07e:" (sufficiency) so that the composing check can
// filter them.
package c01arith

import (
	"fmt"
	"math/rand"

	"github.com/openkruise/rollouts/api/v1beta1"
	"k8s.io/apimachinery/pkg/util/intstr"
	"k8s.io/utils/pointer"
	"sigs.k8s.io/controller-runtime/pkg/client"

	"verif/harness/core"
	"verif/harness/gen"
)

const (
	quickR    = 120
	thoroughR = 1000
)

func maxR(env *core.Env) int {
	if env.Thorough() {
		return thoroughR
	}
	return quickR
}

// NumCases: one case per (control, replicas).
func NumCases(env *core.Env) int { return numTargets * (maxR(env) + 1) }

func init() {
	core.Register(&core.Check{
		ID:    "C01A",
		Level: "exploration",
		Rule: "one case = (control, replicas); controls = the 7 batch-release controls (the StatefulSet control twice: native ordered and Advanced-StatefulSet unordered); " +
			"inside a case every step in {0..R+2} U {0%..100%} is evaluated from the state the real Initialize leaves (fresh) and from 5 states produced by really running " +
			"a previous batch (lower / equal / beyond, same and cross int-percent type) and settling the workload at that level; plan length 1-3 and the position of the " +
			"current batch cycle deterministically; for the controls that read no-need-update pods 3 NoNeedUpdateReplicas values x 2 start states are added (rollback-in-batches). " +
			"quick: R=120, the whole domain is enumerated (exhaustive); thorough: replicas 0..1000, all percents, all int steps for replicas<=120 and boundary + sampled int steps above. " +
			"non-trivial = the real UpgradeBatch ran on replicas>0; distinct = (control, replicas bucket, int/percent, raise/no-op/lower-attempt, rollback).",
		Assumptions: []string{
			"C01 bound is asserted on calls that RAISE exposure: exposure(after) - planned(step, replicas) < replicas/100 for percent steps, <= 0 for int steps (the documented percent->integer slack)",
			"C01 monotone: one UpgradeBatch never leaves exposure lower than it found it, whatever the start state (knob beyond the step after a plan edit / non-monotone plan / mixed int-percent plan)",
			"in rollback-in-batches states (NoNeedUpdateReplicas set) only monotone, no-panic and C07e are asserted (DESIGN C01: 'pods on the new revision' is not defined against the plan there)",
			"exposure: CloneSet replicas - kept(partition) with Kruise rounding (percent rounds up; <100% on >1 replicas keeps at most replicas-1); StatefulSet replicas - partition; DaemonSet desiredNumberScheduled - partition; " +
				"partition-style Deployment from the strategy annotation (int -> min(p,replicas); percent -> ceil, capped at replicas-1 unless 100% or replicas<=1); canary Deployment spec.replicas; " +
				"blue-green min(resolved maxSurge rounded up, replicas), 0 while paused / partition 100%",
			"C07e environment: after UpgradeBatch the workload controller does exactly what the knob asks: updated = exposure(after), all ready (rollback states: plus the no-need-update pods not covered by it; ordered StatefulSet: those are the lowest ordinals); " +
				"then the real EnsureBatchPodsReadyAndLabeled (real CalculateBatchContext + IsBatchReady) must return nil",
			"rollout-id empty and failureThreshold nil (batch labels are C12's subject); StatefulSet/DaemonSet pods are synthesised by the interposer (updated+ready ones only)",
			"per (control, replicas, step) only the first failing start state is reported per oracle, so that one defect maps to one fingerprint",
		},
		NumCases:   NumCases,
		ChunkSize:  2,
		Relevant:   "writes_checked",
		RunCase:    RunCase,
		Exhaustive: func(env *core.Env) bool { return !env.Thorough() },
	})
}

// ---- domain ------------------------------------------------------------------------------------

type step = intstr.IntOrString

func pct(p int) step { return intstr.FromString(fmt.Sprintf("%d%%", p)) }

func stepsFor(env *core.Env, r int, rng *rand.Rand) []step {
	R := maxR(env)
	var out []step
	if !env.Thorough() || r <= quickR {
		top := R + 2
		if env.Thorough() {
			top = quickR + 2
			if r+2 > top {
				top = r + 2
			}
		}
		for n := 0; n <= top; n++ {
			out = append(out, intstr.FromInt(n))
		}
	} else {
		seen := map[int]bool{}
		add := func(n int) {
			if n >= 0 && n <= R+2 && !seen[n] {
				seen[n] = true
				out = append(out, intstr.FromInt(n))
			}
		}
		for _, n := range []int{0, 1, 2, 3, r/100 - 1, r / 100, r/100 + 1, r / 2, r - r/100 - 1, r - r/100, r - r/100 + 1, r - 3, r - 2, r - 1, r, r + 1, r + 2, R + 2} {
			add(n)
		}
		for i := 0; i < 40; i++ {
			add(rng.Intn(r + 3))
		}
	}
	for p := 0; p <= 100; p++ {
		out = append(out, pct(p))
	}
	return out
}

type startKind int

const (
	skFresh startKind = iota
	skPrevLowerSame
	skPrevEqual
	skPrevBeyondSame
	skPrevLowerCross
	skPrevBeyondCross
	numStartKinds
)

var startKindNames = [numStartKinds]string{"fresh", "prev-lower-same-type", "prev-equal", "prev-beyond-same-type", "prev-lower-cross-type", "prev-beyond-cross-type"}

func max(a, b int) int {
	if a > b {
		return a
	}
	return b
}
func min(a, b int) int {
	if a < b {
		return a
	}
	return b
}

// prevStep derives the previous batch for a start kind.
func prevStep(k startKind, s step, r, R int) step {
	P := planned(s, r)
	if isPct(s) {
		p, _ := parsePct(s.StrVal)
		switch k {
		case skPrevLowerSame:
			return pct(p / 2)
		case skPrevEqual:
			return s
		case skPrevBeyondSame:
			return pct(min(100, p+13))
		case skPrevLowerCross:
			return intstr.FromInt(P / 2)
		case skPrevBeyondCross:
			return intstr.FromInt(min(r, P+max(1, r/4)))
		}
	} else {
		n := int(s.IntVal)
		switch k {
		case skPrevLowerSame:
			return intstr.FromInt(n / 2)
		case skPrevEqual:
			return s
		case skPrevBeyondSame:
			return intstr.FromInt(min(R+2, n+max(1, r/4)))
		case skPrevLowerCross:
			if r == 0 {
				return pct(0)
			}
			return pct(P * 100 / r / 2)
		case skPrevBeyondCross:
			if r == 0 {
				return pct(100)
			}
			return pct(min(100, ceilDiv(P*100, r)+7))
		}
	}
	return s
}

func lowerOf(s step) step {
	if isPct(s) {
		p, _ := parsePct(s.StrVal)
		return pct(p / 2)
	}
	return intstr.FromInt(int(s.IntVal) / 2)
}

func trailing(s step, R int) step {
	if isPct(s) {
		return pct(100)
	}
	return intstr.FromInt(R + 2)
}

// buildPlan: plan and index of the judged batch. pad cycles the plan length / position.
func buildPlan(k startKind, s step, r, R, pad int) ([]step, int) {
	if k == skFresh {
		switch pad {
		case 0:
			return []step{s}, 0
		case 1:
			return []step{s, trailing(s, R)}, 0
		default:
			return []step{s, trailing(s, R), trailing(s, R)}, 0
		}
	}
	prev := prevStep(k, s, r, R)
	switch pad {
	case 0:
		return []step{prev, s}, 1
	case 1:
		return []step{prev, s, trailing(s, R)}, 1
	default:
		return []step{lowerOf(prev), prev, s}, 2
	}
}

func bucket(r int) string {
	switch {
	case r == 0:
		return "0"
	case r == 1:
		return "1"
	case r < 10:
		return "2-9"
	case r < 100:
		return "10-99"
	case r == 100:
		return "100"
	case r < 200:
		return "101-199"
	}
	return "200+"
}

// ---- one evaluation ------------------------------------------------------------------------------

type evalInput struct {
	Target    string   `json:"control"`
	Replicas  int      `json:"replicas"`
	Plan      []string `json:"plan"`
	Current   int      `json:"currentBatch"`
	StartKind string   `json:"startState"`
	NoNeed    *int32   `json:"noNeedUpdateReplicas,omitempty"`
}

type evalOutcome struct {
	c01Failed, c07Failed bool
}

func planStrings(p []step) []string {
	var out []string
	for _, s := range p {
		out = append(out, s.String())
	}
	return out
}

// evaluate runs the judged UpgradeBatch for (target, replicas, plan[cur]) from the given start kind.
// report01 / report07: whether a failure of that oracle may be reported (false once an earlier start state already failed it).
func evaluate(res *core.CaseResult, t, r int, objs []client.Object, plan []step, cur int, k startKind, nn *int32, report01, report07 bool) (out evalOutcome) {
	tn := targetNames[t]
	s := plan[cur]
	in := evalInput{Target: tn, Replicas: r, Plan: planStrings(plan), Current: cur, StartKind: startKindNames[k], NoNeed: nn}
	w := newWorld(t, r, objs)
	res.Count("evaluations", 1)
	res.Count("evaluations."+tn, 1)

	// start state: status at the level the knob asks; rollback states start with the no-need-update pods already updated
	st0, err := w.read()
	if err != nil {
		res.Inconclusive = "read start state: " + err.Error()
		return
	}
	if err := w.settle(w.updatedCount(st0.Exposure, nn)); err != nil {
		res.Inconclusive = "settle start state: " + err.Error()
		return
	}
	// predecessor batches through the real control (not judged here: each is judged as a step of its own)
	for b := 0; b < cur; b++ {
		br := mkRelease(t, plan, b, nn)
		var uerr error
		pi := core.Try(func() { uerr = mkPlane(t, w.cli, br).UpgradeBatch() })
		if pi != nil || uerr != nil {
			res.Count("setup_failed", 1)
			return
		}
		stb, err := w.read()
		if err != nil {
			res.Count("setup_failed", 1)
			return
		}
		if err := w.settle(w.updatedCount(stb.Exposure, nn)); err != nil {
			res.Count("setup_failed", 1)
			return
		}
	}

	before, err := w.read()
	if err != nil {
		res.Inconclusive = "read before: " + err.Error()
		return
	}
	br := mkRelease(t, plan, cur, nn)
	w.cli.writes = nil
	var uerr error
	pi := core.Try(func() { uerr = mkPlane(t, w.cli, br).UpgradeBatch() })
	detail := func(extra gen.NF) gen.NF {
		d := gen.NF{"input": in, "knob_before": before, "writes": w.cli.writes}
		for k, v := range extra {
			d[k] = v
		}
		return d
	}
	if pi != nil {
		out.c01Failed = true
		if report01 {
			res.Violate("c01:panic:"+tn+":"+pi.Site+":"+core.NormPanic(pi.Value), fmt.Sprintf("%s UpgradeBatch panicked on replicas=%d step=%s: %s", tn, r, s.String(), pi.Value),
				detail(gen.NF{"stack": pi.Stack}))
		}
		return
	}
	if uerr != nil {
		res.Count("upgrade_errors", 1)
		res.Count("upgrade_errors."+tn, 1)
		if res.Inconclusive == "" {
			res.Inconclusive = fmt.Sprintf("%s UpgradeBatch returned an error on replicas=%d step=%s start=%s: %v", tn, r, s.String(), startKindNames[k], uerr)
		}
		return
	}
	after, err := w.read()
	if err != nil {
		res.Inconclusive = "read after: " + err.Error()
		return
	}
	P := planned(s, r)
	rollback := nn != nil
	typ := "int"
	if isPct(s) {
		typ = "percent"
	}
	class := "noop"
	switch {
	case before.Exposure > P:
		class = "lower-attempt"
	case after.Exposure > before.Exposure:
		class = "raise"
	}
	if r > 0 {
		res.Count("writes_checked", int64(len(w.cli.writes)))
		res.Count("writes_checked."+tn, int64(len(w.cli.writes)))
		res.Count("calls_judged", 1)
		switch class {
		case "lower-attempt":
			res.Count("lower_attempts."+tn, 1)
		case "raise":
			res.Count("raises."+tn, 1)
		default:
			res.Count("noops."+tn, 1)
		}
		sig := fmt.Sprintf("%s:r%s:%s:%s", tn, bucket(r), typ, class)
		if rollback {
			sig += ":rollback"
		}
		res.AddSig(sig)
	}

	// (b) monotone
	if after.Exposure < before.Exposure {
		out.c01Failed = true
		if report01 {
			rel := "same-type"
			if cur > 0 && isPct(plan[cur-1]) != isPct(s) {
				rel = "cross-type"
			}
			fp := "c01:monotone:" + tn + ":" + rel
			if rollback {
				fp += ":rollback"
			}
			res.Violate(fp, fmt.Sprintf("%s UpgradeBatch moved the knob back: exposure %d -> %d (replicas=%d plan=%v batch=%d start=%s)", tn, before.Exposure, after.Exposure, r, in.Plan, cur, in.StartKind),
				detail(gen.NF{"knob_after": after, "planned": P}))
		}
	}
	// (a) bound on raises (not in rollback-in-batches states)
	if !rollback && after.Exposure > before.Exposure {
		over := after.Exposure - P
		bad := over > 0
		if isPct(s) {
			bad = over*100 >= r && over > 0 // over < r/100 allowed
		}
		if bad {
			out.c01Failed = true
			if report01 {
				res.Violate("c01:bound:"+tn+":"+typ, fmt.Sprintf("%s UpgradeBatch exposes %d pods, step %s of %d replicas plans %d (excess %d, allowed slack < %d/100)", tn, after.Exposure, s.String(), r, P, over, r),
					detail(gen.NF{"knob_after": after, "planned": P}))
			}
		}
	}

	// (c) C07e sufficiency
	if err := w.settle(w.updatedCount(after.Exposure, nn)); err != nil {
		res.Inconclusive = "settle after: " + err.Error()
		return
	}
	var rerr error
	pi = core.Try(func() { rerr = mkPlane(t, w.cli, br).EnsureBatchPodsReadyAndLabeled() })
	if pi != nil {
		out.c07Failed = true
		if report07 {
			res.Violate("c07e:panic:"+tn+":"+pi.Site+":"+core.NormPanic(pi.Value), fmt.Sprintf("%s EnsureBatchPodsReadyAndLabeled panicked: %s", tn, pi.Value), detail(gen.NF{"stack": pi.Stack}))
		}
		return
	}
	if r > 0 {
		res.Count("sufficiency_checked", 1)
		res.Count("sufficiency_checked."+tn, 1)
	}
	if rerr != nil {
		out.c07Failed = true
		if report07 {
			mech := "write-short"
			if len(w.cli.writes) == 0 {
				mech = "noop-short"
			}
			var ctxJSON interface{}
			if bc, cerr := realContext(t, w.cli, br); cerr == nil && bc != nil {
				ctxJSON = gen.Canon(bc)
				if int(bc.DesiredUpdatedReplicas) > r {
					mech = "demand-exceeds-replicas"
				}
			}
			fp := "c07e:" + tn + ":" + mech
			if rollback {
				fp += ":rollback"
			}
			res.Violate(fp, fmt.Sprintf("%s: the knob UpgradeBatch leaves asks for %d updated pods of %d, the workload delivers exactly that, yet the batch can never become ready: %v (plan=%v batch=%d start=%s)",
				tn, after.Exposure, r, rerr, in.Plan, cur, in.StartKind),
				detail(gen.NF{"knob_after": after, "planned": P, "workload_reports_updated": w.updatedCount(after.Exposure, nn), "real_batch_context": ctxJSON, "readiness_error": rerr.Error()}))
		}
	}
	return
}

// noNeedValues: NoNeedUpdateReplicas values for rollback-in-batches states.
func noNeedValues(r int) []int32 {
	if r < 1 {
		return nil
	}
	var out []int32
	seen := map[int]bool{}
	for _, v := range []int{1, (r + 2) / 3, r - 1} {
		if v >= 1 && v <= r && !seen[v] {
			seen[v] = true
			out = append(out, int32(v))
		}
	}
	return out
}

var initCache = map[[2]int][]client.Object{}

// RunCase runs case idx = replicas*numTargets + control.
func RunCase(env *core.Env, idx int) *core.CaseResult {
	res := &core.CaseResult{}
	t, r := idx%numTargets, idx/numTargets
	R := maxR(env)
	if r > R {
		return res
	}
	tn := targetNames[t]
	rng := env.RNG(idx)

	var objs []client.Object
	var ierr error
	if pi := core.Try(func() { objs, ierr = initialised(t, r) }); pi != nil {
		res.Violate("c01:panic:"+tn+":initialize:"+pi.Site+":"+core.NormPanic(pi.Value), fmt.Sprintf("%s Initialize panicked on replicas=%d: %s", tn, r, pi.Value), gen.NF{"stack": pi.Stack})
		return res
	}
	if ierr != nil {
		res.Inconclusive = ierr.Error()
		return res
	}
	// the state Initialize leaves must not expose anything
	{
		w := newWorld(t, r, objs)
		st, err := w.read()
		if err != nil {
			res.Inconclusive = "read initial state: " + err.Error()
			return res
		}
		res.Count("initialize_checked", 1)
		if st.Exposure != 0 {
			res.Violate("c01:bound:"+tn+":initialize", fmt.Sprintf("%s Initialize leaves a knob that exposes %d of %d pods before any batch", tn, st.Exposure, r), gen.NF{"replicas": r, "knob": st})
		}
	}

	steps := stepsFor(env, r, rng)
	for si, s := range steps {
		pad := (r + si) % 3
		c01Seen, c07Seen := false, false
		for k := skFresh; k < numStartKinds; k++ {
			plan, cur := buildPlan(k, s, r, R, pad)
			o := evaluate(res, t, r, objs, plan, cur, k, nil, !c01Seen, !c07Seen)
			c01Seen, c07Seen = c01Seen || o.c01Failed, c07Seen || o.c07Failed
		}
		if supportsRollback(t) {
			for _, nn := range noNeedValues(r) {
				for _, k := range []startKind{skFresh, skPrevBeyondSame} {
					plan, cur := buildPlan(k, s, r, R, pad)
					o := evaluate(res, t, r, objs, plan, cur, k, pointer.Int32(nn), !c01Seen, !c07Seen)
					c01Seen, c07Seen = c01Seen || o.c01Failed, c07Seen || o.c07Failed
				}
			}
		}
	}
	if idx < 8 {
		res.Sample = gen.NF{"control": tn, "replicas": r, "steps": len(steps), "start_states": startKindNames, "no_need_update_values": noNeedValues(r)}
	}
	return res
}

var _ = v1beta1.PartitionRollingStyle
