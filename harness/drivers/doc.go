// Package drivers links every property check into vcheck.
package drivers

import (
	_ "verif/harness/drivers/advplug"
	_ "verif/harness/drivers/c08webhook"
	_ "verif/harness/drivers/c09validate"
	_ "verif/harness/drivers/c12labels"
	_ "verif/harness/drivers/c13gateway"
	_ "verif/harness/drivers/c14ingress"
	_ "verif/harness/drivers/c15custom"
	_ "verif/harness/drivers/c16lua"
	_ "verif/harness/drivers/c17advdeploy"
	_ "verif/harness/drivers/c19iso"
	_ "verif/harness/drivers/c20conv"
	_ "verif/harness/drivers/compose"
	_ "verif/harness/drivers/e1"
)
