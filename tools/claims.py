# claim(pid, engine, level, technique, text, note, design_ref)
E1_TECH = "runtime monitoring: real reconcilers + real admission webhooks + real watch handlers run in a closed loop against a simulated API server; online monitors over the committed-write log with a snapshot after every write"
E1_NOTE = "Trusts the environment actors (Deployment/ReplicaSet/kubelet and CloneSet models), the simulated API server semantics, the re-stated inline watch predicates and the reference interpreters (route / exposure / planned) written from the documentation. Grace periods set to 0 via verif hooks."

claim("C01", "E1-clustersim", "exploration", E1_TECH + "; plus exhaustive arithmetic driver over the seven BatchRelease controls (real CalculateBatchContext + UpgradeBatch, independent exposure interpreter)",
      "Held on the explored executions: closed-loop scenarios over Deployment (canary, blue-green) and CloneSet (partition, blue-green) with scale / jump / pause events, every controller write to a workload knob judged (bound, monotone, nothing raised while a superseded release is reset, the webhook's hold not lifted for a revision the Rollout has not taken up - one known finding there); plus the complete domain replicas 0..120 x steps {0..122} U {0%..100%} for each control from the state the real Initialize leaves (exhaustive for that domain).",
      E1_NOTE, "DESIGN.md §4 C01")
claim("C02", "E1-clustersim", "exploration", E1_TECH + "; trace automaton over persisted Rollout status",
      "Held on the explored executions: every cursor change of every run is checked for upgrade evidence (own pod count), routed report and pause discharge, or a preceding user request; writes while paused are checked.",
      E1_NOTE, "DESIGN.md §4 C02")
claim("C03", "E1-clustersim", "exploration", E1_TECH + "; independent route interpreter for Ingress annotations, HTTPRoute backendRefs and VirtualService routes",
      "Held on the explored executions across ingress (nginx, aliyun-alb, higress), Gateway API, custom Lua (Istio) and ingress+gateway composite: every traffic-raising write and every routed report is checked.",
      E1_NOTE, "DESIGN.md §4 C03")
claim("C04", "E1-clustersim", "exploration", E1_TECH + "; the void predicate is evaluated on the snapshot after EVERY committed write of every actor, which covers every crash point of the explored histories",
      "Held on the explored executions (success, rollback, supersession, disable, delete, scale, jump) for every provider; one known finding (jump back to step 1 after all stable pods were replaced).",
      E1_NOTE, "DESIGN.md §4 C04")
claim("C05", "E1-clustersim", "exploration", E1_TECH + "; residue / user-intent comparison at quiescence after the terminal state",
      "Held on the explored executions: exit events injected at random (step, sub-state); residue set, user-owned fields and convergence checked at quiescence. Known findings: an exit that arrives when no live BatchRelease exists leaves the workload held; a revision published during the last cleanup task of a completed release is never released.",
      E1_NOTE, "DESIGN.md §4 C05")
claim("C06", "E1-clustersim", "fault_enumeration", E1_TECH + "; fault-injecting client interposer and crash/restart of every reconciler (grace and creation expectations reset, queues dropped, objects replayed as create events); each faulty run judged against the fault-free run of the same scenario",
      "Per tier a fixed set of baseline scenarios, one per workload kind x rolling style at least (6 quick / 18 thorough): a crash after EVERY controller write of the baseline, an error / conflict / lost-response / timeout at EVERY controller write call (each call at least one kind in the quick tier, all four in the thorough tier), errors / timeouts at sampled (quick) or all (thorough) read calls, and random multi-fault plans. Enumeration is complete for single crashes and single write faults of the chosen baselines, not for the space of scenarios.",
      E1_NOTE + " Faults hit controller actors only; a lost response commits the write and returns a timeout. Oracles: monitors silent unless the baseline shows the same fingerprint, still terminal within the budget, same configuration projection at each 'step k paused' sync point, same final projection.", "DESIGN.md §4 C06, §11.1")
claim("C07", "E1-clustersim", "exploration", E1_TECH + "; bounded-progress + lost-wake-up detection with a recording work-queue fed only by the real handlers / Requeue / RequeueAfter / errors; plus provider fixed-point drivers and readiness-sufficiency arithmetic",
      "Liveness restated as bounded progress: terminal state within 60*(steps+5)*(replicas+6) scheduler actions, no state with nothing enabled before terminal; every provider re-applies a done step with zero writes; the written knob always suffices for IsBatchReady on the enumerated domain.",
      E1_NOTE + " No finite run decides 'eventually'.", "DESIGN.md §4 C07")
claim("C08", "E2-drivers", "exploration", "runtime monitoring: real mutating webhook handlers on generated admission requests, judged by an independent decision table and a JSON-diff frame condition",
      "Held on 20k (quick) / 500k (thorough) generated (old, new, Rollouts, ReplicaSets) situations over Deployment, CloneSet, Advanced DaemonSet, native and Advanced StatefulSet.",
      "Trusts the decision table written from the statement (annotation reading of rollout-id, see DESIGN §6 O1); corners the statement leaves open are counted as undetermined, not judged.", "DESIGN.md §4 C08")
claim("C09", "E1-clustersim", "exploration", E1_TECH + " with recover() around every Reconcile / watch handler / webhook Handle and fuzzed user-patchable status fields; plus the real validating handler on generated v1beta1/v1alpha1 requests with structural-promise oracles and a ControllerFinder probe",
      "Held on the explored executions: 160 closed-loop runs with nextStepIndex fuzzing and 30k generated admission requests per quick run; no panic, promises kept on accepted objects.",
      E1_NOTE + " Reading chosen for non-decreasing steps: adjacent steps of the same type (DESIGN §6 O3).", "DESIGN.md §4 C09")
claim("C10", "E1-clustersim", "exploration", E1_TECH + "; order monitor from the Cancelling / supersession point over capacity-removing writes",
      "Held on the explored executions: rollback or a v3 release injected at random (step, sub-state) for every provider; every capacity-removing write requires the gateway to send nothing to the canary Service.",
      E1_NOTE, "DESIGN.md §4 C10")
claim("C11", "E1-clustersim", "exploration", E1_TECH + "; BatchRelease status writes judged against an own count of live pods",
      "Held on the explored executions: every transition into Ready, every Completed report (release + wait policy) and currentBatch <= batchPartition at every BatchRelease status write.",
      E1_NOTE + " Reading chosen: Ready is judged at the write that enters it; staying Ready while unsatisfied is a violation after 3 consecutive status writes.", "DESIGN.md §4 C11")
claim("C12", "E2-drivers", "exploration", "runtime monitoring: real label patcher against a write-recording client on generated pod sets, applied three times; independent per-batch budget oracle",
      "Held on 20k (quick) / 500k (thorough) generated pod sets x plans; one known finding (garbage batch-id counted by batchLabelSatisfied).",
      "Trusts the generator's ground truth for revisions and the oracle's reading of 'not counted'.", "DESIGN.md §4 C12")
claim("C13", "E2-drivers", "exploration", "runtime monitoring: real Gateway API provider on generated HTTPRoutes and step sequences; request-level match evaluator, history-independence and restore oracles",
      "Held on 3k (quick) / 100k (thorough) generated route x sequence cases.", "Trusts the CRD defaults applied by the generator and the own HTTPRoute match evaluator.", "DESIGN.md §4 C13-C15")
claim("C14", "E2-drivers", "exploration", "runtime monitoring: real Ingress provider + the four class Lua scripts on generated Ingresses and step sequences; history-independence of canary annotations, path and restore oracles",
      "Held on 3k (quick) / 100k (thorough) sequences over nginx, aliyun-alb, higress, mse.", "Annotation content is judged for history independence only (as the statement says).", "DESIGN.md §4 C13-C15")
claim("C15", "E2-drivers", "exploration", "runtime monitoring: real custom network provider with built-in Istio scripts and generated well-behaved scripts on generated unstructured objects; stateless-apply and exact-restore oracles with exact number comparison",
      "Held on 3k (quick) / 100k (thorough) cases.", "Routes with a match block are not judged for the split (the built-in script skips them by design).", "DESIGN.md §4 C13-C15")
claim("C16", "E3-sandbox", "exploration", "runtime monitoring of the Lua sandbox: hostile corpus + grammar-generated programs run in killable child processes (CPU time via rusage, process death, recovered panics), strace syscall log between marker syscalls, walk of the reachable global environment, value round trips",
      "Held on the executed scripts except three known findings in gopher-lua's Go-implemented string library (deadline not seen / stack overflow).",
      "CPU-time bound 10 s for a 1 s deadline (2-10 s recorded as observations); memory and nesting bombs excluded as the property says.", "DESIGN.md §4 C16")
claim("C17", "E2-drivers", "exploration", "runtime monitoring: the real advanced deployment reconciler in a mini closed loop against ReplicaSet-level actors; every ReplicaSet spec.replicas write judged with own ceil/clamp arithmetic",
      "Held on 4k (quick) / 200k (thorough) histories x <= 40 actions except two known findings (new ReplicaSet lower bound of 1).",
      "Deletion preference of a ReplicaSet modelled as unavailable-first (as the code comments assume).", "DESIGN.md §4 C17")
claim("C18", "E1-clustersim", "fault_enumeration", E1_TECH + "; cleanup predicate evaluated at every write that removes one of the three finalizers",
      "Held on the explored executions: deletion / disable / rollback / supersession injected at random (step, sub-state); every Rollout and BatchRelease finalizer removal checked in its snapshot.",
      E1_NOTE + " TrafficRouting CR scenarios are not generated yet (its finalizer ordering was fixed from reading + spike).", "DESIGN.md §4 C18")
claim("C19", "E1-clustersim", "exploration", "runtime monitoring under the Go race detector (-race worker binary, GORACE halt_on_error=0 log_path, DATA RACE blocks counted and deduplicated by the parent): several rollouts with colliding names in ONE simulated cluster served by ONE set of real reconcilers, reconciles on real goroutines (3 workers per controller, key-exclusive); per-tenant online monitors and final-state comparison with the same scenario run alone; plus porcupine v1.3.0 linearizability checks of recorded histories on grace expectations / ResourceExpectations and concurrent Lua calls compared with solo calls",
      "Held on the executions produced: 40 multi-tenant runs (2-3 tenants each), 16 histories of 4-32 clients and 8 x 96 concurrent Lua calls per quick run; no DATA RACE report, no worker death, every compared tenant ends as when run alone. The race detector only sees interleavings that happened.",
      E1_NOTE + " Grace periods are 0, so the Expect/wait/Observe path of the grace table is exercised by the history checker only, not by the closed loop; a grace key built without the namespace is therefore outside what the quick tier can see (DESIGN.md §11.3).", "DESIGN.md §4 C19, §11.2")
claim("C20", "E2-drivers", "exploration",
      "runtime monitoring: real ConvertTo/ConvertFrom executed on generated objects, round-trip compared under an independent meaning normal form; panics recovered and reported",
      "Held on N generated objects per run (200k quick / 2M thorough) covering every optional block nil/present in both directions; sampling of an unbounded input language, not a proof.",
      "Trusts the meaning normal form written from the property statement and the generator's reading of the CRD required-lists.",
      "DESIGN.md §4 C20")
