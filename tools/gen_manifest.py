#!/usr/bin/env python3
"""Regenerates /verif/MANIFEST.json from the table below (single source of truth for what is claimed)."""
import json, os, subprocess
V = os.path.dirname(os.path.dirname(os.path.abspath(__file__)))
props = [json.loads(l) for l in open(os.path.join(V, 'properties.jsonl'))]
ids = [p['id'] for p in props]

# property -> (engine, level, technique, level text, level note, design ref)
CLAIMED = {}
def claim(pid, engine, level, technique, text, note, ref):
    CLAIMED[pid] = dict(engine=engine, level=level, technique=technique, text=text, note=note, ref=ref)

exec(open(os.path.join(V, 'tools', 'claims.py')).read())

NOT_BUILT = {}
for i in ids:
    if i not in CLAIMED:
        NOT_BUILT[i] = "check not built yet (planned, see DESIGN.md section 4); not claimed until its monitor exists and is silent on the unchanged tree"

hooks = subprocess.run(['git', '-C', '/repo', 'log', '--format=%H', '--', '*zz_verif_hooks.go'], capture_output=True, text=True).stdout.split()
m = {
    "version": 1,
    "setup_cmd": "./check build",
    "hooks": {
        "guard": "verif",
        "enable": "go build -tags verif (done by ./check: harness module with replace github.com/openkruise/rollouts => /repo)",
        "baseline_off_cmd": "cd /repo && GOFLAGS=-mod=mod GOPROXY=off GOSUMDB=off go test -json -vet=off -count=1 -timeout 25m ./...",
        "source_commits": hooks,
        "add_only": True,
    },
    "engines": [
        {"name": "E2-drivers", "path": "harness/drivers", "serves_properties": sorted(k for k, v in CLAIMED.items() if v['engine'] == 'E2-drivers'),
         "kind_free_text": "real component under generated inputs / operation sequences, judged by an independent reference oracle written from the property statement"},
        {"name": "E1-clustersim", "path": "harness/sim", "serves_properties": sorted(k for k, v in CLAIMED.items() if v['engine'] == 'E1-clustersim'),
         "kind_free_text": "real reconcilers + real webhooks against a simulated API server with write log, online monitors, fault/crash injection"},
        {"name": "E3-sandbox", "path": "harness/drivers", "serves_properties": sorted(k for k, v in CLAIMED.items() if v['engine'] == 'E3-sandbox'),
         "kind_free_text": "Lua sandbox monitor: CPU time, panics, strace syscall log, environment walk"},
        {"name": "E4-history", "path": "harness/drivers", "serves_properties": sorted(k for k, v in CLAIMED.items() if v['engine'] == 'E4-history'),
         "kind_free_text": "race detector + porcupine linearizability check of recorded histories"},
    ],
    "checks": [],
    "notes": "All checks go through ./check <id>, which rebuilds vcheck (-tags verif) from /repo's working tree and runs it with cwd=/repo. Exit 0 held / 1 VIOLATION / 2 INCONCLUSIVE / 3 build failure.",
    "not_applicable": [{"property_id": k, "reason": v} for k, v in sorted(NOT_BUILT.items())],
}
for pid in ids:
    if pid not in CLAIMED:
        continue
    c = CLAIMED[pid]
    m["checks"].append({
        "property_id": pid,
        "quick_cmd": f"./check {pid} --tier quick",
        "thorough_cmd": f"./check {pid} --tier thorough",
        "evidence_file": f"/verif/evidence/{pid}.json",
        "replay_cmd_template": f"./check {pid} --replay {{path}}",
        "engine": c['engine'],
        "level_claimed": {"category": c['level'], "text": c['text'], "design_ref": c['ref']},
        "level_note": c['note'],
        "technique": c['technique'],
    })
m["engines"] = [e for e in m["engines"] if e["serves_properties"]]
json.dump(m, open(os.path.join(V, 'MANIFEST.json'), 'w'), indent=1)
print("claimed:", sorted(CLAIMED), "not claimed:", sorted(NOT_BUILT))
