// Package e1 registers the closed-loop checks (engine E1): real reconcilers + webhooks + watch handlers against simapi,
// judged by the online monitors of package monitor.
package e1

import (
	"crypto/sha1"
	"encoding/hex"
	"fmt"
	"math/rand"
	"os"
	"strings"

	"verif/harness/core"
	"verif/harness/monitor"
	"verif/harness/sim"
	"verif/harness/simapi"
)

func repoDir() string {
	if d := os.Getenv("VERIF_REPO_DIR"); d != "" {
		return d
	}
	return "."
}

var states = []string{"StepUpgrade", "StepTrafficRouting", "StepPaused", "StepReady", "BeforeStepUpgrade", "StepMetricsAnalysis"}

// Families drawn for each property (weights by repetition).
var families = []string{"deployment/canary", "deployment/canary", "deployment/bluegreen", "cloneset/partition", "cloneset/partition", "cloneset/bluegreen", "statefulset/partition", "advstatefulset/partition", "daemonset/partition"}

// ExtraFamilies is appended to by plug-ins that add workload kinds / controllers.
var ExtraFamilies []string

func drawFamily(rng *rand.Rand) string {
	all := append(append([]string{}, families...), ExtraFamilies...)
	if f := os.Getenv("VERIF_FAMILY"); f != "" { // development aid: restrict the closed-loop cases to one family
		rng.Intn(len(all))
		return f
	}
	return all[rng.Intn(len(all))]
}

func distinctFamilies() []string {
	seen := map[string]bool{}
	var out []string
	for _, f := range families {
		if !seen[f] {
			seen[f] = true
			out = append(out, f)
		}
	}
	return out
}

// GenFor draws a scenario with the injected events that matter for prop.
func GenFor(prop string, rng *rand.Rand) *sim.Scenario {
	return genForFamily(prop, rng, drawFamily(rng))
}

// featureFor gives some case indices a fixed scenario feature, so that the rarer scenario families are present in
// every run whatever the seed draws: "" = whatever the generator draws.
func featureFor(prop string, idx int) string {
	in := func(l ...string) bool {
		for _, x := range l {
			if x == prop {
				return true
			}
		}
		return false
	}
	switch {
	case idx%16 == 5 && in("C02", "C01", "C11", "C05", "C07"):
		return "rollback-batches"
	case idx%16 == 9 && in("C05", "C18"):
		return "delete-workload"
	case idx%8 == 3 && in("C11"):
		return "failure-threshold"
	case idx%16 == 13 && in("C10", "C05"):
		return "rollback-annotation-with-traffic"
	case idx%8 == 6 && in("C07"):
		return "spec-grace-zero"
	case idx%16 == 11 && in("C07", "C02", "C11"):
		return "backward-jump"
	case idx%16 == 7 && in("C01"):
		return "scale-down-then-advance"
	case idx%16 == 3 && in("C10"):
		return "exit-at-completed"
	case idx%16 == 1 && in("C11"):
		return "scale-from-zero"
	case idx%16 == 15 && in("C04"):
		return "leftover-canary-service"
	}
	return ""
}

// GenForCase is GenFor with the case's fixed feature (see featureFor).
func GenForCase(prop string, rng *rand.Rand, idx int) *sim.Scenario {
	fam := drawFamily(rng)
	feature := featureFor(prop, idx)
	switch feature {
	case "rollback-batches", "rollback-annotation-with-traffic":
		fam = "cloneset/partition"
	case "backward-jump":
		fam = []string{"deployment/bluegreen", "cloneset/bluegreen", "deployment/bluegreen", "cloneset/partition", "deployment/canary"}[idx/16%5]
	case "scale-down-then-advance":
		fam = []string{"deployment/canary", "deployment/canary", "cloneset/partition", "deployment/bluegreen"}[idx/16%4]
	case "leftover-canary-service":
		fam = []string{"deployment/canary", "cloneset/partition", "deployment/bluegreen", "cloneset/bluegreen"}[idx/16%4]
	case "scale-from-zero":
		fam = []string{"cloneset/partition", "statefulset/partition", "deployment/partition", "advstatefulset/partition", "cloneset/partition", "deployment/canary"}[idx/16%6]
	case "spec-grace-zero":
		if fam == "daemonset/partition" {
			fam = "cloneset/partition" // (a DaemonSet release with traffic routing never ends: recorded finding)
		}
	}
	return genForFamilyF(prop, rng, fam, feature)
}

func genForFamily(prop string, rng *rand.Rand, family string) *sim.Scenario {
	return genForFamilyF(prop, rng, family, "")
}

func genForFamilyF(prop string, rng *rand.Rand, family, feature string) *sim.Scenario {
	s := sim.GenScenario(rng, family)
	if feature == "rollback-batches" || feature == "failure-threshold" {
		s.Provider = "none"
		for i := range s.Steps {
			s.Steps[i].Traffic, s.Steps[i].Match = -1, ""
		}
	}
	if feature == "rollback-annotation-with-traffic" {
		// the annotation asks for a rollback in batches, which only applies without traffic routing: with traffic the
		// rollback must still cancel the release and put traffic back first
		if !s.HasTraffic() {
			s.Provider = []string{"ingress:nginx", "gateway", "custom"}[rng.Intn(3)]
			for i := range s.Steps {
				s.Steps[i].Traffic = 10 + rng.Intn(80)
			}
		}
		s.RollbackInBatch = true
		s.NoCanarySvc = rng.Intn(2) == 0
		s.Events = append(s.Events, sim.Injected{AtStep: 1 + rng.Intn(len(s.Steps)), AtState: states[rng.Intn(len(states))], Action: "rollback", Immediate: rng.Intn(2) == 0})
		return s
	}
	if feature == "backward-jump" {
		// the user sends the release back to an earlier step after a later batch has been finished
		R := int(s.Replicas)
		if R < 4 {
			R = 4
			s.Replicas = 4
		}
		s.Steps = []sim.Step{{Replicas: "1", Traffic: -1, Pause: -1}, {Replicas: fmt.Sprint(R / 2), Traffic: -1, Pause: -1}, {Replicas: fmt.Sprint(R), Traffic: -1, Pause: -1}}
		if s.HasTraffic() {
			s.Steps[0].Traffic, s.Steps[1].Traffic, s.Steps[2].Traffic = 10, 50, 100
		}
		from := 2 + rng.Intn(2)
		s.Events = append(s.Events, sim.Injected{AtStep: from, AtState: []string{"StepPaused", "StepPaused", "StepUpgrade"}[rng.Intn(3)], Action: fmt.Sprintf("jump:%d", 1+rng.Intn(from-1)), Immediate: rng.Intn(2) == 0})
		return s
	}
	if feature == "scale-down-then-advance" {
		// the user shrinks the workload while a step is paused and approves the next step before the workload's status
		// has caught up with the new size
		s.Replicas = int32(8 + rng.Intn(9))
		s.Steps = []sim.Step{{Replicas: "20%", Traffic: -1, Pause: -1}, {Replicas: "50%", Traffic: -1, Pause: -1}, {Replicas: "80%", Traffic: -1, Pause: -1}}
		if s.HasTraffic() {
			s.Steps[0].Traffic, s.Steps[1].Traffic, s.Steps[2].Traffic = 20, 50, 80
		}
		s.ApproveLag = 0
		s.Profile = "ctrl-eager"
		s.Events = append(s.Events, sim.Injected{AtStep: 1 + rng.Intn(2), AtState: "StepPaused", Action: fmt.Sprintf("scale:%d", int(s.Replicas)/2), Immediate: true})
		return s
	}
	if feature == "leftover-canary-service" {
		// a <service>-canary Service of a revision that no longer exists is already there when the release starts
		if !s.HasTraffic() {
			s.Provider = []string{"ingress:nginx", "gateway", "custom"}[rng.Intn(3)]
			for i := range s.Steps {
				s.Steps[i].Traffic = 10 + rng.Intn(80)
			}
		}
		s.LeftoverCanarySvc = true
		if rng.Intn(2) == 0 {
			s.Events = append(s.Events, sim.Injected{AtStep: 1 + rng.Intn(len(s.Steps)), AtState: states[rng.Intn(len(states))], Action: []string{"rollback", "v3", "disable"}[rng.Intn(3)], Immediate: rng.Intn(2) == 0})
		}
		return s
	}
	if feature == "scale-from-zero" {
		// the user scales the workload to zero while a step is paused and back up a little later: the next batch is
		// judged on a workload whose status.replicas is still 0 although its spec asks for pods
		s.Provider = "none"
		s.Replicas = int32(4 + rng.Intn(7))
		s.Steps = []sim.Step{{Replicas: "25%", Traffic: -1, Pause: -1}, {Replicas: "50%", Traffic: -1, Pause: -1}, {Replicas: "100%", Traffic: -1, Pause: -1}}
		s.Events = append(s.Events, sim.Injected{AtStep: 1 + rng.Intn(2), AtState: []string{"StepPaused", "StepUpgrade", "StepPaused"}[rng.Intn(3)], Action: fmt.Sprintf("scale0then:%d", int(s.Replicas)), Immediate: rng.Intn(2) == 0})
		return s
	}
	if feature == "exit-at-completed" {
		// a rollback / new revision that arrives in the reconcile between "last step done" and the start of the cleanup
		s.Events = append(s.Events, sim.Injected{AtStep: len(s.Steps), AtState: "Completed", Action: []string{"rollback", "rollback", "v3"}[rng.Intn(3)], Immediate: true})
		if !s.HasTraffic() {
			s.Provider = []string{"ingress:nginx", "gateway", "custom"}[rng.Intn(3)]
			for i := range s.Steps {
				s.Steps[i].Traffic = 10 + rng.Intn(80)
			}
		}
		return s
	}
	if feature == "spec-grace-zero" {
		// timed mode: the controllers keep their built-in waits (1 s instead of 3 s), the traffic routing entry says
		// gracePeriodSeconds: 0 explicitly, and a non-positive RequeueAfter is dropped as controller-runtime drops it
		if !s.HasTraffic() {
			s.Provider = []string{"ingress:nginx", "gateway", "custom"}[rng.Intn(3)]
			for i := range s.Steps {
				s.Steps[i].Traffic = 10 + rng.Intn(80)
			}
		}
		s.Grace, s.SpecGraceZero = 1, true
	}
	if feature == "failure-threshold" {
		// a degraded release: some new pods never become ready, the plan tolerates a share of them
		// (a larger workload, so that a share of the updated pods and the same share of all pods differ by whole pods)
		s.Replicas = int32(12 + rng.Intn(9))
		s.FailureThreshold = []string{"10%", "20%", "25%", "30%", "1", "2"}[rng.Intn(6)]
		s.UnreadyEvery = 2 + rng.Intn(2)
		return s
	}
	n := len(s.Steps)
	at := func() (int, string) { return 1 + rng.Intn(n), states[rng.Intn(len(states))] }
	add := func(action string) {
		st, state := at()
		s.Events = append(s.Events, sim.Injected{AtStep: st, AtState: state, Action: action, Immediate: rng.Intn(2) == 0})
	}
	exits := []string{"rollback", "delete", "disable", "v3"}
	finTasks := []string{"*", "*", "FinalisingStepRouteTrafficToStable", "FinalisingStepRouteTrafficToNew", "RestoreStableService", "RemoveCanaryService", "ResumeWorkload", "ReleaseWorkloadControl"}
	// a second user action that arrives while a cleanup sequence (success, rollback, supersession) is in flight
	addDuringCleanup := func() {
		s.Events = append(s.Events, sim.Injected{AtFinalising: finTasks[rng.Intn(len(finTasks))], Action: []string{"delete", "disable", "delete", "disable", "v3"}[rng.Intn(5)], Immediate: rng.Intn(2) == 0})
	}
	// forward jumps over at least one step need plans with >= 3 steps: make them common for the gate / traffic properties
	if (prop == "C02" || prop == "C03" || prop == "C01" || prop == "C11") && rng.Intn(4) == 0 {
		for len(s.Steps) < 3 {
			last := s.Steps[len(s.Steps)-1]
			s.Steps = append(s.Steps, sim.Step{Replicas: last.Replicas, Traffic: last.Traffic, Match: "", Pause: -1})
		}
		n = len(s.Steps)
		from := 1 + rng.Intn(n-2)
		s.Events = append(s.Events, sim.Injected{AtStep: from, AtState: []string{"StepPaused", "StepUpgrade", "StepTrafficRouting"}[rng.Intn(3)], Action: fmt.Sprintf("jump:%d", from+2+rng.Intn(n-from-1))})
	}
	// a rollout-id change while a later step is upgrading makes the BatchRelease walk up again from batch 0
	if (prop == "C02" || prop == "C03" || prop == "C11" || prop == "C01") && s.RolloutID && len(s.Steps) >= 2 && rng.Intn(2) == 0 {
		s.Events = append(s.Events, sim.Injected{AtStep: 2 + rng.Intn(len(s.Steps)-1), AtState: []string{"StepUpgrade", "StepUpgrade", "StepPaused"}[rng.Intn(3)], Action: "rolloutid"})
	}
	// operators may raise --partition-percent-limit: partition-style steps whose percentage rounds up to every replica
	// then carry traffic too, which is where the "un-pin the stable Service before the last stable pod goes" rule matters
	if (s.Kind == "cloneset" && s.Style == "partition") && s.HasTraffic() && (prop == "C04" || prop == "C03" || prop == "C10" || prop == "C05" || prop == "C06") && rng.Intn(6) == 0 {
		s.PartitionLimit = 100
		R := int(s.Replicas)
		// smallest percentage that still rounds up to R pods, plus a little
		p := (R-1)*100/R + 1 + rng.Intn(3)
		if p > 99 {
			p = 99
		}
		s.Steps = []sim.Step{
			{Replicas: fmt.Sprintf("%d%%", 10+rng.Intn(30)), Traffic: 10 + rng.Intn(30), Pause: -1},
			{Replicas: fmt.Sprintf("%d%%", p), Traffic: 50 + rng.Intn(45), Pause: -1},
			{Replicas: "100%", Traffic: 100, Pause: -1},
		}
		n = len(s.Steps)
	}
	// disableGenerateCanaryService: no separate canary Service, the routes of the step point to the stable Service itself
	if s.HasTraffic() && (prop == "C05" || prop == "C04" || prop == "C03" || prop == "C07" || prop == "C09" || prop == "C18" || prop == "C10") && rng.Intn(12) == 0 {
		s.NoCanarySvc = true
	}
	// traffic configured in a TrafficRouting custom resource instead of in the Rollout
	if feature == "" && s.HasTraffic() && s.Style != "bluegreen" && (prop == "C18" || prop == "C05" || prop == "C07" || prop == "C09" || prop == "C06" || prop == "C19") && rng.Intn(8) == 0 {
		s.TRCR, s.TRWeight = true, 5+rng.Intn(90)
		for i := range s.Steps {
			s.Steps[i].Traffic, s.Steps[i].Match = -1, ""
		}
		switch rng.Intn(4) {
		case 0:
			add("delete-tr")
		case 1:
			add([]string{"delete", "disable", "rollback"}[rng.Intn(3)])
		}
		return s
	}
	// rollback in batches: the plan is walked a second time towards the old revision (CloneSet, no traffic routing)
	if s.Kind == "cloneset" && s.Style == "partition" && (feature == "rollback-batches" || (feature == "" && (prop == "C02" || prop == "C01" || prop == "C11" || prop == "C05" || prop == "C07" || prop == "C06" || prop == "C19") && rng.Intn(8) == 0)) {
		s.RollbackInBatch = true
		s.Provider = "none"
		for i := range s.Steps {
			s.Steps[i].Traffic, s.Steps[i].Match = -1, ""
		}
		for len(s.Steps) < 3 {
			last := s.Steps[len(s.Steps)-1]
			s.Steps = append(s.Steps, sim.Step{Replicas: last.Replicas, Traffic: -1, Pause: -1})
		}
		n = len(s.Steps)
		s.Events = append(s.Events, sim.Injected{AtStep: 2 + rng.Intn(n-1), AtState: states[rng.Intn(3)], Action: "rollback", Immediate: rng.Intn(2) == 0})
		return s
	}
	// a plan edit in the middle of the release: the current step asks for more pods
	if (prop == "C11" || prop == "C01" || prop == "C02" || prop == "C07" || prop == "C06") && rng.Intn(6) == 0 {
		e := sim.Injected{AtStep: 1 + rng.Intn(n), AtState: []string{"StepPaused", "StepPaused", "StepUpgrade", "StepTrafficRouting"}[rng.Intn(4)], Action: "plan-raise", Immediate: rng.Intn(2) == 0}
		if rng.Intn(2) == 0 {
			// aimed at the hand-over: the BatchRelease has just verified / reported the batch, the Rollout has not consumed it yet
			e.AtState, e.AtBRState, e.Immediate = "StepUpgrade", []string{"Ready", "Ready", "Verifying"}[rng.Intn(3)], true
		}
		s.Events = append(s.Events, e)
	}
	switch prop {
	case "C05", "C18":
		if feature == "delete-workload" || rng.Intn(12) == 0 {
			// the user deletes the workload itself in the middle of the release and (usually) the Rollout afterwards
			st, state := at()
			s.Events = append(s.Events, sim.Injected{AtStep: st, AtState: state, Action: "delete-workload", Immediate: rng.Intn(2) == 0})
			if rng.Intn(4) != 0 {
				s.Events = append(s.Events, sim.Injected{AtStep: st, AtState: state, Action: "delete"})
			}
			return s
		}
		if rng.Intn(5) > 0 {
			add(exits[rng.Intn(len(exits))])
		}
		if rng.Intn(4) == 0 {
			addDuringCleanup()
		}
		if rng.Intn(6) == 0 {
			s.Pre = append(s.Pre, []string{"plan-drop-last", "plan-add-step", "plan-bump"}[rng.Intn(3)])
			if rng.Intn(2) == 0 {
				s.Pre = append(s.Pre, []string{"delete", "disable"}[rng.Intn(2)])
			}
		}
	case "C10":
		// the window right after the cursor moved into a step without traffic, while the previous step's routes are
		// still being withdrawn, is narrow: aim at it in a third of the cases
		aimed := false
		if rng.Intn(3) == 0 {
			for k := 2; k <= n; k++ {
				prev, cur := s.Steps[k-2], s.Steps[k-1]
				if (prev.Traffic >= 0 || prev.Match != "") && cur.Traffic < 0 && cur.Match == "" {
					s.Events = append(s.Events, sim.Injected{AtStep: k, AtState: []string{"BeforeStepUpgrade", "BeforeStepUpgrade", "StepUpgrade"}[rng.Intn(3)], Action: []string{"rollback", "v3", "rollback"}[rng.Intn(3)], Immediate: true})
					aimed = true
					break
				}
			}
		}
		if !aimed {
			add([]string{"rollback", "v3", "rollback"}[rng.Intn(3)])
		}
	case "C02":
		switch rng.Intn(5) {
		case 0:
			add("pause")
		case 1:
			add(fmt.Sprintf("jump:%d", 1+rng.Intn(n)))
		case 2:
			add("restart")
		}
		s.ApproveLag = rng.Intn(12)
	case "C01":
		switch rng.Intn(6) {
		case 0:
			add(fmt.Sprintf("scale:%d", 1+rng.Intn(14)))
		case 1:
			add(fmt.Sprintf("jump:%d", 1+rng.Intn(n)))
		case 2:
			add("pause")
		case 3:
			// continuous release: the old BatchRelease is removed and the plan restarts for v3
			add("v3")
		}
	case "C09":
		// plan edits that validation allows while the Rollout is idle, then a deletion / disabling / release
		if rng.Intn(3) == 0 {
			s.Pre = append(s.Pre, []string{"plan-drop-last", "plan-add-step", "plan-bump"}[rng.Intn(3)])
			if rng.Intn(2) == 0 {
				s.Pre = append(s.Pre, []string{"delete", "disable"}[rng.Intn(2)])
			}
		}
		switch rng.Intn(3) {
		case 0:
			add(fmt.Sprintf("jump:%d", []int{-5, -1, 0, n + 1, n + 5, 99, 2147483647}[rng.Intn(7)]))
		case 1:
			add(fmt.Sprintf("jump:%d", 1+rng.Intn(n)))
		}
	default:
		if rng.Intn(10) == 0 {
			addDuringCleanup()
		}
		switch rng.Intn(8) {
		case 0:
			add(exits[rng.Intn(len(exits))])
		case 1:
			add(fmt.Sprintf("scale:%d", 1+rng.Intn(14)))
		case 2:
			add("pause")
		case 3:
			add(fmt.Sprintf("jump:%d", 1+rng.Intn(n)))
		case 4:
			add("restart")
		}
	}
	return s
}

// RunScenario executes one scenario with monitors attached.
func RunScenario(s *sim.Scenario, faults *sim.FaultPlan, keepTrace bool) (*sim.Run, *monitor.Set, []monitor.Violation, error) {
	return runScenarioOpt(s, faults, keepTrace, nil)
}

func runScenarioOpt(s *sim.Scenario, faults *sim.FaultPlan, keepTrace bool, opt func(*sim.Run)) (*sim.Run, *monitor.Set, []monitor.Violation, error) {
	r, err := sim.NewRun(s, repoDir(), faults)
	if err != nil {
		return nil, nil, nil, err
	}
	r.KeepTrace = keepTrace
	if opt != nil {
		opt(r)
	}
	m := monitor.Attach(r)
	var seqSig []string
	r.W.Store.OnWrite = append(r.W.Store.OnWrite, func(w *simapi.Write, v *simapi.View) {
		if w.Key.Kind != "Pod" {
			seqSig = append(seqSig, w.Actor[:2]+w.Key.Kind[:2]+w.Verb[:1])
		}
	})
	r.Execute()
	vs := m.Finish()
	h := sha1.Sum([]byte(strings.Join(seqSig, "")))
	m.Sets["interleavings"] = map[string]bool{hex.EncodeToString(h[:5]): true}
	return r, m, vs, nil
}

func fill(res *core.CaseResult, prop string, s *sim.Scenario, r *sim.Run, m *monitor.Set, vs []monitor.Violation) {
	for k, n := range m.Counters {
		res.Count(k, n)
	}
	for set, ms := range m.Sets {
		for member := range ms {
			res.AddSet(set, member)
		}
	}
	res.Count("runs", 1)
	res.Count("actions", int64(r.Actions))
	res.Count("store_writes", int64(r.W.Store.Writes()))
	res.Count("client_calls", int64(r.W.Store.Calls()))
	res.Count("events_fired", int64(r.EventsFired))
	for _, c := range r.W.Ctrls {
		res.Count("reconciles_"+c.Name, int64(c.Reconciles))
	}
	if r.Terminal {
		res.Count("runs_terminal", 1)
	}
	if strings.HasPrefix(r.StopReason, "install") {
		res.Count("runs_rejected_by_validation", 1)
		res.AddSet("install_rejections", trunc(r.StopReason, 160))
	} else if strings.HasPrefix(r.StopReason, "setup") {
		res.Inconclusive = r.StopReason
	} else {
		res.AddSig(s.Sig())
	}
	other := 0
	for _, v := range vs {
		if v.Prop == prop {
			res.Violate(v.Fingerprint, v.Msg, v.Detail)
		} else {
			other++
			res.AddSet("other_property_fingerprints_seen", v.Fingerprint)
		}
	}
	res.Count("other_property_violations_seen", int64(other))
}

func trunc(s string, n int) string {
	if len(s) > n {
		return s[:n]
	}
	return s
}

// ClosedLoopCase returns the case runner of the closed-loop engine for prop.
func ClosedLoopCase(prop string) func(env *core.Env, idx int) *core.CaseResult {
	return func(env *core.Env, idx int) *core.CaseResult {
		rng := env.RNG(idx)
		s := GenForCase(prop, rng, idx)
		res := &core.CaseResult{}
		var fp *sim.FaultPlan
		if prop == "C18" && idx%4 == 3 {
			// the teardown sequence of whatever exit the scenario takes (at any phase), with one fault inside it: the k-th
			// controller call after the user's exit action fails (reads included), or the controller crashes right after
			// its k-th write of the teardown
			j := idx / 4
			hasExit := false
			for _, e := range s.Events {
				switch e.Action {
				case "delete", "disable", "rollback", "v3", "delete-workload", "delete-tr":
					hasExit = true
				}
			}
			if !hasExit {
				s.Events = append(s.Events, sim.Injected{AtStep: 1 + rng.Intn(len(s.Steps)), AtState: states[rng.Intn(len(states))], Action: []string{"delete", "delete", "disable", "rollback"}[rng.Intn(4)], Immediate: rng.Intn(2) == 0})
			}
			switch j % 4 {
			case 0:
				fp = &sim.FaultPlan{CrashAfterExitWrite: 1 + (j/4)%30}
			case 1:
				fp = &sim.FaultPlan{FailCallAfterExit: 1 + (j/4)%90, FailKind: []string{"error", "timeout"}[(j/4)%2]}
			default:
				// one call shape of the teardown (who, verb, kind), its n-th occurrence after the exit
				wk := s.WorkloadKey().Kind
				sites := []string{"br-ctrl get " + wk, "br-ctrl patch " + wk, "br-ctrl list Pod", "br-ctrl get Deployment", "br-ctrl update Deployment", "br-ctrl delete Deployment", "br-ctrl update BatchRelease",
					"rollout-ctrl get BatchRelease", "rollout-ctrl delete BatchRelease", "rollout-ctrl patch BatchRelease", "rollout-ctrl get Service", "rollout-ctrl patch Service", "rollout-ctrl delete Service",
					"rollout-ctrl get " + wk, "rollout-ctrl patch " + wk, "rollout-ctrl update Rollout", "rollout-ctrl get Ingress", "rollout-ctrl update Ingress", "rollout-ctrl delete Ingress", "rollout-ctrl get HTTPRoute", "rollout-ctrl update HTTPRoute",
					"rollout-ctrl get ConfigMap", "br-ctrl get " + wk, "br-ctrl get " + wk}
				jj := j / 2
				fp = &sim.FaultPlan{FailSiteAfterExit: sites[jj%len(sites)], FailSiteNth: 1 + (jj/len(sites))%4, FailKind: []string{"error", "timeout"}[jj%2]}
				if jj%3 == 0 {
					// the read every BatchRelease teardown starts from
					fp.FailSiteAfterExit, fp.FailSiteNth = "br-ctrl get "+wk, 1+(jj/3)%6
				}
			}
			res.Count("c18_runs_with_a_teardown_fault", 1)
		} else if prop == "C18" && idx%4 == 1 {
			// finalizer removals under a single write fault: an early exit (the release is left while the BatchRelease is
			// being created / prepared, where the controllers' status lags behind what they already did to the workload)
			// crossed with one failing controller write among the first 40
			j := idx / 4
			fp = &sim.FaultPlan{FailCommit: 1 + j%40, FailKind: []string{"error", "conflict", "lost"}[(j/40)%3]}
			s.Events = []sim.Injected{{AtStep: 1, AtState: []string{"StepUpgrade", "BeforeStepUpgrade", "StepUpgrade", "StepTrafficRouting"}[rng.Intn(4)], Action: []string{"delete", "disable", "rollback", "delete"}[rng.Intn(4)], Immediate: rng.Intn(3) > 0}}
			res.Count("c18_runs_with_a_write_fault", 1)
		}
		r, m, vs, err := RunScenario(s, fp, true)
		if err != nil {
			res.Inconclusive = "engine: " + err.Error()
			return res
		}
		fill(res, prop, s, r, m, vs)
		if idx < 6 {
			res.Sample = map[string]interface{}{"scenario": s, "stop": r.StopReason, "actions": r.Actions, "writes": r.W.Store.Writes(), "userActions": r.UserActions}
		}
		return res
	}
}

// Spec is the exported description of a closed-loop check (used by package compose).
type Spec struct {
	Level, Relevant, Rule string
	Quick, Thorough       int
	Assumptions           []string
}

// Specs by property id.
var Specs = map[string]Spec{}

type spec struct {
	id, level, relevant, rule string
	quick, thorough           int
}

func init() {
	common := "each case is a seed-determined scenario (workload kind x rolling style x traffic provider x replicas x 1-4 step plan mixing ints/percents, weights, matches, pauses x scheduler profile x injected user events at a (step, sub-state)) executed in the closed loop: real Rollout/BatchRelease/TrafficRouting reconcilers, real admission webhooks and real watch handlers against the simulated API server with environment actors; "
	assum := []string{
		"environment actors (Deployment/ReplicaSet/kubelet, CloneSet models), the simulated API server semantics and the re-stated inline watch predicates are trusted",
		"the default grace periods are set to 0 through verif hooks (fast mode); no oracle reads the clock",
		"held on the executions produced, not a proof; paths the scenarios do not drive are not covered",
	}
	specs := []spec{
		{"C01", "exploration", "c01_knob_writes_seen", common + "the monitor evaluates exposure(before/after) with its own interpreter at every controller write to a workload / canary Deployment: raises must stay within the plan of the highest persisted step (percent slack < 1%), and the knob never moves back while the release moves forward. distinct = scenario signature (kind/style/provider/plan shape/events).", 160, 4000},
		{"C02", "exploration", "c02_cursor_changes_checked", common + "a trace automaton over persisted Rollout status: every cursor change by the controller needs (pods ready at StepUpgrade exit, routed report for traffic steps, approval / duration / 100% last step) or a preceding user request; no write while paused. distinct = scenario signature.", 240, 6000},
		{"C03", "exploration", "c03_traffic_raises_checked", common + "at every controller write that raises the canary share / adds a match rule the step's ready new-revision pods are counted; at every StepTrafficRouting exit the configured share per provider equals the step's value. distinct = scenario signature.", 200, 4000},
		{"C04", "exploration", "c04_snapshots_evaluated", common + "after EVERY committed write of every actor (= every crash point) the snapshot is checked: routes to the canary Service imply it exists, pins the new revision and selects pods; a pinned stable Service that still receives traffic has pods. distinct = scenario signature.", 200, 4000},
		{"C05", "exploration", "c05_final_states_checked", common + "exit events (rollback, delete, disable, v3, none) are injected at random (step, sub-state); at quiescence after the terminal state the residue set must be empty, user-owned fields equal the user's configuration and the workload converged. distinct = scenario signature.", 200, 4000},
		{"C07", "exploration", "c07_runs_checked", common + "bounded progress: the terminal state must be reached within 60*(steps+5)*(replicas+6) scheduler actions with every reconcile caused by a recorded wake-up (watch event via the real handlers, Requeue, RequeueAfter, error); a state with nothing enabled that is not terminal is a lost wake-up. distinct = scenario signature.", 200, 4000},
		{"C10", "exploration", "c10_capacity_removals_checked", common + "a rollback or a v3 release is injected at a random (step, sub-state); from the Cancelling / supersession point every write that removes new-revision capacity (BatchRelease deleted / released, canary Deployment scaled or removed, workload handed back) requires route(store) to send nothing to the canary Service. distinct = scenario signature.", 200, 4000},
		{"C11", "exploration", "c11_br_status_writes", common + "at every BatchRelease status write: Ready implies enough updated+ready pods (own count of live pods), currentBatch <= batchPartition, Completed implies released workload, unguarded canary Deployments and (wait policy) all pods updated and ready; with a failureThreshold, Ready tolerates that share of the updated pods being unready (scenarios with pods that never become ready). distinct = scenario signature.", 240, 6000},
		{"C09", "exploration", "runs", common + "accepted Rollouts are reconciled through every phase while documented user-patchable status fields are fuzzed (nextStepIndex in {-5..steps+5, MaxInt32}); every Reconcile, watch handler and webhook Handle runs under recover(): a panic is a violation (controller-runtime 0.14 does not recover reconciler panics). distinct = scenario signature.", 160, 4000},
		{"C18", "fault_enumeration", "c18_finalizer_removals_checked", common + "deletion / exit events at random (step, sub-state); at every write removing a rollout / batch-release / trafficrouting finalizer the cleanup must be complete in that snapshot. Every fourth case crosses an early exit (step 1) with one failing controller write (the k-th store-changing write, k = 1..40, kinds error / conflict / lost response); every fourth case puts one fault inside the teardown sequence of whatever exit it takes (the k-th controller call after the user's exit action fails, reads included, k = 1..90; the n-th call of one shape - who, verb, kind, e.g. the BatchRelease controller's get of the workload - after the exit fails, n = 1..4; or a crash right after the k-th teardown write, k = 1..30): the finalizer clauses must hold under the fault as well. distinct = scenario signature.", 640, 12000},
	}
	for _, sp := range specs {
		sp := sp
		Specs[sp.id] = Spec{Level: sp.level, Relevant: sp.relevant, Rule: sp.rule, Quick: sp.quick, Thorough: sp.thorough, Assumptions: assum}
		if sp.id == "C01" || sp.id == "C07" || sp.id == "C09" {
			continue // composed with component drivers in package compose
		}
		core.Register(&core.Check{
			ID: sp.id, Level: sp.level, Rule: sp.rule, Assumptions: assum, Relevant: sp.relevant, ChunkSize: 1,
			NumCases: func(env *core.Env) int {
				if env.Thorough() {
					return sp.thorough
				}
				return sp.quick
			},
			RunCase: ClosedLoopCase(sp.id),
		})
	}
}
