package monitor

import (
	"fmt"
	"strconv"
	"strings"

	"verif/harness/interp"
	"verif/harness/simapi"
)

// ---- shared helpers ------------------------------------------------------------------------------------

func (s *Set) stepSpec(k int) simapi.Obj {
	steps := s.rolloutSteps()
	if k < 1 || k > len(steps) {
		return nil
	}
	m, _ := steps[k-1].(map[string]interface{})
	return m
}

func stepTraffic(st simapi.Obj) (weight int, hasWeight bool, hasMatch bool) {
	if st == nil {
		return 0, false, false
	}
	if t := simapi.Str(st, "traffic"); t != "" {
		n, err := strconv.Atoi(strings.TrimSuffix(t, "%"))
		if err == nil {
			weight, hasWeight = n, true
		}
	}
	hasMatch = len(simapi.List(st, "matches")) > 0
	return
}

func (s *Set) inRolling() bool {
	return s.phase == "Progressing" && (s.reason == "InRolling" || s.reason == "Paused")
}

func (s *Set) workload(v *simapi.View) simapi.Obj { return v.GetKey(s.S.WorkloadKey()) }

func (s *Set) replicasNow(v *simapi.View) int {
	wl := s.workload(v)
	if wl == nil {
		return 0
	}
	if s.S.Kind == "daemonset" {
		return int(simapi.IntD(wl, "status.desiredNumberScheduled", 0))
	}
	return int(simapi.IntD(wl, "spec.replicas", 1))
}

// newReady counts live ready pods running the image the workload template currently asks for.
func (s *Set) newReady(v *simapi.View) (total, ready int) {
	wl := s.workload(v)
	if wl == nil {
		return 0, 0
	}
	img := workloadImage(wl)
	t, r := s.podsByImage(v)
	return t[img], r[img]
}

func (s *Set) isRealPartitionStyle() bool {
	return !(s.S.Style == "bluegreen" || (s.S.Kind == "deployment" && s.S.Style == "canary"))
}

// ---- C03: traffic follows pods -------------------------------------------------------------------------------

type c03state struct {
	lastShare    int
	lastMatch    bool
	init         bool
	exitReplicas map[int]int // workload size when the step was reported upgraded
	scaledSince  bool        // the user changed the workload size since the current step was reported upgraded
}

func networkKind(k string) bool {
	switch k {
	case "Service", "Ingress", "HTTPRoute", "VirtualService", "DestinationRule":
		return true
	}
	return false
}

func (s *Set) c03(w *simapi.Write, v *simapi.View) {
	if !s.S.HasTraffic() {
		return
	}
	cr := interp.RouteTo(v, s.ns, s.canary)
	if s.canary == s.stable {
		return // disableGenerateCanaryService: no separate canary Service to reason about
	}
	st := &s.st03
	defer func() { st.lastShare, st.lastMatch, st.init = cr.Share, cr.Match, true }()
	if w.Actor == "user" && w.Key == s.S.WorkloadKey() && w.Before != nil && w.After != nil && simapi.IntD(w.Before, "spec.replicas", 1) != simapi.IntD(w.After, "spec.replicas", 1) {
		st.scaledSince = true
	}
	if w.Actor == "user" && w.Key.Kind == "Rollout" && w.Before != nil && w.After != nil && specOf(w.Before) != specOf(w.After) {
		// a plan edit after the step was reported upgraded: which plan "that step's pods" refers to is not fixed by the
		// statement; like a resize, it is not a reason this monitor uses to judge the rule (C02 / C11 follow plan edits)
		st.scaledSince = true
	}
	if !st.init {
		return
	}
	raised := (cr.Share > 0 && cr.Share > st.lastShare) || (cr.Match && !st.lastMatch)
	// (a) a write that starts / raises canary traffic needs the step's pods ready
	if raised && networkKind(w.Key.Kind) && isController(w.Actor) && s.inRolling() {
		s.count("c03_traffic_raises_checked", 1)
		// (C04, judged at the same instant) the rule the controller writes must lead somewhere: the canary Service it
		// points to selects the new revision, i.e. at least one of the live new-revision pods that exist right now
		if svc := v.Get("Service", s.ns, s.canary); svc != nil && interp.Pinned(svc, interp.RevisionKeys...) != "" {
			if tot, _ := s.newReady(v); tot > 0 {
				s.count("c04_route_raise_selection_checks", 1)
				if n, _ := interp.LivePods(v, s.ns, simapi.StrMap(svc, "spec.selector")); n == 0 {
					s.violate("C04", "c04:route-raised-to-canary-service-selecting-no-pod:"+w.Key.Kind, fmt.Sprintf("%s %s raised canary traffic (share %d->%d, match %v->%v) at step %d while the canary Service %s (selector %v) selects none of the %d live new-revision pods",
						w.Actor, w.Key, st.lastShare, cr.Share, st.lastMatch, cr.Match, s.step, s.canary, simapi.StrMap(svc, "spec.selector"), tot), w, nil)
				}
			}
		}
		stp := s.stepSpec(s.step)
		R := s.replicasNow(v)
		// the step's pods were reported ready for the size the workload had then; a scale event after that is
		// followed up by the BatchRelease controller and is not a reason to withhold the rule (reading chosen)
		if r0, ok := st.exitReplicas[s.step]; ok && r0 < R {
			R = r0
		}
		if st.scaledSince {
			// which pods survive a user's scale-down, and how fast a scale-up is followed, is up to the workload
			// controller; the step's pods were reported ready before the resize
			s.count("c03_obs_raises_after_user_scale_or_plan_edit_not_judged", 1)
			return
		}
		need := 0
		if stp != nil {
			need = interp.PlannedFloor(simapi.Path(stp, "replicas"), R, s.S.Kind, s.S.Style)
		}
		_, ready := s.newReady(v)
		s.addSet("c03_raise_sites", fmt.Sprintf("%s/%s/%s", s.S.Provider, w.Key.Kind, s.state))
		if ready < need {
			s.violate("C03", "c03:traffic-before-pods-ready:"+w.Key.Kind, fmt.Sprintf("%s %s raised canary traffic (share %d->%d, match %v->%v) at step %d (%s) while only %d ready new-revision pods exist, step needs %d of %d",
				w.Actor, w.Key, st.lastShare, cr.Share, st.lastMatch, cr.Match, s.step, s.state, ready, need, R), w, nil)
		}
	}
	// (b) leaving StepTrafficRouting: the configured share equals the step's value, for every provider
	if w.Key.Kind == "Rollout" && isController(w.Actor) && strings.HasSuffix(w.Verb, "/status") && w.Before != nil && w.After != nil {
		bs, as := subStatus(w.Before), subStatus(w.After)
		if bs != nil && as != nil && simapi.Str(bs, "currentStepState") == "StepTrafficRouting" && simapi.Str(as, "currentStepState") == "StepMetricsAnalysis" &&
			simapi.IntD(bs, "currentStepIndex", 0) == simapi.IntD(as, "currentStepIndex", 0) {
			k := int(simapi.IntD(as, "currentStepIndex", 0))
			stp := s.stepSpec(k)
			wgt, hasW, hasM := stepTraffic(stp)
			if hasW || hasM {
				s.count("c03_routed_reports_checked", 1)
				s.addSet("c03_routed_kinds", fmt.Sprintf("%s/w=%v/m=%v", s.S.Provider, hasW, hasM))
				if hasW {
					for _, p := range strings.Split(s.S.Provider, "+") {
						kind := map[string]string{"gateway": "HTTPRoute", "custom": "VirtualService"}[p]
						if strings.HasPrefix(p, "ingress") {
							kind = "Ingress"
						}
						got, ok := cr.PerSource[kind]
						if wgt == 0 && !ok {
							continue
						}
						if !ok || got != wgt {
							s.violate("C03", "c03:routed-share-differs-from-step:"+kind, fmt.Sprintf("step %d reported as routed, but %s gives the canary Service share %d (present=%v), step says %d%%", k, kind, got, ok, wgt), w, cr)
						}
					}
				}
				if hasM && !cr.Match {
					s.violate("C03", "c03:routed-without-match-rule", fmt.Sprintf("step %d reported as routed, but no match rule targets the canary Service", k), w, cr)
				}
				if !hasM && cr.Match {
					s.violate("C03", "c03:stale-match-rule-after-routed", fmt.Sprintf("step %d (weight only) reported as routed, but a match rule still targets the canary Service", k), w, cr)
				}
			}
		}
	}
}

// c03FirstExposure is clause (c): when the first step configures traffic, the stable Service is pinned to the stable
// revision before that step's pods are created (= at the first write that raises exposure from 0 in step 1).
func (s *Set) c03FirstExposure(w *simapi.Write, v *simapi.View, R int) {
	if !s.S.HasTraffic() || s.canary == s.stable || s.step != 1 || !s.inRolling() {
		return
	}
	stp := s.stepSpec(1)
	_, hasW, hasM := stepTraffic(stp)
	if !hasW && !hasM {
		return
	}
	// documented exception: a real-partition step that replaces every stable pod restores the stable Service instead
	need, _ := interp.Planned(simapi.Path(stp, "replicas"), R)
	if s.isRealPartitionStyle() && need >= R {
		return
	}
	svc := v.Get("Service", s.ns, s.stable)
	if svc == nil {
		return
	}
	for _, a := range s.R.UserActions {
		if strings.HasPrefix(strings.TrimSpace(a), "scale:") {
			// the decision to pin or (first step replaces every stable pod) to restore was taken for the size the workload
			// had when the step began; a resize in the middle of the step is followed up later
			s.count("c03_obs_first_exposure_after_user_scale_not_judged", 1)
			return
		}
	}
	s.count("c03_first_exposure_pin_checks", 1)
	if interp.Pinned(svc, interp.RevisionKeys...) == "" {
		s.violate("C03", fmt.Sprintf("c03:first-step-pods-created-before-stable-service-pinned:%s/%s", s.S.Kind, s.S.Style), fmt.Sprintf("%s raised the new-revision target of %s for step 1 (which configures traffic) while the stable Service %s is not pinned to the stable revision: %v", w.Actor, w.Key, s.stable, simapi.StrMap(svc, "spec.selector")), w, nil)
	}
}

// ---- C01: exposure bound and monotonicity ---------------------------------------------------------------------

type c01state struct {
	lastExp      int
	lastReplicas int
	init         bool
	epochKey     string
	maxStep      int
	lastKey      string
	epochImg     string // image of the workload template when the current release epoch began
	rebase       bool   // a new epoch began: its first knob write (Initialize) may lower the setting left by the previous one
}

func (s *Set) c01(w *simapi.Write, v *simapi.View) {
	wl := s.workload(v)
	if wl == nil {
		return
	}
	exp, R := interp.Exposure(v, wl, s.S.Kind, s.S.Style)
	st := &s.st01
	defer func() { st.lastExp, st.lastReplicas, st.init = exp, R, true }()
	// epoch = same canary revision & rollout id & rolling
	ss := subStatus(s.ro)
	ek := ""
	if ss != nil && s.inRolling() {
		ek = simapi.Str(s.ro, "status.canaryStatus.canaryRevision") + simapi.Str(s.ro, "status.blueGreenStatus.updatedRevision") + "/" + simapi.Str(ss, "observedRolloutID")
	}
	if ek != st.epochKey {
		if ek != "" {
			if st.lastKey != "" && strings.SplitN(st.lastKey, "/", 2)[0] != strings.SplitN(ek, "/", 2)[0] {
				st.rebase = true // another revision is being released (supersession), not merely another rollout-id
			}
			st.lastKey = ek
			st.epochImg = workloadImage(wl)
		}
		st.epochKey, st.maxStep = ek, 0
	}
	if ek != "" && s.step > st.maxStep {
		st.maxStep = s.step
	}
	if !st.init || !isController(w.Actor) {
		return
	}
	isKnob := w.Key == s.S.WorkloadKey() || (w.Key.Kind == "Deployment" && s.S.Style == "canary")
	if !isKnob || strings.HasSuffix(w.Verb, "/status") {
		return
	}
	s.count("c01_knob_writes_seen", 1)
	// a revision the Rollout has not started to release (published while another release is running or being cleaned
	// up) is held back by the webhook; until the Rollout takes it up no controller may lift that hold
	// (blue-green refuses a second revision outright and its batches are governed by maxSurge, not by the hold)
	if w.Key == s.S.WorkloadKey() && w.Before != nil && w.After != nil && st.epochImg != "" && s.S.Style != "bluegreen" {
		img := workloadImage(w.After)
		if img != st.epochImg && img != s.stableImg && held(w.Before, s.S.Kind) && !held(w.After, s.S.Kind) && s.phase == "Progressing" {
			s.count("c01_hold_lifts_checked", 1)
			s.violate("C01", "c01:hold-lifted-for-unreleased-revision", fmt.Sprintf("%s/%s: %s lifted the hold on %s (%s) while its template is %s, a revision the Rollout has not started to release (the release in progress / being cleaned up is for %s): every pod may move to it at once",
				s.S.Kind, s.S.Style, w.Actor, w.Key, holdStr(w.Before, s.S.Kind), img, st.epochImg), w, nil)
		}
	}
	if s.st10.superseding && s.inRolling() {
		// between two releases (v2 abandoned for v3): the old BatchRelease is being removed; nothing may raise the setting
		// beyond what the abandoned step had reached
		if exp > st.lastExp && R == st.lastReplicas {
			s.count("c01_raises_checked", 1)
			// who did it: the BatchRelease of the superseded release still going on with the new template (it notices
			// the revision change, aborts one round and then carries on), or one that is being finalized / removed
			how := "by-finalizing-batchrelease"
			if br := v.Get("BatchRelease", s.ns, s.S.RolloutName()); br != nil && !simapi.Deleting(br) && simapi.Str(br, "status.phase") == "Progressing" {
				how = "stale-batchrelease-continues-with-new-revision"
			}
			fp := fmt.Sprintf("c01:exposure-raised-during-supersession:%s:%s/%s", how, s.S.Kind, s.S.Style)
			if how == "stale-batchrelease-continues-with-new-revision" {
				fp = "c01:exposure-raised-during-supersession:" + how // one root cause whatever the workload kind
			}
			s.violate("C01", fp, fmt.Sprintf("%s raised the new-revision target of %s from %d to %d pods (replicas %d) while the superseded release is being reset and the new one has not reached any step (%s)",
				w.Actor, w.Key, st.lastExp, exp, R, how), w, nil)
		}
		return
	}
	if !s.inRolling() || ek == "" || s.st10.cancelling {
		return
	}
	if workloadImage(wl) == s.stableImg {
		return // rollback epoch: "new revision" is the old stable one; only the BatchRelease clauses apply (C11)
	}
	if exp > st.lastExp && st.lastExp == 0 {
		s.c03FirstExposure(w, v, R)
	}
	switch {
	case exp > st.lastExp:
		stp := s.stepSpec(st.maxStep)
		if stp == nil {
			return
		}
		planned, pct := interp.Planned(simapi.Path(stp, "replicas"), R)
		if raw, _, ok := interp.Resolve(simapi.Path(stp, "replicas"), R, true); ok && !pct && raw > planned {
			// an int step larger than the workload: the statement bounds the setting by what the step configures
			planned = raw
		}
		s.count("c01_raises_checked", 1)
		s.addSet("c01_raise_sites", fmt.Sprintf("%s/%s/pct=%v", s.S.Kind, s.S.Style, pct))
		over := exp - planned
		bad := over > 0
		if pct && over > 0 && over*100 < R {
			bad = false // documented percent-rounding slack (< 1% of the workload size)
		}
		if bad {
			s.violate("C01", fmt.Sprintf("c01:exposure-exceeds-step:%s/%s", s.S.Kind, s.S.Style), fmt.Sprintf("%s raised the new-revision target of %s from %d to %d pods while the rollout is at step %d which plans %d of %d",
				w.Actor, w.Key, st.lastExp, exp, st.maxStep, planned, R), w, nil)
		}
	case exp < st.lastExp && R == st.lastReplicas && st.rebase:
		// Initialize of the new release
		st.rebase = false
		s.count("c01_epoch_rebases_seen", 1)
	case exp < st.lastExp && R == st.lastReplicas:
		s.count("c01_lowerings_seen", 1)
		s.violate("C01", fmt.Sprintf("c01:knob-moved-back:%s/%s", s.S.Kind, s.S.Style), fmt.Sprintf("%s lowered the new-revision target of %s from %d to %d pods (replicas %d) while the release moves forward (step %d)",
			w.Actor, w.Key, st.lastExp, exp, R, s.step), w, nil)
	}
}

// held reports whether the workload is held back from rolling (the state the webhook puts it in on a template change).
func held(wl simapi.Obj, kind string) bool {
	switch kind {
	case "deployment":
		return simapi.Bool(wl, "spec.paused")
	case "cloneset":
		return simapi.Bool(wl, "spec.updateStrategy.paused") || fmt.Sprint(simapi.Path(wl, "spec.updateStrategy.partition")) == "100%"
	case "statefulset", "advstatefulset":
		p, ok := simapi.Int(wl, "spec.updateStrategy.rollingUpdate.partition")
		return ok && p >= simapi.IntD(wl, "spec.replicas", 1)
	case "daemonset":
		if simapi.Bool(wl, "spec.updateStrategy.rollingUpdate.paused") {
			return true
		}
		p, ok := simapi.Int(wl, "spec.updateStrategy.rollingUpdate.partition")
		return ok && p > 0 && p >= simapi.IntD(wl, "status.desiredNumberScheduled", 0)
	}
	return false
}

func holdStr(wl simapi.Obj, kind string) string {
	if kind == "deployment" {
		return fmt.Sprintf("paused=%v", simapi.Bool(wl, "spec.paused"))
	}
	if kind == "statefulset" || kind == "advstatefulset" {
		return fmt.Sprintf("partition=%v", simapi.Path(wl, "spec.updateStrategy.rollingUpdate.partition"))
	}
	if kind == "daemonset" {
		return fmt.Sprintf("partition=%v paused=%v", simapi.Path(wl, "spec.updateStrategy.rollingUpdate.partition"), simapi.Bool(wl, "spec.updateStrategy.rollingUpdate.paused"))
	}
	return fmt.Sprintf("partition=%v paused=%v", simapi.Path(wl, "spec.updateStrategy.partition"), simapi.Bool(wl, "spec.updateStrategy.paused"))
}

// ---- C11: BatchRelease status means what it says -----------------------------------------------------------------

func (s *Set) c11(w *simapi.Write, v *simapi.View) {
	if w.Key.Kind != "BatchRelease" || w.After == nil || w.Actor != "br-ctrl" || !strings.HasSuffix(w.Verb, "/status") {
		return
	}
	br := w.After
	s.count("c11_br_status_writes", 1)
	phase := simapi.Str(br, "status.phase")
	cur := int(simapi.IntD(br, "status.canaryStatus.currentBatch", 0))
	state := simapi.Str(br, "status.canaryStatus.batchState")
	s.addSet("c11_states", phase+"/"+state)
	if part, ok := simapi.Int(br, "spec.releasePlan.batchPartition"); ok && phase == "Progressing" {
		if cur > int(part) {
			s.violate("C11", "c11:current-batch-beyond-partition", fmt.Sprintf("BatchRelease works on batch %d beyond batchPartition %d", cur, part), w, nil)
		}
	}
	wl := s.workload(v)
	if wl == nil {
		return
	}
	R := s.replicasNow(v)
	enteredReady := w.Before == nil || simapi.Str(w.Before, "status.canaryStatus.batchState") != "Ready" || int(simapi.IntD(w.Before, "status.canaryStatus.currentBatch", 0)) != cur
	if phase != "Progressing" || state != "Ready" {
		s.c11StaleReady = 0
	}
	if phase == "Progressing" && state == "Ready" && R > 0 {
		batches := simapi.List(br, "spec.releasePlan.batches")
		// judged only while the BatchRelease still speaks about the template it was created for (a newer template
		// makes the controller abort / restart the release) and outside a rollback epoch
		if cur < len(batches) && workloadImage(wl) != s.stableImg && workloadImage(wl) == s.bgTarget {
			planned := interp.PlannedFloor(simapi.Path(batches[cur], "canaryReplicas"), R, s.S.Kind, s.S.Style)
			tot, ready := s.newReady(v)
			// "ready ones within the failure threshold": the threshold is a share (or a number) of the updated pods
			tol := 0
			if ft := simapi.Path(br, "spec.releasePlan.failureThreshold"); ft != nil {
				tol, _, _ = interp.Resolve(fmt.Sprint(ft), tot, true)
				s.count("c11_ready_judged_with_failure_threshold", 1)
			}
			unsat := tot < planned || ready+tol < planned || (planned > 0 && ready == 0)
			if !enteredReady && w.Before != nil && simapi.Str(w.Before, "status.observedReleasePlanHash") != simapi.Str(br, "status.observedReleasePlanHash") {
				// the controller acknowledges a changed plan in this very write ("if the plan changes, the state falls
				// back rather than staying Ready"): staying Ready is only right if the new plan is already met
				s.count("c11_ready_across_plan_change_checked", 1)
				if unsat {
					s.violate("C11", "c11:stays-ready-across-plan-change", fmt.Sprintf("batch %d is kept Ready in the write that acknowledges a changed plan, with %d updated / %d ready pods while the new plan calls for %d of %d", cur, tot, ready, planned, R), w, nil)
				}
				return
			}
			if !enteredReady {
				// Ready persisted earlier; after a degrade / scale the controller needs a reconcile to notice. Staying
				// Ready over three consecutive status writes while unsatisfied is "not falling back".
				if unsat {
					s.c11StaleReady++
				} else {
					s.c11StaleReady = 0
				}
				s.count("c11_ready_persistence_checked", 1)
				if s.c11StaleReady >= 3 {
					fp := "c11:stays-ready-while-unsatisfied"
					if cr, ur := simapi.Str(wl, "status.currentRevision"), simapi.Str(wl, "status.updateRevision"); cr != "" && cr == ur {
						// every pod had been updated (the workload reports the update revision as current) when the user
						// resized it: the controller takes the workload for promoted and no longer looks at its size
						fp += ":resized-after-every-pod-was-updated"
					}
					s.violate("C11", fp, fmt.Sprintf("batch %d stays Ready over %d consecutive BatchRelease status writes with %d updated / %d ready pods, plan calls for %d of %d", cur, s.c11StaleReady, tot, ready, planned, R), w, nil)
				}
				return
			}
			s.count("c11_ready_reports_checked", 1)
			if tot < planned {
				s.violate("C11", "c11:ready-without-enough-updated-pods", fmt.Sprintf("batch %d reported Ready with %d updated pods, plan calls for %d of %d", cur, tot, planned, R), w, nil)
			} else if ready+tol < planned {
				s.violate("C11", "c11:ready-without-enough-ready-pods", fmt.Sprintf("batch %d reported Ready with %d ready of %d updated pods (failure threshold %v tolerates %d), plan calls for %d of %d", cur, ready, tot, simapi.Path(br, "spec.releasePlan.failureThreshold"), tol, planned, R), w, nil)
			} else if planned > 0 && ready == 0 {
				s.violate("C11", "c11:ready-with-zero-ready-pods", fmt.Sprintf("batch %d reported Ready with no ready updated pod", cur), w, nil)
			}
		}
	}
	if phase == "Completed" && (w.Before == nil || simapi.Str(w.Before, "status.phase") != "Completed") {
		s.count("c11_completed_reports_checked", 1)
		if simapi.HasAnno(wl, "batchrelease.rollouts.kruise.io/control-info") && !simapi.Deleting(wl) {
			// control-info must be gone unless the release was only paused for continuous release (batchPartition != nil)
			if simapi.Path(br, "spec.releasePlan.batchPartition") == nil {
				s.violate("C11", "c11:completed-while-workload-still-controlled", "BatchRelease reported Completed while the workload still carries the control-info annotation", w, nil)
			}
		}
		for _, d := range v.List("Deployment", s.ns) {
			if simapi.Label(d, "rollouts.kruise.io/canary-deployment") == s.S.Name {
				for _, f := range simapi.Finalizers(d) {
					if f == "finalizer.rollouts.kruise.io/batch-release" {
						s.violate("C11", "c11:completed-while-canary-deployment-guarded", "BatchRelease reported Completed while a canary Deployment still carries the batch-release finalizer", w, nil)
					}
				}
			}
		}
		policy := simapi.Str(br, "spec.releasePlan.finalizingPolicy")
		waits := simapi.Path(br, "spec.releasePlan.batchPartition") == nil && !simapi.Deleting(br) &&
			((s.S.Style == "canary" && s.S.Kind == "deployment" && policy == "WaitResume") || s.S.Style == "bluegreen")
		if waits && R > 0 {
			s.count("c11_completed_wait_checks", 1)
			tot, ready := s.podsByImageOwned(v)
			img := workloadImage(wl)
			old := 0
			for k, n := range ready {
				if k != img {
					old += n
				}
			}
			mu := s.userMaxUnavailable(R)
			// "every pod is updated and ready": no live pod of another revision is left, and of the pods the user asks for
			// at most maxUnavailable are missing or unready (a pod that a recreate-update has deleted and not yet
			// re-created is unavailable, not "not updated" - the reading the controllers' own wait helpers use)
			// (pods that do not exist at this instant - a native rolling update between deleting and re-creating - are
			// not "pods that are not updated": the budget is applied to the pods that exist, as the controllers' helpers do)
			if old > 0 || ready[img] < tot[img]-mu || (R >= 1 && ready[img] < 1) {
				fp := fmt.Sprintf("c11:completed-before-all-updated-and-ready:%s/%s", s.S.Kind, s.S.Style)
				s.violate("C11", fp,
					fmt.Sprintf("BatchRelease reported Completed (policy %q) while pods are: updated %d/%d, ready updated %d, ready old-revision %d (maxUnavailable %d)", policy, tot[img], R, ready[img], old, mu), w, nil)
			}
		}
	}
}

func (s *Set) userMaxUnavailable(R int) int {
	def := "25%"
	if s.S.Kind == "cloneset" {
		def = "20%"
	}
	val := s.S.MaxUnavail
	if val == "" {
		val = def
	}
	n, _, ok := interp.Resolve(val, R, false)
	if !ok {
		return 0
	}
	if s.S.Kind == "cloneset" {
		n, _, _ = interp.Resolve(val, R, true)
	}
	return n
}

// ---- C18: finalizers guard every teardown ---------------------------------------------------------------------------

func hasFinalizer(o simapi.Obj, f string) bool {
	for _, x := range simapi.Finalizers(o) {
		if x == f {
			return true
		}
	}
	return false
}

func (s *Set) c18(w *simapi.Write, v *simapi.View) {
	if w.Before == nil {
		return
	}
	switch w.Key.Kind {
	case "Rollout":
		const f = "rollouts.kruise.io/rollout"
		if hasFinalizer(w.Before, f) && (w.After == nil || !hasFinalizer(w.After, f)) {
			s.count("c18_finalizer_removals_checked", 1)
			s.addSet("c18_removals", "Rollout")
			res := s.residue(v, true)
			if s.S.TRCR {
				// the routes belong to the TrafficRouting resource, which has its own finalizer and cleans up after the
				// Rollout has let go of it; only what the Rollout itself configured is its to clean
				var own []string
				for _, r := range res {
					if !strings.HasPrefix(r, "canary-ingress") && !strings.HasPrefix(r, "route-references-canary") && !strings.HasPrefix(r, "httproute-") && !strings.HasPrefix(r, "custom-object") {
						own = append(own, r)
					}
				}
				res = own
			}
			if len(res) > 0 {
				// the recorded "no live BatchRelease when the exit arrived" family (see C05) shows here too: the cleanup
				// has nobody to delegate to and is reported done
				cls := ""
				switch {
				case !s.brCreatedSinceRelease:
					cls = "before-batchrelease-created"
				case s.brAtExit == "none" || s.brAtExit == "deleting":
					cls = "while-batchrelease-being-removed"
				}
				if s.workload(v) == nil {
					// recorded family: the user deleted the workload in the middle of the release, the Rollout reset its
					// status to Initial and has forgotten what it had configured
					s.violate("C18", "c18:rollout-finalizer-removed-after-workload-deleted", fmt.Sprintf("%s removed the Rollout finalizer after the workload had been deleted mid-release, while cleanup is incomplete: %v", w.Actor, res), w, res)
				} else if cls != "" {
					s.violate("C18", "c18:rollout-finalizer-removed-when-no-live-batchrelease:"+cls, fmt.Sprintf("%s removed the Rollout finalizer while cleanup is incomplete (%s): %v", w.Actor, cls, res), w, res)
				} else {
					s.violate("C18", "c18:rollout-finalizer-removed-before-cleanup:"+firstWord(res[0]), fmt.Sprintf("%s removed the Rollout finalizer while cleanup is incomplete: %v", w.Actor, res), w, res)
				}
			}
		}
	case "BatchRelease":
		const f = "rollouts.kruise.io/batch-release-finalizer"
		if hasFinalizer(w.Before, f) && (w.After == nil || !hasFinalizer(w.After, f)) {
			s.count("c18_finalizer_removals_checked", 1)
			s.addSet("c18_removals", "BatchRelease")
			wl := s.workload(v)
			if wl != nil && simapi.HasAnno(wl, "batchrelease.rollouts.kruise.io/control-info") && strings.Contains(simapi.Anno(wl, "batchrelease.rollouts.kruise.io/control-info"), simapi.UID(w.Before)) {
				s.violate("C18", "c18:batchrelease-finalizer-removed-while-workload-controlled", fmt.Sprintf("%s removed the BatchRelease finalizer while the workload is still marked as controlled by it", w.Actor), w, nil)
			}
			for _, d := range v.List("Deployment", s.ns) {
				if simapi.ControllerOwnerUID(d) == simapi.UID(w.Before) && hasFinalizer(d, "finalizer.rollouts.kruise.io/batch-release") {
					s.violate("C18", "c18:batchrelease-finalizer-removed-while-canary-guarded", fmt.Sprintf("%s removed the BatchRelease finalizer while canary Deployment %s still carries its finalizer", w.Actor, simapi.Name(d)), w, nil)
				}
			}
		}
	case "TrafficRouting":
		const f = "rollouts.kruise.io/trafficrouting"
		// remember what the user's routing looked like before the custom resource started to route
		if w.After != nil && !hasProgressingFinalizer(w.Before) && hasProgressingFinalizer(w.After) && s.prev != nil {
			s.trOrigRoutes = jsonStr(interp.Routes(s.prev, s.ns))
		}
		if hasFinalizer(w.Before, f) && (w.After == nil || !hasFinalizer(w.After, f)) {
			s.count("c18_finalizer_removals_checked", 1)
			s.addSet("c18_removals", "TrafficRouting")
			cr := interp.RouteTo(v, s.ns, s.canary)
			if s.canary != s.stable && (cr.Share > 0 || cr.Match || v.Get("Service", s.ns, s.canary) != nil) {
				s.violate("C18", "c18:trafficrouting-finalizer-removed-before-cleanup", fmt.Sprintf("%s removed the TrafficRouting finalizer while canary routing is still configured (share=%d match=%v canarySvc=%v)", w.Actor, cr.Share, cr.Match, v.Get("Service", s.ns, s.canary) != nil), w, nil)
			}
			if s.S.TRCR && s.trOrigRoutes != "" {
				// the resource routes to the stable Service itself (no canary Service): "cleanup complete" = the user's
				// routing is back to what it was
				if now := jsonStr(interp.Routes(v, s.ns)); now != s.trOrigRoutes {
					s.violate("C18", "c18:trafficrouting-finalizer-removed-before-routes-restored:"+providerKind(s.S.Provider), fmt.Sprintf("%s removed the TrafficRouting finalizer while the gateway resources still carry its routing: %s (before it started: %s)", w.Actor, now, s.trOrigRoutes), w, nil)
				}
			}
		}
	}
}

// c18Final is the converse clause: once cleanup is complete the finalizer is removed, so that deletion is not blocked
// for ever. Judged when the run has reached its terminal state and the cluster has gone quiet: an object of this rollout
// (Rollout, BatchRelease, TrafficRouting) that is still terminating then will stay so - nothing is enabled any more.
func (s *Set) c18Final() {
	r := s.R
	if !r.Terminal || !r.Quiescent {
		return
	}
	v := r.W.Store.Snapshot()
	for _, k := range []simapi.Key{
		{Group: "rollouts.kruise.io", Kind: "Rollout", NS: s.ns, Name: s.S.RolloutName()},
		{Group: "rollouts.kruise.io", Kind: "BatchRelease", NS: s.ns, Name: s.S.RolloutName()},
		{Group: "rollouts.kruise.io", Kind: "TrafficRouting", NS: s.ns, Name: s.S.TRName()},
	} {
		o := v.GetKey(k)
		if o == nil || !simapi.Deleting(o) {
			continue
		}
		s.count("c18_terminating_objects_at_quiescence", 1)
		s.violate("C18", "c18:deletion-blocked-at-quiescence:"+k.Kind, fmt.Sprintf("%s %s/%s is still terminating (finalizers %v) after the run reached its terminal state and the cluster went quiet: nobody is left to remove the finalizer", k.Kind, k.NS, k.Name, simapi.Finalizers(o)), nil, s.Projection(v))
	}
}

func hasProgressingFinalizer(o simapi.Obj) bool {
	if o == nil {
		return false
	}
	for _, f := range simapi.Finalizers(o) {
		if strings.HasPrefix(f, "progressing.rollouts.kruise.io") {
			return true
		}
	}
	return false
}

func firstWord(s string) string {
	if i := strings.IndexAny(s, " :"); i > 0 {
		return s[:i]
	}
	return s
}

// residue lists what the rollout created or marked and is still there. ownerLinkedOK: objects that only the garbage
// collector removes are tolerated when they are owner-linked to something that is gone / going.
func (s *Set) residue(v *simapi.View, ownerLinkedOK bool) []string {
	var out []string
	roUID := ""
	if s.ro != nil {
		roUID = simapi.UID(s.ro)
	}
	gcWill := func(o simapi.Obj) bool {
		if !ownerLinkedOK {
			return false
		}
		for _, u := range simapi.OwnerUIDs(o) {
			if u == roUID {
				return true
			}
			// owned by an object that itself is gone
			found := false
			for _, k := range v.Keys() {
				if simapi.UID(v.GetKey(k)) == u {
					found = true
					if gcOwnerGone(v, v.GetKey(k), roUID) {
						return true
					}
				}
			}
			if !found {
				return true
			}
		}
		return false
	}
	if s.canary != s.stable {
		if c := v.Get("Service", s.ns, s.canary); c != nil && !gcWill(c) {
			out = append(out, "canary-service exists")
		}
	}
	for _, ing := range v.List("Ingress", s.ns) {
		if strings.HasSuffix(simapi.Name(ing), "-canary") && !gcWill(ing) {
			out = append(out, "canary-ingress exists: "+simapi.Name(ing))
		}
	}
	for _, d := range v.List("Deployment", s.ns) {
		if simapi.Label(d, "rollouts.kruise.io/canary-deployment") != "" && !gcWill(d) {
			out = append(out, "canary-deployment exists: "+simapi.Name(d))
		}
	}
	brGuarded := false
	if br := v.Get("BatchRelease", s.ns, s.S.RolloutName()); br != nil {
		if !gcWill(br) {
			out = append(out, "batchrelease exists")
		} else if hasFinalizer(br, "rollouts.kruise.io/batch-release-finalizer") {
			// the garbage collector cannot finish this one: the BatchRelease controller still has to run its own teardown
			// (the Rollout controller itself waits for the object to be gone before it reports the last task done)
			brGuarded = true
		}
	}
	if wl := s.workload(v); wl != nil {
		for _, a := range []string{"rollouts.kruise.io/in-progressing", "batchrelease.rollouts.kruise.io/control-info", "rollouts.kruise.io/deployment-strategy", "rollouts.kruise.io/original-deployment-strategy", "rollouts.kruise.io/deployment-extra-status"} {
			if simapi.HasAnno(wl, a) {
				out = append(out, "workload-annotation "+a)
			}
		}
		if simapi.Label(wl, "rollouts.kruise.io/controlled-by-advanced-deployment-controller") != "" {
			out = append(out, "workload-label advanced-deployment-control")
		}
	}
	if svc := v.Get("Service", s.ns, s.stable); svc != nil {
		if pin := interp.Pinned(svc, interp.RevisionKeys...); pin != "" {
			out = append(out, "stable-service pinned to "+pin)
		}
	}
	cr := interp.RouteTo(v, s.ns, s.canary)
	if s.canary != s.stable && (cr.Share >= 0 || cr.Match) {
		// any reference to the canary service in gateway resources that GC will not remove
		for _, src := range cr.Sources {
			if strings.HasPrefix(src, "Ingress/") {
				continue // counted above as canary-ingress
			}
			out = append(out, "route-references-canary "+src)
		}
	}
	for _, rt := range v.List("HTTPRoute", s.ns) {
		for _, rule := range simapi.List(rt, "spec.rules") {
			for _, ref := range simapi.List(rule, "backendRefs") {
				if simapi.Str(ref, "name") == s.canary && s.canary != s.stable {
					out = append(out, "httproute-canary-backendref")
				}
			}
		}
	}
	for _, vs := range v.List("VirtualService", s.ns) {
		if simapi.HasAnno(vs, "rollouts.kruise.io/original-spec-configuration") {
			out = append(out, "custom-object original-spec-configuration annotation")
		}
	}
	if brGuarded {
		out = append(out, "batchrelease-still-guarded by its own finalizer")
	}
	return out
}

func gcOwnerGone(v *simapi.View, owner simapi.Obj, roUID string) bool {
	for _, u := range simapi.OwnerUIDs(owner) {
		if u == roUID {
			return true
		}
		// the owner's own owner (the Rollout) is already gone from the API
		found := false
		for _, k := range v.Keys() {
			if simapi.UID(v.GetKey(k)) == u {
				found = true
				break
			}
		}
		if !found {
			return true
		}
	}
	return simapi.Deleting(owner)
}
