package c16lua

// (e) return shapes through the real caller. The children execute a copy of what executeLuaForCanary does with the
// interpreter state after RunLuaScript; that copy cannot see a change of the caller itself. This case hands scripts with
// every shape of return value (none, nil, scalars, functions, coroutines, several values, self-referencing tables,
// tables with throwing metamethods, error() with non-string values) to the real customNetworkProvider through its
// public API (NewCustomController / Initialize / EnsureRoutes on a fake client whose ConfigMap carries the script):
// whatever the script returns, the provider answers with a result or an error for this one object, never with a panic.

import (
	"context"
	"fmt"
	"sort"

	"github.com/openkruise/rollouts/api/v1beta1"
	custom "github.com/openkruise/rollouts/pkg/trafficrouting/network/customNetworkProvider"
	corev1 "k8s.io/api/core/v1"
	metav1 "k8s.io/apimachinery/pkg/apis/meta/v1"
	"k8s.io/apimachinery/pkg/apis/meta/v1/unstructured"
	"k8s.io/apimachinery/pkg/runtime"
	clientgoscheme "k8s.io/client-go/kubernetes/scheme"
	"k8s.io/utils/pointer"
	"sigs.k8s.io/controller-runtime/pkg/client/fake"

	"verif/harness/core"
)

var providerScheme = func() *runtime.Scheme {
	s := runtime.NewScheme()
	_ = clientgoscheme.AddToScheme(s)
	return s
}()

// returnShapes: what a script may hand back. Values are combined into one-, two- and three-value returns.
func returnShapeScripts() map[string]string {
	vals := map[string]string{
		"nil": "nil", "false": "false", "true": "true", "int": "42", "float": "1.5", "string": `"reason"`, "emptystr": `""`,
		"function": "function() end", "gofunction": "tostring", "coroutine": "coroutine.create(function() end)",
		"table": "{}", "obj": "obj", "list": "{1,2,3}", "nested": "{a={b={c=1}}}",
		"throwing-index": `setmetatable({}, {__index=function() error("boom") end})`,
		"throwing-tostring": `setmetatable({}, {__tostring=function() error("boom") end})`,
		"nan": "0/0", "inf": "1/0", "hugestr": `("x"):rep(100000)`,
	}
	out := map[string]string{
		"no-return":        "local x = 1",
		"empty-return":     "return",
		"error-nil":        "error(nil)",
		"error-table":      "error({code=1})",
		"error-function":   "error(function() end)",
		"error-false":      "error(false)",
		"self-ref":         "local t = {} t.self = t return t",
		"obj-cleared":      "obj = nil return obj",
		"annotations-only": "return {annotations = 1}",
		"data-as-scalar":   "return {data = 1, annotations = 'x', labels = false}",
		"spec-as-function": "return {spec = function() end}",
	}
	for n1, v1 := range vals {
		out["one:"+n1] = "return " + v1
		for _, n2 := range []string{"nil", "false", "int", "string", "function", "table", "coroutine", "throwing-tostring"} {
			out["two:"+n1+","+n2] = "return " + v1 + ", " + vals[n2]
		}
	}
	for _, n1 := range []string{"nil", "table", "obj", "string"} {
		for _, n2 := range []string{"nil", "string", "false"} {
			for _, n3 := range []string{"nil", "table", "function"} {
				out["three:"+n1+","+n2+","+n3] = "return " + vals[n1] + ", " + vals[n2] + ", " + vals[n3]
			}
		}
	}
	return out
}

func runProviderCase(res *core.CaseResult) {
	const ns, kind, group = "ns1", "Widget", "example.com"
	scripts := returnShapeScripts()
	names := make([]string, 0, len(scripts))
	for n := range scripts {
		names = append(names, n)
	}
	sort.Strings(names)
	for _, name := range names {
		script := scripts[name]
		inner := fake.NewClientBuilder().WithScheme(providerScheme).Build()
		ctx := context.TODO()
		cm := &corev1.ConfigMap{ObjectMeta: metav1.ObjectMeta{Namespace: "kruise-rollout", Name: "kruise-rollout-configuration"},
			Data: map[string]string{"lua.traffic.routing." + kind + "." + group: script}}
		u := &unstructured.Unstructured{Object: map[string]interface{}{
			"apiVersion": group + "/v1", "kind": kind,
			"metadata": map[string]interface{}{"namespace": ns, "name": "w1"},
			"spec":     map[string]interface{}{"host": "svc-stable", "weight": int64(100)},
		}}
		if err := inner.Create(ctx, cm); err != nil {
			res.Inconclusive = "harness: " + err.Error()
			return
		}
		if err := inner.Create(ctx, u); err != nil {
			res.Inconclusive = "harness: " + err.Error()
			return
		}
		prov, err := custom.NewCustomController(inner, custom.Config{Key: "rollout-demo", RolloutNs: ns, CanaryService: "svc-canary", StableService: "svc-stable",
			TrafficConf: []v1beta1.ObjectRef{{APIVersion: group + "/v1", Kind: kind, Name: "w1"}}})
		if err != nil {
			res.Inconclusive = "harness: NewCustomController: " + err.Error()
			return
		}
		detail := map[string]interface{}{"category": "provider-return-shape", "name": name, "script": script}
		var ierr error
		if pi := core.Try(func() { ierr = prov.Initialize(ctx) }); pi != nil {
			detail["stack"] = pi.Stack
			res.Violate("c16:panic:provider:Initialize:"+pi.Site+":"+core.NormPanic(pi.Value), "the custom provider's Initialize panicked on a script's return value: "+pi.Value, detail)
			continue
		}
		if ierr != nil {
			res.Count("provider_initialize_errors", 1)
			continue
		}
		step := &v1beta1.TrafficRoutingStrategy{Traffic: pointer.String("20%")}
		var eerr error
		var done bool
		pi := core.Try(func() { done, eerr = prov.EnsureRoutes(ctx, step) })
		res.Count("scripts_run", 1)
		res.Count("provider_scripts_run", 1)
		switch {
		case pi != nil:
			detail["stack"] = pi.Stack
			res.Violate("c16:panic:provider:EnsureRoutes:"+pi.Site+":"+core.NormPanic(pi.Value), "the custom provider's EnsureRoutes panicked on a script's return value: "+pi.Value, detail)
			res.AddSig("provider|" + name + "|panic")
		case eerr != nil:
			res.Count("provider_results_error", 1)
			res.AddSig("provider|" + name + "|error")
		default:
			res.Count("provider_results_ok", 1)
			res.AddSig(fmt.Sprintf("provider|%s|ok|%v", name, done))
		}
	}
}
