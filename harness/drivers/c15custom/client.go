package c15custom

// Write-recording interposer around the controller-runtime fake client. An "effective" write is one
// after which the stored object (modulo metadata.resourceVersion) differs from what was stored before.

import (
	"bytes"
	"context"
	"encoding/json"

	"k8s.io/apimachinery/pkg/apis/meta/v1/unstructured"
	"k8s.io/apimachinery/pkg/runtime"
	"sigs.k8s.io/controller-runtime/pkg/client"
	"sigs.k8s.io/controller-runtime/pkg/client/apiutil"
)

type writeRec struct {
	Verb      string `json:"verb"`
	Kind      string `json:"kind"`
	Name      string `json:"name"`
	Effective bool   `json:"effective"`
	Err       string `json:"err,omitempty"`
}

type recClient struct {
	client.Client
	scheme *runtime.Scheme
	log    []writeRec
	// pruneNulls models an API server that drops null-valued fields of a custom resource on write (structural
	// CRD schema, non-nullable fields). Used only for an observation, never for a verdict.
	pruneNulls bool
}

func dropNulls(v interface{}) interface{} {
	switch t := v.(type) {
	case map[string]interface{}:
		for k, x := range t {
			if x == nil {
				delete(t, k)
			} else {
				t[k] = dropNulls(x)
			}
		}
	case []interface{}:
		for i, x := range t {
			t[i] = dropNulls(x)
		}
	}
	return v
}

func (r *recClient) reset() { r.log = nil }

func (r *recClient) effective() int {
	n := 0
	for _, w := range r.log {
		if w.Effective {
			n++
		}
	}
	return n
}

// stored returns the JSON of the stored object without resourceVersion ("" when absent).
func (r *recClient) stored(obj client.Object) (string, string) {
	gvk, err := apiutil.GVKForObject(obj, r.scheme)
	if err != nil {
		return "", "?"
	}
	u := &unstructured.Unstructured{}
	u.SetGroupVersionKind(gvk)
	if err := r.Client.Get(context.TODO(), client.ObjectKeyFromObject(obj), u); err != nil {
		return "", gvk.Kind
	}
	unstructured.RemoveNestedField(u.Object, "metadata", "resourceVersion")
	b, _ := json.Marshal(u.Object)
	return string(b), gvk.Kind
}

func (r *recClient) record(verb string, obj client.Object, fn func() error) error {
	before, kind := r.stored(obj)
	name := obj.GetName()
	err := fn()
	after, _ := r.stored(obj)
	w := writeRec{Verb: verb, Kind: kind, Name: name, Effective: !bytes.Equal([]byte(before), []byte(after))}
	if err != nil {
		w.Err = err.Error()
	}
	r.log = append(r.log, w)
	return err
}

func (r *recClient) Create(ctx context.Context, obj client.Object, opts ...client.CreateOption) error {
	return r.record("create", obj, func() error { return r.Client.Create(ctx, obj, opts...) })
}
func (r *recClient) Update(ctx context.Context, obj client.Object, opts ...client.UpdateOption) error {
	if u, ok := obj.(*unstructured.Unstructured); ok && r.pruneNulls {
		if sp, has := u.Object["spec"]; has && sp != nil {
			u.Object["spec"] = dropNulls(sp)
		}
	}
	return r.record("update", obj, func() error { return r.Client.Update(ctx, obj, opts...) })
}
func (r *recClient) Patch(ctx context.Context, obj client.Object, patch client.Patch, opts ...client.PatchOption) error {
	return r.record("patch", obj, func() error { return r.Client.Patch(ctx, obj, patch, opts...) })
}
func (r *recClient) Delete(ctx context.Context, obj client.Object, opts ...client.DeleteOption) error {
	return r.record("delete", obj, func() error { return r.Client.Delete(ctx, obj, opts...) })
}
func (r *recClient) DeleteAllOf(ctx context.Context, obj client.Object, opts ...client.DeleteAllOfOption) error {
	return r.record("deleteallof", obj, func() error { return r.Client.DeleteAllOf(ctx, obj, opts...) })
}
