package c08webhook

// C08 — No unsupervised release: admission pauses every relevant change.
//
// Monitor: real admission.Request objects (UPDATE, raw old/new JSON) are sent to the real handlers
// mutating.WorkloadHandler.Handle / mutating.UnifiedWorkloadHandler.Handle built over a controller-runtime
// fake client that holds the MutatingWebhookConfiguration, the Rollouts of the namespace and the
// ReplicaSets. The response is completed the way the webhook server does, its JSON patch is applied to
// the submitted JSON with the library the API server uses, and the admitted object is judged by the
// decision table in oracle.go (class + frame condition). A panic, a denial, or a patch that does not
// apply is a violation for a legal request.

import (
	"context"
	"encoding/json"
	"fmt"
	"strings"

	jsonpatch "github.com/evanphx/json-patch"
	kruisev1alpha1 "github.com/openkruise/kruise-api/apps/v1alpha1"
	kruisev1beta1 "github.com/openkruise/kruise-api/apps/v1beta1"
	rolloutapi "github.com/openkruise/rollouts/api"
	"github.com/openkruise/rollouts/pkg/util"
	"github.com/openkruise/rollouts/pkg/webhook/workload/mutating"
	admissionv1 "k8s.io/api/admission/v1"
	admregv1 "k8s.io/api/admissionregistration/v1"
	authenticationv1 "k8s.io/api/authentication/v1"
	metav1 "k8s.io/apimachinery/pkg/apis/meta/v1"
	"k8s.io/apimachinery/pkg/runtime"
	clientgoscheme "k8s.io/client-go/kubernetes/scheme"
	"sigs.k8s.io/controller-runtime/pkg/client"
	"sigs.k8s.io/controller-runtime/pkg/client/fake"
	"sigs.k8s.io/controller-runtime/pkg/webhook/admission"

	"verif/harness/core"
	"verif/harness/gen"
)

type nf = gen.NF

var (
	scheme  = runtime.NewScheme()
	decoder *admission.Decoder
)

func init() {
	_ = clientgoscheme.AddToScheme(scheme)
	_ = kruisev1alpha1.AddToScheme(scheme)
	_ = kruisev1beta1.AddToScheme(scheme)
	_ = rolloutapi.AddToScheme(scheme)
	_ = admregv1.AddToScheme(scheme)
	decoder, _ = admission.NewDecoder(scheme)

	core.Register(&core.Check{
		ID:    "C08",
		Level: "exploration",
		Rule: "a case is (kind, stored object, submitted object, Rollouts of the namespace, ReplicaSets): kind cycles over Deployment / CloneSet / Advanced DaemonSet / apps/v1 StatefulSet / " +
			"Advanced StatefulSet; the stored object is raw JSON with labels / annotations absent, {} or filled, strategy / updateStrategy / rollingUpdate blocks absent or present, replicas absent / 0 / >0, " +
			"rollout-id as annotation and/or label, an in-progress mark (this Rollout, another, RolloutDone, not JSON), partition / paused already set, Deployment partition-style / blue-green annotations, status counters (replicas, updated, updatedReady, ready, available, revisions) drawn independently of each other; " +
			"the submitted object is the stored one after 1-3 edits (annotation, nil<->empty map, label, selector label removed/added, image, env, template label/annotation, pod-template-hash only, " +
			"rollout-id annotation / label set-change-remove, scale, scale to 0, un-pause, pause, strategy / partition edit, mark removed); 0-3 v1beta1 Rollouts (referencing the workload exactly, by another " +
			"version of the group, other name / kind / group / namespace; deleting; spec.disabled x phase Disabled; empty / canary / partition / blue-green strategy; with or without traffic routing); for Deployments " +
			"0-3 ReplicaSets (owned or not, spec.replicas 0 or >0, status replicas / ready / available independent of spec, deleting). Objects selected by neither old nor new labels are counted and not sent (the API server would not call the webhook). " +
			"Every request is a real admission.Request handled by the real handler; Deployment / CloneSet / DaemonSet requests are also shown to the unified handler, which must not touch them. " +
			"Non-trivial = the request reached a handler and the admitted object was judged; distinct = distinct (kind, expected class+reason, edit set, Rollout-set shape).",
		Assumptions: []string{
			"rollout-id is read from metadata.annotations (the reading under which the handlers implement the statement); when a rollout-id LABEL is present and the label reading gives a different answer the case is recorded (observation O1, set o1_label_rollout_id) and only its frame condition is judged",
			"release change: new annotation rollout-id non-empty => it differs from the old one (a template change under an unchanged rollout-id is NOT a release change: handler comment + unit test 'rolloutId no change, and podTemplateSpec change'); no rollout-id => pod template differs after removing the pod-template-hash label, where absent == null == {} == []; rollout-id removed with unchanged template is undetermined",
			"active Rollout: same namespace, workloadRef group+kind+name name the workload, no deletionTimestamp, not disabled (spec.disabled=false and phase!=Disabled), non-empty strategy (a Rollout without canary/blueGreen cannot supervise anything; validation refuses it). spec.disabled and phase=Disabled disagreeing, a workloadRef of another version of the same group, and an empty-strategy Rollout next to an active one are undetermined",
			"running replicas: spec.replicas absent counts as 1 (Kubernetes default; the handler unit tests hold such objects); spec.replicas=0 with a release change is undetermined (the statement neither obliges nor forbids a hold); DaemonSet: status.desiredNumberScheduled>0, 0 is undetermined",
			"single revision: Deployment = exactly one owned, non-deleting ReplicaSet with spec.replicas>0 (none at all: undetermined; under traffic routing a ReplicaSet scaled to 0 that still reports pods makes it undetermined); CloneSet = status.updatedReplicas==status.replicas — readiness / availability counters do not matter (under traffic routing, pod counts disagreeing with currentRevision/updateRevision is undetermined). All status counters are generated independently of each other. With traffic routing and several revisions Deployment / CloneSet must be admitted unchanged; for DaemonSet / StatefulSet the handlers hold anyway (the safe direction) — recorded as undetermined, counter obs_tr_multi_revision_held",
			"OnDelete DaemonSets / StatefulSets (the native controller never updates pods) are undetermined as to the class; a panic / denial is still a violation",
			"Deployment carrying the in-progress mark (partition = deployment-strategy annotation rollingStyle Partition; blue-green = original-deployment-strategy annotation present; else canary): canary- or partition-style whose mark names an active Rollout must come out with spec.paused=true (class re-paused when submitted un-paused). A NEW release change on top of the running release is judged by the statement's first sentence when the mark names an active Rollout, replicas!=0, an active ReplicaSet exists and not (traffic routing and several revisions): partition style -> held = spec.paused=true AND \"paused\":true inside the admitted deployment-strategy annotation (the knob the partition-style deployment controller obeys; spec.paused is always true there), blue-green -> held = spec.paused=true, canary -> spec.paused=true (already required); the mark must keep naming that Rollout. Otherwise (mark names no active Rollout, zero replicas, traffic routing with several revisions) the case is undetermined",
			"held: Deployment spec.paused=true; CloneSet partition >= replicas (100% or int); DaemonSet rollingUpdate.partition >= max(desiredNumberScheduled,1); StatefulSet rollingUpdate.partition >= replicas with type RollingUpdate/absent; and the in-progress annotation is JSON whose rolloutName is an active referencing Rollout",
			"frame (JSON pointer leaves, absent == null == {} == []): held -> the hold knob of the kind (/spec/paused | /spec/updateStrategy/partition | /spec/updateStrategy/rollingUpdate/partition, for StatefulSets also /spec/updateStrategy/type absent->RollingUpdate), /metadata/annotations/rollouts.kruise.io~1in-progressing, for Deployments /metadata/labels/rollouts.kruise.io~1stable-revision; re-paused and held-while-in-progress -> /spec/paused plus /spec/strategy/** and /metadata/annotations/rollouts.kruise.io~1deployment-strategy; unchanged -> nothing, except /spec/strategy/** and the deployment-strategy annotation for a Deployment carrying the mark (documented: strategy type is kept Recreate / not changed to Recreate during a release); undetermined -> union of the above",
			"request shape: dryRun=false is always present (the API server always sets it); status of old and new are identical (spec updates cannot change status); the MutatingWebhookConfiguration in the store mirrors config/webhook/manifests.yaml + patch_manifests.yaml",
		},
		NumCases: func(env *core.Env) int {
			if env.Thorough() {
				return 500000
			}
			return 20000
		},
		ChunkSize: 500,
		Relevant:  "held",
		RunCase:   c08Case,
	})
}

func webhookConfig() *admregv1.MutatingWebhookConfiguration {
	exists := metav1.LabelSelectorRequirement{Key: keySelector, Operator: metav1.LabelSelectorOpExists}
	rule := func(groups, versions, resources []string, ops ...admregv1.OperationType) []admregv1.RuleWithOperations {
		return []admregv1.RuleWithOperations{{Operations: ops, Rule: admregv1.Rule{APIGroups: groups, APIVersions: versions, Resources: resources}}}
	}
	sel := func(extra ...metav1.LabelSelectorRequirement) *metav1.LabelSelector {
		return &metav1.LabelSelector{MatchExpressions: append(extra, exists)}
	}
	return &admregv1.MutatingWebhookConfiguration{
		ObjectMeta: metav1.ObjectMeta{Name: webhookConfigObj},
		Webhooks: []admregv1.MutatingWebhook{
			{Name: "mcloneset.kb.io", Rules: rule([]string{"apps.kruise.io"}, []string{"v1alpha1"}, []string{"clonesets"}, admregv1.Update), ObjectSelector: sel()},
			{Name: "mdaemonset.kb.io", Rules: rule([]string{"apps.kruise.io"}, []string{"v1alpha1"}, []string{"daemonsets"}, admregv1.Update), ObjectSelector: sel()},
			{Name: "mdeployment.kb.io", Rules: rule([]string{"apps"}, []string{"v1"}, []string{"deployments"}, admregv1.Update),
				ObjectSelector: sel(metav1.LabelSelectorRequirement{Key: keyControlPlane, Operator: metav1.LabelSelectorOpNotIn, Values: []string{"controller-manager"}})},
			{Name: "munifiedworload.kb.io", Rules: rule([]string{"*"}, []string{"*"}, []string{"*"}, admregv1.Create, admregv1.Update), ObjectSelector: sel()},
		},
	}
}

func buildRequest(k kindInfo, oldRaw, newRaw []byte) admission.Request {
	dry := false
	gvk := metav1.GroupVersionKind{Group: k.Group, Version: k.Version, Kind: k.Kind}
	gvr := metav1.GroupVersionResource{Group: k.Group, Version: k.Version, Resource: k.Resource}
	return admission.Request{AdmissionRequest: admissionv1.AdmissionRequest{
		UID: "c08-request", Kind: gvk, Resource: gvr, RequestKind: &gvk, RequestResource: &gvr,
		Name: wlName, Namespace: wlNS, Operation: admissionv1.Update,
		UserInfo:  authenticationv1.UserInfo{Username: "kubernetes-admin", Groups: []string{"system:masters", "system:authenticated"}},
		Object:    runtime.RawExtension{Raw: newRaw},
		OldObject: runtime.RawExtension{Raw: oldRaw},
		DryRun:    &dry,
		Options:   runtime.RawExtension{Raw: []byte(`{"kind":"UpdateOptions","apiVersion":"meta.k8s.io/v1"}`)},
	}}
}

// admit completes the response like the webhook server and applies the patch like the API server.
func admit(resp admission.Response, req admission.Request, newRaw []byte) (admitted []byte, problem string) {
	if err := resp.Complete(req); err != nil {
		return nil, "response cannot be completed: " + err.Error()
	}
	if !resp.Allowed {
		msg := ""
		if resp.Result != nil {
			msg = resp.Result.Message
		}
		return nil, "denied: " + msg
	}
	if len(resp.Patch) == 0 {
		return newRaw, ""
	}
	if resp.PatchType == nil || *resp.PatchType != admissionv1.PatchTypeJSONPatch {
		return nil, "patch without patchType JSONPatch"
	}
	p, err := jsonpatch.DecodePatch(resp.Patch)
	if err != nil {
		return nil, "patch does not decode: " + err.Error()
	}
	out, err := p.Apply(newRaw)
	if err != nil {
		return nil, "patch does not apply to the submitted object: " + err.Error()
	}
	return out, ""
}

func problemClass(p string) string {
	if i := strings.Index(p, ":"); i > 0 {
		return strings.ReplaceAll(p[:i], " ", "-")
	}
	return strings.ReplaceAll(p, " ", "-")
}

func c08Case(env *core.Env, idx int) *core.CaseResult {
	rng := env.RNG(idx)
	res := &core.CaseResult{}
	in := genCase(rng, idx)
	tag := in.K.Tag

	selNew, selOld := isSelected(in.K, in.New), isSelected(in.K, in.Old)
	if !selNew && !selOld {
		res.Count("not_selected", 1)
		res.Count("not_selected_"+tag, 1)
		return res
	}
	oldRaw, _ := json.Marshal(in.Old)
	newRaw, _ := json.Marshal(in.New)
	exp := decide(in)

	objs := []client.Object{webhookConfig()}
	for _, r := range in.Rollouts {
		objs = append(objs, r.build())
	}
	for _, rs := range in.RSs {
		objs = append(objs, rs.build(sub(in.Old, "spec", "template")))
	}
	cl := fake.NewClientBuilder().WithScheme(scheme).WithObjects(objs...).Build()
	req := buildRequest(in.K, oldRaw, newRaw)
	var handler admission.Handler
	if in.K.Unified {
		handler = &mutating.UnifiedWorkloadHandler{Client: cl, Decoder: decoder, Finder: util.NewControllerFinder(cl)}
	} else {
		handler = &mutating.WorkloadHandler{Client: cl, Decoder: decoder, Finder: util.NewControllerFinder(cl)}
	}

	detail := func(extra nf) nf {
		d := nf{"kind": in.K.APIVersion + " " + in.K.Kind, "edits": in.Edits, "old": json.RawMessage(oldRaw), "new": json.RawMessage(newRaw),
			"rollouts": in.Rollouts, "replicaSets": in.RSs, "expected": exp}
		for k, v := range extra {
			d[k] = v
		}
		return d
	}

	res.Count("requests", 1)
	res.Count("requests_"+tag, 1)
	res.Count(exp.Class, 1)
	res.Count(exp.Class+"_"+tag, 1)
	if exp.Class == clsUndetermined {
		res.Count("undetermined:"+exp.Reason, 1)
	}
	if exp.Class == clsHeld {
		res.Count("held:"+exp.Reason, 1)
	}

	undef := undefaulted(in.K, in.New)
	if undef == "" {
		undef = undefaulted(in.K, in.Old)
	}
	if undef != "" {
		res.Count("requests_undefaulted_shape", 1)
	}
	var resp admission.Response
	if pi := core.Try(func() { resp = handler.Handle(context.TODO(), req) }); pi != nil {
		res.Count("handler_panics", 1)
		if undef != "" { // not a shape the API server hands over: recorded, not judged
			res.Count("obs_undefaulted_input_problems", 1)
			res.AddSet("obs_undefaulted_input_problems", tag+": "+undef+" -> panic in "+pi.Site)
			return res
		}
		res.Violate("c08:panic:"+pi.Site+":"+core.NormPanic(pi.Value), tag+": handler panicked on a legal UPDATE request: "+pi.Value, detail(nf{"stack": pi.Stack}))
		return res
	}
	admRaw, problem := admit(resp, req, newRaw)
	if problem != "" {
		res.Count("malformed_responses", 1)
		if undef != "" {
			res.Count("obs_undefaulted_input_problems", 1)
			res.AddSet("obs_undefaulted_input_problems", tag+": "+undef+" -> "+problemClass(problem))
			return res
		}
		res.Violate("c08:response:"+tag+":"+problemClass(problem), tag+": "+problem, detail(nf{"patch": json.RawMessage(orNull(resp.Patch))}))
		return res
	}
	var submitted, admitted obj
	_ = json.Unmarshal(newRaw, &submitted)
	if err := json.Unmarshal(admRaw, &admitted); err != nil {
		res.Violate("c08:response:"+tag+":admitted-not-json", tag+": admitted object is not JSON: "+err.Error(), detail(nil))
		return res
	}
	observed, diffs, verdicts := judge(in, exp, submitted, admitted)
	res.Count("frame_checks", 1)
	res.Count("observed_"+observed+"_"+tag, 1)
	for _, v := range verdicts {
		res.Violate(v.fp, v.msg, detail(nf{"patch": json.RawMessage(orNull(resp.Patch)), "admitted": json.RawMessage(admRaw), "changedPaths": diffs, "observed": observed}))
	}
	if exp.O1 != "" {
		res.Count("o1_label_rollout_id_cases", 1)
		res.AddSet("o1_label_rollout_id", fmt.Sprintf("%s: %s -> handler: %s", tag, exp.O1, observed))
	}
	if strings.HasPrefix(exp.Reason, "traffic-routing-multi-revision-") && observed == clsHeld {
		res.Count("obs_tr_multi_revision_held", 1)
	}
	if exp.Class == clsUndetermined {
		res.AddSet("undetermined_outcomes", tag+":"+exp.Reason+" -> "+observed)
	}

	// the unified webhook (rule '*') is called for these kinds too and must leave them alone
	if !in.K.Unified {
		u := &mutating.UnifiedWorkloadHandler{Client: cl, Decoder: decoder, Finder: util.NewControllerFinder(cl)}
		var r2 admission.Response
		if pi := core.Try(func() { r2 = u.Handle(context.TODO(), req) }); pi != nil {
			res.Violate("c08:panic:"+pi.Site+":"+core.NormPanic(pi.Value), tag+": unified handler panicked: "+pi.Value, detail(nf{"stack": pi.Stack}))
		} else if !r2.Allowed || len(r2.Patches) > 0 || len(r2.Patch) > 0 {
			res.Violate("c08:unified-touched:"+tag, tag+": unified handler denied or patched a kind it does not own", detail(nf{"patches": r2.Patches}))
		}
		res.Count("unified_passthrough_checks", 1)
	}

	res.AddSig(fmt.Sprintf("%s|%s:%s|%s|%s", tag, exp.Class, exp.Reason, in.editSig(), exp.Shape))
	if idx < 8 {
		res.Sample = detail(nf{"patch": json.RawMessage(orNull(resp.Patch)), "observed": observed, "changedPaths": diffs})
	}
	return res
}

func orNull(b []byte) []byte {
	if len(b) == 0 {
		return []byte("null")
	}
	return b
}
