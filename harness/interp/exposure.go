package interp

import (
	"encoding/json"
	"math"
	"strconv"
	"strings"

	"verif/harness/simapi"
)

// Ceil-resolve an int-or-percent value against total (own implementation).
func Resolve(v interface{}, total int, roundUp bool) (n int, isPercent bool, ok bool) {
	switch x := v.(type) {
	case nil:
		return 0, false, false
	case float64:
		return int(x), false, true
	case int:
		return x, false, true
	case int64:
		return int(x), false, true
	case string:
		if strings.HasSuffix(x, "%") {
			p, err := strconv.Atoi(strings.TrimSuffix(x, "%"))
			if err != nil {
				return 0, true, false
			}
			f := float64(p) * float64(total) / 100
			if roundUp {
				return int(math.Ceil(f - 1e-9)), true, true
			}
			return int(math.Floor(f + 1e-9)), true, true
		}
		n, err := strconv.Atoi(x)
		if err != nil {
			return 0, false, false
		}
		return n, false, true
	}
	return 0, false, false
}

// Planned is the number of new-revision pods a step (replicas value "3" / "30%") calls for at workload size total.
func Planned(stepReplicas interface{}, total int) (n int, isPercent bool) {
	n, isPercent, ok := Resolve(stepReplicas, total, true)
	if !ok {
		return 0, isPercent
	}
	if n > total {
		n = total
	}
	if n < 0 {
		n = 0
	}
	return n, isPercent
}

const MaxReadySeconds = 1<<31 - 2

// Exposure is how many pods the workload objects currently ask to be on the new revision.
// kind: deployment|cloneset|statefulset|advstatefulset|daemonset ; style: canary|partition|bluegreen.
// For canary style the canary Deployments of workload name are summed (v is needed for that).
func Exposure(v *simapi.View, wl simapi.Obj, kind, style string) (exp int, replicas int) {
	if wl == nil {
		return 0, 0
	}
	replicas = int(simapi.IntD(wl, "spec.replicas", 1))
	switch kind {
	case "deployment":
		switch style {
		case "canary":
			img := func(o simapi.Obj) string {
				if cs := simapi.List(o, "spec.template.spec.containers"); len(cs) > 0 {
					return simapi.Str(cs[0], "image")
				}
				return ""
			}
			for _, d := range v.List("Deployment", simapi.NS(wl)) {
				// only canary Deployments of the revision the workload now asks for: the one of a superseded release is
				// capacity on its way out (it lingers until the garbage collector gets to it), not exposure of the new revision
				if simapi.Label(d, "rollouts.kruise.io/canary-deployment") == simapi.Name(wl) && !simapi.Deleting(d) && img(d) == img(wl) {
					exp += int(simapi.IntD(d, "spec.replicas", 1))
				}
			}
			// a stable Deployment that is not paused while its template differs from its only ReplicaSet rolls natively;
			// that is the hand-back after the release and not an exposure knob of the controllers.
			return exp, replicas
		case "partition":
			raw := simapi.Anno(wl, "rollouts.kruise.io/deployment-strategy")
			if raw == "" {
				if simapi.Bool(wl, "spec.paused") {
					return 0, replicas
				}
				return replicas, replicas
			}
			var st map[string]interface{}
			if json.Unmarshal([]byte(raw), &st) != nil {
				return 0, replicas
			}
			if b, _ := st["paused"].(bool); b {
				return 0, replicas // the advanced controller does not move pods while paused (best effort reading)
			}
			n, pct, ok := Resolve(st["partition"], replicas, true)
			if !ok {
				n = 0
			}
			if n > replicas {
				n = replicas
			}
			if pct && replicas > 1 && st["partition"] != "100%" && n > replicas-1 {
				n = replicas - 1
			}
			if n < 0 {
				n = 0
			}
			return n, replicas
		case "bluegreen":
			if simapi.Bool(wl, "spec.paused") {
				return 0, replicas
			}
			if simapi.IntD(wl, "spec.minReadySeconds", 0) < MaxReadySeconds {
				return replicas, replicas // not held back by the blue-green mechanism: native rolling update
			}
			n, _, ok := Resolve(simapi.Path(wl, "spec.strategy.rollingUpdate.maxSurge"), replicas, true)
			if !ok {
				n = 0
			}
			return n, replicas
		}
	case "cloneset":
		if simapi.Bool(wl, "spec.updateStrategy.paused") {
			return 0, replicas
		}
		part, _, ok := Resolve(simapi.Path(wl, "spec.updateStrategy.partition"), replicas, true)
		if !ok {
			part = 0
		}
		if part > replicas {
			part = replicas
		}
		if style == "bluegreen" && simapi.IntD(wl, "spec.minReadySeconds", 0) >= MaxReadySeconds {
			if part >= replicas {
				return 0, replicas
			}
			n, _, ok := Resolve(simapi.Path(wl, "spec.updateStrategy.maxSurge"), replicas, true)
			if !ok {
				n = 0
			}
			return n, replicas
		}
		return replicas - part, replicas
	case "statefulset", "advstatefulset":
		part := int(simapi.IntD(wl, "spec.updateStrategy.rollingUpdate.partition", 0))
		if simapi.Str(wl, "spec.updateStrategy.type") == "OnDelete" {
			return 0, replicas
		}
		if simapi.Bool(wl, "spec.updateStrategy.rollingUpdate.paused") {
			return 0, replicas
		}
		if part > replicas {
			part = replicas
		}
		return replicas - part, replicas
	case "daemonset":
		replicas = int(simapi.IntD(wl, "status.desiredNumberScheduled", 0))
		if simapi.Bool(wl, "spec.updateStrategy.rollingUpdate.paused") {
			return 0, replicas
		}
		part := int(simapi.IntD(wl, "spec.updateStrategy.rollingUpdate.partition", 0))
		if part > replicas {
			part = replicas
		}
		return replicas - part, replicas
	}
	return 0, replicas
}

// PlannedFloor is the smallest number of new-revision pods a step can be read to call for: Deployments released
// in partition or blue-green style go through the advanced-deployment rounding, which keeps at least one old pod for
// any percentage below 100% (deployment_util.NewRSReplicasLimit). Readiness-type oracles use this lower reading so
// that they never demand more than the code can legitimately mean; exposure bounds use Planned.
func PlannedFloor(stepReplicas interface{}, total int, kind, style string) int {
	n, pct := Planned(stepReplicas, total)
	if pct && kind == "deployment" && (style == "partition" || style == "bluegreen") && total > 1 && stepReplicas != "100%" && n > total-1 {
		n = total - 1
	}
	return n
}
