// Package gen holds small generator and comparison helpers shared by the drivers.
package gen

import (
	"encoding/json"
	"math/rand"
	"reflect"
	"sort"
)

// NF is a JSON-like normal form.
type NF = map[string]interface{}

func Pick(rng *rand.Rand, xs ...string) string { return xs[rng.Intn(len(xs))] }
func Chance(rng *rand.Rand, pct int) bool      { return rng.Intn(100) < pct }
func I32p(v int32) *int32                      { return &v }
func Strp(s string) *string                    { return &s }

// Canon round-trips a value through JSON so that typed and untyped values compare equal.
func Canon(v interface{}) interface{} {
	b, err := json.Marshal(v)
	if err != nil {
		return v
	}
	var out interface{}
	_ = json.Unmarshal(b, &out)
	return out
}

func JSONOf(v interface{}) json.RawMessage {
	b, _ := json.Marshal(v)
	return b
}

// FirstDiff returns the path of the first difference between two JSON-like values ("" if equal).
func FirstDiff(path string, a, b interface{}) string {
	a, b = Canon(a), Canon(b)
	if reflect.DeepEqual(a, b) {
		return ""
	}
	am, aok := a.(map[string]interface{})
	bm, bok := b.(map[string]interface{})
	if aok && bok {
		keys := map[string]bool{}
		for k := range am {
			keys[k] = true
		}
		for k := range bm {
			keys[k] = true
		}
		var ks []string
		for k := range keys {
			ks = append(ks, k)
		}
		sort.Strings(ks)
		for _, k := range ks {
			if d := FirstDiff(path+"."+k, am[k], bm[k]); d != "" {
				return d
			}
		}
		return path
	}
	as, aok := a.([]interface{})
	bs, bok := b.([]interface{})
	if aok && bok {
		if len(as) != len(bs) {
			return path + "[len]"
		}
		for i := range as {
			if d := FirstDiff(path+"[]", as[i], bs[i]); d != "" {
				return d
			}
		}
		return path
	}
	return path
}
