package c17advdeploy

// Reusable piece: the REAL advanced-deployment reconciler of /repo (pkg/controller/deployment) built over
// any controller-runtime client.Client.
//
//   r, refresh := c17advdeploy.NewRealReconciler(c)
//   ... before every r.Reconcile(ctx, req): refresh()   // re-lists Deployments/ReplicaSets into the listers
//
// * the typed clientset the controller writes through (AppsV1().Deployments/ReplicaSets:
//   Create/Update/UpdateStatus/Delete/Get/List/Patch) is routed into c, so c stays the single source of truth;
// * the Deployment/ReplicaSet listers are informer-style indexers that refresh() replaces with what c lists;
// * c must contain the MutatingWebhookConfiguration returned by ProtectionWebhookConfig(), otherwise
//   ReconcileDeployment.mutatingProtectionInvalid switches the Deployment to RollingUpdate and returns.

import (
	"context"
	"fmt"

	admissionregistrationv1 "k8s.io/api/admissionregistration/v1"
	apps "k8s.io/api/apps/v1"
	autoscalingv1 "k8s.io/api/autoscaling/v1"
	apierrors "k8s.io/apimachinery/pkg/api/errors"
	metav1 "k8s.io/apimachinery/pkg/apis/meta/v1"
	"k8s.io/apimachinery/pkg/fields"
	"k8s.io/apimachinery/pkg/labels"
	"k8s.io/apimachinery/pkg/runtime"
	"k8s.io/apimachinery/pkg/runtime/schema"
	"k8s.io/apimachinery/pkg/types"
	"k8s.io/apimachinery/pkg/watch"
	appsac "k8s.io/client-go/applyconfigurations/apps/v1"
	autoscalingac "k8s.io/client-go/applyconfigurations/autoscaling/v1"
	"k8s.io/client-go/kubernetes"
	k8sfake "k8s.io/client-go/kubernetes/fake"
	appsclient "k8s.io/client-go/kubernetes/typed/apps/v1"
	appslisters "k8s.io/client-go/listers/apps/v1"
	"k8s.io/client-go/tools/cache"
	"k8s.io/client-go/tools/record"
	"sigs.k8s.io/controller-runtime/pkg/client"
	"sigs.k8s.io/controller-runtime/pkg/reconcile"

	"github.com/openkruise/rollouts/pkg/controller/deployment"
	"github.com/openkruise/rollouts/pkg/webhook/util/configuration"
)

// NewRealReconciler builds the real ReconcileDeployment (hook constructor NewVerifReconciler) over c.
// The returned function refreshes the listers from c; call it before every Reconcile (it plays the informer).
func NewRealReconciler(c client.Client) (reconcile.Reconciler, func() error) {
	return NewRealReconcilerWithRecorder(c, DiscardRecorder{})
}

// NewRealReconcilerWithRecorder is NewRealReconciler with a caller-supplied event recorder.
func NewRealReconcilerWithRecorder(c client.Client, rec record.EventRecorder) (reconcile.Reconciler, func() error) {
	idx := func() cache.Indexer {
		return cache.NewIndexer(cache.MetaNamespaceKeyFunc, cache.Indexers{cache.NamespaceIndex: cache.MetaNamespaceIndexFunc})
	}
	dIdx, rsIdx := idx(), idx()
	refresh := func() error {
		dl := &apps.DeploymentList{}
		if err := c.List(context.TODO(), dl); err != nil {
			return err
		}
		rl := &apps.ReplicaSetList{}
		if err := c.List(context.TODO(), rl); err != nil {
			return err
		}
		ds := make([]interface{}, 0, len(dl.Items))
		for i := range dl.Items {
			ds = append(ds, &dl.Items[i])
		}
		rs := make([]interface{}, 0, len(rl.Items))
		for i := range rl.Items {
			rs = append(rs, &rl.Items[i])
		}
		if err := dIdx.Replace(ds, ""); err != nil {
			return err
		}
		return rsIdx.Replace(rs, "")
	}
	r := deployment.NewVerifReconciler(c, NewAdapterClientset(c), appslisters.NewDeploymentLister(dIdx), appslisters.NewReplicaSetLister(rsIdx), rec)
	return r, refresh
}

// ProtectionWebhookConfig is the object whose presence makes mutatingProtectionInvalid() report "valid".
func ProtectionWebhookConfig() *admissionregistrationv1.MutatingWebhookConfiguration {
	return &admissionregistrationv1.MutatingWebhookConfiguration{ObjectMeta: metav1.ObjectMeta{Name: configuration.MutatingWebhookConfigurationName}}
}

// DiscardRecorder is a record.EventRecorder that drops events (record.FakeRecorder blocks when its channel is full).
type DiscardRecorder struct{}

func (DiscardRecorder) Event(runtime.Object, string, string, string)                  {}
func (DiscardRecorder) Eventf(runtime.Object, string, string, string, ...interface{}) {}
func (DiscardRecorder) AnnotatedEventf(runtime.Object, map[string]string, string, string, string, ...interface{}) {
}

// ---- adapter clientset ---------------------------------------------------------------------------

// AdapterClientset is a kubernetes.Interface whose AppsV1().Deployments / ReplicaSets go to a client.Client.
// Every other group is an (empty) client-go fake clientset: the advanced deployment controller never uses them.
type AdapterClientset struct {
	kubernetes.Interface
	c client.Client
}

func NewAdapterClientset(c client.Client) *AdapterClientset {
	return &AdapterClientset{Interface: k8sfake.NewSimpleClientset(), c: c}
}

func (a *AdapterClientset) AppsV1() appsclient.AppsV1Interface {
	return &adapterApps{AppsV1Interface: a.Interface.AppsV1(), c: a.c}
}

type adapterApps struct {
	appsclient.AppsV1Interface
	c client.Client
}

func (a *adapterApps) Deployments(ns string) appsclient.DeploymentInterface {
	return &adapterDeployments{c: a.c, ns: ns}
}
func (a *adapterApps) ReplicaSets(ns string) appsclient.ReplicaSetInterface {
	return &adapterReplicaSets{c: a.c, ns: ns}
}

func unsupported(resource, verb string) error {
	return apierrors.NewMethodNotSupported(schema.GroupResource{Group: "apps", Resource: resource}, verb+" (not routed by the verification adapter clientset)")
}

func listOpts(ns string, o metav1.ListOptions) ([]client.ListOption, error) {
	out := []client.ListOption{client.InNamespace(ns)}
	if o.LabelSelector != "" {
		sel, err := labels.Parse(o.LabelSelector)
		if err != nil {
			return nil, apierrors.NewBadRequest(err.Error())
		}
		out = append(out, client.MatchingLabelsSelector{Selector: sel})
	}
	if o.FieldSelector != "" {
		sel, err := fields.ParseSelector(o.FieldSelector)
		if err != nil {
			return nil, apierrors.NewBadRequest(err.Error())
		}
		out = append(out, client.MatchingFieldsSelector{Selector: sel})
	}
	if o.Limit > 0 {
		out = append(out, client.Limit(o.Limit))
	}
	return out, nil
}

func deleteOpts(o metav1.DeleteOptions) []client.DeleteOption {
	return []client.DeleteOption{&client.DeleteOptions{GracePeriodSeconds: o.GracePeriodSeconds, Preconditions: o.Preconditions, PropagationPolicy: o.PropagationPolicy, DryRun: o.DryRun}}
}

func patchTo(ctx context.Context, c client.Client, obj client.Object, pt types.PatchType, data []byte, subresources []string) error {
	p := client.RawPatch(pt, data)
	switch len(subresources) {
	case 0:
		return c.Patch(ctx, obj, p)
	case 1:
		if subresources[0] == "status" {
			return c.Status().Patch(ctx, obj, p)
		}
		return c.SubResource(subresources[0]).Patch(ctx, obj, p)
	}
	return apierrors.NewBadRequest(fmt.Sprintf("unsupported subresources %v", subresources))
}

// ---- Deployments ---------------------------------------------------------------------------------

type adapterDeployments struct {
	c  client.Client
	ns string
}

var _ appsclient.DeploymentInterface = &adapterDeployments{}

func (a *adapterDeployments) Create(ctx context.Context, d *apps.Deployment, _ metav1.CreateOptions) (*apps.Deployment, error) {
	o := d.DeepCopy()
	if o.Namespace == "" {
		o.Namespace = a.ns
	}
	if err := a.c.Create(ctx, o); err != nil {
		return nil, err
	}
	return o, nil
}
func (a *adapterDeployments) Update(ctx context.Context, d *apps.Deployment, _ metav1.UpdateOptions) (*apps.Deployment, error) {
	o := d.DeepCopy()
	if o.Namespace == "" {
		o.Namespace = a.ns
	}
	if err := a.c.Update(ctx, o); err != nil {
		return nil, err
	}
	return o, nil
}
func (a *adapterDeployments) UpdateStatus(ctx context.Context, d *apps.Deployment, _ metav1.UpdateOptions) (*apps.Deployment, error) {
	o := d.DeepCopy()
	if o.Namespace == "" {
		o.Namespace = a.ns
	}
	if err := a.c.Status().Update(ctx, o); err != nil {
		return nil, err
	}
	return o, nil
}
func (a *adapterDeployments) Delete(ctx context.Context, name string, opts metav1.DeleteOptions) error {
	return a.c.Delete(ctx, &apps.Deployment{ObjectMeta: metav1.ObjectMeta{Namespace: a.ns, Name: name}}, deleteOpts(opts)...)
}
func (a *adapterDeployments) DeleteCollection(context.Context, metav1.DeleteOptions, metav1.ListOptions) error {
	return unsupported("deployments", "deletecollection")
}
func (a *adapterDeployments) Get(ctx context.Context, name string, _ metav1.GetOptions) (*apps.Deployment, error) {
	o := &apps.Deployment{}
	if err := a.c.Get(ctx, types.NamespacedName{Namespace: a.ns, Name: name}, o); err != nil {
		return nil, err
	}
	return o, nil
}
func (a *adapterDeployments) List(ctx context.Context, opts metav1.ListOptions) (*apps.DeploymentList, error) {
	lo, err := listOpts(a.ns, opts)
	if err != nil {
		return nil, err
	}
	l := &apps.DeploymentList{}
	if err := a.c.List(ctx, l, lo...); err != nil {
		return nil, err
	}
	return l, nil
}
func (a *adapterDeployments) Watch(context.Context, metav1.ListOptions) (watch.Interface, error) {
	return nil, unsupported("deployments", "watch")
}
func (a *adapterDeployments) Patch(ctx context.Context, name string, pt types.PatchType, data []byte, _ metav1.PatchOptions, subresources ...string) (*apps.Deployment, error) {
	o := &apps.Deployment{ObjectMeta: metav1.ObjectMeta{Namespace: a.ns, Name: name}}
	if err := patchTo(ctx, a.c, o, pt, data, subresources); err != nil {
		return nil, err
	}
	return o, nil
}
func (a *adapterDeployments) Apply(context.Context, *appsac.DeploymentApplyConfiguration, metav1.ApplyOptions) (*apps.Deployment, error) {
	return nil, unsupported("deployments", "apply")
}
func (a *adapterDeployments) ApplyStatus(context.Context, *appsac.DeploymentApplyConfiguration, metav1.ApplyOptions) (*apps.Deployment, error) {
	return nil, unsupported("deployments", "apply status")
}
func (a *adapterDeployments) GetScale(context.Context, string, metav1.GetOptions) (*autoscalingv1.Scale, error) {
	return nil, unsupported("deployments", "get scale")
}
func (a *adapterDeployments) UpdateScale(context.Context, string, *autoscalingv1.Scale, metav1.UpdateOptions) (*autoscalingv1.Scale, error) {
	return nil, unsupported("deployments", "update scale")
}
func (a *adapterDeployments) ApplyScale(context.Context, string, *autoscalingac.ScaleApplyConfiguration, metav1.ApplyOptions) (*autoscalingv1.Scale, error) {
	return nil, unsupported("deployments", "apply scale")
}

// ---- ReplicaSets ---------------------------------------------------------------------------------

type adapterReplicaSets struct {
	c  client.Client
	ns string
}

var _ appsclient.ReplicaSetInterface = &adapterReplicaSets{}

func (a *adapterReplicaSets) Create(ctx context.Context, rs *apps.ReplicaSet, _ metav1.CreateOptions) (*apps.ReplicaSet, error) {
	o := rs.DeepCopy()
	if o.Namespace == "" {
		o.Namespace = a.ns
	}
	if err := a.c.Create(ctx, o); err != nil {
		return nil, err
	}
	return o, nil
}
func (a *adapterReplicaSets) Update(ctx context.Context, rs *apps.ReplicaSet, _ metav1.UpdateOptions) (*apps.ReplicaSet, error) {
	o := rs.DeepCopy()
	if o.Namespace == "" {
		o.Namespace = a.ns
	}
	if err := a.c.Update(ctx, o); err != nil {
		return nil, err
	}
	return o, nil
}
func (a *adapterReplicaSets) UpdateStatus(ctx context.Context, rs *apps.ReplicaSet, _ metav1.UpdateOptions) (*apps.ReplicaSet, error) {
	o := rs.DeepCopy()
	if o.Namespace == "" {
		o.Namespace = a.ns
	}
	if err := a.c.Status().Update(ctx, o); err != nil {
		return nil, err
	}
	return o, nil
}
func (a *adapterReplicaSets) Delete(ctx context.Context, name string, opts metav1.DeleteOptions) error {
	return a.c.Delete(ctx, &apps.ReplicaSet{ObjectMeta: metav1.ObjectMeta{Namespace: a.ns, Name: name}}, deleteOpts(opts)...)
}
func (a *adapterReplicaSets) DeleteCollection(context.Context, metav1.DeleteOptions, metav1.ListOptions) error {
	return unsupported("replicasets", "deletecollection")
}
func (a *adapterReplicaSets) Get(ctx context.Context, name string, _ metav1.GetOptions) (*apps.ReplicaSet, error) {
	o := &apps.ReplicaSet{}
	if err := a.c.Get(ctx, types.NamespacedName{Namespace: a.ns, Name: name}, o); err != nil {
		return nil, err
	}
	return o, nil
}
func (a *adapterReplicaSets) List(ctx context.Context, opts metav1.ListOptions) (*apps.ReplicaSetList, error) {
	lo, err := listOpts(a.ns, opts)
	if err != nil {
		return nil, err
	}
	l := &apps.ReplicaSetList{}
	if err := a.c.List(ctx, l, lo...); err != nil {
		return nil, err
	}
	return l, nil
}
func (a *adapterReplicaSets) Watch(context.Context, metav1.ListOptions) (watch.Interface, error) {
	return nil, unsupported("replicasets", "watch")
}
func (a *adapterReplicaSets) Patch(ctx context.Context, name string, pt types.PatchType, data []byte, _ metav1.PatchOptions, subresources ...string) (*apps.ReplicaSet, error) {
	o := &apps.ReplicaSet{ObjectMeta: metav1.ObjectMeta{Namespace: a.ns, Name: name}}
	if err := patchTo(ctx, a.c, o, pt, data, subresources); err != nil {
		return nil, err
	}
	return o, nil
}
func (a *adapterReplicaSets) Apply(context.Context, *appsac.ReplicaSetApplyConfiguration, metav1.ApplyOptions) (*apps.ReplicaSet, error) {
	return nil, unsupported("replicasets", "apply")
}
func (a *adapterReplicaSets) ApplyStatus(context.Context, *appsac.ReplicaSetApplyConfiguration, metav1.ApplyOptions) (*apps.ReplicaSet, error) {
	return nil, unsupported("replicasets", "apply status")
}
func (a *adapterReplicaSets) GetScale(context.Context, string, metav1.GetOptions) (*autoscalingv1.Scale, error) {
	return nil, unsupported("replicasets", "get scale")
}
func (a *adapterReplicaSets) UpdateScale(context.Context, string, *autoscalingv1.Scale, metav1.UpdateOptions) (*autoscalingv1.Scale, error) {
	return nil, unsupported("replicasets", "update scale")
}
func (a *adapterReplicaSets) ApplyScale(context.Context, string, *autoscalingac.ScaleApplyConfiguration, metav1.ApplyOptions) (*autoscalingv1.Scale, error) {
	return nil, unsupported("replicasets", "apply scale")
}
