// Private development binary of the C13 (Gateway API provider) driver.
// It also registers a development-only "C07" made of this driver's fixed-point clause alone, so that
// the c07d:gateway:* fingerprints can be exercised without the main session's composed C07.
package main

import (
	"verif/harness/core"
	"verif/harness/drivers/c13gateway"
)

func main() {
	core.Register(&core.Check{
		ID: "C07", Level: "exploration",
		Rule:      "development only: clause (d) of C07 for the gateway provider (see drivers/c13gateway)",
		NumCases:  c13gateway.NumCases,
		ChunkSize: 50, Relevant: "fixed_points_checked",
		RunCase: func(env *core.Env, idx int) *core.CaseResult { return c13gateway.RunCase(env, idx, "C07") },
	})
	core.Main()
}
