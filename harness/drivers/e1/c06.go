package e1

import (
	"encoding/json"
	"fmt"
	"math/rand"
	"sort"
	"strings"
	"sync"

	"verif/harness/core"
	"verif/harness/gen"
	"verif/harness/monitor"
	"verif/harness/sim"
)

// C06 — controller crashes and API errors never corrupt a rollout.
//
// For each baseline scenario (fault-free run with a fixed seed) a family of faulty runs is executed: a crash
// (loss of all in-memory state, reconcilers rebuilt, informers replayed) after the k-th controller write, an
// error / timeout / conflict / lost response at the j-th controller call, and random multi-fault plans. Oracles:
// every online monitor that was silent in the baseline stays silent, the run still reaches its terminal state
// within the budget, and the final projection equals the baseline's.

type baselineInfo struct {
	scenario   *sim.Scenario
	writes     int
	calls      int
	writeCalls int
	sync       map[string]map[string]interface{}
	userActs   string
	readPoints []int // one call index per distinct (actor, verb, kind, rollout phase, batchrelease phase) class of read calls
	readClass  []string

	terminal   bool
	quiescent  bool
	projection map[string]interface{}
	fps        map[string]bool
	err        string
}

var (
	c06mu        sync.Mutex
	c06baselines = map[string]*baselineInfo{}
)

// dims: baselines, crash points (over committed writes), write-call faults (over write calls), read/any-call faults
// (over all calls), multi-fault plans.
func c06dims(env *core.Env) (B, K1, K2, K2r, K3 int) {
	if env.Thorough() {
		return 18, 260, 1040, 9000, 60
	}
	return 6, 120, 120, 70, 6
}

func c06Scenario(env *core.Env, b int) *sim.Scenario {
	rng := rand.New(rand.NewSource(env.Seed*7919 + int64(b)*104729 + 5))
	// every workload kind / rolling style is among the baselines of every tier
	all := append(append([]string{}, distinctFamilies()...), ExtraFamilies...)
	// ... and so is every traffic provider kind and every way a release can end (the cleanup paths are where a fault
	// between two writes matters most): provider and exit event are assigned round-robin, the rest is drawn
	provs := []string{"ingress", "gateway", "custom", "none", "ingress", "custom"}
	exits := []string{"v3", "rollback", "delete", "disable", "delete", "rollback", "v3", ""}
	wantP, wantE := provs[b%len(provs)], exits[b%len(exits)]
	var s *sim.Scenario
	for try := 0; try < 200; try++ {
		s = genForFamily("C06", rng, all[b%len(all)])
		if providerKind(s.Provider) == wantP || (wantP == "ingress" && strings.HasPrefix(s.Provider, "ingress")) {
			break
		}
	}
	if wantE != "" && !(wantE == "v3" && s.Style == "bluegreen") && !s.RollbackInBatch {
		n := len(s.Steps)
		s.Events = []sim.Injected{{AtStep: 1 + rng.Intn(n), AtState: states[rng.Intn(4)], Action: wantE}}
	}
	for i := range s.Events {
		s.Events[i].Immediate = true
	}
	return s
}

func cloneScenario(s *sim.Scenario) *sim.Scenario {
	// through JSON: every exported field is copied, the events' "fired" marks are not
	b, _ := json.Marshal(s)
	c := &sim.Scenario{}
	_ = json.Unmarshal(b, c)
	return c
}

func c06Baseline(env *core.Env, b int) *baselineInfo {
	key := fmt.Sprintf("%s/%d/%d", env.Tier, env.Seed, b)
	c06mu.Lock()
	defer c06mu.Unlock()
	if bi, ok := c06baselines[key]; ok {
		return bi
	}
	s := c06Scenario(env, b)
	bi := &baselineInfo{scenario: s, fps: map[string]bool{}}
	// count controller writes / calls with an empty (but armed) fault plan
	r, m, vs, err := runScenarioOpt(cloneScenario(s), &sim.FaultPlan{}, false, func(r *sim.Run) { r.RecordCallClasses = true })
	if err != nil {
		bi.err = err.Error()
	} else {
		// read calls by class; the rarest classes first: a call site that is reached once or twice in a whole release
		// sits at a transition, the ones reached hundreds of times are the steady-state polling reads
		first, count := map[string]int{}, map[string]int{}
		for i, c := range r.CallClasses {
			if !(strings.Contains(c, " get ") || strings.Contains(c, " list ")) {
				continue
			}
			if _, ok := first[c]; !ok {
				first[c] = i + 1
			}
			count[c]++
		}
		var classes []string
		for c := range first {
			classes = append(classes, c)
		}
		// classes reached while a cleanup sequence is running (a cleanup task is persisted, the Rollout is terminating /
		// disabling, the BatchRelease is finalizing or going away) come first: that is where C05 / C10 / C18 live
		cleanup := func(c string) bool {
			tag := c[strings.Index(c, "@")+1:]
			ro := strings.TrimSpace(strings.SplitN(tag, "|", 2)[0])
			parts := strings.Split(ro, "/")
			if len(parts) == 4 && parts[3] != "" && parts[3] != "END" {
				return true
			}
			return strings.Contains(tag, "Terminating") || strings.Contains(tag, "Disabling") || strings.Contains(tag, "Finalizing") || strings.Contains(tag, "deleting") || strings.Contains(tag, "Cancelling")
		}
		sort.Slice(classes, func(i, j int) bool {
			if cleanup(classes[i]) != cleanup(classes[j]) {
				return cleanup(classes[i])
			}
			if count[classes[i]] != count[classes[j]] {
				return count[classes[i]] < count[classes[j]]
			}
			return first[classes[i]] < first[classes[j]]
		})
		for _, c := range classes {
			bi.readPoints = append(bi.readPoints, first[c])
			bi.readClass = append(bi.readClass, c)
		}
		bi.writes, bi.calls, bi.writeCalls = r.CtrlWrites(), r.CtrlCalls(), r.CtrlWriteCalls()
		bi.sync = m.SyncPoints
		bi.userActs = actionSet(r.UserActions)
		bi.terminal, bi.quiescent = r.Terminal, r.Quiescent
		bi.projection = m.Projection(r.W.Store.Snapshot())
		for _, v := range vs {
			bi.fps[v.Fingerprint] = true
		}
		if strings.HasPrefix(r.StopReason, "install") || strings.HasPrefix(r.StopReason, "setup") {
			bi.err = r.StopReason
		}
	}
	c06baselines[key] = bi
	return bi
}

func init() {
	core.Register(&core.Check{
		ID: "C06", Level: "fault_enumeration", ChunkSize: 1, Relevant: "faults_fired",
		Rule: "cases = baseline scenario b (seed-determined closed-loop scenario incl. exit events) x fault f: a crash after the k-th controller write (k spread evenly over all controller writes of the baseline; every write in the thorough tier), an error / conflict / timeout instead of, or a lost response after, the k-th controller write that changes the store (every such write of the baseline at least once in the quick tier, with all four kinds in the thorough tier), an error / timeout at read calls (quick: one per distinct class (actor, verb, kind, rollout phase / cleanup task, batchrelease phase) of the baseline's read calls; thorough: every call), or a random multi-fault plan. " +
			"Each faulty run is judged against the fault-free baseline of the same scenario: monitors (C01-C05, C09-C11, C18) that were silent in the baseline stay silent, the terminal state is still reached within the budget, the configuration projection (workload strategy, ReplicaSet minReadySeconds, HPA target, Service selectors, routes, BatchRelease cursor, canary Deployments) at the first time each step is persisted as paused equals the baseline's at the same point, and the final user-visible projection equals the baseline's. distinct = (scenario family, fault kind, faulted actor/verb/kind site).",
		Assumptions: []string{
			"crash = CrashSignal panic right after a committed controller write; all reconcilers are rebuilt, grace and creation expectations reset, queues dropped, every object replayed as a create event",
			"faults are injected into controller actors only (never into environment actors, the user or informer-cache reads)",
			"a lost response commits the write and returns a timeout to the caller (maybe-applied)",
			"replays are deterministic up to Go map iteration order and wall-clock effects inside the code under test",
		},
		NumCases: func(env *core.Env) int {
			B, K1, K2, K2r, K3 := c06dims(env)
			return B * (K1 + K2 + K2r + K3)
		},
		RunCase: c06Case,
	})
}

func c06Case(env *core.Env, idx int) *core.CaseResult {
	B, K1, K2, K2r, K3 := c06dims(env)
	K := K1 + K2 + K2r + K3
	b, f := idx/K, idx%K
	_ = B
	res := &core.CaseResult{}
	bi := c06Baseline(env, b)
	if bi.err != "" {
		res.Count("baselines_unusable", 1)
		res.AddSet("baseline_problems", bi.err)
		return res
	}
	if f == 0 {
		res.AddSet("baselines", fmt.Sprintf("b%d %s/%s/%s writes=%d writeCalls=%d calls=%d readClasses=%d events=%v", b, bi.scenario.Kind, bi.scenario.Style, bi.scenario.Provider, bi.writes, bi.writeCalls, bi.calls, len(bi.readPoints), bi.userActs))
	}
	s := cloneScenario(bi.scenario)
	fp := &sim.FaultPlan{}
	kind := ""
	switch {
	case f < K1:
		kind = "crash"
		k := 1 + f*bi.writes/K1
		if K1 >= bi.writes {
			k = 1 + f
		}
		if k > bi.writes {
			res.Count("fault_points_beyond_baseline", 1)
			return res
		}
		fp.CrashAfterWrite = k
	case f < K1+K2:
		// the k-th controller write that would change the store fails (error / conflict / timeout before it commits) or
		// commits and loses its response; with K2 >= 4 x writes every write meets every kind
		j := f - K1
		kinds := []string{"error", "conflict", "lost", "timeout"}
		n := bi.writes
		switch {
		case n == 0:
			res.Count("fault_points_beyond_baseline", 1)
			return res
		case K2 >= 4*n:
			if j >= 4*n {
				res.Count("fault_points_beyond_baseline", 1)
				return res
			}
			fp.FailCommit, kind = 1+j/4, kinds[j%4]
		case K2 >= n:
			if j >= n {
				// second pass with another kind over a spread of the writes
				fp.FailCommit, kind = 1+((j-n)*n/(K2-n+1))%n, kinds[(j+2)%4]
			} else {
				fp.FailCommit, kind = 1+j, kinds[j%4]
			}
		default:
			fp.FailCommit, kind = 1+j*n/K2, kinds[j%4]
		}
		fp.FailKind = kind
	case f < K1+K2+K2r:
		j := f - K1 - K2
		kind = []string{"error", "timeout"}[j%2]
		fp.FailCall = 1 + j*bi.calls/K2r
		if K2r < bi.calls && len(bi.readPoints) > 0 {
			// one read per distinct (call site, rollout phase, batchrelease phase) class, spread over the classes
			fp.FailCall = bi.readPoints[j%len(bi.readPoints)] // the K2r rarest classes
			if len(bi.readPoints) <= K2r {
				if j >= len(bi.readPoints) {
					res.Count("fault_points_beyond_baseline", 1)
					return res
				}
				fp.FailCall = bi.readPoints[j]
			}
		}
		if K2r >= bi.calls {
			// every call of the baseline
			if j >= bi.calls {
				res.Count("fault_points_beyond_baseline", 1)
				return res
			}
			fp.FailCall = 1 + j
		}
		fp.FailKind = kind
	default:
		kind = "multi"
		fp.Random, fp.RandomCrash = 3, 1
		s.Seed = s.Seed + int64(f) // a different schedule and fault placement per plan
	}
	r, m, vs, err := RunScenario(s, fp, true)
	if err != nil {
		res.Inconclusive = "engine: " + err.Error()
		return res
	}
	fill(res, "C06", s, r, m, nil)
	res.Sigs = nil
	res.Count("faulty_runs", 1)
	res.Count("faults_fired", int64(len(r.InjectedFaults)))
	res.Count("crashes_recovered", int64(r.CrashesDone))
	site := "none"
	if len(r.InjectedFaults) > 0 {
		// kind@callN:actor verb key
		parts := strings.SplitN(r.InjectedFaults[0], ":", 2)
		if len(parts) == 2 {
			fields := strings.Fields(parts[1])
			if len(fields) >= 3 {
				k := fields[2]
				if i := strings.Index(k, ":"); i > 0 {
					k = k[:i]
				}
				site = fields[0] + "/" + fields[1] + "/" + k
			}
		}
		res.AddSig(fmt.Sprintf("%s/%s/%s|%s|%s", s.Kind, s.Style, providerKind(s.Provider), kind, site))
		res.AddSet("fault_sites", kind+":"+site)
	} else {
		res.Count("fault_not_reached", 1)
	}
	detail := func(extra interface{}) interface{} {
		return gen.NF{"scenario": s, "faultPlan": fp, "injected": r.InjectedFaults, "stop": r.StopReason, "userActions": r.UserActions, "info": extra, "trace": tail(r.Trace, 60)}
	}
	// (1) monitors silent unless the baseline already shows the same fingerprint. A recorded known finding of
	// another property (whose manifestation depends on timing, which faults shift) is counted, not re-reported,
	// and the end state of such a run is not compared.
	known := core.KnownFingerprints()
	affectedByKnown := false
	for _, v := range vs {
		if known[v.Fingerprint] {
			affectedByKnown = true
			res.Count("runs_showing_a_known_finding_of_another_property", 1)
			res.AddSet("known_findings_seen_under_faults", v.Fingerprint)
		}
	}
	for _, v := range vs {
		if bi.fps[v.Fingerprint] || v.Prop == "C07" || v.Prop == "C19" || known[v.Fingerprint] {
			continue
		}
		res.Violate("c06:"+kind+":"+v.Fingerprint, fmt.Sprintf("under fault %v a monitor that is silent in the fault-free run fired: %s", r.InjectedFaults, v.Msg), detail(v.Detail))
	}
	// (2) still terminal within the budget
	if bi.terminal && !r.Terminal {
		cls := r.StopReason
		if i := strings.Index(cls, ":"); i > 0 {
			cls = cls[:i]
		}
		ro := r.Rollout()
		st := "gone"
		if ro != nil {
			st = string(ro.Status.Phase)
			if ss := ro.Status.GetSubStatus(); ss != nil {
				st += "/" + string(ss.CurrentStepState)
			}
		}
		res.Violate(fmt.Sprintf("c06:%s:not-terminal:%s:%s/%s:%s", kind, strings.ReplaceAll(cls, " ", "-"), s.Kind, s.Style, st), fmt.Sprintf("the fault-free run reaches its terminal state, the run with fault %v does not (%s)", r.InjectedFaults, r.StopReason), detail(nil))
		return res
	}
	// (2b) the same configuration at the same logical points (first time step k is persisted as paused)
	if kind != "multi" && !affectedByKnown {
		for key, want := range bi.sync {
			got, ok := m.SyncPoints[key]
			if !ok {
				continue
			}
			res.Count("sync_points_compared", 1)
			if d := gen.FirstDiff("", want, got); d != "" {
				res.Violate(fmt.Sprintf("c06:%s:half-configured:%s:%s/%s", kind, normPath(d), s.Kind, s.Style), fmt.Sprintf("when %s is first reached the configuration differs from the fault-free run at %s, after fault %v", key, d, r.InjectedFaults), detail(gen.NF{"at": key, "baseline": want, "got": got}))
				break
			}
		}
	}
	// (3) same final projection
	if bi.terminal && bi.quiescent && r.Terminal && r.Quiescent && kind != "multi" && !affectedByKnown && bi.userActs != actionSet(r.UserActions) {
		res.Count("final_states_not_compared_different_user_actions", 1)
	} else if bi.terminal && bi.quiescent && r.Terminal && r.Quiescent && kind != "multi" && !affectedByKnown {
		res.Count("final_states_compared", 1)
		got := m.Projection(r.W.Store.Snapshot())
		if d := gen.FirstDiff("", bi.projection, got); d != "" {
			res.Violate(fmt.Sprintf("c06:%s:final-state-differs:%s:%s/%s", kind, normPath(d), s.Kind, s.Style), fmt.Sprintf("final state differs from the fault-free run at %s after fault %v", d, r.InjectedFaults), detail(gen.NF{"baseline": bi.projection, "got": got}))
		}
	}
	if idx%97 == 0 {
		res.Sample = gen.NF{"scenario": s, "faultPlan": fp, "injected": r.InjectedFaults, "stop": r.StopReason, "restarts": r.W.Restarts}
	}
	return res
}

// actionSet is the set of user actions other than approvals (whose number depends on the schedule).
func actionSet(l []string) string {
	m := map[string]bool{}
	for _, a := range l {
		a = strings.TrimSpace(a)
		if a == "approve" || a == "noop" || strings.HasPrefix(a, "->") {
			continue
		}
		m[a] = true
	}
	var out []string
	for a := range m {
		out = append(out, a)
	}
	sort.Strings(out)
	return strings.Join(out, ",")
}

func normPath(p string) string {
	var b strings.Builder
	for _, r := range p {
		if r >= '0' && r <= '9' {
			continue
		}
		b.WriteRune(r)
	}
	return b.String()
}

func tail(l []string, n int) []string {
	if len(l) > n {
		return l[len(l)-n:]
	}
	return l
}

func providerKind(p string) string {
	if i := strings.Index(p, ":"); i > 0 && !strings.Contains(p, "+") {
		return p[:i]
	}
	return p
}

var _ = monitor.Attach
