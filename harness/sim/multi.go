package sim

import (
	"fmt"
	"math/rand"
	"sync"
	"sync/atomic"
	"time"

	"k8s.io/apimachinery/pkg/types"

	"github.com/openkruise/rollouts/api/v1beta1"
	"github.com/openkruise/rollouts/pkg/webhook/rollout/validating"
)

// MultiRun drives several scenarios (tenants) in ONE simulated cluster reconciled by ONE set of controllers, as one
// controller process serves many rollouts. In concurrent mode reconciles run on real goroutines (up to WorkersPerCtrl
// per controller, never two for the same key, like a work-queue) while the scheduler goroutine keeps stepping the
// environment, the garbage collector and the users.
type MultiRun struct {
	W              *World
	Runs           []*Run
	Rng            *rand.Rand
	Budget         int
	Concurrent     bool
	WorkersPerCtrl int
	Actions        int
	StopReason     string
	TimedWaits     int

	// observations
	MaxInFlight       int
	OverlappedPairs   map[string]int // "<ctrl>+<ctrl>" of reconciles that were in flight at the same time
	CrossTenantPairs  int            // overlapping reconciles that belonged to different tenants
	ReconcilesStarted int

	envIdleAt, gcIdleAt int
	releaseAt           []int
	// AfterAction, if set, runs on the scheduler goroutine after every scheduler action (monitors of process-wide state).
	AfterAction func()
	// Tail is the list of the last scheduler choices (diagnostics for runs that do not end).
	Tail          []string
	tailMu        sync.Mutex
	actionsShadow int64
}

func (m *MultiRun) note(f string, a ...interface{}) {
	m.tailMu.Lock()
	defer m.tailMu.Unlock()
	m.Tail = append(m.Tail, fmt.Sprintf("%6d w=%d ", atomic.LoadInt64(&m.actionsShadow), m.W.Store.Writes())+fmt.Sprintf(f, a...))
	if len(m.Tail) > 120 {
		m.Tail = m.Tail[len(m.Tail)-120:]
	}
}

// NewMultiRun builds one world and a tenant run per scenario. Scenarios must have distinct (NS, Name).
func NewMultiRun(ss []*Scenario, repoDir string, seed int64, concurrent bool) (*MultiRun, error) {
	ResetProcessGlobals()
	validating.PartitionReplicasLimitWithTraffic = 50
	var g int32
	for _, s := range ss {
		if s.Grace > g {
			g = s.Grace
		}
	}
	w, err := NewWorld(Options{RepoDir: repoDir, GraceSeconds: g, Concurrent: concurrent})
	if err != nil {
		return nil, err
	}
	m := &MultiRun{W: w, Rng: rand.New(rand.NewSource(seed)), Concurrent: concurrent, WorkersPerCtrl: 3, OverlappedPairs: map[string]int{}, envIdleAt: -1, gcIdleAt: -1}
	w.OnOutcome = func(o *Outcome) {
		m.note("   done %s %s writes~%d err=%v res=%+v panic=%s", o.Ctrl, o.Key, o.Writes, o.Err, o.Result, o.Panic)
	}
	for _, s := range ss {
		r := &Run{S: s, W: w, Rng: rand.New(rand.NewSource(s.Seed)), mode: "release", target: "v1", envIdleAt: -1, gcIdleAt: -1, pausedSeenAt: -1}
		r.Budget = 60 * (len(s.Steps) + 5) * (int(s.Replicas) + 6)
		m.Budget += r.Budget
		if concurrent {
			// a user action changes the expectation the monitors judge against; let the reconciles in flight finish
			// first so that every controller write is judged against one well-defined expectation
			r.BeforeUser = w.WaitIdle
		}
		if s.PartitionLimit > validating.PartitionReplicasLimitWithTraffic {
			validating.PartitionReplicasLimitWithTraffic = s.PartitionLimit
		}
		m.Runs = append(m.Runs, r)
	}
	return m, nil
}

func (m *MultiRun) tenantOf(k types.NamespacedName) int {
	for i, r := range m.Runs {
		if r.S.NS == k.Namespace && (k.Name == r.S.RolloutName() || k.Name == r.S.Name) {
			return i
		}
	}
	return -1
}

// step performs one scheduler action; false when nothing is enabled (and, in concurrent mode, nothing is in flight).
func (m *MultiRun) step() bool {
	w := m.W
	for {
		w.DeliverEvents()
		for _, r := range m.Runs {
			r.Actions = m.Actions
			r.checkTriggers()
		}
		now := time.Now()
		ready, timers := w.EnabledReconciles(now)
		type opt struct {
			kind string
			w    int
			rk   RecKey
			run  *Run
		}
		var opts []opt
		for _, k := range ready {
			if m.Concurrent && w.busy(k.C, k.K, m.WorkersPerCtrl) {
				continue
			}
			opts = append(opts, opt{kind: "rec", w: 10, rk: k})
		}
		for _, k := range timers {
			if m.Concurrent && w.busy(k.C, k.K, m.WorkersPerCtrl) {
				continue
			}
			opts = append(opts, opt{kind: "rec", w: 2, rk: k})
		}
		if m.envIdleAt != w.Store.Writes() {
			opts = append(opts, opt{kind: "env", w: 10})
		}
		if m.gcIdleAt != w.Store.Writes() {
			opts = append(opts, opt{kind: "gc", w: 3})
		}
		for _, r := range m.Runs {
			if len(r.userQueue) > 0 {
				opts = append(opts, opt{kind: "user", w: 4, run: r})
			}
		}
		if len(opts) == 0 {
			if m.Concurrent && w.InFlight() > 0 {
				w.WaitOne()
				continue
			}
			return false
		}
		total := 0
		for _, o := range opts {
			total += o.w
		}
		x := m.Rng.Intn(total)
		var ch opt
		for _, o := range opts {
			if x < o.w {
				ch = o
				break
			}
			x -= o.w
		}
		m.Actions++
		atomic.StoreInt64(&m.actionsShadow, int64(m.Actions))
		w.Actions = m.Actions
		switch ch.kind {
		case "rec":
			m.note("rec %s %s", ch.rk.C.Name, ch.rk.K)
			if m.Concurrent {
				m.ReconcilesStarted++
				others := w.StartReconcile(ch.rk.C, ch.rk.K)
				if n := len(others) + 1; n > m.MaxInFlight {
					m.MaxInFlight = n
				}
				mine := m.tenantOf(ch.rk.K)
				for _, o := range others {
					a, b := ch.rk.C.Name, o.C.Name
					if a > b {
						a, b = b, a
					}
					m.OverlappedPairs[a+"+"+b]++
					if t := m.tenantOf(o.K); t >= 0 && mine >= 0 && t != mine {
						m.CrossTenantPairs++
					}
				}
			} else {
				m.ReconcilesStarted++
				w.Reconcile(ch.rk.C, ch.rk.K)
			}
		case "env":
			seen := w.Store.Writes()
			a := w.Env.Step(m.Rng.Intn(12))
			if a == "" {
				// idle with respect to the state it looked at: a write that lands meanwhile re-enables it
				m.envIdleAt = seen
			}
			m.note("env %s", a)
		case "gc":
			seen := w.Store.Writes()
			if !w.Store.GCStep() {
				m.gcIdleAt = seen
			}
		case "user":
			a := ch.run.userQueue[0]
			m.note("user %s/%s %s", ch.run.S.NS, ch.run.S.Name, a)
			ch.run.userQueue = ch.run.userQueue[1:]
			ch.run.doUser(a)
		}
		if m.AfterAction != nil {
			m.AfterAction()
		}
		return true
	}
}

func (m *MultiRun) waitTimers() bool {
	if m.TimedWaits >= 40*len(m.Runs) {
		// still sleeping on timers after that many of them: a tenant that is not going anywhere (see Run.waitTimers)
		return false
	}
	r := &Run{W: m.W}
	ok := r.waitTimers()
	m.TimedWaits += r.TimedWaits
	return ok
}

func (m *MultiRun) settle(max int) {
	for i := 0; i < max; i++ {
		if !m.step() {
			if !m.waitTimers() {
				return
			}
		}
	}
}

// Execute installs every tenant, waits for Healthy, releases the tenants at staggered instants and runs until every
// tenant is terminal and the cluster is quiet, or the budget is exhausted.
func (m *MultiRun) Execute() {
	defer func() {
		if m.Concurrent {
			m.W.WaitIdle()
		}
	}()
	for _, r := range m.Runs {
		if err := r.S.Install(m.W); err != nil {
			r.StopReason = "install: " + err.Error()
			m.StopReason = "install: " + err.Error()
			return
		}
	}
	m.settle(3000 * len(m.Runs))
	if m.Concurrent {
		m.W.WaitIdle()
	}
	for _, r := range m.Runs {
		ro := r.Rollout()
		if ro == nil || ro.Status.Phase != v1beta1.RolloutPhaseHealthy {
			r.StopReason = "setup did not reach Healthy"
			m.StopReason = r.StopReason
			return
		}
	}
	start := m.Actions
	m.releaseAt = make([]int, len(m.Runs))
	for i := range m.Runs {
		m.releaseAt[i] = m.Rng.Intn(60)
	}
	release := func() {
		for i, r := range m.Runs {
			if !r.released && m.Actions-start >= m.releaseAt[i] {
				if m.Concurrent {
					m.W.WaitIdle()
				}
				r.released, r.armed, r.target = true, true, "v2"
				if err := r.S.SetTemplate(m.W, "v2"); err != nil {
					r.StopReason = "release: " + err.Error()
				}
				r.UserActions = append(r.UserActions, "release:v2")
			}
		}
	}
	allReleased := func() bool {
		for _, r := range m.Runs {
			if !r.released {
				return false
			}
		}
		return true
	}
	done := func() bool {
		ok := true
		for _, r := range m.Runs {
			r.Terminal = r.terminalNow()
			if !r.Terminal || len(r.userQueue) > 0 {
				ok = false
			}
		}
		return ok
	}
	for m.Actions-start < m.Budget {
		if m.W.Runaway != "" {
			m.StopReason = "runaway object growth: " + m.W.Runaway
			for _, r := range m.Runs {
				r.StopReason = m.StopReason
			}
			return
		}
		release()
		if !m.step() {
			if !allReleased() {
				// quiet before everybody has released: release the rest now
				for i := range m.releaseAt {
					m.releaseAt[i] = 0
				}
				continue
			}
			approved := false
			for _, r := range m.Runs {
				if r.pausedSeenAt >= 0 && len(r.userQueue) == 0 && r.approving() {
					r.userQueue = append(r.userQueue, "approve")
					approved = true
				}
			}
			if approved {
				continue
			}
			if done() {
				for _, r := range m.Runs {
					r.Quiescent = true
					r.StopReason = "terminal+quiescent"
				}
				m.StopReason = "terminal+quiescent"
				return
			}
			if !m.waitTimers() {
				m.StopReason = "stalled: nothing enabled, not every tenant terminal"
				for _, r := range m.Runs {
					r.Quiescent = true
					if r.Terminal {
						r.StopReason = "terminal+quiescent"
					} else {
						r.StopReason = "stalled: nothing enabled, not terminal"
					}
				}
				return
			}
		}
	}
	done()
	m.StopReason = "budget exhausted"
	for _, r := range m.Runs {
		r.StopReason = "budget exhausted"
	}
}

// ---- concurrent reconciles -------------------------------------------------------------------------------------------

type inflight struct {
	C *Controller
	K types.NamespacedName
}

type concState struct {
	mu      sync.Mutex
	cond    *sync.Cond
	running []inflight
}

func (w *World) conc() *concState {
	w.concOnce.Do(func() {
		w.cs = &concState{}
		w.cs.cond = sync.NewCond(&w.cs.mu)
	})
	return w.cs
}

// InFlight is the number of reconciles running on worker goroutines.
func (w *World) InFlight() int {
	cs := w.conc()
	cs.mu.Lock()
	defer cs.mu.Unlock()
	return len(cs.running)
}

// WaitOne blocks until at least one in-flight reconcile has finished.
func (w *World) WaitOne() {
	cs := w.conc()
	cs.mu.Lock()
	n := len(cs.running)
	for n > 0 && len(cs.running) >= n {
		cs.cond.Wait()
	}
	cs.mu.Unlock()
}

// WaitIdle blocks until no reconcile is in flight.
func (w *World) WaitIdle() {
	cs := w.conc()
	cs.mu.Lock()
	for len(cs.running) > 0 {
		cs.cond.Wait()
	}
	cs.mu.Unlock()
}

// busy reports whether (c,k) may not start now: same key already running, or the controller's workers are all taken.
func (w *World) busy(c *Controller, k types.NamespacedName, perCtrl int) bool {
	cs := w.conc()
	cs.mu.Lock()
	defer cs.mu.Unlock()
	n := 0
	for _, f := range cs.running {
		if f.C == c {
			n++
			if f.K == k {
				return true
			}
		}
	}
	return perCtrl > 0 && n >= perCtrl
}

// StartReconcile runs one reconcile of (c,k) on its own goroutine and returns the reconciles that were already in
// flight when it started.
func (w *World) StartReconcile(c *Controller, k types.NamespacedName) []inflight {
	cs := w.conc()
	cs.mu.Lock()
	others := append([]inflight(nil), cs.running...)
	cs.running = append(cs.running, inflight{c, k})
	cs.mu.Unlock()
	before := w.beginReconcile(c, k)
	go func() {
		out := w.runReconcile(c, k, before)
		w.finishReconcile(c, k, &out)
		cs.mu.Lock()
		for i, f := range cs.running {
			if f.C == c && f.K == k {
				cs.running = append(cs.running[:i], cs.running[i+1:]...)
				break
			}
		}
		cs.cond.Broadcast()
		cs.mu.Unlock()
	}()
	return others
}

var _ = fmt.Sprintf
