package env

import (
	"crypto/sha1"
	"encoding/hex"
	"encoding/json"
	"fmt"
	"sort"
	"strconv"
	"strings"

	kruisev1beta1 "github.com/openkruise/kruise-api/apps/v1beta1"
	apps "k8s.io/api/apps/v1"
	corev1 "k8s.io/api/core/v1"
	metav1 "k8s.io/apimachinery/pkg/apis/meta/v1"
)

// Native StatefulSet controller model (podManagementPolicy OrderedReady, updateStrategy RollingUpdate with partition):
//   - pods <name>-<ordinal>, created in ascending ordinal order, each only after its predecessors are ready;
//   - scale-in removes the highest ordinal first;
//   - rolling update walks the ordinals from the highest down to `partition`: a pod whose revision differs from the
//     update revision is deleted (one at a time, only while every other pod is ready) and re-created with the update
//     revision; pods below the partition keep the revision they have and, when re-created, get the current revision;
//   - status: observedGeneration, replicas, readyReplicas, availableReplicas, currentReplicas, updatedReplicas,
//     currentRevision, updateRevision; currentRevision catches up when every pod is updated and ready.
// Revisions are "<name>-<hash of the pod template>" and pods carry them in the controller-revision-hash label, which is what
// the code under test reads.

// stsView is what the model needs from a native or an Advanced (kruise v1beta1) StatefulSet.
type stsView struct {
	obj         metav1.Object
	name, ns    string
	generation  int64
	deleting    bool
	replicas    int
	partition   int
	paused      bool // Advanced only
	onDelete    bool
	maxUnavail  int // Advanced only (native: 1)
	minReady    int32
	template    *corev1.PodTemplateSpec
	ownerKind   metav1.OwnerReference
	curRevision string
	statusStr   func() string
	writeStatus func(observedGen int64, replicas, ready, available, current, updated, updatedReady int32, curRev, updRev string) bool
}

func stsRevisionOf(name string, t *corev1.PodTemplateSpec) string {
	b, _ := json.Marshal(t)
	h := sha1.Sum(b)
	return name + "-" + hex.EncodeToString(h[:])[:10]
}

func ordinalOf(name string) int {
	i := strings.LastIndex(name, "-")
	n, err := strconv.Atoi(name[i+1:])
	if err != nil {
		return -1
	}
	return n
}

func (e *Env) stepStatefulSets() string {
	l := &apps.StatefulSetList{}
	must(e.C.List(ctx(), l))
	for i := range l.Items {
		s := &l.Items[i]
		v := &stsView{obj: s, name: s.Name, ns: s.Namespace, generation: s.Generation, deleting: s.DeletionTimestamp != nil, replicas: 1, maxUnavail: 1,
			onDelete: s.Spec.UpdateStrategy.Type == apps.OnDeleteStatefulSetStrategyType, minReady: s.Spec.MinReadySeconds, template: &s.Spec.Template,
			ownerKind: *metav1.NewControllerRef(s, apps.SchemeGroupVersion.WithKind("StatefulSet")), curRevision: s.Status.CurrentRevision}
		if s.Spec.Replicas != nil {
			v.replicas = int(*s.Spec.Replicas)
		}
		if ru := s.Spec.UpdateStrategy.RollingUpdate; ru != nil && ru.Partition != nil {
			v.partition = int(*ru.Partition)
		}
		v.writeStatus = func(og int64, replicas, ready, available, current, updated, updatedReady int32, curRev, updRev string) bool {
			st := s.Status.DeepCopy()
			st.ObservedGeneration, st.Replicas, st.ReadyReplicas, st.AvailableReplicas, st.CurrentReplicas, st.UpdatedReplicas = og, replicas, ready, available, current, updated
			st.CurrentRevision, st.UpdateRevision = curRev, updRev
			if fmt.Sprint(*st) == fmt.Sprint(s.Status) {
				return false
			}
			s.Status = *st
			must(e.C.Status().Update(ctx(), s))
			return true
		}
		if a := e.syncStatefulSet(v); a != "" {
			return a
		}
	}
	al := &kruisev1beta1.StatefulSetList{}
	must(e.C.List(ctx(), al))
	for i := range al.Items {
		s := &al.Items[i]
		v := &stsView{obj: s, name: s.Name, ns: s.Namespace, generation: s.Generation, deleting: s.DeletionTimestamp != nil, replicas: 1, maxUnavail: 1,
			onDelete: s.Spec.UpdateStrategy.Type == apps.OnDeleteStatefulSetStrategyType, template: &s.Spec.Template,
			ownerKind: *metav1.NewControllerRef(s, kruisev1beta1.SchemeGroupVersion.WithKind("StatefulSet")), curRevision: s.Status.CurrentRevision}
		if s.Spec.Replicas != nil {
			v.replicas = int(*s.Spec.Replicas)
		}
		if ru := s.Spec.UpdateStrategy.RollingUpdate; ru != nil {
			if ru.Partition != nil {
				v.partition = int(*ru.Partition)
			}
			v.paused = ru.Paused
			if ru.MaxUnavailable != nil {
				v.maxUnavail = int(resolve(ru.MaxUnavailable, "1", v.replicas, false))
				if v.maxUnavail < 1 {
					v.maxUnavail = 1
				}
			}
			if ru.MinReadySeconds != nil {
				v.minReady = *ru.MinReadySeconds
			}
		}
		v.writeStatus = func(og int64, replicas, ready, available, current, updated, updatedReady int32, curRev, updRev string) bool {
			st := s.Status.DeepCopy()
			st.ObservedGeneration, st.Replicas, st.ReadyReplicas, st.AvailableReplicas, st.CurrentReplicas, st.UpdatedReplicas, st.UpdatedReadyReplicas = og, replicas, ready, available, current, updated, updatedReady
			st.CurrentRevision, st.UpdateRevision = curRev, updRev
			st.LabelSelector = metav1.FormatLabelSelector(s.Spec.Selector)
			if fmt.Sprint(*st) == fmt.Sprint(s.Status) {
				return false
			}
			s.Status = *st
			must(e.C.Status().Update(ctx(), s))
			return true
		}
		if a := e.syncStatefulSet(v); a != "" {
			return a
		}
	}
	return ""
}

func (e *Env) syncStatefulSet(s *stsView) string {
	if s.deleting {
		return ""
	}
	update := stsRevisionOf(s.name, s.template)
	current := s.curRevision
	if current == "" {
		current = update
	}
	R, part := s.replicas, s.partition
	pods := e.podsOf(s.ns, s.obj)
	byOrd := map[int]*corev1.Pod{}
	for _, p := range pods {
		byOrd[ordinalOf(p.Name)] = p
	}
	unready := 0
	for _, p := range byOrd {
		if !podReady(p) {
			unready++
		}
	}
	mk := func(ord int, rev string) {
		tmpl := s.template.DeepCopy()
		if rev != update {
			for _, p := range pods {
				if p.Labels[apps.ControllerRevisionHashLabelKey] == rev {
					tmpl = &corev1.PodTemplateSpec{ObjectMeta: metav1.ObjectMeta{Labels: map[string]string{}}, Spec: p.Spec}
					for k, v := range p.Labels {
						if k != apps.ControllerRevisionHashLabelKey && k != apps.StatefulSetPodNameLabel && !strings.HasPrefix(k, "rollouts.kruise.io/") {
							tmpl.Labels[k] = v
						}
					}
					break
				}
			}
		}
		labels := map[string]string{}
		for k, v := range tmpl.Labels {
			labels[k] = v
		}
		name := fmt.Sprintf("%s-%d", s.name, ord)
		labels[apps.ControllerRevisionHashLabelKey] = rev
		labels[apps.StatefulSetPodNameLabel] = name
		p := e.newPod(s.ns, s.name, labels, tmpl.Spec, s.ownerKind, name)
		must(e.C.Create(ctx(), p))
	}
	// 1. scale in: highest ordinal first
	var ords []int
	for o := range byOrd {
		ords = append(ords, o)
	}
	sort.Ints(ords)
	if n := len(ords); n > 0 && ords[n-1] >= R {
		must(e.C.Delete(ctx(), byOrd[ords[n-1]]))
		return "sts-delete-pod"
	}
	// 2. create the lowest missing ordinal (predecessors must be ready)
	for o := 0; o < R; o++ {
		if byOrd[o] != nil {
			if !podReady(byOrd[o]) {
				break // OrderedReady: wait for it
			}
			continue
		}
		rev := update
		if o < part && current != update {
			// below the partition a re-created pod keeps the current revision - if its template is still known
			for _, p := range pods {
				if p.Labels[apps.ControllerRevisionHashLabelKey] == current {
					rev = current
				}
			}
		}
		mk(o, rev)
		return "sts-create-pod"
	}
	// 3. rolling update from the highest ordinal down to the partition
	if !s.onDelete && !s.paused && len(byOrd) == R {
		for o := R - 1; o >= part && o >= 0; o-- {
			p := byOrd[o]
			if p == nil {
				break
			}
			if p.Labels[apps.ControllerRevisionHashLabelKey] != update {
				if unready < s.maxUnavail {
					must(e.C.Delete(ctx(), p))
					return "sts-recreate-pod"
				}
				break
			}
			if !podReady(p) && s.maxUnavail <= 1 {
				break // wait for the updated pod before touching the next one
			}
		}
	}
	// 4. status
	var ready, avail, updated, cur, updatedReady int32
	for _, p := range pods {
		if podReady(p) {
			ready++
			if available(s.minReady) {
				avail++
			}
		}
		if p.Labels[apps.ControllerRevisionHashLabelKey] == update {
			updated++
			if podReady(p) {
				updatedReady++
			}
		}
		if p.Labels[apps.ControllerRevisionHashLabelKey] == current {
			cur++
		}
	}
	if int(updated) == len(pods) && len(pods) == R && int(updatedReady) == R {
		current, cur = update, updated
	}
	if s.writeStatus(s.generation, int32(len(pods)), ready, avail, cur, updated, updatedReady, current, update) {
		return "sts-status"
	}
	return ""
}
