package c20conv

// C20 — API versions convert without losing what the user wrote.
//
// Monitor: the real ConvertTo/ConvertFrom of api/v1alpha1 run on generated objects; the oracle is a
// *meaning* normal form written here from the property statement (never calling conversion helpers),
// compared before and after the round trip; any panic / error is a violation.

import (
	"encoding/json"
	"fmt"
	"math/rand"
	"reflect"
	"strings"

	"github.com/openkruise/rollouts/api/v1alpha1"
	"github.com/openkruise/rollouts/api/v1beta1"
	corev1 "k8s.io/api/core/v1"
	metav1 "k8s.io/apimachinery/pkg/apis/meta/v1"
	"k8s.io/apimachinery/pkg/util/intstr"
	gatewayv1beta1 "sigs.k8s.io/gateway-api/apis/v1beta1"

	"verif/harness/core"
	"verif/harness/gen"
)

func init() {
	core.Register(&core.Check{
		ID:    "C20",
		Level: "exploration",
		Rule: "cases are v1alpha1 Rollouts / BatchReleases (optional blocks nil or present, restricted only by the CRD `required` lists) and " +
			"canary-strategy v1beta1 Rollouts / BatchReleases restricted to v1alpha1-expressible fields, drawn from a seeded structural generator; " +
			"each is pushed through the real ConvertTo/ConvertFrom and the meaning normal form before/after is compared. " +
			"A case is non-trivial if at least one optional block is present; distinct = distinct (kind, direction, presence-mask, #steps, #routes, #conditions) shape.",
		Assumptions: []string{
			"the meaning normal form (weight:n == replicas:n%+weight:n when replicas absent; style annotation absent/other == canary; nil == empty map inside patchPodTemplateMetadata; nil workloadRef == empty ref) is written from the property statement",
			"v1alpha1 BatchRelease style is carried by the rolling-style annotation (the spec.rollingStyle field is generated consistent with it)",
			"generator samples an unbounded input language; only the CRD required-lists bound it",
		},
		NumCases: func(env *core.Env) int {
			if env.Thorough() {
				return 2000000
			}
			return 200000
		},
		ChunkSize: 2000,
		Relevant:  "roundtrips_compared",
		RunCase:   c20Case,
	})
}

func c20Case(env *core.Env, idx int) *core.CaseResult {
	rng := env.RNG(idx)
	res := &core.CaseResult{}
	switch idx % 4 {
	case 0:
		c20AlphaRollout(rng, res, idx)
	case 1:
		c20AlphaBR(rng, res, idx)
	case 2:
		c20BetaRollout(rng, res, idx)
	case 3:
		c20BetaBR(rng, res, idx)
	}
	return res
}

// ---- small generators ------------------------------------------------------------------------

func genIntOrStr(rng *rand.Rand) intstr.IntOrString {
	if gen.Chance(rng, 50) {
		return intstr.FromInt(rng.Intn(20))
	}
	return intstr.FromString(fmt.Sprintf("%d%%", rng.Intn(101)))
}

func genMap(rng *rand.Rand, allowNil bool) map[string]string {
	switch rng.Intn(4) {
	case 0:
		if allowNil {
			return nil
		}
		return map[string]string{}
	case 1:
		return map[string]string{}
	}
	m := map[string]string{}
	for i, n := 0, 1+rng.Intn(3); i < n; i++ {
		m[gen.Pick(rng, "a", "b", "team", "x/y", "k8s.io/z")] = gen.Pick(rng, "", "1", "v", "long-value")
	}
	return m
}

func genTime(rng *rand.Rand) metav1.Time {
	return metav1.Unix(1700000000+int64(rng.Intn(100000)), 0)
}

func genHeaderMatches(rng *rand.Rand) []gatewayv1beta1.HTTPHeaderMatch {
	var hs []gatewayv1beta1.HTTPHeaderMatch
	for i, n := 0, rng.Intn(3); i < n; i++ {
		h := gatewayv1beta1.HTTPHeaderMatch{Name: gatewayv1beta1.HTTPHeaderName(gen.Pick(rng, "user", "x-canary", "env")), Value: gen.Pick(rng, "a", "b", "^c.*")}
		if gen.Chance(rng, 60) {
			t := gatewayv1beta1.HeaderMatchType(gen.Pick(rng, "Exact", "RegularExpression"))
			h.Type = &t
		}
		hs = append(hs, h)
	}
	return hs
}

func genHeaderModifier(rng *rand.Rand) *gatewayv1beta1.HTTPHeaderFilter {
	if gen.Chance(rng, 65) {
		return nil
	}
	f := &gatewayv1beta1.HTTPHeaderFilter{}
	for i, n := 0, rng.Intn(3); i < n; i++ {
		f.Set = append(f.Set, gatewayv1beta1.HTTPHeader{Name: gatewayv1beta1.HTTPHeaderName(gen.Pick(rng, "h1", "h2")), Value: gen.Pick(rng, "v1", "v2")})
	}
	for i, n := 0, rng.Intn(2); i < n; i++ {
		f.Add = append(f.Add, gatewayv1beta1.HTTPHeader{Name: "add", Value: gen.Pick(rng, "v1", "v2")})
	}
	for i, n := 0, rng.Intn(2); i < n; i++ {
		f.Remove = append(f.Remove, gen.Pick(rng, "r1", "r2"))
	}
	return f
}

func genConditionsA(rng *rand.Rand) []v1alpha1.RolloutCondition {
	var cs []v1alpha1.RolloutCondition
	for i, n := 0, rng.Intn(3); i < n; i++ {
		cs = append(cs, v1alpha1.RolloutCondition{Type: v1alpha1.RolloutConditionType(gen.Pick(rng, "Progressing", "Succeeded", "Terminating")),
			Status: corev1.ConditionStatus(gen.Pick(rng, "True", "False", "Unknown")), Reason: gen.Pick(rng, "InRolling", "Completed", "Paused", ""), Message: gen.Pick(rng, "", "m"),
			LastUpdateTime: genTime(rng), LastTransitionTime: genTime(rng)})
	}
	return cs
}

func genMeta(rng *rand.Rand, alphaStyle bool) metav1.ObjectMeta {
	m := metav1.ObjectMeta{Name: gen.Pick(rng, "ro", "demo", "a-b"), Namespace: gen.Pick(rng, "default", "ns1"), Generation: int64(rng.Intn(5))}
	if gen.Chance(rng, 50) {
		m.Labels = genMap(rng, true)
	}
	if gen.Chance(rng, 70) {
		m.Annotations = genMap(rng, true)
	}
	if alphaStyle {
		if gen.Chance(rng, 70) {
			if m.Annotations == nil {
				m.Annotations = map[string]string{}
			}
			m.Annotations[v1alpha1.RolloutStyleAnnotation] = gen.Pick(rng, "partition", "Partition", "canary", "Canary", "PARTITION", "")
		}
		if gen.Chance(rng, 30) {
			if m.Annotations == nil {
				m.Annotations = map[string]string{}
			}
			m.Annotations[v1alpha1.TrafficRoutingAnnotation] = gen.Pick(rng, "tr-demo", "tr2", "")
		}
	}
	if gen.Chance(rng, 30) {
		m.Finalizers = []string{"rollouts.kruise.io/rollout"}
	}
	return m
}

func genRoutesA(rng *rand.Rand) []v1alpha1.TrafficRoutingRef {
	var out []v1alpha1.TrafficRoutingRef
	for i, n := 0, rng.Intn(3); i < n; i++ {
		r := v1alpha1.TrafficRoutingRef{Service: gen.Pick(rng, "svc", "echo"), GracePeriodSeconds: int32(rng.Intn(5))}
		if gen.Chance(rng, 50) {
			r.Ingress = &v1alpha1.IngressTrafficRouting{Name: gen.Pick(rng, "ing", "ing2"), ClassType: gen.Pick(rng, "", "nginx", "aliyun-alb")}
		}
		if gen.Chance(rng, 40) {
			r.Gateway = &v1alpha1.GatewayTrafficRouting{}
			if gen.Chance(rng, 80) {
				r.Gateway.HTTPRouteName = gen.Strp(gen.Pick(rng, "route", "r2"))
			}
		}
		for j, m := 0, rng.Intn(3); j < m; j++ {
			r.CustomNetworkRefs = append(r.CustomNetworkRefs, v1alpha1.CustomNetworkRef{APIVersion: "networking.istio.io/v1alpha3", Kind: gen.Pick(rng, "VirtualService", "DestinationRule"), Name: gen.Pick(rng, "vs", "dr")})
		}
		out = append(out, r)
	}
	return out
}

func genAlphaRollout(rng *rand.Rand) (*v1alpha1.Rollout, string) {
	ro := &v1alpha1.Rollout{ObjectMeta: genMeta(rng, true)}
	mask := 0
	if gen.Chance(rng, 85) {
		mask |= 1
		ro.Spec.ObjectRef.WorkloadRef = &v1alpha1.WorkloadRef{APIVersion: gen.Pick(rng, "apps/v1", "apps.kruise.io/v1alpha1"), Kind: gen.Pick(rng, "Deployment", "CloneSet", "StatefulSet"), Name: gen.Pick(rng, "echo", "w")}
	}
	ro.Spec.Disabled = gen.Chance(rng, 20)
	ro.Spec.Strategy.Paused = gen.Chance(rng, 20)
	nsteps := 0
	if gen.Chance(rng, 88) {
		mask |= 2
		c := &v1alpha1.CanaryStrategy{}
		ro.Spec.Strategy.Canary = c
		nsteps = rng.Intn(5)
		for i := 0; i < nsteps; i++ {
			s := v1alpha1.CanaryStep{}
			if gen.Chance(rng, 60) {
				s.Weight = gen.I32p(int32(rng.Intn(101)))
			}
			if gen.Chance(rng, 60) {
				v := genIntOrStr(rng)
				s.Replicas = &v
			}
			if gen.Chance(rng, 40) {
				s.Pause.Duration = gen.I32p(int32(rng.Intn(100)))
			}
			for j, m := 0, rng.Intn(3); j < m; j++ {
				s.Matches = append(s.Matches, v1alpha1.HttpRouteMatch{Headers: genHeaderMatches(rng)})
			}
			s.RequestHeaderModifier = genHeaderModifier(rng)
			c.Steps = append(c.Steps, s)
		}
		c.TrafficRoutings = genRoutesA(rng)
		if gen.Chance(rng, 30) {
			mask |= 4
			v := genIntOrStr(rng)
			c.FailureThreshold = &v
		}
		if gen.Chance(rng, 30) {
			mask |= 8
			c.PatchPodTemplateMetadata = &v1alpha1.PatchPodTemplateMetadata{Annotations: genMap(rng, true), Labels: genMap(rng, true)}
		}
		if gen.Chance(rng, 30) {
			mask |= 16
			c.DisableGenerateCanaryService = true
		}
	}
	ro.Status.ObservedGeneration = int64(rng.Intn(4))
	ro.Status.Phase = v1alpha1.RolloutPhase(gen.Pick(rng, "", "Initial", "Healthy", "Progressing", "Terminating", "Disabled"))
	ro.Status.Message = gen.Pick(rng, "", "msg")
	ro.Status.Conditions = genConditionsA(rng)
	if gen.Chance(rng, 60) {
		mask |= 32
		cs := &v1alpha1.CanaryStatus{ObservedWorkloadGeneration: int64(rng.Intn(9)), ObservedRolloutID: gen.Pick(rng, "", "r1"), RolloutHash: gen.Pick(rng, "", "h"),
			StableRevision: gen.Pick(rng, "", "s1"), CanaryRevision: gen.Pick(rng, "", "c1"), PodTemplateHash: gen.Pick(rng, "", "p1"), CanaryReplicas: int32(rng.Intn(9)),
			CanaryReadyReplicas: int32(rng.Intn(9)), NextStepIndex: int32(rng.Intn(6) - 1), CurrentStepIndex: int32(rng.Intn(6)),
			CurrentStepState: v1alpha1.CanaryStepState(gen.Pick(rng, "StepUpgrade", "StepTrafficRouting", "StepMetricsAnalysis", "StepPaused", "StepReady", "Completed")),
			Message:          gen.Pick(rng, "", "m"), FinalisingStep: v1alpha1.FinalizeStateType(gen.Pick(rng, "", "RestoreStableService", "END"))}
		if gen.Chance(rng, 60) {
			t := genTime(rng)
			cs.LastUpdateTime = &t
		}
		ro.Status.CanaryStatus = cs
	}
	routes := 0
	if ro.Spec.Strategy.Canary != nil {
		routes = len(ro.Spec.Strategy.Canary.TrafficRoutings)
	}
	return ro, fmt.Sprintf("aRO:m%d:s%d:r%d:c%d", mask, nsteps, routes, len(ro.Status.Conditions))
}

// ---- normal forms -----------------------------------------------------------------------------

type nf = gen.NF

func nfIOS(v *intstr.IntOrString) interface{} {
	if v == nil {
		return nil
	}
	return v.String()
}
func nfI32(v *int32) interface{} {
	if v == nil {
		return nil
	}
	return *v
}
func nfMap(m map[string]string) interface{} {
	if len(m) == 0 {
		return nil
	}
	out := map[string]interface{}{}
	for k, v := range m {
		out[k] = v
	}
	return out
}
func nfJSON(v interface{}) interface{} {
	if v == nil || (reflect.ValueOf(v).Kind() == reflect.Ptr && reflect.ValueOf(v).IsNil()) {
		return nil
	}
	b, _ := json.Marshal(v)
	var out interface{}
	_ = json.Unmarshal(b, &out)
	return out
}
func nfHeaders(hs []gatewayv1beta1.HTTPHeaderMatch) interface{} {
	var out []interface{}
	for _, h := range hs {
		t := interface{}(nil)
		if h.Type != nil {
			t = string(*h.Type)
		}
		out = append(out, []interface{}{string(h.Name), t, h.Value})
	}
	return out
}
func nfStyleAlphaRollout(annos map[string]string) string {
	if strings.EqualFold(annos[v1alpha1.RolloutStyleAnnotation], "partition") {
		return "partition"
	}
	return "canary"
}
func nfAnnos(annos map[string]string, drop ...string) interface{} {
	out := map[string]interface{}{}
	for k, v := range annos {
		skip := false
		for _, d := range drop {
			if k == d {
				skip = true
			}
		}
		if !skip {
			out[k] = v
		}
	}
	if len(out) == 0 {
		return nil
	}
	return out
}
func nfMeta(m metav1.ObjectMeta, dropAnnos ...string) nf {
	return nf{"name": m.Name, "namespace": m.Namespace, "labels": nfMap(m.Labels), "annotations": nfAnnos(m.Annotations, dropAnnos...),
		"finalizers": nfJSON(m.Finalizers), "generation": m.Generation}
}

func nfCondsA(cs []v1alpha1.RolloutCondition) interface{} {
	var out []interface{}
	for _, c := range cs {
		out = append(out, []interface{}{string(c.Type), string(c.Status), c.Reason, c.Message, c.LastUpdateTime.Unix(), c.LastTransitionTime.Unix()})
	}
	return out
}
func nfCondsB(cs []v1beta1.RolloutCondition) interface{} {
	var out []interface{}
	for _, c := range cs {
		out = append(out, []interface{}{string(c.Type), string(c.Status), c.Reason, c.Message, c.LastUpdateTime.Unix(), c.LastTransitionTime.Unix()})
	}
	return out
}
func nfTimeP(t *metav1.Time) interface{} {
	if t == nil {
		return nil
	}
	return t.Unix()
}

func nfAlphaRollout(ro *v1alpha1.Rollout) nf {
	out := nf{"meta": nfMeta(ro.ObjectMeta, v1alpha1.RolloutStyleAnnotation, v1alpha1.TrafficRoutingAnnotation)}
	out["style"] = nfStyleAlphaRollout(ro.Annotations)
	out["trafficRoutingAnno"] = ro.Annotations[v1alpha1.TrafficRoutingAnnotation]
	if w := ro.Spec.ObjectRef.WorkloadRef; w != nil {
		out["workloadRef"] = []interface{}{w.APIVersion, w.Kind, w.Name}
	} else {
		out["workloadRef"] = []interface{}{"", "", ""}
	}
	out["disabled"] = ro.Spec.Disabled
	out["paused"] = ro.Spec.Strategy.Paused
	if c := ro.Spec.Strategy.Canary; c != nil {
		cn := nf{}
		var steps []interface{}
		for _, s := range c.Steps {
			rep := nfIOS(s.Replicas)
			if s.Replicas == nil && s.Weight != nil {
				rep = fmt.Sprintf("%d%%", *s.Weight)
			}
			var ms []interface{}
			for _, m := range s.Matches {
				ms = append(ms, nfHeaders(m.Headers))
			}
			steps = append(steps, nf{"replicas": rep, "weight": nfI32(s.Weight), "pause": nfI32(s.Pause.Duration), "matches": ms, "hdrmod": nfJSON(s.RequestHeaderModifier)})
		}
		cn["steps"] = steps
		var rs []interface{}
		for _, r := range c.TrafficRoutings {
			e := nf{"service": r.Service, "grace": r.GracePeriodSeconds}
			if r.Ingress != nil {
				e["ingress"] = []interface{}{r.Ingress.ClassType, r.Ingress.Name}
			}
			if r.Gateway != nil {
				e["gateway"] = []interface{}{nfJSON(r.Gateway.HTTPRouteName)}
			}
			var cr []interface{}
			for _, x := range r.CustomNetworkRefs {
				cr = append(cr, []interface{}{x.APIVersion, x.Kind, x.Name})
			}
			e["custom"] = cr
			rs = append(rs, e)
		}
		cn["routes"] = rs
		cn["failureThreshold"] = nfIOS(c.FailureThreshold)
		if c.PatchPodTemplateMetadata != nil {
			cn["patch"] = nf{"a": nfMap(c.PatchPodTemplateMetadata.Annotations), "l": nfMap(c.PatchPodTemplateMetadata.Labels)}
		}
		cn["disableGenerateCanaryService"] = c.DisableGenerateCanaryService
		out["canary"] = cn
	}
	st := nf{"observedGeneration": ro.Status.ObservedGeneration, "phase": string(ro.Status.Phase), "message": ro.Status.Message, "conditions": nfCondsA(ro.Status.Conditions)}
	if cs := ro.Status.CanaryStatus; cs != nil {
		st["canaryStatus"] = nf{"owg": cs.ObservedWorkloadGeneration, "orid": cs.ObservedRolloutID, "hash": cs.RolloutHash, "stable": cs.StableRevision,
			"canaryRev": cs.CanaryRevision, "pth": cs.PodTemplateHash, "cr": cs.CanaryReplicas, "crr": cs.CanaryReadyReplicas, "next": cs.NextStepIndex,
			"cur": cs.CurrentStepIndex, "state": string(cs.CurrentStepState), "msg": cs.Message, "lut": nfTimeP(cs.LastUpdateTime), "fin": string(cs.FinalisingStep)}
	}
	out["status"] = st
	return out
}

// ---- cases -------------------------------------------------------------------------------------

func c20AlphaRollout(rng *rand.Rand, res *core.CaseResult, idx int) {
	ro, sig := genAlphaRollout(rng)
	before := nfAlphaRollout(ro)
	input := gen.JSONOf(ro)
	beta := &v1beta1.Rollout{}
	var err error
	if pi := core.Try(func() { err = ro.DeepCopy().ConvertTo(beta) }); pi != nil {
		res.Violate("c20:panic:Rollout.ConvertTo:"+pi.Site+":"+core.NormPanic(pi.Value), "ConvertTo panicked: "+pi.Value, nf{"input": input, "stack": pi.Stack})
		return
	}
	if err != nil {
		res.Violate("c20:error:Rollout.ConvertTo", err.Error(), nf{"input": input})
		return
	}
	// stored as v1beta1: go through JSON as the API server would
	stored := &v1beta1.Rollout{}
	_ = json.Unmarshal(gen.JSONOf(beta), stored)
	back := &v1alpha1.Rollout{}
	if pi := core.Try(func() { err = back.ConvertFrom(stored) }); pi != nil {
		res.Violate("c20:panic:Rollout.ConvertFrom:"+pi.Site+":"+core.NormPanic(pi.Value), "ConvertFrom panicked: "+pi.Value, nf{"input": input, "stack": pi.Stack})
		return
	}
	if err != nil {
		res.Violate("c20:error:Rollout.ConvertFrom", err.Error(), nf{"input": input})
		return
	}
	res.Count("roundtrips_compared", 1)
	res.Count("alpha_rollout_roundtrips", 1)
	after := nfAlphaRollout(back)
	if d := gen.FirstDiff("", before, after); d != "" {
		res.Violate("c20:loss:v1alpha1.Rollout:"+d, "v1alpha1 -> v1beta1 -> v1alpha1 changed meaning at "+d, nf{"input": input, "before": before, "after": after})
	}
	if !strings.Contains(sig, ":m0:") {
		res.AddSig(sig)
	}
	if idx < 8 {
		res.Sample = nf{"kind": "v1alpha1.Rollout", "input": input}
	}
}

func genAlphaBR(rng *rand.Rand) (*v1alpha1.BatchRelease, string) {
	br := &v1alpha1.BatchRelease{ObjectMeta: genMeta(rng, false)}
	mask := 0
	style := gen.Pick(rng, "", "", "partition", "Partition", "canary", "Canary", "bluegreen", "BlueGreen")
	if style != "" || gen.Chance(rng, 20) {
		if br.Annotations == nil {
			br.Annotations = map[string]string{}
		}
		br.Annotations[v1alpha1.RolloutStyleAnnotation] = style
	}
	switch strings.ToLower(style) {
	case "partition":
		br.Spec.ReleasePlan.RollingStyle = v1alpha1.PartitionRollingStyle
	case "canary":
		br.Spec.ReleasePlan.RollingStyle = v1alpha1.CanaryRollingStyle
	case "bluegreen":
		br.Spec.ReleasePlan.RollingStyle = v1alpha1.BlueGreenRollingStyle
	}
	if gen.Chance(rng, 85) {
		mask |= 1
		br.Spec.TargetRef.WorkloadRef = &v1alpha1.WorkloadRef{APIVersion: gen.Pick(rng, "apps/v1", "apps.kruise.io/v1alpha1"), Kind: gen.Pick(rng, "Deployment", "CloneSet"), Name: gen.Pick(rng, "echo", "w")}
	}
	p := &br.Spec.ReleasePlan
	nb := rng.Intn(5)
	for i := 0; i < nb; i++ {
		p.Batches = append(p.Batches, v1alpha1.ReleaseBatch{CanaryReplicas: genIntOrStr(rng)})
	}
	if gen.Chance(rng, 60) {
		mask |= 2
		p.BatchPartition = gen.I32p(int32(rng.Intn(5)))
	}
	p.RolloutID = gen.Pick(rng, "", "r1")
	if gen.Chance(rng, 30) {
		mask |= 4
		v := genIntOrStr(rng)
		p.FailureThreshold = &v
	}
	p.FinalizingPolicy = v1alpha1.FinalizingPolicyType(gen.Pick(rng, "", "WaitResume", "Immediate"))
	if gen.Chance(rng, 30) {
		mask |= 8
		p.PatchPodTemplateMetadata = &v1alpha1.PatchPodTemplateMetadata{Annotations: genMap(rng, true), Labels: genMap(rng, true)}
	}
	p.EnableExtraWorkloadForCanary = gen.Chance(rng, 50)
	s := &br.Status
	s.Conditions = genConditionsA(rng)
	s.StableRevision, s.UpdateRevision = gen.Pick(rng, "", "s"), gen.Pick(rng, "", "u")
	s.ObservedGeneration, s.ObservedRolloutID, s.ObservedWorkloadReplicas = int64(rng.Intn(5)), gen.Pick(rng, "", "r1"), int32(rng.Intn(10))
	if gen.Chance(rng, 30) {
		s.CollisionCount = gen.I32p(int32(rng.Intn(3)))
	}
	s.ObservedReleasePlanHash = gen.Pick(rng, "", "h")
	s.Phase = v1alpha1.RolloutPhase(gen.Pick(rng, "", "Preparing", "Progressing", "Finalizing", "Completed"))
	s.CanaryStatus = v1alpha1.BatchReleaseCanaryStatus{CurrentBatchState: v1alpha1.BatchReleaseBatchStateType(gen.Pick(rng, "", "Upgrading", "Verifying", "Ready")),
		CurrentBatch: int32(rng.Intn(5)), UpdatedReplicas: int32(rng.Intn(10)), UpdatedReadyReplicas: int32(rng.Intn(10))}
	if gen.Chance(rng, 40) {
		mask |= 16
		t := genTime(rng)
		s.CanaryStatus.BatchReadyTime = &t
	}
	if gen.Chance(rng, 30) {
		mask |= 32
		s.CanaryStatus.NoNeedUpdateReplicas = gen.I32p(int32(rng.Intn(5)))
	}
	return br, fmt.Sprintf("aBR:m%d:b%d:c%d:%s", mask, nb, len(s.Conditions), strings.ToLower(style))
}

func nfStyleBR(annos map[string]string) string {
	s := strings.ToLower(annos[v1alpha1.RolloutStyleAnnotation])
	switch s {
	case "partition", "canary", "bluegreen":
		return s
	}
	return ""
}

func nfAlphaBR(br *v1alpha1.BatchRelease) nf {
	out := nf{"meta": nfMeta(br.ObjectMeta, v1alpha1.RolloutStyleAnnotation), "style": nfStyleBR(br.Annotations)}
	if w := br.Spec.TargetRef.WorkloadRef; w != nil {
		out["workloadRef"] = []interface{}{w.APIVersion, w.Kind, w.Name}
	} else {
		out["workloadRef"] = []interface{}{"", "", ""}
	}
	p := br.Spec.ReleasePlan
	var bs []interface{}
	for _, b := range p.Batches {
		bs = append(bs, b.CanaryReplicas.String())
	}
	pl := nf{"batches": bs, "batchPartition": nfI32(p.BatchPartition), "rolloutID": p.RolloutID, "failureThreshold": nfIOS(p.FailureThreshold),
		"finalizingPolicy": string(p.FinalizingPolicy), "enableExtra": p.EnableExtraWorkloadForCanary}
	if p.PatchPodTemplateMetadata != nil {
		pl["patch"] = nf{"a": nfMap(p.PatchPodTemplateMetadata.Annotations), "l": nfMap(p.PatchPodTemplateMetadata.Labels)}
	}
	out["plan"] = pl
	s := br.Status
	out["status"] = nf{"conditions": nfCondsA(s.Conditions), "stable": s.StableRevision, "update": s.UpdateRevision, "og": s.ObservedGeneration, "orid": s.ObservedRolloutID,
		"owr": s.ObservedWorkloadReplicas, "cc": nfI32(s.CollisionCount), "hash": s.ObservedReleasePlanHash, "phase": string(s.Phase),
		"cs": nf{"state": string(s.CanaryStatus.CurrentBatchState), "cur": s.CanaryStatus.CurrentBatch, "brt": nfTimeP(s.CanaryStatus.BatchReadyTime),
			"ur": s.CanaryStatus.UpdatedReplicas, "urr": s.CanaryStatus.UpdatedReadyReplicas, "nnu": nfI32(s.CanaryStatus.NoNeedUpdateReplicas)}}
	return out
}

func c20AlphaBR(rng *rand.Rand, res *core.CaseResult, idx int) {
	br, sig := genAlphaBR(rng)
	before := nfAlphaBR(br)
	input := gen.JSONOf(br)
	beta := &v1beta1.BatchRelease{}
	var err error
	if pi := core.Try(func() { err = br.DeepCopy().ConvertTo(beta) }); pi != nil {
		res.Violate("c20:panic:BatchRelease.ConvertTo:"+pi.Site+":"+core.NormPanic(pi.Value), "ConvertTo panicked: "+pi.Value, nf{"input": input, "stack": pi.Stack})
		return
	}
	if err != nil {
		res.Violate("c20:error:BatchRelease.ConvertTo", err.Error(), nf{"input": input})
		return
	}
	stored := &v1beta1.BatchRelease{}
	_ = json.Unmarshal(gen.JSONOf(beta), stored)
	back := &v1alpha1.BatchRelease{}
	if pi := core.Try(func() { err = back.ConvertFrom(stored) }); pi != nil {
		res.Violate("c20:panic:BatchRelease.ConvertFrom:"+pi.Site+":"+core.NormPanic(pi.Value), "ConvertFrom panicked: "+pi.Value, nf{"input": input, "stack": pi.Stack})
		return
	}
	if err != nil {
		res.Violate("c20:error:BatchRelease.ConvertFrom", err.Error(), nf{"input": input})
		return
	}
	res.Count("roundtrips_compared", 1)
	res.Count("alpha_batchrelease_roundtrips", 1)
	after := nfAlphaBR(back)
	if d := gen.FirstDiff("", before, after); d != "" {
		res.Violate("c20:loss:v1alpha1.BatchRelease:"+d, "v1alpha1 -> v1beta1 -> v1alpha1 changed meaning at "+d, nf{"input": input, "before": before, "after": after})
	}
	if !strings.Contains(sig, ":m0:") {
		res.AddSig(sig)
	}
	if idx < 8 {
		res.Sample = nf{"kind": "v1alpha1.BatchRelease", "input": input}
	}
}

// ---- v1beta1 -> v1alpha1 -> v1beta1 --------------------------------------------------------------

func genBetaRollout(rng *rand.Rand) (*v1beta1.Rollout, string) {
	ro := &v1beta1.Rollout{ObjectMeta: genMeta(rng, false)}
	if gen.Chance(rng, 25) {
		// a stored object created through v1alpha1 keeps the style annotation in its metadata; the v1beta1 field is the
		// truth and may have been changed since (the annotation is then stale)
		if ro.Annotations == nil {
			ro.Annotations = map[string]string{}
		}
		ro.Annotations[v1alpha1.RolloutStyleAnnotation] = gen.Pick(rng, "partition", "Partition", "canary", "Canary", "")
	}
	ro.Spec.WorkloadRef = v1beta1.ObjectRef{APIVersion: gen.Pick(rng, "apps/v1", "apps.kruise.io/v1alpha1"), Kind: gen.Pick(rng, "Deployment", "CloneSet"), Name: gen.Pick(rng, "echo", "w")}
	ro.Spec.Disabled = gen.Chance(rng, 20)
	ro.Spec.Strategy.Paused = gen.Chance(rng, 20)
	mask := 0
	nsteps := 0
	var c *v1beta1.CanaryStrategy
	if gen.Chance(rng, 92) {
		mask |= 1
		c = &v1beta1.CanaryStrategy{}
		ro.Spec.Strategy.Canary = c
		nsteps = rng.Intn(5)
		for i := 0; i < nsteps; i++ {
			s := v1beta1.CanaryStep{}
			v := genIntOrStr(rng)
			s.Replicas = &v
			if gen.Chance(rng, 60) {
				s.Traffic = gen.Strp(fmt.Sprintf("%d%%", rng.Intn(101)))
			}
			if gen.Chance(rng, 40) {
				s.Pause.Duration = gen.I32p(int32(rng.Intn(100)))
			}
			for j, m := 0, rng.Intn(3); j < m; j++ {
				s.Matches = append(s.Matches, v1beta1.HttpRouteMatch{Headers: genHeaderMatches(rng)})
			}
			s.RequestHeaderModifier = genHeaderModifier(rng)
			c.Steps = append(c.Steps, s)
		}
		for _, r := range genRoutesA(rng) {
			c.TrafficRoutings = append(c.TrafficRoutings, betaRouteFromAlphaShape(r))
		}
		if gen.Chance(rng, 30) {
			mask |= 2
			v := genIntOrStr(rng)
			c.FailureThreshold = &v
		}
		if gen.Chance(rng, 30) {
			mask |= 4
			c.PatchPodTemplateMetadata = &v1beta1.PatchPodTemplateMetadata{Annotations: genMap(rng, true), Labels: genMap(rng, true)}
		}
		c.EnableExtraWorkloadForCanary = gen.Chance(rng, 50)
		if gen.Chance(rng, 30) {
			mask |= 8
			c.TrafficRoutingRef = gen.Pick(rng, "tr", "tr2")
		}
		if gen.Chance(rng, 30) {
			mask |= 16
			c.DisableGenerateCanaryService = true
		}
	}
	ro.Status.ObservedGeneration = int64(rng.Intn(4))
	ro.Status.Phase = v1beta1.RolloutPhase(gen.Pick(rng, "", "Initial", "Healthy", "Progressing"))
	ro.Status.Message = gen.Pick(rng, "", "msg")
	for _, cnd := range genConditionsA(rng) {
		ro.Status.Conditions = append(ro.Status.Conditions, v1beta1.RolloutCondition{Type: v1beta1.RolloutConditionType(cnd.Type), Status: cnd.Status, Reason: cnd.Reason, Message: cnd.Message,
			LastUpdateTime: cnd.LastUpdateTime, LastTransitionTime: cnd.LastTransitionTime})
	}
	if gen.Chance(rng, 60) {
		mask |= 32
		cs := &v1beta1.CanaryStatus{CanaryRevision: gen.Pick(rng, "", "c1"), CanaryReplicas: int32(rng.Intn(9)), CanaryReadyReplicas: int32(rng.Intn(9))}
		cs.ObservedWorkloadGeneration, cs.ObservedRolloutID, cs.RolloutHash, cs.StableRevision, cs.PodTemplateHash = int64(rng.Intn(9)), gen.Pick(rng, "", "r1"), gen.Pick(rng, "", "h"), gen.Pick(rng, "", "s1"), gen.Pick(rng, "", "p")
		cs.CurrentStepIndex, cs.NextStepIndex = int32(rng.Intn(6)), int32(rng.Intn(6)-1)
		cs.CurrentStepState = v1beta1.CanaryStepState(gen.Pick(rng, "StepUpgrade", "StepTrafficRouting", "StepPaused", "StepReady", "Completed"))
		cs.FinalisingStep = v1beta1.FinalisingStepType(gen.Pick(rng, "", "END"))
		cs.Message = gen.Pick(rng, "", "m")
		if gen.Chance(rng, 50) {
			t := genTime(rng)
			cs.LastUpdateTime = &t
		}
		ro.Status.CanaryStatus = cs
	}
	routes := 0
	if c != nil {
		routes = len(c.TrafficRoutings)
	}
	return ro, fmt.Sprintf("bRO:m%d:s%d:r%d:c%d", mask, nsteps, routes, len(ro.Status.Conditions))
}

func betaRouteFromAlphaShape(r v1alpha1.TrafficRoutingRef) v1beta1.TrafficRoutingRef {
	o := v1beta1.TrafficRoutingRef{Service: r.Service, GracePeriodSeconds: r.GracePeriodSeconds}
	if r.Ingress != nil {
		o.Ingress = &v1beta1.IngressTrafficRouting{ClassType: r.Ingress.ClassType, Name: r.Ingress.Name}
	}
	if r.Gateway != nil {
		o.Gateway = &v1beta1.GatewayTrafficRouting{HTTPRouteName: r.Gateway.HTTPRouteName}
	}
	for _, x := range r.CustomNetworkRefs {
		o.CustomNetworkRefs = append(o.CustomNetworkRefs, v1beta1.ObjectRef{APIVersion: x.APIVersion, Kind: x.Kind, Name: x.Name})
	}
	return o
}

func nfBetaRollout(ro *v1beta1.Rollout) nf {
	out := nf{"meta": nfMeta(ro.ObjectMeta, v1alpha1.RolloutStyleAnnotation, v1alpha1.TrafficRoutingAnnotation)}
	w := ro.Spec.WorkloadRef
	out["workloadRef"] = []interface{}{w.APIVersion, w.Kind, w.Name}
	out["disabled"], out["paused"] = ro.Spec.Disabled, ro.Spec.Strategy.Paused
	if c := ro.Spec.Strategy.Canary; c != nil {
		cn := nf{}
		var steps []interface{}
		for _, s := range c.Steps {
			var ms []interface{}
			for _, m := range s.Matches {
				ms = append(ms, nfHeaders(m.Headers))
			}
			steps = append(steps, nf{"replicas": nfIOS(s.Replicas), "traffic": nfJSON(s.Traffic), "pause": nfI32(s.Pause.Duration), "matches": ms, "hdrmod": nfJSON(s.RequestHeaderModifier)})
		}
		cn["steps"] = steps
		var rs []interface{}
		for _, r := range c.TrafficRoutings {
			e := nf{"service": r.Service, "grace": r.GracePeriodSeconds}
			if r.Ingress != nil {
				e["ingress"] = []interface{}{r.Ingress.ClassType, r.Ingress.Name}
			}
			if r.Gateway != nil {
				e["gateway"] = []interface{}{nfJSON(r.Gateway.HTTPRouteName)}
			}
			var cr []interface{}
			for _, x := range r.CustomNetworkRefs {
				cr = append(cr, []interface{}{x.APIVersion, x.Kind, x.Name})
			}
			e["custom"] = cr
			rs = append(rs, e)
		}
		cn["routes"] = rs
		cn["failureThreshold"] = nfIOS(c.FailureThreshold)
		if c.PatchPodTemplateMetadata != nil {
			cn["patch"] = nf{"a": nfMap(c.PatchPodTemplateMetadata.Annotations), "l": nfMap(c.PatchPodTemplateMetadata.Labels)}
		}
		cn["enableExtra"] = c.EnableExtraWorkloadForCanary
		cn["trafficRoutingRef"] = c.TrafficRoutingRef
		cn["disableGenerateCanaryService"] = c.DisableGenerateCanaryService
		out["canary"] = cn
	}
	st := nf{"og": ro.Status.ObservedGeneration, "phase": string(ro.Status.Phase), "message": ro.Status.Message, "conditions": nfCondsB(ro.Status.Conditions)}
	if cs := ro.Status.CanaryStatus; cs != nil {
		st["canaryStatus"] = nf{"owg": cs.ObservedWorkloadGeneration, "orid": cs.ObservedRolloutID, "hash": cs.RolloutHash, "stable": cs.StableRevision,
			"canaryRev": cs.CanaryRevision, "pth": cs.PodTemplateHash, "cr": cs.CanaryReplicas, "crr": cs.CanaryReadyReplicas, "next": cs.NextStepIndex,
			"cur": cs.CurrentStepIndex, "state": string(cs.CurrentStepState), "msg": cs.Message, "lut": nfTimeP(cs.LastUpdateTime), "fin": string(cs.FinalisingStep)}
	}
	out["status"] = st
	return out
}

func c20BetaRollout(rng *rand.Rand, res *core.CaseResult, idx int) {
	ro, sig := genBetaRollout(rng)
	before := nfBetaRollout(ro)
	input := gen.JSONOf(ro)
	alpha := &v1alpha1.Rollout{}
	var err error
	if pi := core.Try(func() { err = alpha.ConvertFrom(ro.DeepCopy()) }); pi != nil {
		res.Violate("c20:panic:Rollout.ConvertFrom:"+pi.Site+":"+core.NormPanic(pi.Value), "ConvertFrom panicked: "+pi.Value, nf{"input": input, "stack": pi.Stack})
		return
	}
	if err != nil {
		res.Violate("c20:error:Rollout.ConvertFrom", err.Error(), nf{"input": input})
		return
	}
	// the client reads v1alpha1 JSON, modifies nothing, writes it back
	rw := &v1alpha1.Rollout{}
	_ = json.Unmarshal(gen.JSONOf(alpha), rw)
	back := &v1beta1.Rollout{}
	if pi := core.Try(func() { err = rw.ConvertTo(back) }); pi != nil {
		res.Violate("c20:panic:Rollout.ConvertTo:"+pi.Site+":"+core.NormPanic(pi.Value), "ConvertTo panicked: "+pi.Value, nf{"input": input, "stack": pi.Stack})
		return
	}
	if err != nil {
		res.Violate("c20:error:Rollout.ConvertTo", err.Error(), nf{"input": input})
		return
	}
	res.Count("roundtrips_compared", 1)
	res.Count("beta_rollout_roundtrips", 1)
	after := nfBetaRollout(back)
	if d := gen.FirstDiff("", before, after); d != "" {
		res.Violate("c20:loss:v1beta1.Rollout:"+d, "v1beta1 -> v1alpha1 -> v1beta1 changed an expressible field at "+d, nf{"input": input, "before": before, "after": after})
	}
	if !strings.Contains(sig, ":m0:") {
		res.AddSig(sig)
	}
	if idx < 8 {
		res.Sample = nf{"kind": "v1beta1.Rollout", "input": input}
	}
}

func c20BetaBR(rng *rand.Rand, res *core.CaseResult, idx int) {
	// build from the alpha generator's shape so that only alpha-expressible fields are used
	a, sig := genAlphaBR(rng)
	if a.Spec.TargetRef.WorkloadRef == nil {
		a.Spec.TargetRef.WorkloadRef = &v1alpha1.WorkloadRef{APIVersion: "apps/v1", Kind: "Deployment", Name: "echo"}
	}
	br := &v1beta1.BatchRelease{}
	b, _ := json.Marshal(a)
	_ = json.Unmarshal(b, br) // identical JSON shape for plan & status
	br.Spec.WorkloadRef = v1beta1.ObjectRef{APIVersion: a.Spec.TargetRef.WorkloadRef.APIVersion, Kind: a.Spec.TargetRef.WorkloadRef.Kind, Name: a.Spec.TargetRef.WorkloadRef.Name}
	delete(br.Annotations, v1alpha1.RolloutStyleAnnotation)
	input := gen.JSONOf(br)
	before := gen.Canon(nf{"spec": br.Spec, "status": br.Status, "meta": nfMeta(br.ObjectMeta, v1alpha1.RolloutStyleAnnotation)})
	alpha := &v1alpha1.BatchRelease{}
	var err error
	if pi := core.Try(func() { err = alpha.ConvertFrom(br.DeepCopy()) }); pi != nil {
		res.Violate("c20:panic:BatchRelease.ConvertFrom:"+pi.Site+":"+core.NormPanic(pi.Value), "ConvertFrom panicked: "+pi.Value, nf{"input": input, "stack": pi.Stack})
		return
	}
	if err != nil {
		res.Violate("c20:error:BatchRelease.ConvertFrom", err.Error(), nf{"input": input})
		return
	}
	rw := &v1alpha1.BatchRelease{}
	_ = json.Unmarshal(gen.JSONOf(alpha), rw)
	back := &v1beta1.BatchRelease{}
	if pi := core.Try(func() { err = rw.ConvertTo(back) }); pi != nil {
		res.Violate("c20:panic:BatchRelease.ConvertTo:"+pi.Site+":"+core.NormPanic(pi.Value), "ConvertTo panicked: "+pi.Value, nf{"input": input, "stack": pi.Stack})
		return
	}
	if err != nil {
		res.Violate("c20:error:BatchRelease.ConvertTo", err.Error(), nf{"input": input})
		return
	}
	res.Count("roundtrips_compared", 1)
	res.Count("beta_batchrelease_roundtrips", 1)
	// nil == empty inside patchPodTemplateMetadata
	norm := func(x *v1beta1.BatchRelease) interface{} {
		y := x.DeepCopy()
		if p := y.Spec.ReleasePlan.PatchPodTemplateMetadata; p != nil {
			if len(p.Annotations) == 0 {
				p.Annotations = nil
			}
			if len(p.Labels) == 0 {
				p.Labels = nil
			}
		}
		return gen.Canon(nf{"spec": y.Spec, "status": y.Status, "meta": nfMeta(y.ObjectMeta, v1alpha1.RolloutStyleAnnotation)})
	}
	before = norm(br)
	after := norm(back)
	if d := gen.FirstDiff("", before, after); d != "" {
		res.Violate("c20:loss:v1beta1.BatchRelease:"+d, "v1beta1 -> v1alpha1 -> v1beta1 changed an expressible field at "+d, nf{"input": input, "before": before, "after": after})
	}
	if !strings.Contains(sig, ":m0:") {
		res.AddSig("b" + sig)
	}
	if idx < 8 {
		res.Sample = nf{"kind": "v1beta1.BatchRelease", "input": input}
	}
}
