package c12labels

import (
	"fmt"
	"math/rand"
	"strconv"

	"verif/harness/gen"
)

// ---- case description (pure data; goes into replay files) ------------------------------------------

const (
	c12NS       = "default"
	c12Workload = "demo"
	c12ThisRID  = "rid-7"
	c12OtherRID = "rid-6"
)

// batchSpec is one releasePlan batch: canaryReplicas = V (int) or "V%" (percent).
type batchSpec struct {
	Pct bool `json:"pct,omitempty"`
	V   int  `json:"v"`
}

func (b batchSpec) String() string {
	if b.Pct {
		return fmt.Sprintf("%d%%", b.V)
	}
	return strconv.Itoa(b.V)
}

// podSpec describes one pod. Rev is the ground truth of the generator (the oracle never derives it from labels).
type podSpec struct {
	Name string `json:"name"`
	Rev  string `json:"rev"` // new | old | foreign
	// Form = how the pod carries its revision.
	//   Deployment:            rs (pod-template-hash of the ReplicaSet only) | rs+crh (controller-revision-hash already patched by an earlier pass)
	//   CloneSet/StatefulSet:  crh (controller-revision-hash=<name>-<hash>) | crh+pth (plus pod-template-hash=<hash>) | pth (short form only) | none (no revision label)
	Form         string  `json:"form"`
	Terminating  bool    `json:"terminating,omitempty"`
	NotReady     bool    `json:"notReady,omitempty"`
	RID          *string `json:"rolloutID,omitempty"` // pre-existing rollouts.kruise.io/rollout-id label (nil = absent)
	BID          *string `json:"batchID,omitempty"`   // pre-existing rollouts.kruise.io/rollout-batch-id label (nil = absent)
	NoNeedUpdate bool    `json:"noNeedUpdate,omitempty"`
}

type caseSpec struct {
	Owner        string      `json:"owner"` // Deployment | CloneSet | StatefulSet
	Replicas     int         `json:"replicas"`
	Batches      []batchSpec `json:"batches"`
	CurrentBatch int         `json:"currentBatch"` // 0-based, as in status.canaryStatus.currentBatch
	RolloutID    string      `json:"rolloutID"`
	Filter       bool        `json:"filter,omitempty"` // ctx.FilterFunc = FilterPodsForUnorderedUpdate (set by the controls when noNeedUpdateReplicas != nil)
	NoNeed       int         `json:"noNeed,omitempty"` // status.canaryStatus.noNeedUpdateReplicas when Filter
	Pods         []podSpec   `json:"pods"`
	// SuffixOld (Deployment only): the old ReplicaSet's pod-template-hash is "6" + the update revision, i.e. the update
	// revision is a proper suffix of an old pod's hash label (hashes have no fixed length). The unchanged code asks
	// "does the update revision end with the pod's hash", which is false for the longer string.
	SuffixOld bool `json:"suffixOld,omitempty"`
}

func (s caseSpec) clone() caseSpec {
	c := s
	c.Batches = append([]batchSpec(nil), s.Batches...)
	c.Pods = append([]podSpec(nil), s.Pods...)
	return c
}

// ---- the oracle's own plan arithmetic -----------------------------------------------------------------

// plannedTotal(i) = pods batch i (0-based) calls for in total: int as is, percent rounded up, clamped to [0, replicas].
func plannedTotal(b batchSpec, replicas int) int {
	v := b.V
	if b.Pct {
		v = (b.V*replicas + 99) / 100 // own ceil; V >= 0
	}
	if v > replicas {
		v = replicas
	}
	if v < 0 {
		v = 0
	}
	return v
}

// increments()[i] = max(0, planned(i) - planned(i-1)), planned(-1) = 0.
func increments(s caseSpec) []int {
	out := make([]int, len(s.Batches))
	prev := 0
	for i, b := range s.Batches {
		p := plannedTotal(b, s.Replicas)
		if d := p - prev; d > 0 {
			out[i] = d
		}
		prev = p
	}
	return out
}

func monotone(s caseSpec) bool {
	prev := 0
	for _, b := range s.Batches {
		p := plannedTotal(b, s.Replicas)
		if p < prev {
			return false
		}
		prev = p
	}
	return true
}

// validBID: the string is exactly the decimal form of a batch number 1..n.
func validBID(v string, n int) (int, bool) {
	for i := 1; i <= n; i++ {
		if v == strconv.Itoa(i) {
			return i, true
		}
	}
	return 0, false
}

// label classes of a pod's pre-existing labels w.r.t. release (rid, n batches)
const (
	lcNone     = "none"     // neither label
	lcThis     = "this"     // this rollout-id + batch id 1..n  (= "already labelled for this release")
	lcStale    = "stale"    // another (or empty) rollout-id value, whatever the batch id
	lcGarbage  = "garbage"  // this rollout-id with a batch id that names no batch (non-numeric, <1, >n, empty, absent)
	lcOrphanID = "orphanid" // batch-id label without a rollout-id label
)

func labelClass(rid, bid *string, thisRID string, n int) string {
	if rid == nil && bid == nil {
		return lcNone
	}
	if rid == nil {
		return lcOrphanID
	}
	if thisRID == "" || *rid != thisRID {
		return lcStale
	}
	if bid != nil {
		if _, ok := validBID(*bid, n); ok {
			return lcThis
		}
	}
	return lcGarbage
}

// ---- generator -----------------------------------------------------------------------------------------

var garbageBIDs = []string{"0", "-1", "-3", "99", "abc", "1a", "", "1.5", "one", "-"}

func genCase(rng *rand.Rand) caseSpec {
	s := caseSpec{Owner: gen.Pick(rng, "Deployment", "Deployment", "CloneSet", "CloneSet", "StatefulSet")}
	npods := 2 + rng.Intn(29)
	s.Replicas = npods
	if gen.Chance(rng, 45) {
		s.Replicas = 1 + rng.Intn(30)
	}
	nb := 1 + rng.Intn(5)
	style := rng.Intn(3) // 0 int, 1 percent, 2 mixed
	mono := gen.Chance(rng, 70)
	// targets
	targets := make([]int, nb)
	for i := range targets {
		targets[i] = rng.Intn(s.Replicas + 1)
	}
	if mono {
		for i := 1; i < nb; i++ {
			for j := i; j > 0 && targets[j] < targets[j-1]; j-- {
				targets[j], targets[j-1] = targets[j-1], targets[j]
			}
		}
		if gen.Chance(rng, 50) {
			targets[nb-1] = s.Replicas
		}
	}
	for i := 0; i < nb; i++ {
		pct := style == 1 || (style == 2 && gen.Chance(rng, 50))
		b := batchSpec{Pct: pct, V: targets[i]}
		if pct {
			b.V = targets[i] * 100 / s.Replicas
			if gen.Chance(rng, 3) {
				b.V = 100 + rng.Intn(60) // over 100%: must be clamped
			}
		} else if gen.Chance(rng, 3) {
			b.V = s.Replicas + 1 + rng.Intn(3) // more than replicas: must be clamped
		}
		s.Batches = append(s.Batches, b)
	}
	s.CurrentBatch = rng.Intn(nb)
	s.RolloutID = c12ThisRID
	if gen.Chance(rng, 4) {
		s.RolloutID = ""
	}
	garbageCase := gen.Chance(rng, 35)
	staleCase := gen.Chance(rng, 45)
	termCase := gen.Chance(rng, 45)
	labelledPct := rng.Intn(60)
	pNew := 20 + rng.Intn(75)
	// the Deployment controls never set a FilterFunc (CloneSet / StatefulSet / DaemonSet controls do when noNeedUpdateReplicas != nil)
	s.Filter = s.Owner != "Deployment" && gen.Chance(rng, 30)
	noNeedLabels := s.Filter && gen.Chance(rng, 50)

	for i := 0; i < npods; i++ {
		p := podSpec{Name: fmt.Sprintf("%s-%d", c12Workload, i)}
		switch r := rng.Intn(100); {
		case r < pNew:
			p.Rev = "new"
		case r < pNew+(100-pNew)*4/5:
			p.Rev = "old"
		default:
			p.Rev = "foreign"
		}
		switch s.Owner {
		case "Deployment":
			p.Form = "rs"
			if gen.Chance(rng, 30) {
				p.Form = "rs+crh"
			}
		case "CloneSet":
			p.Form = gen.Pick(rng, "crh", "crh", "crh+pth", "crh+pth", "pth")
			if p.Rev == "foreign" && gen.Chance(rng, 40) {
				p.Form = "none"
			}
		default:
			p.Form = "crh"
			if p.Rev == "foreign" && gen.Chance(rng, 30) {
				p.Form = "none"
			}
		}
		p.Terminating = termCase && gen.Chance(rng, 18)
		p.NotReady = gen.Chance(rng, 20)
		// pre-existing labels
		switch r := rng.Intn(100); {
		case garbageCase && r < 14:
			switch rng.Intn(8) {
			case 0, 1, 2, 3, 4: // this rollout-id, batch id that names no batch
				p.RID = gen.Strp(c12ThisRID)
				switch rng.Intn(6) {
				case 0:
					p.BID = gen.Strp(strconv.Itoa(nb + 1))
				case 1: // absent
				default:
					p.BID = gen.Strp(garbageBIDs[rng.Intn(len(garbageBIDs))])
				}
			case 5: // batch id only
				p.BID = gen.Strp(gen.Pick(rng, "1", "2", "abc", "0"))
			case 6: // empty rollout-id value
				p.RID = gen.Strp("")
				p.BID = gen.Strp(gen.Pick(rng, "1", "abc", ""))
			case 7: // foreign rollout-id with garbage batch id
				p.RID = gen.Strp(c12OtherRID)
				p.BID = gen.Strp(garbageBIDs[rng.Intn(len(garbageBIDs))])
			}
		case staleCase && r >= 14 && r < 30: // labelled by an earlier release
			p.RID = gen.Strp(c12OtherRID)
			p.BID = gen.Strp(strconv.Itoa(1 + rng.Intn(nb+1)))
		case r >= 30 && r < 30+labelledPct: // labelled for this release
			p.RID = gen.Strp(c12ThisRID)
			b := 1 + rng.Intn(s.CurrentBatch+1)
			if gen.Chance(rng, 12) {
				b = 1 + rng.Intn(nb) // possibly a batch that has not started yet
			}
			p.BID = gen.Strp(strconv.Itoa(b))
		}
		if noNeedLabels && gen.Chance(rng, 25) {
			p.NoNeedUpdate = true
		}
		s.Pods = append(s.Pods, p)
	}
	if s.Filter {
		for _, p := range s.Pods {
			if p.NoNeedUpdate {
				s.NoNeed++
			}
		}
	}
	// (no extra draw, so that the other cases of a seed stay what they were)
	s.SuffixOld = s.Owner == "Deployment" && (len(s.Pods)+s.Replicas+len(s.Batches))%4 == 0
	return s
}

// ---- shrinking: greedy, keeps a candidate iff the same fingerprint still fires --------------------------

func shrink(s caseSpec, fp string) caseSpec {
	fires := func(c caseSpec) bool {
		o := execute(c)
		for _, v := range o.viols {
			if v.fp == fp {
				return true
			}
		}
		return false
	}
	cur := s.clone()
	// drop pods; alone, or together with one unit of the plan (batch values from some batch on, and replicas)
	for round := 0; round < 4; round++ {
		progress := false
		for i := len(cur.Pods) - 1; i >= 0 && len(cur.Pods) > 1; i-- {
			if i >= len(cur.Pods) {
				continue
			}
			c := cur.clone()
			c.Pods = append(c.Pods[:i:i], c.Pods[i+1:]...)
			if fires(c) {
				cur, progress = c, true
				continue
			}
			for from := 0; from < len(cur.Batches); from++ {
				c2 := c.clone()
				ok := c2.Replicas > 1
				c2.Replicas--
				for j := from; j < len(c2.Batches); j++ {
					if c2.Batches[j].Pct {
						ok = false
					} else if c2.Batches[j].V > 0 {
						c2.Batches[j].V--
					}
				}
				if ok && fires(c2) {
					cur, progress = c2, true
					break
				}
			}
		}
		if !progress {
			break
		}
	}
	// drop batches behind the current one, then in front of it
	for len(cur.Batches) > cur.CurrentBatch+1 {
		c := cur.clone()
		c.Batches = c.Batches[:len(c.Batches)-1]
		if !fires(c) {
			break
		}
		cur = c
	}
	for cur.CurrentBatch > 0 {
		c := cur.clone()
		c.Batches = c.Batches[1:]
		c.CurrentBatch--
		if !fires(c) {
			break
		}
		cur = c
	}
	// simplify the rest
	try := func(f func(c *caseSpec)) {
		c := cur.clone()
		f(&c)
		if fires(c) {
			cur = c
		}
	}
	try(func(c *caseSpec) { c.Filter, c.NoNeed = false, 0 })
	try(func(c *caseSpec) { c.Replicas = len(c.Pods) })
	for r := 1; r < cur.Replicas && r <= 3; r++ {
		rr := r
		try(func(c *caseSpec) { c.Replicas = rr })
	}
	for i := range cur.Batches {
		ii := i
		try(func(c *caseSpec) { c.Batches[ii] = batchSpec{V: plannedTotal(c.Batches[ii], c.Replicas)} })
	}
	for i := range cur.Pods {
		ii := i
		try(func(c *caseSpec) { c.Pods[ii].Terminating = false })
		try(func(c *caseSpec) { c.Pods[ii].NotReady = false })
		try(func(c *caseSpec) { c.Pods[ii].NoNeedUpdate = false })
		try(func(c *caseSpec) { c.Pods[ii].RID, c.Pods[ii].BID = nil, nil })
		try(func(c *caseSpec) {
			if c.Owner == "Deployment" {
				c.Pods[ii].Form = "rs"
			} else {
				c.Pods[ii].Form = "crh"
			}
		})
	}
	return cur
}
