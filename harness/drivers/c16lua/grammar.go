package c16lua

// A small random Lua program generator: assignments, arithmetic, table constructors, bounded and (rarely)
// unbounded loops, function definitions and calls, recursion, pcall, metatables, string / table / json library
// calls on small data. Every program must end, through the caller-equivalent sequence, in "table" or "error",
// within the CPU bound, without a panic. Data stay small: no doubling concatenations, no huge string.rep, no
// pathological patterns (those live in the hostile corpus with their own fingerprints).

import (
	"fmt"
	"math/rand"
	"sort"
	"strings"
)

type genProg struct {
	Src  string
	Feat map[string]bool
}

type pg struct {
	rng    *rand.Rand
	feat   map[string]bool
	nfun   int
	depth  int
	loops  int // nesting of bounded loops (keeps iteration product small)
	inFunc bool
	budget int
}

func (g *pg) f(name string) { g.feat[name] = true }
func (g *pg) pick(xs ...string) string {
	return xs[g.rng.Intn(len(xs))]
}
func (g *pg) chance(p int) bool { return g.rng.Intn(100) < p }

var (
	numVars = []string{"n0", "n1", "n2"}
	strVars = []string{"s0", "s1", "s2"}
	tabVars = []string{"t0", "t1", "t2"}
	anyVars = []string{"x0", "x1"}
)

func (g *pg) numLit() string {
	return g.pick("0", "1", "2", "3", "7", "10", "100", "-1", "0.5", "2.25", "1e3", "2^53", "-2^31", "1e308", "(0/0)", "(1/0)", "255", "1e-9")
}

func (g *pg) strLit() string {
	return g.pick(`""`, `"a"`, `"abc"`, `"hello world"`, `"x-canary"`, `"%s"`, `"%d"`, `"10"`, `"0x1f"`, `"1e2"`, `"ключ ✓"`, `"a,b,c"`, `"  pad  "`,
		`"nginx.ingress.kubernetes.io/canary-weight"`, `"line1\nline2"`, `"q\"uote"`, `"\0nul"`, `"[bracket]"`, `"100%"`)
}

func (g *pg) numExpr(d int) string {
	if d <= 0 || g.chance(35) {
		switch g.rng.Intn(6) {
		case 0, 1:
			return g.numLit()
		case 2, 3:
			return g.pick(numVars...)
		case 4:
			return "#" + g.pick(tabVars...)
		default:
			return "#" + g.pick(strVars...)
		}
	}
	switch g.rng.Intn(10) {
	case 0, 1, 2, 3:
		g.f("arith")
		return "(" + g.numExpr(d-1) + " " + g.pick("+", "-", "*", "/", "%", "^") + " " + g.numExpr(d-1) + ")"
	case 4:
		g.f("math")
		return "math." + g.pick("floor", "ceil", "abs", "sqrt", "sin", "exp", "log") + "(" + g.numExpr(d-1) + ")"
	case 5:
		g.f("math")
		return "math." + g.pick("max", "min", "fmod", "pow") + "(" + g.numExpr(d-1) + ", " + g.numExpr(d-1) + ")"
	case 6:
		g.f("tonumber")
		return "(tonumber(" + g.strExpr(d-1) + ") or " + g.numLit() + ")"
	case 7:
		return "-" + g.numExpr(d-1)
	case 8:
		g.f("coerce")
		return "(" + g.pick(`"10"`, `"3"`, `"0x10"`) + " * " + g.numExpr(d-1) + ")"
	default:
		if g.nfun > 0 {
			g.f("call")
			return fmt.Sprintf("(f%d(%s, %s) or 0)", g.rng.Intn(g.nfun), g.anyExpr(d-1), g.anyExpr(d-1))
		}
		return g.numLit()
	}
}

func (g *pg) strExpr(d int) string {
	if d <= 0 || g.chance(35) {
		switch g.rng.Intn(5) {
		case 0, 1:
			return g.strLit()
		case 2, 3:
			return g.pick(strVars...)
		default:
			return g.pick("obj.weight", "obj.canaryService", `(obj.annotations and obj.annotations["kubernetes.io/ingress.class"] or "none")`)
		}
	}
	switch g.rng.Intn(12) {
	case 0, 1, 2:
		g.f("concat")
		return "(" + g.strExpr(d-1) + " .. " + g.pick(g.strExpr(d-1), g.numExpr(d-1)) + ")"
	case 3:
		g.f("tostring")
		return "tostring(" + g.anyExpr(d-1) + ")"
	case 4:
		g.f("string.sub")
		return "string.sub(" + g.strExpr(d-1) + ", " + g.numExpr(0) + ", " + g.numExpr(0) + ")"
	case 5:
		g.f("string.case")
		return "string." + g.pick("upper", "lower", "reverse") + "(" + g.strExpr(d-1) + ")"
	case 6:
		g.f("string.rep")
		return "string.rep(" + g.strExpr(0) + ", " + g.pick("0", "1", "3", "10", "-1", "n0 % 20") + ")"
	case 7:
		g.f("string.format")
		return "string.format(" + g.pick(`"%s=%s"`, `"%d:%s"`, `"%5.2f|%s"`, `"%q %s"`, `"%x-%s"`, `"%s"`) + ", " + g.anyExpr(d-1) + ", " + g.anyExpr(d-1) + ")"
	case 8:
		g.f("string.gsub")
		return "(string.gsub(" + g.strExpr(d-1) + ", " + g.pick(`"a"`, `"%s+"`, `"%d"`, `"[abc]"`, `"(%w+)"`, `"^%s*(.-)%s*$"`, `"."`, `""`) + ", " + g.pick(`"x"`, `"%1"`, `"<%0>"`, `""`, `string.upper`, `{a = "A"}`) + "))"
	case 9:
		g.f("string.match")
		return "(string.match(" + g.strExpr(d-1) + ", " + g.pick(`"%d+"`, `"(%a+)"`, `"^(.-),"`, `"%.(%w+)$"`, `"[^/]+$"`, `"x*"`) + ") or \"\")"
	case 10:
		g.f("json")
		return "(json.encode(" + g.anyExpr(d-1) + ") or \"null\")"
	default:
		g.f("table.concat")
		return "table.concat({" + g.strExpr(0) + ", " + g.strExpr(0) + ", " + g.numExpr(0) + "}, " + g.strLit() + ")"
	}
}

func (g *pg) tabExpr(d int) string {
	if d <= 0 || g.chance(25) {
		if g.chance(60) {
			return g.pick(tabVars...)
		}
		return g.pick("{}", "obj", "(obj.annotations or {})", "(obj.matches or {})", "{1, 2, 3}", `{a = "b"}`)
	}
	g.f("tablector")
	n := g.rng.Intn(4)
	var parts []string
	for i := 0; i < n; i++ {
		switch g.rng.Intn(4) {
		case 0:
			parts = append(parts, g.anyExpr(d-1))
		case 1:
			parts = append(parts, g.pick("a", "b", "name", "weight", "value")+" = "+g.anyExpr(d-1))
		case 2:
			parts = append(parts, "["+g.strExpr(d-1)+"] = "+g.anyExpr(d-1))
		default:
			parts = append(parts, "["+g.numExpr(0)+"] = "+g.anyExpr(d-1))
		}
	}
	return "{" + strings.Join(parts, ", ") + "}"
}

func (g *pg) boolExpr(d int) string {
	if d <= 0 || g.chance(30) {
		return g.pick("true", "false", "nil", g.pick(anyVars...))
	}
	switch g.rng.Intn(6) {
	case 0, 1:
		return "(" + g.numExpr(d-1) + " " + g.pick("<", "<=", ">", ">=", "==", "~=") + " " + g.numExpr(d-1) + ")"
	case 2:
		return "(" + g.strExpr(d-1) + " " + g.pick("==", "~=", "<") + " " + g.strExpr(d-1) + ")"
	case 3:
		return "(" + g.boolExpr(d-1) + " " + g.pick("and", "or") + " " + g.boolExpr(d-1) + ")"
	case 4:
		return "(not " + g.boolExpr(d-1) + ")"
	default:
		g.f("mixedcmp")
		return "(" + g.anyExpr(d-1) + " == " + g.anyExpr(d-1) + ")"
	}
}

func (g *pg) anyExpr(d int) string {
	switch g.rng.Intn(12) {
	case 0, 1, 2:
		return g.numExpr(d)
	case 3, 4, 5:
		return g.strExpr(d)
	case 6, 7:
		return g.tabExpr(d)
	case 8:
		return g.boolExpr(d)
	case 9:
		return g.pick(anyVars...)
	case 10:
		g.f("index")
		return g.pick(tabVars...) + g.pick(".a", ".name", "[1]", "[n0]", "[s0]", ".a.b", "[#t0]", ".weight")
	default:
		if g.chance(20) {
			g.f("funcvalue")
			return g.pick("print", "tostring", "function() return 1 end", "string.len")
		}
		return "nil"
	}
}

func (g *pg) block(d int, n int) string {
	var sb strings.Builder
	for i := 0; i < n && g.budget > 0; i++ {
		sb.WriteString(g.stmt(d))
		sb.WriteString("\n")
	}
	return sb.String()
}

func (g *pg) stmt(d int) string {
	g.budget--
	if d <= 0 {
		return g.simpleStmt()
	}
	switch r := g.rng.Intn(100); {
	case r < 40:
		return g.simpleStmt()
	case r < 50:
		g.f("if")
		s := "if " + g.boolExpr(2) + " then\n" + g.block(d-1, 1+g.rng.Intn(3))
		if g.chance(40) {
			s += "else\n" + g.block(d-1, 1+g.rng.Intn(2))
		}
		return s + "end"
	case r < 60:
		if g.loops >= 2 {
			return g.simpleStmt()
		}
		g.f("for")
		g.loops++
		s := fmt.Sprintf("for i%d = %s, %s%s do\n%send", g.loops, g.pick("1", "0", "10", "-3"), g.pick("5", "20", "50", "#t0", "n0 % 30"), g.pick("", "", ", 2", ", -1"), g.block(d-1, 1+g.rng.Intn(3)))
		g.loops--
		return s
	case r < 67:
		if g.loops >= 2 {
			return g.simpleStmt()
		}
		g.f("forin")
		g.loops++
		s := "for k, v in " + g.pick("pairs", "ipairs") + "(" + g.tabExpr(1) + ") do\n" + g.pick("x0 = v", "x1 = k", "n0 = n0 + 1", "s0 = s0 .. tostring(k)", "t1[k] = v", "t0[#t0 + 1] = v") + "\n" + g.block(d-1, g.rng.Intn(2)) + "end"
		g.loops--
		return s
	case r < 73:
		if g.loops >= 2 {
			return g.simpleStmt()
		}
		g.f("while-bounded")
		g.loops++
		c := fmt.Sprintf("c%d", g.rng.Intn(1000))
		s := fmt.Sprintf("local %s = 0\nwhile %s < %s do\n%s = %s + 1\n%s", c, c, g.pick("3", "10", "40"), c, c, g.block(d-1, 1+g.rng.Intn(2)))
		if g.chance(20) {
			s += "if " + g.boolExpr(1) + " then break end\n"
		}
		g.loops--
		return s + "end"
	case r < 75:
		g.f("repeat")
		c := fmt.Sprintf("r%d", g.rng.Intn(1000))
		return fmt.Sprintf("local %s = 0\nrepeat\n%s = %s + 1\n%suntil %s >= %s", c, c, c, g.block(d-1, 1), c, g.pick("1", "5", "25"))
	case r < 83:
		g.f("pcall")
		return "x0, x1 = pcall(function()\n" + g.block(d-1, 1+g.rng.Intn(3)) + g.pick("", "return "+g.anyExpr(1)+"\n", "error("+g.anyExpr(1)+")\n") + "end)"
	case r < 88:
		g.f("do")
		return "do\nlocal " + g.pick("n0", "s0", "t0", "x0") + " = " + g.anyExpr(1) + "\n" + g.block(d-1, 1+g.rng.Intn(2)) + "end"
	case r < 93:
		g.f("metatable")
		return "setmetatable(" + g.pick(tabVars...) + ", {" + g.pick(
			"__index = "+g.pick(tabVars...),
			"__index = function(t, k) return "+g.anyExpr(1)+" end",
			"__newindex = function(t, k, v) rawset(t, k, "+g.anyExpr(1)+") end",
			"__newindex = "+g.pick(tabVars...),
			"__call = function(self, a) return a end",
			"__tostring = function() return "+g.anyExpr(1)+" end",
			"__len = function() return 3 end",
			"__concat = function(a, b) return \"c\" end",
			"__add = function(a, b) return 1 end",
			"__eq = function(a, b) return true end",
			"__lt = function(a, b) return false end",
			"__metatable = false",
		) + "})"
	case r < 96:
		g.f("error")
		return "if " + g.boolExpr(1) + " then error(" + g.anyExpr(1) + g.pick("", ", 0", ", 2") + ") end"
	case r < 98:
		g.f("early-return")
		return "if " + g.boolExpr(1) + " then return " + g.retExpr() + " end"
	default:
		// unbounded constructs: rare, each burns the whole deadline
		if g.chance(92) {
			return g.simpleStmt()
		}
		g.f("unbounded")
		return g.pick(
			"while true do n0 = n0 + 1 end",
			"repeat n1 = n1 * 1.0001 until false",
			"while n0 == n0 do t0[1] = n0 end",
			"local function spin(k) return spin(k + 1) end spin(0)",
			"for i = 1, math.huge do x0 = i end",
			"while true do pcall(error, \"x\") end",
			"local function rec(k) return 1 + rec(k + 1) end n0 = rec(0)",
		)
	}
}

// capped keeps strings that are re-assigned inside loops / functions from doubling (memory bombs are outside the claim).
func (g *pg) capped(e string) string {
	if g.loops > 0 || g.inFunc {
		return "string.sub(" + e + ", 1, 300)"
	}
	return e
}

func (g *pg) simpleStmt() string {
	switch g.rng.Intn(16) {
	case 0, 1:
		return g.pick(numVars...) + " = " + g.numExpr(2)
	case 2, 3:
		return g.pick(strVars...) + " = " + g.capped(g.strExpr(2))
	case 4:
		return g.pick(tabVars...) + " = " + g.tabExpr(2)
	case 5:
		return g.pick(anyVars...) + " = " + g.anyExpr(2)
	case 6, 7:
		g.f("tableset")
		return g.pick(tabVars...) + g.pick(".a", ".name", "[1]", "[n0]", "[s0]", "[#t0 + 1]", "."+g.pick("b", "weight"), "["+g.anyExpr(1)+"]") + " = " + g.anyExpr(2)
	case 8:
		g.f("table.insert")
		return "table.insert(" + g.pick(tabVars...) + ", " + g.pick("", "1, ", "n0, ") + g.anyExpr(1) + ")"
	case 9:
		g.f("table.remove")
		return "x0 = table.remove(" + g.pick(tabVars...) + g.pick("", ", 1", ", n0") + ")"
	case 10:
		g.f("table.sort")
		return "table.sort(" + g.pick(tabVars...) + g.pick("", ", function(a, b) return tostring(a) < tostring(b) end", ", function(a, b) return a > b end") + ")"
	case 11:
		g.f("json")
		return "x1 = json.decode(" + g.pick(`"[1,2,{\"a\":null}]"`, `"{\"k\":[true,1.5,\"s\"]}"`, `"{"`, "s0", "json.encode(t0) or \"\"") + ")"
	case 12:
		g.f("multi-assign")
		return "n0, s0, x0 = " + g.numExpr(1) + ", " + g.capped(g.strExpr(1)) + g.pick("", ", "+g.anyExpr(1))
	case 13:
		g.f("find")
		return "x0, x1 = string.find(" + g.strExpr(1) + ", " + g.pick(`"a"`, `"%d"`, `"(b)(c)"`, `"."`, `"["`, `"%"`) + g.pick("", ", 1, true", ", n0") + ")"
	case 14:
		if g.nfun > 0 {
			g.f("call")
			return fmt.Sprintf("x0 = f%d(%s, %s)", g.rng.Intn(g.nfun), g.anyExpr(1), g.anyExpr(1))
		}
		return "x0 = type(" + g.anyExpr(1) + ")"
	default:
		g.f("misc-builtin")
		return g.pick(
			"x0 = select(\"#\", "+g.anyExpr(1)+", "+g.anyExpr(1)+")",
			"x0 = unpack("+g.pick(tabVars...)+")",
			"x1 = next("+g.pick(tabVars...)+")",
			"x0 = rawget("+g.pick(tabVars...)+", "+g.anyExpr(1)+")",
			"x0 = getmetatable("+g.anyExpr(1)+")",
			"x0 = loadstring("+g.pick(`"return 1"`, `"return {"`, "s0", `"return ..."`)+")",
			"if type(x0) == \"function\" then x1 = pcall(x0) end",
			"x0 = rawequal("+g.anyExpr(1)+", "+g.anyExpr(1)+")",
			"collectgarbage()",
			"x0 = string.byte("+g.strExpr(1)+", 1, 3)",
			"x0 = string.char("+g.numExpr(0)+")",
		)
	}
}

func (g *pg) retExpr() string {
	switch r := g.rng.Intn(100); {
	case r < 30:
		return g.pick(tabVars...)
	case r < 45:
		g.f("ret-strmap")
		return "{a = " + g.strExpr(1) + ", [" + g.strExpr(1) + "] = " + g.strExpr(1) + "}"
	case r < 60:
		return g.tabExpr(3)
	case r < 68:
		g.f("ret-annotations")
		return `(function() local a = obj.annotations or {} a["w"] = obj.weight a["s"] = ` + g.strExpr(1) + ` return a end)()`
	case r < 76:
		g.f("ret-any")
		return g.anyExpr(2)
	case r < 82:
		g.f("ret-x")
		return g.pick(anyVars...)
	case r < 87:
		g.f("ret-multi")
		return g.anyExpr(1) + ", " + g.anyExpr(1)
	case r < 92:
		g.f("ret-nontable")
		return g.pick("nil", "1", `"s"`, "true", "print", "function() end", "n0", "s0")
	default:
		if g.nfun > 0 {
			return fmt.Sprintf("f%d(%s, %s)", g.rng.Intn(g.nfun), g.anyExpr(1), g.anyExpr(1))
		}
		return "{}"
	}
}

// genProgram draws one program.
func genProgram(rng *rand.Rand, thorough bool) genProg {
	g := &pg{rng: rng, feat: map[string]bool{}, budget: 25 + rng.Intn(30)}
	var sb strings.Builder
	sb.WriteString("local n0, n1, n2 = " + g.numLit() + ", " + g.numLit() + ", " + g.numLit() + "\n")
	sb.WriteString("local s0, s1, s2 = " + g.strLit() + ", " + g.strLit() + ", " + g.strLit() + "\n")
	sb.WriteString("local t0, t1, t2 = {}, " + g.tabExpr(2) + ", " + g.tabExpr(2) + "\n")
	sb.WriteString("local x0, x1\n")
	nf := rng.Intn(3)
	for i := 0; i < nf; i++ {
		g.f("function")
		sb.WriteString(fmt.Sprintf("local function f%d(a, b)\n", i))
		g.nfun = i // may call earlier functions only while generating the body … plus bounded self recursion below
		g.inFunc = true
		body := g.block(2, 1+rng.Intn(3))
		g.inFunc = false
		sb.WriteString(body)
		switch rng.Intn(6) {
		case 0:
			g.f("recursion-bounded")
			sb.WriteString(fmt.Sprintf("if type(a) == \"number\" and a > 0 and a < 50 then return f%d(a - 1, b) end\n", i))
		case 1:
			if g.chance(15) {
				g.f("recursion-unbounded")
				sb.WriteString(fmt.Sprintf("if a ~= nil then return 1 + (f%d(a, b) or 0) end\n", i))
			}
		}
		sb.WriteString("return " + g.pick("a", "b", g.anyExpr(1), "a, b", "") + "\nend\n")
		g.nfun = i + 1
	}
	// main block; about half of the top-level statements are shielded by pcall so that a run-time type error in one
	// of them does not end the program (more programs reach their return statement)
	for i, n := 0, 3+rng.Intn(8); i < n && g.budget > 0; i++ {
		st := g.stmt(3)
		if g.chance(55) && !strings.Contains(st, "return ") {
			st = "pcall(function()\n" + st + "\nend)"
		}
		sb.WriteString(st + "\n")
	}
	if g.chance(92) {
		sb.WriteString("return " + g.retExpr() + "\n")
	} else {
		g.f("no-return")
	}
	return genProg{Src: sb.String(), Feat: g.feat}
}

func featSig(f map[string]bool) string {
	var ks []string
	for k := range f {
		switch k { // keep the signature coarse: control-flow / hazard features only
		case "unbounded", "recursion-unbounded", "recursion-bounded", "pcall", "metatable", "error", "early-return", "no-return", "json", "function", "for", "forin", "while-bounded", "ret-multi", "ret-nontable":
			ks = append(ks, k)
		}
	}
	sort.Strings(ks)
	return strings.Join(ks, "+")
}
