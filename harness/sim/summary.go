package sim

import (
	"encoding/json"
	"fmt"
	"os"
	"strings"

	"verif/harness/simapi"
)

var summaryFields = map[string][]string{
	"Rollout":                 {"spec.disabled", "spec.strategy.paused", "status.phase", "status.blueGreenStatus.currentStepIndex", "status.blueGreenStatus.nextStepIndex", "status.blueGreenStatus.currentStepState", "status.blueGreenStatus.finalisingStep", "status.canaryStatus.currentStepIndex", "status.canaryStatus.nextStepIndex", "status.canaryStatus.currentStepState", "status.canaryStatus.finalisingStep", "status.canaryStatus.canaryRevision", "status.conditions", "metadata.finalizers", "metadata.deletionTimestamp"},
	"BatchRelease":            {"spec.releasePlan.batchPartition", "spec.releasePlan.batches", "spec.releasePlan.finalizingPolicy", "spec.releasePlan.rolloutID", "status.phase", "status.canaryStatus.currentBatch", "status.canaryStatus.batchState", "status.observedGeneration", "metadata.generation", "metadata.finalizers", "metadata.deletionTimestamp"},
	"Deployment":              {"spec.replicas", "spec.paused", "spec.strategy", "spec.minReadySeconds", "spec.template.spec.containers", "metadata.annotations", "metadata.labels", "status.replicas", "status.updatedReplicas", "status.readyReplicas", "status.availableReplicas", "metadata.finalizers", "metadata.deletionTimestamp"},
	"CloneSet":                {"spec.replicas", "spec.updateStrategy", "spec.minReadySeconds", "spec.template.spec.containers", "metadata.annotations", "metadata.labels", "status.replicas", "status.updatedReplicas", "status.updatedReadyReplicas", "status.readyReplicas", "status.currentRevision", "status.updateRevision"},
	"StatefulSet":             {"spec.replicas", "spec.updateStrategy", "spec.template.spec.containers", "metadata.annotations", "metadata.labels", "status.replicas", "status.updatedReplicas", "status.readyReplicas", "status.currentRevision", "status.updateRevision"},
	"DaemonSet":               {"spec.updateStrategy", "spec.template.spec.containers", "metadata.annotations", "metadata.labels", "status.desiredNumberScheduled", "status.updatedNumberScheduled", "status.numberReady", "status.daemonSetHash", "status.observedGeneration"},
	"ReplicaSet":              {"spec.replicas", "status.replicas", "spec.minReadySeconds", "status.availableReplicas", "status.readyReplicas"},
	"Service":                 {"spec.selector"},
	"Ingress":                 {"metadata.annotations", "spec.rules"},
	"HTTPRoute":               {"spec.rules"},
	"VirtualService":          {"spec", "metadata.annotations"},
	"Pod":                     {"metadata.labels", "status.conditions"},
	"TrafficRouting":          {"status.phase", "metadata.finalizers"},
	"HorizontalPodAutoscaler": {"spec.scaleTargetRef"},
}

// Summarize renders the interesting field changes of a write on one line.
func Summarize(w *simapi.Write) string {
	var out []string
	for _, f := range summaryFields[w.Key.Kind] {
		b, a := simapi.Path(w.Before, f), simapi.Path(w.After, f)
		bj, _ := json.Marshal(b)
		aj, _ := json.Marshal(a)
		if string(bj) != string(aj) {
			if f == "status.conditions" {
				bj, aj = []byte(condSummary(b)), []byte(condSummary(a))
			}
			s := fmt.Sprintf("%s: %s -> %s", f, bj, aj)
			if len(s) > 300 && os.Getenv("VERIF_FULL_WRITES") == "" {
				s = s[:300] + "…"
			}
			out = append(out, s)
		}
	}
	if w.After == nil {
		out = append(out, "GONE")
	}
	return fmt.Sprintf("%4d %-14s %-13s %-30s %s", w.Seq, w.Actor, w.Verb, w.Key.String(), strings.Join(out, " | "))
}

func condSummary(v interface{}) string {
	l, _ := v.([]interface{})
	var out []string
	for _, c := range l {
		out = append(out, fmt.Sprintf("%v=%v/%v", simapi.Str(c, "type"), simapi.Str(c, "status"), simapi.Str(c, "reason")))
	}
	return "[" + strings.Join(out, " ") + "]"
}
