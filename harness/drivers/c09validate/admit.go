package c09validate

// Real admission path: scheme, decoder, request construction, the real validating handler, and the
// storage-version <-> request-version views an API server would present (through the real conversion code).

import (
	"context"
	"encoding/json"
	"fmt"

	kruisev1alpha1 "github.com/openkruise/kruise-api/apps/v1alpha1"
	kruisev1beta1 "github.com/openkruise/kruise-api/apps/v1beta1"
	rolloutapi "github.com/openkruise/rollouts/api"
	"github.com/openkruise/rollouts/api/v1alpha1"
	"github.com/openkruise/rollouts/api/v1beta1"
	"github.com/openkruise/rollouts/pkg/webhook/rollout/validating"
	admissionv1 "k8s.io/api/admission/v1"
	metav1 "k8s.io/apimachinery/pkg/apis/meta/v1"
	"k8s.io/apimachinery/pkg/runtime"
	clientgoscheme "k8s.io/client-go/kubernetes/scheme"
	"sigs.k8s.io/controller-runtime/pkg/client"
	"sigs.k8s.io/controller-runtime/pkg/client/fake"
	"sigs.k8s.io/controller-runtime/pkg/webhook/admission"

	"verif/harness/core"
)

const (
	VAlpha = "v1alpha1"
	VBeta  = "v1beta1"
	group  = "rollouts.kruise.io"
)

// Scheme holds every type the handler, the finder and the fake client need.
var Scheme = runtime.NewScheme()
var decoder *admission.Decoder

func init() {
	_ = clientgoscheme.AddToScheme(Scheme)
	_ = rolloutapi.AddToScheme(Scheme)
	_ = kruisev1alpha1.AddToScheme(Scheme)
	_ = kruisev1beta1.AddToScheme(Scheme)
	d, err := admission.NewDecoder(Scheme)
	if err != nil {
		panic(err)
	}
	decoder = d
}

func setTypeMeta(obj runtime.Object) (version string) {
	switch o := obj.(type) {
	case *v1alpha1.Rollout:
		o.TypeMeta = metav1.TypeMeta{APIVersion: group + "/" + VAlpha, Kind: "Rollout"}
		return VAlpha
	case *v1beta1.Rollout:
		o.TypeMeta = metav1.TypeMeta{APIVersion: group + "/" + VBeta, Kind: "Rollout"}
		return VBeta
	}
	return ""
}

func metaOf(obj runtime.Object) *metav1.ObjectMeta {
	switch o := obj.(type) {
	case *v1alpha1.Rollout:
		return &o.ObjectMeta
	case *v1beta1.Rollout:
		return &o.ObjectMeta
	}
	return nil
}

// buildRequest makes the admission.Request an API server would send for this operation.
func buildRequest(op string, old, new runtime.Object) (admission.Request, error) {
	version := setTypeMeta(new)
	if version == "" {
		return admission.Request{}, fmt.Errorf("unsupported object type %T", new)
	}
	raw, err := json.Marshal(new)
	if err != nil {
		return admission.Request{}, err
	}
	m := metaOf(new)
	req := admission.Request{AdmissionRequest: admissionv1.AdmissionRequest{
		UID:             "c09v",
		Kind:            metav1.GroupVersionKind{Group: group, Version: version, Kind: "Rollout"},
		Resource:        metav1.GroupVersionResource{Group: group, Version: version, Resource: "rollouts"},
		RequestKind:     &metav1.GroupVersionKind{Group: group, Version: version, Kind: "Rollout"},
		RequestResource: &metav1.GroupVersionResource{Group: group, Version: version, Resource: "rollouts"},
		Name:            m.Name,
		Namespace:       m.Namespace,
		Operation:       admissionv1.Operation(op),
		Object:          runtime.RawExtension{Raw: raw},
	}}
	if op == "UPDATE" {
		if old == nil {
			return req, fmt.Errorf("UPDATE without old object")
		}
		if setTypeMeta(old) != version {
			return req, fmt.Errorf("old and new object differ in API version")
		}
		oraw, err := json.Marshal(old)
		if err != nil {
			return req, err
		}
		req.OldObject = runtime.RawExtension{Raw: oraw}
	}
	return req, nil
}

// admit sends one real request to the real handler over client c.
func admit(c client.Client, op string, old, new runtime.Object) (resp admission.Response, pi *core.PanicInfo, err error) {
	req, err := buildRequest(op, old, new)
	if err != nil {
		return resp, nil, err
	}
	h := &validating.RolloutCreateUpdateHandler{Client: c, Decoder: decoder}
	pi = core.Try(func() { resp = h.Handle(context.TODO(), req) })
	return resp, pi, nil
}

// Admit filters one Rollout (v1alpha1 or v1beta1, decided by the type of new) through the real validating
// handler. op is "CREATE" or "UPDATE" (old must have the type of new). c is the client the handler reads
// (other Rollouts of the namespace, and for UPDATE the stored object whose status.phase decides immutability);
// it has to serve the API version of the request (see AlphaView).
// allowed is false when the handler panicked (panicInfo != nil) or the request could not be built.
func Admit(c client.Client, op string, old, new runtime.Object) (allowed bool, panicInfo *core.PanicInfo) {
	resp, pi, err := admit(c, op, old, new)
	if err != nil || pi != nil {
		return false, pi
	}
	return resp.Allowed, nil
}

// ToStored converts an admitted request object (either version) into the stored v1beta1 form (real conversion).
func ToStored(obj runtime.Object) (*v1beta1.Rollout, error) {
	b, pi, err := toStored(obj)
	if pi != nil {
		return nil, fmt.Errorf("conversion panicked: %s", pi.Value)
	}
	return b, err
}

// AlphaView is the v1alpha1 representation the API server serves for a stored Rollout (real conversion). A
// fake client does not convert between versions: a client handed to Admit for v1alpha1 requests has to hold
// these representations next to the stored v1beta1 objects.
func AlphaView(b *v1beta1.Rollout) (*v1alpha1.Rollout, error) {
	a, pi, err := alphaView(b)
	if pi != nil {
		return nil, fmt.Errorf("conversion panicked: %s", pi.Value)
	}
	return a, err
}

// NewClient returns a controller-runtime fake client over Scheme holding objs.
func NewClient(objs ...client.Object) client.Client {
	return fake.NewClientBuilder().WithScheme(Scheme).WithObjects(objs...).Build()
}

// ---- storage version <-> request version ------------------------------------------------------------

// toStored converts an accepted request object into what the API server stores (v1beta1), through the real
// conversion code and a JSON round trip.
func toStored(obj runtime.Object) (b *v1beta1.Rollout, pi *core.PanicInfo, err error) {
	switch o := obj.(type) {
	case *v1beta1.Rollout:
		b = o.DeepCopy()
	case *v1alpha1.Rollout:
		dst := &v1beta1.Rollout{}
		pi = core.Try(func() { err = o.DeepCopy().ConvertTo(dst) })
		if pi != nil || err != nil {
			return nil, pi, err
		}
		b = &v1beta1.Rollout{}
		raw, _ := json.Marshal(dst)
		if err = json.Unmarshal(raw, b); err != nil {
			return nil, nil, err
		}
	default:
		return nil, nil, fmt.Errorf("unsupported %T", obj)
	}
	setTypeMeta(b)
	return b, nil, nil
}

// alphaView is what a v1alpha1 client (or the v1alpha1 informer of the webhook) sees of a stored object.
func alphaView(b *v1beta1.Rollout) (a *v1alpha1.Rollout, pi *core.PanicInfo, err error) {
	dst := &v1alpha1.Rollout{}
	pi = core.Try(func() { err = dst.ConvertFrom(b.DeepCopy()) })
	if pi != nil || err != nil {
		return nil, pi, err
	}
	a = &v1alpha1.Rollout{}
	raw, _ := json.Marshal(dst)
	if err = json.Unmarshal(raw, a); err != nil {
		return nil, nil, err
	}
	setTypeMeta(a)
	return a, nil, nil
}
