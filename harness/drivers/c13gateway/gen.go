package c13gateway

// Generators: HTTPRoutes as an API server stores them (gateway-api v0.7.1 CRD defaults applied) and
// sequences of traffic strategies as the Rollout CRD stores them (its defaults applied).

import (
	"fmt"
	"math/rand"
	"strings"

	"github.com/openkruise/rollouts/api/v1beta1"
	metav1 "k8s.io/apimachinery/pkg/apis/meta/v1"
	gw "sigs.k8s.io/gateway-api/apis/v1beta1"

	"verif/harness/gen"
)

const (
	nsName     = "ns1"
	routeName  = "route"
	stableSvc  = "echo"
	canarySvc  = "echo-canary"
	otherNS    = "ns2"
	otherGroup = "example.io"
)

var (
	pathPool      = []string{"/", "/web", "/web/a", "/store", "/api"}
	pathRegexPool = []string{"/web/.*", "/(web|store)"}
	hdrNames      = []string{"user", "x-canary", "env"}
	qryNames      = []string{"q", "ver"}
	valPool       = []string{"a", "b"}
	valRegexPool  = []string{"a|b", "b.*"}
)

func pathTypeP(s string) *gw.PathMatchType      { t := gw.PathMatchType(s); return &t }
func hdrTypeP(s string) *gw.HeaderMatchType     { t := gw.HeaderMatchType(s); return &t }
func qryTypeP(s string) *gw.QueryParamMatchType { t := gw.QueryParamMatchType(s); return &t }
func groupP(s string) *gw.Group                 { t := gw.Group(s); return &t }
func kindP(s string) *gw.Kind                   { t := gw.Kind(s); return &t }
func nsP(s string) *gw.Namespace                { t := gw.Namespace(s); return &t }
func portP(p int) *gw.PortNumber                { t := gw.PortNumber(p); return &t }

func genPath(rng *rand.Rand, defaultPct int) *gw.HTTPPathMatch {
	if gen.Chance(rng, defaultPct) {
		return &gw.HTTPPathMatch{Type: pathTypeP("PathPrefix"), Value: gen.Strp("/")}
	}
	switch rng.Intn(10) {
	case 0, 1, 2:
		return &gw.HTTPPathMatch{Type: pathTypeP("Exact"), Value: gen.Strp(gen.Pick(rng, pathPool...))}
	case 3:
		return &gw.HTTPPathMatch{Type: pathTypeP("RegularExpression"), Value: gen.Strp(gen.Pick(rng, pathRegexPool...))}
	}
	return &gw.HTTPPathMatch{Type: pathTypeP("PathPrefix"), Value: gen.Strp(gen.Pick(rng, pathPool...))}
}

func genValue(rng *rand.Rand) (typ, val string) {
	if gen.Chance(rng, 15) {
		return "RegularExpression", gen.Pick(rng, valRegexPool...)
	}
	return "Exact", gen.Pick(rng, valPool...)
}

// unique names within one match (x-kubernetes-list-type=map, key name)
func genHeaders(rng *rand.Rand, n int) []gw.HTTPHeaderMatch {
	var out []gw.HTTPHeaderMatch
	perm := rng.Perm(len(hdrNames))
	for i := 0; i < n && i < len(perm); i++ {
		t, v := genValue(rng)
		out = append(out, gw.HTTPHeaderMatch{Type: hdrTypeP(t), Name: gw.HTTPHeaderName(hdrNames[perm[i]]), Value: v})
	}
	return out
}

func genQuery(rng *rand.Rand, n int) []gw.HTTPQueryParamMatch {
	var out []gw.HTTPQueryParamMatch
	perm := rng.Perm(len(qryNames))
	for i := 0; i < n && i < len(perm); i++ {
		t, v := genValue(rng)
		out = append(out, gw.HTTPQueryParamMatch{Type: qryTypeP(t), Name: gw.HTTPHeaderName(qryNames[perm[i]]), Value: v})
	}
	return out
}

func pickInt(rng *rand.Rand, xs ...int) int { return xs[rng.Intn(len(xs))] }

func smallCount(rng *rand.Rand) int { // 0:50% 1:35% 2:15%
	switch x := rng.Intn(100); {
	case x < 50:
		return 0
	case x < 85:
		return 1
	}
	return 2
}

func genRouteMatch(rng *rand.Rand) gw.HTTPRouteMatch {
	m := gw.HTTPRouteMatch{Path: genPath(rng, 30)}
	m.Headers = genHeaders(rng, smallCount(rng))
	m.QueryParams = genQuery(rng, smallCount(rng))
	if gen.Chance(rng, 15) {
		me := gw.HTTPMethod(gen.Pick(rng, "GET", "POST"))
		m.Method = &me
	}
	return m
}

func genHeaderFilter(rng *rand.Rand) *gw.HTTPHeaderFilter {
	f := &gw.HTTPHeaderFilter{}
	for i, n := 0, 1+rng.Intn(2); i < n; i++ {
		f.Set = append(f.Set, gw.HTTPHeader{Name: gw.HTTPHeaderName(fmt.Sprintf("h%d", i)), Value: gen.Pick(rng, "v1", "v2")})
	}
	if gen.Chance(rng, 40) {
		f.Add = append(f.Add, gw.HTTPHeader{Name: "add", Value: gen.Pick(rng, "v1", "v2")})
	}
	if gen.Chance(rng, 30) {
		f.Remove = append(f.Remove, gen.Pick(rng, "r1", "r2"))
	}
	return f
}

func genFilter(rng *rand.Rand, allowRedirect bool) gw.HTTPRouteFilter {
	switch k := rng.Intn(6); {
	case k == 0 && allowRedirect:
		return genRedirect(rng)
	case k <= 1:
		return gw.HTTPRouteFilter{Type: gw.HTTPRouteFilterRequestHeaderModifier, RequestHeaderModifier: genHeaderFilter(rng)}
	case k == 2:
		return gw.HTTPRouteFilter{Type: gw.HTTPRouteFilterResponseHeaderModifier, ResponseHeaderModifier: genHeaderFilter(rng)}
	case k == 3:
		// a mirror may point at any Service, including the stable one: it is not a backendRef of the rule
		return gw.HTTPRouteFilter{Type: gw.HTTPRouteFilterRequestMirror, RequestMirror: &gw.HTTPRequestMirrorFilter{
			BackendRef: gw.BackendObjectReference{Group: groupP(""), Kind: kindP("Service"), Name: gw.ObjectName(gen.Pick(rng, "mirror", stableSvc)), Port: portP(8080)}}}
	case k == 4:
		return gw.HTTPRouteFilter{Type: gw.HTTPRouteFilterURLRewrite, URLRewrite: &gw.HTTPURLRewriteFilter{
			Path: &gw.HTTPPathModifier{Type: gw.PrefixMatchHTTPPathModifier, ReplacePrefixMatch: gen.Strp("/v2")}}}
	}
	return gw.HTTPRouteFilter{Type: gw.HTTPRouteFilterExtensionRef, ExtensionRef: &gw.LocalObjectReference{Group: "example.io", Kind: "RateLimit", Name: "rl"}}
}

func genRedirect(rng *rand.Rand) gw.HTTPRouteFilter {
	code := 302 // CRD default
	if gen.Chance(rng, 40) {
		code = 301
	}
	r := &gw.HTTPRequestRedirectFilter{StatusCode: &code}
	if gen.Chance(rng, 60) {
		r.Scheme = gen.Strp("https")
	}
	if gen.Chance(rng, 30) {
		h := gw.PreciseHostname("www.example.com")
		r.Hostname = &h
	}
	return gw.HTTPRouteFilter{Type: gw.HTTPRouteFilterRequestRedirect, RequestRedirect: r}
}

func genWeightField(rng *rand.Rand) *int32 {
	if gen.Chance(rng, 55) {
		return gen.I32p(1) // CRD default
	}
	return gen.I32p(int32(pickInt(rng, 0, 1, 10, 50, 90, 100)))
}

func svcRef(rng *rand.Rand, name string) gw.HTTPBackendRef {
	r := gw.HTTPBackendRef{BackendRef: gw.BackendRef{
		BackendObjectReference: gw.BackendObjectReference{Group: groupP(""), Kind: kindP("Service"), Name: gw.ObjectName(name), Port: portP(pickInt(rng, 80, 8080, 9090))},
		Weight:                 genWeightField(rng)}}
	if gen.Chance(rng, 10) {
		r.Filters = []gw.HTTPRouteFilter{{Type: gw.HTTPRouteFilterRequestHeaderModifier, RequestHeaderModifier: genHeaderFilter(rng)}}
	}
	return r
}

func foreignRef(rng *rand.Rand) gw.HTTPBackendRef {
	switch rng.Intn(4) {
	case 0:
		return gw.HTTPBackendRef{BackendRef: gw.BackendRef{BackendObjectReference: gw.BackendObjectReference{
			Group: groupP("multicluster.x-k8s.io"), Kind: kindP("ServiceImport"), Name: gw.ObjectName(gen.Pick(rng, "imp", "other")), Port: portP(8080)}, Weight: genWeightField(rng)}}
	case 1:
		r := svcRef(rng, gen.Pick(rng, "other", "echo2"))
		r.Namespace = nsP(otherNS)
		return r
	}
	return svcRef(rng, gen.Pick(rng, "other", "echo2", "echo-v1"))
}

// genRule returns a rule and its class.
func genRule(rng *rand.Rand) (gw.HTTPRouteRule, string) {
	var r gw.HTTPRouteRule
	class := ""
	// matches
	nm := rng.Intn(4)
	if nm == 0 {
		if gen.Chance(rng, 12) {
			// the user wrote `matches: []`: defined, so the CRD default is not applied
			r.Matches = nil
			class = "nomatch+"
		} else {
			r.Matches = []gw.HTTPRouteMatch{{Path: &gw.HTTPPathMatch{Type: pathTypeP("PathPrefix"), Value: gen.Strp("/")}}}
		}
	}
	for i := 0; i < nm; i++ {
		r.Matches = append(r.Matches, genRouteMatch(rng))
	}
	// filters
	for i, n := 0, smallCount(rng); i < n; i++ {
		r.Filters = append(r.Filters, genFilter(rng, false))
	}
	// backends
	switch x := rng.Intn(100); {
	case x < 42:
		class += "stable"
		r.BackendRefs = []gw.HTTPBackendRef{svcRef(rng, stableSvc)}
	case x < 62:
		class += "stable+foreign"
		r.BackendRefs = []gw.HTTPBackendRef{svcRef(rng, stableSvc)}
		for i, n := 0, 1+rng.Intn(2); i < n; i++ {
			f := foreignRef(rng)
			if gen.Chance(rng, 50) {
				r.BackendRefs = append(r.BackendRefs, f)
			} else {
				r.BackendRefs = append([]gw.HTTPBackendRef{f}, r.BackendRefs...)
			}
		}
	case x < 66:
		class += "stable-explicit-ns"
		s := svcRef(rng, stableSvc)
		s.Namespace = nsP(nsName)
		r.BackendRefs = []gw.HTTPBackendRef{s}
	case x < 80:
		class += "foreign"
		for i, n := 0, 1+rng.Intn(2); i < n; i++ {
			r.BackendRefs = append(r.BackendRefs, foreignRef(rng))
		}
	case x < 90:
		class += "backendless"
		r.Filters = append(r.Filters, genRedirect(rng))
	case x < 94:
		class += "same-name-other-kind"
		r.BackendRefs = []gw.HTTPBackendRef{{BackendRef: gw.BackendRef{BackendObjectReference: gw.BackendObjectReference{
			Group: groupP("multicluster.x-k8s.io"), Kind: kindP("ServiceImport"), Name: stableSvc, Port: portP(8080)}, Weight: genWeightField(rng)}}}
	case x < 97:
		class += "same-name-other-namespace"
		s := svcRef(rng, stableSvc)
		s.Namespace = nsP(otherNS)
		r.BackendRefs = []gw.HTTPBackendRef{s}
	default:
		class += "same-name-other-group"
		s := svcRef(rng, stableSvc)
		s.Group = groupP(otherGroup)
		r.BackendRefs = []gw.HTTPBackendRef{s}
	}
	return r, class
}

func genRoute(rng *rand.Rand) (*gw.HTTPRoute, []string) {
	rt := &gw.HTTPRoute{
		TypeMeta:   metav1.TypeMeta{APIVersion: "gateway.networking.k8s.io/v1beta1", Kind: "HTTPRoute"},
		ObjectMeta: metav1.ObjectMeta{Namespace: nsName, Name: routeName},
	}
	if gen.Chance(rng, 40) {
		rt.Labels = map[string]string{"app": "echo"}
	}
	if gen.Chance(rng, 40) {
		rt.Annotations = map[string]string{"team": "x", "note": ""}
	}
	rt.Spec.ParentRefs = []gw.ParentReference{{Group: groupP("gateway.networking.k8s.io"), Kind: kindP("Gateway"), Name: "gw"}}
	if gen.Chance(rng, 50) {
		rt.Spec.Hostnames = []gw.Hostname{"www.example.com"}
	}
	var classes []string
	n := 1 + rng.Intn(4)
	for i := 0; i < n; i++ {
		r, c := genRule(rng)
		// make sure most routes have something for the provider to do
		if i == 0 && gen.Chance(rng, 75) {
			for k := 0; k < 20 && !strings.Contains(c, "stable"); k++ {
				r, c = genRule(rng)
			}
		}
		rt.Spec.Rules = append(rt.Spec.Rules, r)
		classes = append(classes, c)
	}
	return rt, classes
}

// ---- strategies ------------------------------------------------------------------------------------

func genStepMatch(rng *rand.Rand) v1beta1.HttpRouteMatch {
	var m v1beta1.HttpRouteMatch
	switch x := rng.Intn(100); {
	case x < 20: // path only
		m.Path = genPath(rng, 10)
	case x < 30:
		m.Path = genPath(rng, 10)
		m.Headers = genHeaders(rng, 1+rng.Intn(2))
	case x < 35:
		m.Path = genPath(rng, 10)
		m.QueryParams = genQuery(rng, 1)
	case x < 68:
		m.Headers = genHeaders(rng, 1+rng.Intn(2))
	case x < 82:
		m.QueryParams = genQuery(rng, 1+rng.Intn(2))
	case x < 97:
		m.Headers = genHeaders(rng, 1)
		m.QueryParams = genQuery(rng, 1)
	default:
		// `- {}`: every field of a match is optional
	}
	return m
}

type step struct {
	Kind     string                         `json:"kind"` // weight | match
	Strategy v1beta1.TrafficRoutingStrategy `json:"strategy"`
	Weight   int32                          `json:"-"`
}

func genStep(rng *rand.Rand) step {
	var s step
	x := rng.Intn(100)
	if x < 50 || x >= 90 {
		w := int32(rng.Intn(101))
		if gen.Chance(rng, 30) {
			w = int32(pickInt(rng, 0, 1, 50, 99, 100))
		}
		s.Weight = w
		s.Strategy.Traffic = gen.Strp(fmt.Sprintf("%d%%", w))
		s.Kind = "weight"
	}
	if x >= 50 {
		// Matches take precedence over Traffic when both are set (api/v1beta1 TrafficRoutingStrategy)
		for i, n := 0, 1+rng.Intn(3); i < n; i++ {
			s.Strategy.Matches = append(s.Strategy.Matches, genStepMatch(rng))
		}
		s.Kind = "match"
	}
	if gen.Chance(rng, 35) {
		s.Strategy.RequestHeaderModifier = genHeaderFilter(rng)
	}
	return s
}

func genSteps(rng *rand.Rand) []step {
	n := 0
	switch x := rng.Intn(100); {
	case x < 5:
		n = 0
	case x < 25:
		n = 1
	case x < 55:
		n = 2
	case x < 80:
		n = 3
	default:
		n = 4
	}
	var out []step
	for i := 0; i < n; i++ {
		out = append(out, genStep(rng))
	}
	return out
}

// stepClass describes the composition of a match step (an input class, used in fingerprints).
func stepClass(ms []v1beta1.HttpRouteMatch) string {
	hasPath, hasNon, pathBeforeNon := false, false, false
	for _, m := range ms {
		if m.Path != nil {
			hasPath = true
		} else {
			hasNon = true
			if hasPath {
				pathBeforeNon = true
			}
		}
	}
	switch {
	case hasPath && !hasNon:
		return "path-only"
	case !hasPath:
		return "nonpath-only"
	case pathBeforeNon:
		return "path-before-nonpath"
	}
	return "path-after-nonpath"
}

func stepSig(s step) string {
	if s.Kind == "weight" {
		switch s.Weight {
		case 0:
			return "w0"
		case 100:
			return "w100"
		}
		return "w"
	}
	sig := "m(" + stepClass(s.Strategy.Matches) + ")"
	if s.Strategy.Traffic != nil {
		sig += "+w"
	}
	return sig
}
