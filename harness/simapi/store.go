// Package simapi is a small model of the Kubernetes API server used by the closed-loop engine:
// object store with uid / resourceVersion / generation / finalizers / status sub-resource, admission
// chain calling the real webhook handlers, write log delivered synchronously to monitors, fault hooks.
package simapi

import (
	"encoding/json"
	"fmt"
	"reflect"
	"sort"
	"strconv"
	"strings"
	"sync"

	"k8s.io/apimachinery/pkg/labels"
	"k8s.io/apimachinery/pkg/runtime"
	"k8s.io/apimachinery/pkg/runtime/schema"
)

// Obj is the stored JSON form of an object. Committed objects are never mutated.
type Obj = map[string]interface{}

// Key identifies a stored object. Objects are stored per group/kind in one storage version.
type Key struct {
	Group, Kind, NS, Name string
}

func (k Key) String() string { return k.Kind + ":" + k.NS + "/" + k.Name }

// Write is one committed change.
type Write struct {
	Seq     int
	Actor   string
	Rid     int    // reconcile id of the actor (0 if none)
	Verb    string // create | update | patch | delete | update/status | patch/status | remove (finalizer-driven removal)
	Key     Key
	GVK     schema.GroupVersionKind
	Before  Obj // nil on create
	After   Obj // nil when the object is gone
	CallSeq int
}

// Call is one client call (reads and writes), recorded before it executes.
type Call struct {
	Seq       int
	Actor     string
	Rid       int
	Verb      string // get | list | create | update | patch | delete (+ "/status")
	GVK       schema.GroupVersionKind
	Key       Key
	PatchType string
	Body      string
	// set by the fault hook
	LoseResponse bool
	// result
	Err      string
	Wrote    bool
	WriteSeq int
}

// Event is a watch event derived from a Write.
type Event struct {
	Type string // ADDED | MODIFIED | DELETED
	Key  Key
	GVK  schema.GroupVersionKind
	Old  Obj
	New  Obj
	Seq  int
}

// CrashSignal is the panic value used to simulate a process crash right after a committed write.
type CrashSignal struct{ AfterWrite int }

// Store is the API server state.
type Store struct {
	mu             sync.Mutex
	committedBytes int64
	tooLarge       int
	Scheme         *runtime.Scheme
	objs           map[Key]Obj
	rv             int64
	uid            int
	clock          int64
	seq            int
	calls          int

	Log       []Write
	CallLog   []Call
	KeepCalls bool

	// hooks (all called with the store lock held)
	OnCall      func(c *Call) error       // fault injection: return an error to fail the call instead of executing it
	OnWrite     []func(w *Write, v *View) // monitors
	OnEvent     []func(e Event)           // watch stream
	AfterCommit func(w *Write)            // crash injection: may panic(CrashSignal{})
	// BeforeCommit is called when a write is about to change the store (after admission and no-op detection). A non-nil
	// error is returned to the caller instead of committing; lose makes the write commit and the caller get a timeout.
	BeforeCommit func(c *Call) (err error, lose bool)

	Admission *Admission

	// UIDPrefix makes uids unique across several stores living in one process.
	UIDPrefix string

	versions map[schema.GroupKind]string // storage version per group/kind
	rid      map[string]int              // current reconcile id per actor
}

func NewStore(scheme *runtime.Scheme) *Store {
	return &Store{Scheme: scheme, objs: map[Key]Obj{}, clock: 1700000000, versions: map[schema.GroupKind]string{}, rid: map[string]int{}}
}

// SetRid sets the reconcile id that subsequent calls of actor carry.
func (s *Store) SetRid(actor string, rid int) {
	s.mu.Lock()
	s.rid[actor] = rid
	s.mu.Unlock()
}

func (s *Store) Calls() int  { s.mu.Lock(); defer s.mu.Unlock(); return s.calls }
func (s *Store) Writes() int { s.mu.Lock(); defer s.mu.Unlock(); return s.seq }

func keyOf(gvk schema.GroupVersionKind, ns, name string) Key {
	return Key{Group: gvk.Group, Kind: gvk.Kind, NS: ns, Name: name}
}

// View is a read-only snapshot of the store.
type View struct {
	objs map[Key]Obj
}

// Snapshot returns a view of the current state (cheap: objects are immutable).
func (s *Store) Snapshot() *View {
	s.mu.Lock()
	defer s.mu.Unlock()
	return s.snapshotLocked()
}

func (s *Store) snapshotLocked() *View {
	m := make(map[Key]Obj, len(s.objs))
	for k, v := range s.objs {
		m[k] = v
	}
	return &View{objs: m}
}

func (v *View) Get(kind, ns, name string) Obj {
	for k, o := range v.objs {
		if k.Kind == kind && k.NS == ns && k.Name == name {
			return o
		}
	}
	return nil
}

func (v *View) GetKey(k Key) Obj { return v.objs[k] }

// List returns the objects of a kind (any group) in ns ("" = all), sorted by name.
func (v *View) List(kind, ns string) []Obj {
	var out []Obj
	for k, o := range v.objs {
		if k.Kind == kind && (ns == "" || k.NS == ns) {
			out = append(out, o)
		}
	}
	sort.Slice(out, func(i, j int) bool {
		return Str(out[i], "metadata.namespace")+"/"+Str(out[i], "metadata.name") < Str(out[j], "metadata.namespace")+"/"+Str(out[j], "metadata.name")
	})
	return out
}

func (v *View) ListGK(group, kind, ns string) []Obj {
	var out []Obj
	for k, o := range v.objs {
		if k.Kind == kind && k.Group == group && (ns == "" || k.NS == ns) {
			out = append(out, o)
		}
	}
	sort.Slice(out, func(i, j int) bool {
		return Str(out[i], "metadata.namespace")+"/"+Str(out[i], "metadata.name") < Str(out[j], "metadata.namespace")+"/"+Str(out[j], "metadata.name")
	})
	return out
}

func (v *View) Keys() []Key {
	var ks []Key
	for k := range v.objs {
		ks = append(ks, k)
	}
	sort.Slice(ks, func(i, j int) bool { return ks[i].String() < ks[j].String() })
	return ks
}

func (v *View) Len() int { return len(v.objs) }

// ---- JSON path helpers -------------------------------------------------------------------------

// Path walks a dotted path ("spec.template.metadata.labels"); list indices are not supported.
func Path(o interface{}, path string) interface{} {
	cur := o
	for _, p := range strings.Split(path, ".") {
		m, ok := cur.(map[string]interface{})
		if !ok {
			return nil
		}
		cur = m[p]
	}
	return cur
}

// PathK is like Path but takes the path as separate keys (for keys containing dots).
func PathK(o interface{}, keys ...string) interface{} {
	cur := o
	for _, p := range keys {
		m, ok := cur.(map[string]interface{})
		if !ok {
			return nil
		}
		cur = m[p]
	}
	return cur
}

func Str(o interface{}, path string) string {
	s, _ := Path(o, path).(string)
	return s
}

func Int(o interface{}, path string) (int64, bool) {
	switch x := Path(o, path).(type) {
	case float64:
		return int64(x), true
	case int64:
		return x, true
	case int:
		return int64(x), true
	case json.Number:
		n, err := x.Int64()
		return n, err == nil
	}
	return 0, false
}

func IntD(o interface{}, path string, def int64) int64 {
	if n, ok := Int(o, path); ok {
		return n
	}
	return def
}

func Bool(o interface{}, path string) bool {
	b, _ := Path(o, path).(bool)
	return b
}

func Map(o interface{}, path string) map[string]interface{} {
	m, _ := Path(o, path).(map[string]interface{})
	return m
}

func StrMap(o interface{}, path string) map[string]string {
	out := map[string]string{}
	for k, v := range Map(o, path) {
		if s, ok := v.(string); ok {
			out[k] = s
		}
	}
	return out
}

func List(o interface{}, path string) []interface{} {
	l, _ := Path(o, path).([]interface{})
	return l
}

func Label(o Obj, key string) string {
	s, _ := PathK(o, "metadata", "labels", key).(string)
	return s
}
func Anno(o Obj, key string) string {
	s, _ := PathK(o, "metadata", "annotations", key).(string)
	return s
}
func HasAnno(o Obj, key string) bool {
	_, ok := PathK(o, "metadata", "annotations", key).(string)
	return ok
}
func Name(o Obj) string { return Str(o, "metadata.name") }
func NS(o Obj) string   { return Str(o, "metadata.namespace") }
func UID(o Obj) string  { return Str(o, "metadata.uid") }
func Deleting(o Obj) bool {
	return Path(o, "metadata.deletionTimestamp") != nil
}
func Finalizers(o Obj) []string {
	var out []string
	for _, f := range List(o, "metadata.finalizers") {
		if s, ok := f.(string); ok {
			out = append(out, s)
		}
	}
	return out
}

// ControllerOwnerUID returns the uid of the controller owner reference ("" if none).
func ControllerOwnerUID(o Obj) string {
	for _, r := range List(o, "metadata.ownerReferences") {
		if Bool(r, "controller") {
			return Str(r, "uid")
		}
	}
	return ""
}

func OwnerUIDs(o Obj) []string {
	var out []string
	for _, r := range List(o, "metadata.ownerReferences") {
		out = append(out, Str(r, "uid"))
	}
	return out
}

// DeepCopy copies a JSON value.
func DeepCopy(v interface{}) interface{} {
	switch x := v.(type) {
	case map[string]interface{}:
		m := make(map[string]interface{}, len(x))
		for k, e := range x {
			m[k] = DeepCopy(e)
		}
		return m
	case []interface{}:
		l := make([]interface{}, len(x))
		for i, e := range x {
			l[i] = DeepCopy(e)
		}
		return l
	}
	return v
}

func CopyObj(o Obj) Obj {
	if o == nil {
		return nil
	}
	return DeepCopy(o).(Obj)
}

func toObj(v interface{}) (Obj, error) {
	b, err := json.Marshal(v)
	if err != nil {
		return nil, err
	}
	var m Obj
	if err := json.Unmarshal(b, &m); err != nil {
		return nil, err
	}
	return m, nil
}

func matchLabels(o Obj, sel labels.Selector) bool {
	if sel == nil || sel.Empty() {
		return true
	}
	return sel.Matches(labels.Set(StrMap(o, "metadata.labels")))
}

func rvOf(o Obj) int64 {
	n, _ := strconv.ParseInt(Str(o, "metadata.resourceVersion"), 10, 64)
	return n
}

// Equal compares two JSON values.
func Equal(a, b interface{}) bool { return reflect.DeepEqual(a, b) }

func (s *Store) String() string {
	return fmt.Sprintf("store{objs=%d writes=%d calls=%d}", len(s.objs), s.seq, s.calls)
}
