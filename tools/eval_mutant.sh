#!/bin/bash
# eval_mutant.sh <PROP> <A|B> <check ids...>
#  1. confirms the mutant in a scratch worktree of /repo: demo passes clean, fails with the patch, package tests pass with the patch
#  2. applies the patch to /repo, runs the given checks (quick), undoes it (git checkout -- .)
# Output: one summary line per step; full check output in /tmp/mut-eval/<PROP>.<V>.<check>.log
set -u
P=$1; V=$2; shift 2
OUT=${MUT_OUT:-/tmp/mut-out}/$P; LOG=${MUT_LOG:-/tmp/mut-eval}; mkdir -p $LOG
export GOFLAGS=-mod=mod GOPROXY=off GOSUMDB=off GOTOOLCHAIN=local
PATCH=$OUT/$V.patch.diff
[ -f "$PATCH" ] || { echo "no patch $PATCH"; exit 2; }
DEMO=$(ls $OUT/$V.demo*_test.go $OUT/$V.demo*.go 2>/dev/null | head -1)
META_DIR=$(grep -ohE 'go test[^`]*' $OUT/$V.demo.md 2>/dev/null | grep -oE '\./(pkg|api)/[A-Za-z0-9_/.-]+' | head -1 | sed 's#^\./##; s#/$##')
if [ -n "${CONFIRM:-1}" ] && [ "${CONFIRM:-1}" = 1 ]; then
  WT=/tmp/mut-confirm-$P-$V
  git -C /repo worktree add -q --detach $WT HEAD 2>/dev/null
  if [ -n "$DEMO" ] && [ -n "$META_DIR" ] && [ -d "$WT/$META_DIR" ]; then
    cp "$DEMO" "$WT/$META_DIR/zz_mut_demo_test.go"
    (cd $WT && go test -count=1 -run "MutDemo" ./$META_DIR/ > $LOG/$P.$V.demo-clean.log 2>&1); C=$?
    (cd $WT && git apply "$PATCH" && go test -count=1 -run "MutDemo" ./$META_DIR/ > $LOG/$P.$V.demo-mut.log 2>&1); M=$?
    rm -f "$WT/$META_DIR/zz_mut_demo_test.go"
    (cd $WT && go build ./... > $LOG/$P.$V.build.log 2>&1 && go test -count=1 ./pkg/... ./api/... > $LOG/$P.$V.suite.log 2>&1); S=$?
    echo "CONFIRM $P.$V demo-clean-exit=$C (want 0) demo-mutant-exit=$M (want !=0) suite-with-mutant-exit=$S (want 0) fails=$(grep -c '^FAIL' $LOG/$P.$V.suite.log)"
  else
    echo "CONFIRM $P.$V demo not runnable automatically (demo=$DEMO dir=$META_DIR)"
  fi
  git -C /repo worktree remove --force $WT
fi
# run the checks against /repo with the patch applied
git -C /repo diff --quiet || { echo "/repo not clean"; exit 2; }
git -C /repo apply "$PATCH" || { echo "APPLY-FAILED $P.$V"; exit 2; }
for C in "$@"; do
  VERIF_DIR=${MUT_VD:-/tmp/mut-eval/vd} /verif/check $C --tier quick > $LOG/$P.$V.$C.log 2>&1; E=$?
  echo "CHECK $P.$V $C exit=$E $(grep -c '^VIOLATION' $LOG/$P.$V.$C.log) violations: $(grep -A1 '^VIOLATION' $LOG/$P.$V.$C.log | grep '^  ' | head -4 | tr '\n' ' ' | cut -c1-300)"
done
git -C /repo checkout -- . && git -C /repo status --short | head -3
