//go:build race

package c19iso

const raceEnabled = true
