// Package c16lua is the check of property C16: "a Lua plugin cannot hang, crash or escape the controller".
//
// Monitors: (a) result shape, (b) bounded CPU time, (c1) environment walk + dynamic escape probes, (c2) syscall
// log under strace, (d) value round trip. Every Lua script runs in a killable child process (child.go / parent.go).
package c16lua

import (
	"encoding/json"
	"fmt"
	"os"
	"reflect"
	"strings"
	"time"

	"verif/harness/core"
)

const (
	grammarPerCase = 25
)

func init() {
	if os.Getenv(envChild) != "" {
		childMain()
		os.Exit(0)
	}
	if f := os.Getenv("C16LUA_EXPLORE"); f != "" {
		exploreMain(f)
		os.Exit(0)
	}
	core.Register(&core.Check{
		ID:    "C16",
		Level: "exploration",
		Rule: "cases: #0 environment walk of the script-visible globals (copied construction + probe through the real RunLuaScript) with dynamic escape probes against sentinel files; " +
			"#1 the same probes, the fast hostile corpus and generated programs under strace, bracketed by marker syscalls; then one case per hostile-corpus unit " +
			"(non-terminating scripts, pattern / gsub / load bombs as growing families, large-but-modest inputs, recursion, error() variants, wrong return types, bad arguments, environment tampering, cross-call isolation); " +
			"then batches of 25 grammar-generated programs; then batches of 50 generated JSON-like values through identity scripts; last case: ~230 scripts covering every shape of return value (none, nil, scalars, functions, coroutines, throwing metatables, two and three values, error() with non-strings) handed to the REAL customNetworkProvider (NewCustomController / Initialize / EnsureRoutes on a fake client) - a panic there is a violation. Every script is executed exactly as ingress/custom executeLuaForCanary do " +
			"(RunLuaScript, l.Get(-1), type test, luamanager.Encode, json.Unmarshal into the caller's type) in a child process, one script at a time, GOMAXPROCS=1, getrusage around the call. " +
			"distinct = distinct (category, script name or generated-feature set, outcome) signature.",
		Assumptions: []string{
			"bounded time is judged on CPU time of the call (getrusage, single-P child so CPU <= wall): violation only above 10 s (claimed deadline 1 s; calls between 2 s and 10 s are recorded as observations); a script still running at 10.5 s CPU is killed and counted as over the bound; the wall watchdog (60 s without CPU progress) alone never produces a violation, only an inconclusive case",
			"memory bombs and nesting bombs are outside the claim: corpus data stay below ~50 MB / a few thousand nesting levels; a call during which the process's peak RSS exceeds 512 MiB is not judged on time (this includes five-word scripts that pile up a call chain until the deadline); a child that dies with 'out of memory' or exceeds 6 GiB RSS is excluded, not judged",
			"an unrecoverable death of the process (Go fatal error) caused by a script of modest size is a violation ('never panics the process')",
			"no escape: print/_printregs (stdout of the controller) and load/loadstring (compile strings only) are allowed; a reachable function outside the reviewed allow-list of base/math/string/table/json functions is reported because the claimed mechanism is a closed set of opened libraries; loadfile/dofile/require are judged by probes against sentinel files and by the syscall log",
			"round trip: numbers compare numerically; {} == [] == null where the value is an empty table; JSON null inside lists/maps cannot be stored in a Lua table and is outside the property's quantifier (maps/lists/numbers/strings): dropped nulls are tolerated and counted, everything else must be preserved exactly",
			"inputs are what runtime.DefaultUnstructuredConverter.ToUnstructured yields (int64/float64/string/bool/nil/slices/maps; valid UTF-8)",
		},
		NumCases: func(env *core.Env) int {
			p := planFor(env)
			return p.total
		},
		ChunkSize:        1,
		Relevant:         "scripts_run",
		DeathIsViolation: true,
		RunCase:          runCase,
	})
}

type plan struct {
	nHostile, nGrammar, nRT int
	total                   int
}

func planFor(env *core.Env) plan {
	p := plan{nHostile: len(hostileUnits(env.Thorough()))}
	if env.Thorough() {
		p.nGrammar, p.nRT = 30000/grammarPerCase, 600
	} else {
		p.nGrammar, p.nRT = 1500/grammarPerCase, 40
	}
	p.total = 2 + p.nHostile + p.nGrammar + p.nRT + 1 // + the return-shape case through the real provider (last index)
	return p
}

func runCase(env *core.Env, idx int) *core.CaseResult {
	res := &core.CaseResult{}
	p := planFor(env)
	if os.Getenv("C16LUA_TIMING") != "" { // development aid: which cases dominate the wall time
		t0 := time.Now()
		defer func() {
			if d := time.Since(t0); d > 3*time.Second {
				res.AddSet("slow_cases", fmt.Sprintf("%04d:%.1fs", idx, d.Seconds()))
			}
		}()
	}
	switch {
	case idx == 0:
		runEnvCase(res)
	case idx == 1:
		runStraceCase(env, res)
	case idx < 2+p.nHostile:
		runHostileCase(env, hostileUnits(env.Thorough())[idx-2], res)
	case idx < 2+p.nHostile+p.nGrammar:
		runGrammarCase(env, idx, res)
	case idx == p.total-1:
		runProviderCase(res)
	default:
		runRoundTripCase(env, idx, res)
	}
	return res
}

func isOOM(stderr string) bool {
	return strings.Contains(stderr, "out of memory") || strings.Contains(stderr, "cannot allocate memory")
}

// judgeCommon applies monitors (a) and (b) to one executed script.
// modest: the script's own data are small by construction (hostile corpus). A call that drives the peak RSS above
// 512 MiB is taken for a memory / nesting bomb and not judged on time, whoever wrote the script.
func judgeCommon(res *core.CaseResult, it item, r itemResult, timeFP string, modest bool) {
	detail := func() map[string]interface{} {
		return map[string]interface{}{"category": it.Cat, "name": it.Name, "script": capStr(it.Script, 4000), "flavour": it.Flavour, "kind": r.Kind, "stage": r.Stage,
			"error": capStr(r.Err, 600), "cpu_ms": r.CPUms, "run_cpu_ms": r.RunCPUms, "wall_ms": r.WallMs, "rss_kb": r.RSS1KB, "stderr": r.Stderr}
	}
	res.Count("scripts_run", 1)
	switch r.Kind {
	case "table":
		res.Count("results_table", 1)
	case "error":
		res.Count("results_error", 1)
		res.Count("results_error_"+r.Stage, 1)
	case "panic":
		res.Count("panics", 1)
		d := detail()
		d["stack"] = r.Stack
		res.Violate("c16:panic:"+r.Site+":"+core.NormPanic(r.Panic), "a Go panic escaped RunLuaScript/Encode: "+r.Panic, d)
	case "death":
		if isOOM(r.Stderr) {
			res.Count("memory_bombs_excluded", 1)
			return
		}
		res.Count("process_deaths", 1)
		res.Violate("c16:death:"+deathClass(r), "the script killed the whole process: "+firstFatal(r.Stderr)+" "+r.ExitErr, detail())
		return
	case "killed-rss":
		res.Count("memory_bombs_excluded", 1)
		return
	case "killed-wall":
		if r.CPUms <= cpuBoundMs {
			res.Count("wall_watchdog_inconclusive", 1)
			res.Inconclusive = fmt.Sprintf("%s/%s did not return within %v wall but consumed only %d ms CPU", it.Cat, it.Name, wallKill, r.CPUms)
			return
		}
	case "killed-cpu":
	case "nochild":
		res.Count("child_trouble", 1)
		res.Inconclusive = "child process trouble: " + capStr(r.Err+" "+r.Stderr, 400)
		return
	}
	if r.CPUms > cpuBoundMs && r.RSS1KB > memBombKB && strings.HasPrefix(r.Kind, "killed") {
		// Above 512 MiB AND still running when the watchdog killed it: a nesting bomb stops at the deadline and needs a
		// few seconds to unwind, a call that ignores the deadline (e.g. a loop inside a Go builtin) just carries on. Give it
		// a second, much longer run: returning within that is the slow unwinding (not judged on time, see below); being
		// still at it after the bound again - whatever ends it, the CPU or the memory watchdog - is a hang.
		res.Count("over_bound_memory_heavy_calls_rerun", 1)
		again := runItems([]item{it}, runOpt{KillCPUMs: 4 * killCPUMs}).Results[0]
		if strings.HasPrefix(again.Kind, "killed") && again.CPUms > cpuBoundMs {
			fp := timeFP
			if fp == "" {
				fp = "c16:time:" + it.Cat
			}
			res.Count("cpu_over_bound", 1)
			res.Violate(fp, fmt.Sprintf("the call had not returned after %d ms CPU (killed) and, run again with four times the allowance, was still running after %d ms CPU (peak RSS %d MiB); the deadline in RunLuaScript is 1 s, bound used 10 s", r.CPUms, again.CPUms, again.RSS1KB/1024), detail())
			return
		}
	}
	if r.CPUms > cpuBoundMs && r.RSS1KB > memBombKB {
		// the call drove the process above 512 MiB: a memory / nesting bomb, outside the claim (a controller with a usual
		// memory limit would be OOM-killed, which the sandbox does not promise to prevent) - time not judged. This holds for
		// the hostile corpus too: "local function f() return f() end return f()" is five words long and stops at the
		// deadline, but has by then piled up a call chain whose unwinding takes seconds and more than a GiB.
		res.Count("memory_bombs_excluded", 1)
		res.AddSet("memory_bombs", it.Cat+"/"+it.Name)
		return
	}
	if r.CPUms > slowMs && r.CPUms <= cpuBoundMs {
		res.Count("calls_slower_than_2s_within_bound", 1)
		res.AddSet("slow_calls_within_bound", it.Cat+"/"+it.Name)
	}
	if r.CPUms > cpuBoundMs {
		res.Count("cpu_over_bound", 1)
		fp := timeFP
		if fp == "" {
			fp = "c16:time:" + it.Cat
		}
		how := fmt.Sprintf("returned after %d ms CPU", r.CPUms)
		if strings.HasPrefix(r.Kind, "killed") {
			how = fmt.Sprintf("had not returned after %d ms CPU (killed)", r.CPUms)
		}
		res.Violate(fp, fmt.Sprintf("the call %s; the deadline in RunLuaScript is 1 s, bound used 10 s", how), detail())
	}
}

func runHostileCase(env *core.Env, u unit, res *core.CaseResult) {
	if u.Cat == "returns-custom" {
		in := customInputJSON(map[string]interface{}{"hosts": []interface{}{"a.example.com"}, "http": []interface{}{map[string]interface{}{"route": []interface{}{map[string]interface{}{"weight": int64(100)}}}}},
			map[string]string{"app": "demo"}, map[string]string{"a": "b"})
		for i := range u.Items {
			u.Items[i].Input = in
		}
	}
	items := u.Items
	var results []itemResult
	if u.StopAtOver {
		for i := range items {
			out := runItems(items[i:i+1], runOpt{})
			results = append(results, out.Results[0])
			if out.Results[0].CPUms > cpuBoundMs || out.Results[0].Kind == "death" {
				break
			}
		}
	} else {
		results = runItems(items, runOpt{}).Results
	}
	for i, r := range results {
		judgeCommon(res, items[i], r, u.TimeFP, true)
		out := r.Kind
		if r.Kind == "error" {
			out += "@" + r.Stage
		}
		if r.CPUms > cpuBoundMs {
			out += ":over-bound"
		}
		name := items[i].Name
		if u.StopAtOver {
			name = fmt.Sprintf("%s#%d", name, i)
		}
		res.AddSig("hostile:" + u.Cat + ":" + name + ":" + out)
		res.AddSet("hostile_categories", u.Cat)
	}
	if u.Cat == "returns" {
		for i, r := range results {
			exp, ok := returnExpect[items[i].Name]
			if !ok {
				continue
			}
			res.Count("encoder_refusals_checked", 1)
			if r.JSON == "" { // Encode refused (or the script failed earlier): fine
				continue
			}
			same := false
			var got interface{}
			if json.Unmarshal([]byte(r.JSON), &got) == nil {
				for _, okJSON := range exp.OK {
					var want interface{}
					if json.Unmarshal([]byte(okJSON), &want) == nil && reflect.DeepEqual(got, want) {
						same = true
					}
				}
			}
			if !same {
				res.Violate("c16:encode:"+exp.Class, "Encode turned a value JSON cannot carry into something else instead of refusing it",
					map[string]interface{}{"script": items[i].Script, "encoded": capStr(r.JSON, 600), "acceptable": exp.OK})
			}
		}
	}
	if u.Isolation && len(results) == 2 {
		res.Count("isolation_checks", 1)
		want := `{"add":"nil","enc":"function","huge":"false","ins":"function","leak":"nil","rep":"function","up":"A","w":"20"}`
		if results[0].Kind != "table" || results[1].Kind != "table" || results[1].JSON != want {
			res.Violate("c16:isolation:state-shared-between-calls", "what one script did to its globals / library tables / input is visible to the next call",
				map[string]interface{}{"poison": items[0].Script, "check": items[1].Script, "first": results[0], "second": results[1], "want": want})
		}
	}
	if len(results) > 0 {
		res.Sample = map[string]interface{}{"kind": "hostile", "category": u.Cat, "name": items[0].Name, "script": capStr(items[0].Script, 300), "outcome": results[0].Kind, "stage": results[0].Stage, "cpu_ms": results[0].CPUms}
	}
}

func runGrammarCase(env *core.Env, idx int, res *core.CaseResult) {
	rng := env.RNG(idx)
	var items []item
	var progs []genProg
	in := ingressInputJSON()
	for i := 0; i < grammarPerCase; i++ {
		g := genProgram(rng, env.Thorough())
		progs = append(progs, g)
		fl := "ingress"
		if i%3 == 2 {
			fl = "raw"
		}
		items = append(items, item{Cat: "generated", Name: "program", Script: g.Src, Input: in, Flavour: fl})
	}
	out := runItems(items, runOpt{})
	for i, r := range out.Results {
		judgeCommon(res, items[i], r, "c16:time:generated-program", false)
		res.Count("generated_programs", 1)
		o := r.Kind
		if r.Kind == "error" {
			o += "@" + r.Stage
			if strings.Contains(r.Err, "context deadline exceeded") {
				o += ":deadline"
				res.Count("generated_hit_deadline", 1)
			} else if strings.Contains(r.Err, "stack overflow") {
				o += ":stackoverflow"
			}
		}
		res.AddSig("gen:" + featSig(progs[i].Feat) + ":" + o)
	}
	if len(items) > 0 {
		res.Sample = map[string]interface{}{"kind": "generated", "script": items[0].Script, "outcome": out.Results[0].Kind, "stage": out.Results[0].Stage, "error": capStr(out.Results[0].Err, 200)}
	}
}
