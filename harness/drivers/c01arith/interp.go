package c01arith

// Reference interpreters (DESIGN §1.3) written from the workload controllers' documented semantics and the
// property statement. Nothing here calls CalculateBatchReplicas, ParseIntegerAsPercentageIfPossible,
// NewRSReplicasLimit, IsCurrentMoreThanOrEqualToDesired or intstr.GetScaledValueFromIntOrPercent.

import (
	"encoding/json"
	"strconv"
	"strings"

	kruisev1alpha1 "github.com/openkruise/kruise-api/apps/v1alpha1"
	kruisev1beta1 "github.com/openkruise/kruise-api/apps/v1beta1"
	apps "k8s.io/api/apps/v1"
	"k8s.io/apimachinery/pkg/util/intstr"
)

func ceilDiv(a, b int) int {
	if b <= 0 {
		return 0
	}
	if a <= 0 {
		return 0
	}
	return (a + b - 1) / b
}

func clamp(v, lo, hi int) int {
	if v < lo {
		return lo
	}
	if v > hi {
		return hi
	}
	return v
}

// parsePct parses "<n>%"; ok=false for anything else.
func parsePct(s string) (int, bool) {
	if !strings.HasSuffix(s, "%") {
		return 0, false
	}
	n, err := strconv.Atoi(strings.TrimSuffix(s, "%"))
	if err != nil {
		return 0, false
	}
	return n, true
}

func isPct(v intstr.IntOrString) bool { return v.Type == intstr.String }

// resolveUp: int -> itself; "p%" -> ceil(p*total/100). Unparseable strings resolve to 0.
func resolveUp(v intstr.IntOrString, total int) int {
	if v.Type == intstr.Int {
		return int(v.IntVal)
	}
	p, ok := parsePct(v.StrVal)
	if !ok {
		return 0
	}
	return ceilDiv(p*total, 100)
}

// planned(step, replicas): the number of pods the step configures. int n -> min(n, replicas); p% -> ceil(p*replicas/100), clamped to [0,replicas].
func planned(step intstr.IntOrString, replicas int) int {
	return clamp(resolveUp(step, replicas), 0, replicas)
}

// kruisePartitionKept: pods a Kruise CloneSet keeps on the old revision for a given partition
// (kruise-api CloneSetUpdateStrategy.Partition: "desired number of pods in old revisions ... calculated from percentage by
// rounding up"; Kruise additionally guarantees that a percentage below 100% on more than one replica leaves at least one pod to update).
func kruisePartitionKept(p *intstr.IntOrString, replicas int) int {
	if p == nil {
		return 0
	}
	kept := resolveUp(*p, replicas)
	if replicas > 1 && kept == replicas && p.Type == intstr.String && p.StrVal != "100%" {
		kept = replicas - 1
	}
	return clamp(kept, 0, replicas)
}

func i32(p *int32, def int32) int {
	if p == nil {
		return int(def)
	}
	return int(*p)
}

// ---- exposure: how many pods the object asks to be on the new revision ---------------------------

func exposurePSCloneSet(cs *kruisev1alpha1.CloneSet) int {
	r := i32(cs.Spec.Replicas, 1)
	if cs.Spec.UpdateStrategy.Paused {
		return 0
	}
	return r - kruisePartitionKept(cs.Spec.UpdateStrategy.Partition, r)
}

func exposureStatefulSet(s *apps.StatefulSet) int {
	r := i32(s.Spec.Replicas, 1)
	part := 0
	if ru := s.Spec.UpdateStrategy.RollingUpdate; ru != nil && ru.Partition != nil {
		part = int(*ru.Partition)
	}
	return r - clamp(part, 0, r)
}

func exposureAdvStatefulSet(s *kruisev1beta1.StatefulSet) int {
	r := i32(s.Spec.Replicas, 1)
	part := 0
	if ru := s.Spec.UpdateStrategy.RollingUpdate; ru != nil {
		if ru.Paused {
			return 0
		}
		if ru.Partition != nil {
			part = int(*ru.Partition)
		}
	}
	return r - clamp(part, 0, r)
}

func exposureDaemonSet(d *kruisev1alpha1.DaemonSet) int {
	r := int(d.Status.DesiredNumberScheduled)
	part := 0
	if ru := d.Spec.UpdateStrategy.RollingUpdate; ru != nil {
		if ru.Paused != nil && *ru.Paused {
			return 0
		}
		if ru.Partition != nil {
			part = int(*ru.Partition)
		}
	}
	return r - clamp(part, 0, r)
}

// advDeployStrategy is my own reading of the rollouts.kruise.io/deployment-strategy annotation
// (api/v1alpha1/deployment_types.go: "Partition describe how many Pods should be updated during rollout").
type advDeployStrategy struct {
	RollingStyle string              `json:"rollingStyle"`
	Paused       bool                `json:"paused"`
	Partition    *intstr.IntOrString `json:"partition"`
}

const (
	annoDeployStrategy    = "rollouts.kruise.io/deployment-strategy"
	annoDeployExtraStatus = "rollouts.kruise.io/deployment-extra-status"
	annoControlInfo       = "batchrelease.rollouts.kruise.io/control-info"
)

// exposurePSDeployment: the advanced-deployment controller scales the new ReplicaSet up to the partition:
// int -> min(p, replicas); "p%" -> ceil(p*replicas/100) capped at replicas, and a percentage other than "100%" on
// more than one replica never covers the last pod (documented in pkg/controller/deployment/util NewRSReplicasLimit).
// Off switches: no strategy annotation / strategy.paused / deployment not handed to the advanced controller => 0.
func exposurePSDeployment(d *apps.Deployment) int {
	r := i32(d.Spec.Replicas, 1)
	raw := d.Annotations[annoDeployStrategy]
	if raw == "" {
		return 0
	}
	st := advDeployStrategy{}
	if err := json.Unmarshal([]byte(raw), &st); err != nil {
		return 0
	}
	if st.Paused || st.Partition == nil {
		return 0
	}
	lim := clamp(resolveUp(*st.Partition, r), 0, r)
	if r > 1 && st.Partition.Type == intstr.String && st.Partition.StrVal != "100%" && lim > r-1 {
		lim = r - 1
	}
	return lim
}

func exposureCanaryDeployment(canary *apps.Deployment) int {
	if canary == nil {
		return 0
	}
	return i32(canary.Spec.Replicas, 1)
}

// exposureBGCloneSet: blue-green keeps every old pod (maxUnavailable 0, minReadySeconds "infinite") and lets the CloneSet
// surge new-revision pods: min(resolved maxSurge (rounded up), pods allowed to update = replicas - partition).
func exposureBGCloneSet(cs *kruisev1alpha1.CloneSet) int {
	r := i32(cs.Spec.Replicas, 1)
	if cs.Spec.UpdateStrategy.Paused {
		return 0
	}
	updatable := r - kruisePartitionKept(cs.Spec.UpdateStrategy.Partition, r)
	surge := 0
	if cs.Spec.UpdateStrategy.MaxSurge != nil {
		surge = resolveUp(*cs.Spec.UpdateStrategy.MaxSurge, r)
	}
	return clamp(surge, 0, updatable)
}

// exposureBGDeployment: a paused Deployment rolls nothing; unpaused with maxUnavailable 0 and old pods never released, the
// new ReplicaSet grows to min(resolved maxSurge (native Deployment rounds surge up), replicas).
func exposureBGDeployment(d *apps.Deployment) int {
	r := i32(d.Spec.Replicas, 1)
	if d.Spec.Paused {
		return 0
	}
	if d.Spec.Strategy.Type != "" && d.Spec.Strategy.Type != apps.RollingUpdateDeploymentStrategyType {
		return r // Recreate: everything
	}
	surge := ceilDiv(25*r, 100) // API default 25%
	if ru := d.Spec.Strategy.RollingUpdate; ru != nil && ru.MaxSurge != nil {
		surge = resolveUp(*ru.MaxSurge, r)
	}
	return clamp(surge, 0, r)
}
