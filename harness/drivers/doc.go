// Package drivers links every property check into vcheck.
package drivers

import (
	_ "verif/harness/drivers/c20conv"
)
