package c16lua

import (
	"encoding/json"
	"fmt"

	"k8s.io/apimachinery/pkg/runtime"
	gatewayv1beta1 "sigs.k8s.io/gateway-api/apis/v1beta1"

	"github.com/openkruise/rollouts/api/v1beta1"
	customNetworkProvider "github.com/openkruise/rollouts/pkg/trafficrouting/network/customNetworkProvider"
)

// ingressLuaData mirrors the function-local type of ingress.executeLuaForCanary.
type ingressLuaData struct {
	Annotations           map[string]string
	Weight                string
	Matches               []v1beta1.HttpRouteMatch
	CanaryService         string
	RequestHeaderModifier *gatewayv1beta1.HTTPHeaderFilter
}

func sampleMatches() []v1beta1.HttpRouteMatch {
	exact := gatewayv1beta1.HeaderMatchExact
	re := gatewayv1beta1.HeaderMatchRegularExpression
	return []v1beta1.HttpRouteMatch{
		{Headers: []gatewayv1beta1.HTTPHeaderMatch{{Type: &exact, Name: "user_id", Value: "123456"}, {Type: &re, Name: "region", Value: "^cn-.*"}}},
		{Headers: []gatewayv1beta1.HTTPHeaderMatch{{Name: "canary-by-cookie", Value: "demo"}}},
	}
}

func toUnstructuredJSON(v interface{}) json.RawMessage {
	un, err := runtime.DefaultUnstructuredConverter.ToUnstructured(v)
	if err != nil {
		panic(fmt.Sprintf("c16: ToUnstructured: %v", err))
	}
	b, err := json.Marshal(un)
	if err != nil {
		panic(fmt.Sprintf("c16: marshal input: %v", err))
	}
	return b
}

// ingressInputJSON is obj.Object as ingress.executeLuaForCanary builds it.
func ingressInputJSON() json.RawMessage {
	d := &ingressLuaData{
		Annotations:   map[string]string{"kubernetes.io/ingress.class": "nginx", "nginx.ingress.kubernetes.io/canary": "true"},
		Weight:        "20",
		Matches:       sampleMatches(),
		CanaryService: "echoserver-canary",
		RequestHeaderModifier: &gatewayv1beta1.HTTPHeaderFilter{
			Set: []gatewayv1beta1.HTTPHeader{{Name: "x-env", Value: "canary"}},
		},
	}
	return toUnstructuredJSON(d)
}

// customInputJSON is obj.Object as customNetworkProvider.executeLuaForCanary builds it, with the given spec.
func customInputJSON(spec interface{}, labels, annotations map[string]string) json.RawMessage {
	d := &customNetworkProvider.LuaData{
		Data:          customNetworkProvider.Data{Spec: spec, Labels: labels, Annotations: annotations},
		CanaryWeight:  20,
		StableWeight:  80,
		Matches:       sampleMatches(),
		CanaryService: "echoserver-canary",
		StableService: "echoserver",
	}
	return toUnstructuredJSON(d)
}
