package c15custom

// Input minimisation: greedy removal of steps, refs, strategy parts and object fields while the same
// fingerprint keeps firing and the input stays inside the generated (legal) input language.

import (
	"sort"

	"github.com/openkruise/rollouts/api/v1beta1"
	"k8s.io/apimachinery/pkg/runtime"

	"verif/harness/core"
)

var shrunk = map[string]int{} // per worker process: each fingerprint is minimised at most twice

func cloneIn(in *caseIn) *caseIn {
	out := &caseIn{Stable: in.Stable, Canary: in.Canary, BigInts: in.BigInts}
	out.Refs = append(out.Refs, in.Refs...)
	for _, o := range in.Objects {
		out.Objects = append(out.Objects, runtime.DeepCopyJSONValue(normJSON(o)).(map[string]interface{}))
	}
	if in.Scripts != nil {
		out.Scripts = map[string]string{}
		for k, v := range in.Scripts {
			out.Scripts[k] = v
		}
	}
	for i := range in.Steps {
		out.Steps = append(out.Steps, *in.Steps[i].DeepCopy())
	}
	return out
}

// normJSON converts the generator's obj/list aliases and ints into what DeepCopyJSONValue accepts.
func normJSON(v interface{}) interface{} {
	switch t := v.(type) {
	case map[string]interface{}:
		out := map[string]interface{}{}
		for k, x := range t {
			out[k] = normJSON(x)
		}
		return out
	case []interface{}:
		out := make([]interface{}, len(t))
		for i, x := range t {
			out[i] = normJSON(x)
		}
		return out
	case int:
		return int64(t)
	}
	return v
}

func fires(in *caseIn, fp string) (bool, *core.Violation) {
	if !legal(in) {
		return false, nil
	}
	res := &core.CaseResult{}
	runOnce(in, res)
	for i := range res.Violations {
		if res.Violations[i].Fingerprint == fp {
			return true, &res.Violations[i]
		}
	}
	return false, nil
}

func minimise(in *caseIn, v *core.Violation) {
	if shrunk[v.Fingerprint] >= 2 {
		return
	}
	shrunk[v.Fingerprint]++
	cur := cloneIn(in)
	budget := 600
	best := v
	try := func(c *caseIn) bool {
		if budget <= 0 {
			return false
		}
		budget--
		ok, nv := fires(c, v.Fingerprint)
		if ok {
			cur, best = c, nv
		}
		return ok
	}
	if ok, _ := fires(cur, v.Fingerprint); !ok {
		return // not reproducible from the input alone: keep the original detail
	}
	for changed := true; changed && budget > 0; {
		changed = false
		// steps
		for j := len(cur.Steps) - 1; j >= 0; j-- {
			c := cloneIn(cur)
			c.Steps = append(c.Steps[:j], c.Steps[j+1:]...)
			if try(c) {
				changed = true
			}
		}
		// refs
		for j := len(cur.Refs) - 1; j >= 0 && len(cur.Refs) > 1; j-- {
			c := cloneIn(cur)
			c.Refs = append(c.Refs[:j], c.Refs[j+1:]...)
			c.Objects = append(c.Objects[:j], c.Objects[j+1:]...)
			if try(c) {
				changed = true
			}
		}
		// strategy parts
		for j := range cur.Steps {
			for _, edit := range stepEdits(&cur.Steps[j]) {
				c := cloneIn(cur)
				edit(&c.Steps[j])
				if try(c) {
					changed = true
					break
				}
			}
		}
		// object fields (spec, labels, annotations, status …)
		for j := range cur.Objects {
			for _, top := range []string{"spec", "metadata", "status"} {
				if _, ok := cur.Objects[j][top]; !ok {
					continue
				}
				for {
					paths := removablePaths(cur.Objects[j][top], nil)
					progressed := false
					for _, p := range paths {
						c := cloneIn(cur)
						nv, ok := removeAt(c.Objects[j][top], p)
						if !ok {
							continue
						}
						c.Objects[j][top] = nv
						if try(c) {
							changed, progressed = true, true
							break // paths are stale now
						}
					}
					if !progressed || budget <= 0 {
						break
					}
				}
			}
		}
		// unused scripts
		for k := range cur.Scripts {
			c := cloneIn(cur)
			delete(c.Scripts, k)
			if try(c) {
				changed = true
			}
		}
	}
	d, _ := best.Detail.(nf)
	if d == nil {
		d = nf{}
	}
	d["minimised"] = true
	d["generatedInput"] = in
	v.Detail, v.Msg = d, best.Msg
}

func stepEdits(s *v1beta1.TrafficRoutingStrategy) []func(*v1beta1.TrafficRoutingStrategy) {
	var out []func(*v1beta1.TrafficRoutingStrategy)
	if s.RequestHeaderModifier != nil {
		out = append(out, func(x *v1beta1.TrafficRoutingStrategy) { x.RequestHeaderModifier = nil })
	}
	if len(s.Matches) > 0 && s.Traffic != nil {
		out = append(out, func(x *v1beta1.TrafficRoutingStrategy) { x.Matches = nil })
		out = append(out, func(x *v1beta1.TrafficRoutingStrategy) { x.Traffic = nil })
	}
	for i := range s.Matches {
		i := i
		if len(s.Matches) > 1 {
			out = append(out, func(x *v1beta1.TrafficRoutingStrategy) { x.Matches = append(x.Matches[:i], x.Matches[i+1:]...) })
		}
		m := s.Matches[i]
		n := 0
		if m.Path != nil {
			n++
		}
		if len(m.Headers) > 0 {
			n++
		}
		if len(m.QueryParams) > 0 {
			n++
		}
		if n > 1 {
			if m.Path != nil {
				out = append(out, func(x *v1beta1.TrafficRoutingStrategy) { x.Matches[i].Path = nil })
			}
			if len(m.Headers) > 0 {
				out = append(out, func(x *v1beta1.TrafficRoutingStrategy) { x.Matches[i].Headers = nil })
			}
			if len(m.QueryParams) > 0 {
				out = append(out, func(x *v1beta1.TrafficRoutingStrategy) { x.Matches[i].QueryParams = nil })
			}
		}
		if len(m.Headers) > 1 {
			out = append(out, func(x *v1beta1.TrafficRoutingStrategy) { x.Matches[i].Headers = x.Matches[i].Headers[:1] })
		}
		if len(m.QueryParams) > 1 {
			out = append(out, func(x *v1beta1.TrafficRoutingStrategy) { x.Matches[i].QueryParams = x.Matches[i].QueryParams[:1] })
		}
	}
	return out
}

type pathElem struct {
	key string
	idx int // -1 for a map key
}

// removablePaths lists every map key / list element below v (outermost first).
func removablePaths(v interface{}, prefix []pathElem) [][]pathElem {
	var out [][]pathElem
	switch t := v.(type) {
	case map[string]interface{}:
		var ks []string
		for k := range t {
			ks = append(ks, k)
		}
		sort.Strings(ks)
		for _, k := range ks {
			p := append(append([]pathElem(nil), prefix...), pathElem{key: k, idx: -1})
			out = append(out, p)
		}
		for _, k := range ks {
			p := append(append([]pathElem(nil), prefix...), pathElem{key: k, idx: -1})
			out = append(out, removablePaths(t[k], p)...)
		}
	case []interface{}:
		for i := len(t) - 1; i >= 0; i-- {
			p := append(append([]pathElem(nil), prefix...), pathElem{idx: i})
			out = append(out, p)
		}
		for i := range t {
			p := append(append([]pathElem(nil), prefix...), pathElem{idx: i})
			out = append(out, removablePaths(t[i], p)...)
		}
	}
	return out
}

func removeAt(v interface{}, p []pathElem) (interface{}, bool) {
	if len(p) == 0 {
		return v, false
	}
	e := p[0]
	switch t := v.(type) {
	case map[string]interface{}:
		if e.idx != -1 {
			return v, false
		}
		child, ok := t[e.key]
		if !ok {
			return v, false
		}
		if len(p) == 1 {
			delete(t, e.key)
			return t, true
		}
		nc, ok := removeAt(child, p[1:])
		if ok {
			t[e.key] = nc
		}
		return t, ok
	case []interface{}:
		if e.idx < 0 || e.idx >= len(t) {
			return v, false
		}
		if len(p) == 1 {
			return append(append([]interface{}{}, t[:e.idx]...), t[e.idx+1:]...), true
		}
		nc, ok := removeAt(t[e.idx], p[1:])
		if ok {
			t[e.idx] = nc
		}
		return t, ok
	}
	return v, false
}

// ---- the generated input language (what the shrinker must stay inside) ---------------------------

func legal(in *caseIn) bool {
	if len(in.Refs) == 0 || len(in.Refs) != len(in.Objects) {
		return false
	}
	for i := range in.Steps {
		for _, m := range in.Steps[i].Matches {
			if m.Path == nil && len(m.Headers) == 0 && len(m.QueryParams) == 0 {
				return false
			}
		}
	}
	for i, o := range in.Objects {
		md, _ := o["metadata"].(map[string]interface{})
		if md == nil || md["name"] != in.Refs[i].Name || md["namespace"] != caseNS {
			return false
		}
		for _, k := range []string{"labels", "annotations"} {
			if v, ok := md[k]; ok {
				m, isMap := v.(map[string]interface{})
				if !isMap {
					return false
				}
				for _, x := range m {
					if _, s := x.(string); !s {
						return false
					}
				}
			}
		}
		spec, _ := o["spec"].(map[string]interface{})
		if spec == nil {
			return false
		}
		switch in.Refs[i].Kind {
		case "VirtualService":
			if !legalVS(spec) {
				return false
			}
		case "DestinationRule":
			if _, ok := spec["host"].(string); !ok {
				return false
			}
			ss, ok := spec["subsets"].([]interface{})
			if !ok {
				return false
			}
			for _, s := range ss {
				sm, _ := s.(map[string]interface{})
				if _, ok := sm["name"].(string); !ok {
					return false
				}
			}
		default:
			if _, ok := in.Scripts[scriptKey(in.Refs[i].Kind, customGroup)]; !ok {
				return false
			}
			if !legalCustom(spec) {
				return false
			}
		}
	}
	return true
}

func legalDests(v interface{}) bool {
	ds, ok := v.([]interface{})
	if !ok || len(ds) == 0 {
		return false
	}
	for _, d := range ds {
		dm, _ := d.(map[string]interface{})
		dest, _ := dm["destination"].(map[string]interface{})
		if _, ok := dest["host"].(string); !ok {
			return false
		}
		if w, has := dm["weight"]; has {
			n, isInt := w.(int64)
			if !isInt || n < 0 || n > 100 {
				return false
			}
			if len(ds) == 1 && n != 100 {
				return false
			}
		} else if len(ds) > 1 {
			return false
		}
	}
	return true
}

func legalVS(spec map[string]interface{}) bool {
	if hs, ok := spec["hosts"].([]interface{}); !ok || len(hs) == 0 {
		return false
	}
	http, ok := spec["http"].([]interface{})
	if !ok || len(http) == 0 {
		return false
	}
	for _, r := range http {
		rm, _ := r.(map[string]interface{})
		if rm == nil {
			return false
		}
		if rv, has := rm["route"]; has {
			if !legalDests(rv) {
				return false
			}
		} else {
			rd, _ := rm["redirect"].(map[string]interface{})
			dr, _ := rm["directResponse"].(map[string]interface{})
			if len(rd) == 0 && len(dr) == 0 {
				return false
			}
		}
		if m, has := rm["match"]; has {
			ml, ok := m.([]interface{})
			if !ok || len(ml) == 0 {
				return false
			}
			for _, x := range ml {
				if xm, _ := x.(map[string]interface{}); len(xm) == 0 {
					return false
				}
			}
		}
	}
	for _, proto := range []string{"tcp", "tls"} {
		v, has := spec[proto]
		if !has {
			continue
		}
		rs, ok := v.([]interface{})
		if !ok || len(rs) == 0 {
			return false
		}
		for _, r := range rs {
			rm, _ := r.(map[string]interface{})
			if rm == nil || !legalDests(rm["route"]) {
				return false
			}
			m, has := rm["match"]
			if proto == "tls" && !has {
				return false
			}
			if has {
				if ml, ok := m.([]interface{}); !ok || len(ml) == 0 {
					return false
				}
			}
		}
	}
	return true
}

func legalCustom(spec map[string]interface{}) bool {
	for k := range spec {
		if reservedKeys[k] && k != "backends" && k != "routing" && k != "legacy" {
			return false
		}
	}
	if v, has := spec["backends"]; has {
		l, ok := v.([]interface{})
		if !ok {
			return false
		}
		for _, b := range l {
			bm, _ := b.(map[string]interface{})
			if _, ok := bm["name"].(string); !ok {
				return false
			}
			if w, has := bm["weight"]; has {
				if _, ok := w.(int64); !ok {
					return false
				}
			}
		}
	}
	if v, has := spec["routing"]; has {
		if _, ok := v.(map[string]interface{}); !ok {
			return false
		}
	}
	return true
}
