package simapi

import (
	"context"
	"encoding/json"
	"fmt"
	"reflect"
	"sort"
	"strconv"
	"strings"
	"time"

	jsonpatch "github.com/evanphx/json-patch"
	apierrors "k8s.io/apimachinery/pkg/api/errors"
	"k8s.io/apimachinery/pkg/api/meta"
	"k8s.io/apimachinery/pkg/apis/meta/v1/unstructured"
	"k8s.io/apimachinery/pkg/runtime"
	"k8s.io/apimachinery/pkg/runtime/schema"
	"k8s.io/apimachinery/pkg/types"
	"k8s.io/apimachinery/pkg/util/strategicpatch"
	"sigs.k8s.io/controller-runtime/pkg/client"
	"sigs.k8s.io/controller-runtime/pkg/client/apiutil"
)

// Client is a per-actor handle on the store implementing client.Client.
type Client struct {
	s     *Store
	actor string
	// Alias, when non-nil, records objects handed out by UnsafeDisableDeepCopy lists so that the caller can
	// check after a reconcile that none of them was mutated (they are shared informer-cache objects in production).
	Alias *[]AliasEntry
	// Reads, when non-nil, serves Get/List from a (possibly stale) view instead of the live store (informer mode).
	Reads func() *View
	// nolock is set on the handle given to admission handlers, which run inside a locked write.
	nolock bool
}

type AliasEntry struct {
	Key  Key
	Obj  runtime.Object
	JSON string
}

var _ client.Client = &Client{}

func (s *Store) As(actor string) *Client { return &Client{s: s, actor: actor} }

func (c *Client) Actor() string { return c.actor }
func (c *Client) Store() *Store { return c.s }

func (c *Client) gvkOf(obj runtime.Object) (schema.GroupVersionKind, error) {
	if u, ok := obj.(*unstructured.Unstructured); ok {
		return u.GroupVersionKind(), nil
	}
	if u, ok := obj.(*unstructured.UnstructuredList); ok {
		g := u.GroupVersionKind()
		g.Kind = strings.TrimSuffix(g.Kind, "List")
		return g, nil
	}
	g, err := apiutil.GVKForObject(obj, c.s.Scheme)
	if err != nil {
		return g, err
	}
	g.Kind = strings.TrimSuffix(g.Kind, "List")
	return g, nil
}

func gr(gvk schema.GroupVersionKind) schema.GroupResource {
	return schema.GroupResource{Group: gvk.Group, Resource: strings.ToLower(gvk.Kind) + "s"}
}

func (c *Client) begin(verb string, gvk schema.GroupVersionKind, k Key) *Call {
	s := c.s
	s.calls++
	call := &Call{Seq: s.calls, Actor: c.actor, Rid: s.rid[c.actor], Verb: verb, GVK: gvk, Key: k}
	return call
}

func (c *Client) end(call *Call, err error) error {
	if err != nil {
		call.Err = err.Error()
	}
	if c.s.KeepCalls {
		c.s.CallLog = append(c.s.CallLog, *call)
	}
	return err
}

func (c *Client) fault(call *Call) error {
	if c.s.OnCall != nil {
		return c.s.OnCall(call)
	}
	return nil
}

// RunawayGrowth is the panic value of the store's growth guard.
type RunawayGrowth struct{ Msg string }

// MaxObjectBytes is the request size limit of a real API server (etcd's 1.5 MiB): a controller that keeps growing an
// object is told so, instead of taking the simulation's memory with it.
const MaxObjectBytes = 3 << 19

// sizeGuard rejects objects beyond the API server's limit and stops a run whose committed versions add up to more than
// 512 MiB (every version is kept for the monitors): that is runaway growth of some object, reported by the caller.
func (s *Store) sizeGuard(gvk schema.GroupVersionKind, k Key, o Obj) error {
	b, _ := json.Marshal(o)
	if len(b) > MaxObjectBytes {
		s.tooLarge++
		if s.tooLarge >= 10 {
			panic(RunawayGrowth{Msg: fmt.Sprintf("%s was rejected %d times for exceeding the API server's object size limit (%d bytes offered, limit %d)", k, s.tooLarge, len(b), MaxObjectBytes)})
		}
		return apierrors.NewRequestEntityTooLargeError(fmt.Sprintf("simapi: %s is %d bytes, limit is %d", k, len(b), MaxObjectBytes))
	}
	s.committedBytes += int64(len(b))
	if s.committedBytes > 512<<20 {
		panic(RunawayGrowth{Msg: fmt.Sprintf("the committed object versions of this run exceed 512 MiB (last write: %s, %d bytes)", k, len(b))})
	}
	return nil
}

func (s *Store) checkVersion(gvk schema.GroupVersionKind) error {
	gk := gvk.GroupKind()
	if gk.Group == "autoscaling" {
		// a real API server serves HorizontalPodAutoscalers in v1 and v2 whatever version they were written in; the code
		// under test only reads spec.scaleTargetRef, which is the same in both
		return nil
	}
	if v, ok := s.versions[gk]; ok && v != gvk.Version {
		return fmt.Errorf("simapi: %s is stored as version %s, access through %s is not modelled", gk, v, gvk.Version)
	}
	return nil
}

// decodeInto fills obj (typed or unstructured) from the stored JSON.
func decodeInto(o Obj, obj runtime.Object, gvk schema.GroupVersionKind) error {
	b, err := json.Marshal(o)
	if err != nil {
		return err
	}
	if u, ok := obj.(*unstructured.Unstructured); ok {
		u.Object = nil
		return u.UnmarshalJSON(b)
	}
	v := reflect.ValueOf(obj)
	if v.Kind() != reflect.Ptr || v.IsNil() {
		return fmt.Errorf("simapi: cannot decode into %T", obj)
	}
	v.Elem().Set(reflect.Zero(v.Elem().Type()))
	if err := json.Unmarshal(b, obj); err != nil {
		return err
	}
	obj.GetObjectKind().SetGroupVersionKind(gvk)
	return nil
}

func (c *Client) view() map[Key]Obj {
	if c.Reads != nil {
		return c.Reads().objs
	}
	return c.s.objs
}

func (c *Client) Get(ctx context.Context, key client.ObjectKey, obj client.Object, opts ...client.GetOption) error {
	s := c.s
	if !c.nolock {
		s.mu.Lock()
		defer s.mu.Unlock()
	}
	gvk, err := c.gvkOf(obj)
	if err != nil {
		return err
	}
	k := keyOf(gvk, key.Namespace, key.Name)
	call := c.begin("get", gvk, k)
	if err := c.fault(call); err != nil {
		return c.end(call, err)
	}
	if err := s.checkVersion(gvk); err != nil {
		return c.end(call, err)
	}
	o, ok := c.view()[k]
	if !ok {
		return c.end(call, apierrors.NewNotFound(gr(gvk), key.Name))
	}
	return c.end(call, decodeInto(o, obj, gvk))
}

func (c *Client) List(ctx context.Context, list client.ObjectList, opts ...client.ListOption) error {
	s := c.s
	if !c.nolock {
		s.mu.Lock()
		defer s.mu.Unlock()
	}
	gvk, err := c.gvkOf(list)
	if err != nil {
		return err
	}
	lo := &client.ListOptions{}
	lo.ApplyOptions(opts)
	call := c.begin("list", gvk, Key{Group: gvk.Group, Kind: gvk.Kind, NS: lo.Namespace})
	if err := c.fault(call); err != nil {
		return c.end(call, err)
	}
	if err := s.checkVersion(gvk); err != nil {
		return c.end(call, err)
	}
	var keys []Key
	objs := c.view()
	for k, o := range objs {
		if k.Group != gvk.Group || k.Kind != gvk.Kind {
			continue
		}
		if lo.Namespace != "" && k.NS != lo.Namespace {
			continue
		}
		if !matchLabels(o, lo.LabelSelector) {
			continue
		}
		keys = append(keys, k)
	}
	sort.Slice(keys, func(i, j int) bool { return keys[i].String() < keys[j].String() })
	noCopy := lo.UnsafeDisableDeepCopy != nil && *lo.UnsafeDisableDeepCopy
	if ul, ok := list.(*unstructured.UnstructuredList); ok {
		ul.Items = nil
		for _, k := range keys {
			u := unstructured.Unstructured{}
			if err := decodeInto(objs[k], &u, gvk); err != nil {
				return c.end(call, err)
			}
			ul.Items = append(ul.Items, u)
		}
		return c.end(call, nil)
	}
	var items []runtime.Object
	for _, k := range keys {
		item, err := s.Scheme.New(gvk)
		if err != nil {
			return c.end(call, err)
		}
		if err := decodeInto(objs[k], item, gvk); err != nil {
			return c.end(call, err)
		}
		items = append(items, item)
	}
	if err := meta.SetList(list, items); err != nil {
		return c.end(call, err)
	}
	if noCopy && c.Alias != nil {
		// meta.SetList copies structs into the slice; take the addresses inside the list
		if ptrs, err := meta.ExtractList(list); err == nil {
			for i, p := range ptrs {
				b, _ := json.Marshal(p)
				*c.Alias = append(*c.Alias, AliasEntry{Key: keys[i], Obj: p, JSON: string(b)})
			}
		}
	}
	return c.end(call, nil)
}

// ---- writes -----------------------------------------------------------------------------------

func (s *Store) now() string {
	s.clock++
	return time.Unix(s.clock, 0).UTC().Format(time.RFC3339)
}

func (s *Store) nextRV() string {
	s.rv++
	return strconv.FormatInt(s.rv, 10)
}

// canon round-trips through the typed object (if the kind is in the scheme) so that absent vs zero-valued
// fields compare equal, as they do for an API server that stores typed objects.
func (s *Store) canon(gvk schema.GroupVersionKind, o Obj) Obj {
	if o == nil {
		return nil
	}
	if !s.Scheme.Recognizes(gvk) {
		return o
	}
	t, err := s.Scheme.New(gvk)
	if err != nil {
		return o
	}
	b, _ := json.Marshal(o)
	if err := json.Unmarshal(b, t); err != nil {
		return o
	}
	out, err := toObj(t)
	if err != nil {
		return o
	}
	// typed structs do not carry unknown fields; keep apiVersion/kind
	out["apiVersion"], out["kind"] = gvk.GroupVersion().String(), gvk.Kind
	return out
}

func stripVolatile(o Obj) Obj {
	c := CopyObj(o)
	if md, ok := c["metadata"].(map[string]interface{}); ok {
		delete(md, "resourceVersion")
		delete(md, "managedFields")
		delete(md, "generation")
	}
	return c
}

func (s *Store) emit(w *Write) {
	s.Log = append(s.Log, *w)
	if len(s.OnWrite) > 0 {
		v := s.snapshotLocked()
		for _, f := range s.OnWrite {
			f(w, v)
		}
	}
	ev := Event{Key: w.Key, GVK: w.GVK, Old: w.Before, New: w.After, Seq: w.Seq}
	switch {
	case w.Before == nil:
		ev.Type = "ADDED"
	case w.After == nil:
		ev.Type = "DELETED"
	default:
		ev.Type = "MODIFIED"
	}
	for _, f := range s.OnEvent {
		f(ev)
	}
	if s.AfterCommit != nil {
		s.AfterCommit(w)
	}
}

func (c *Client) Create(ctx context.Context, obj client.Object, opts ...client.CreateOption) error {
	s := c.s
	if !c.nolock {
		s.mu.Lock()
		defer s.mu.Unlock()
	}
	gvk, err := c.gvkOf(obj)
	if err != nil {
		return err
	}
	o, err := toObj(obj)
	if err != nil {
		return err
	}
	name := obj.GetName()
	k := keyOf(gvk, obj.GetNamespace(), name)
	call := c.begin("create", gvk, k)
	if err := c.fault(call); err != nil {
		return c.end(call, err)
	}
	if err := s.checkVersion(gvk); err != nil {
		return c.end(call, err)
	}
	md, _ := o["metadata"].(map[string]interface{})
	if md == nil {
		md = map[string]interface{}{}
		o["metadata"] = md
	}
	s.uid++
	if name == "" {
		gn, _ := md["generateName"].(string)
		if gn == "" {
			return c.end(call, apierrors.NewBadRequest("name or generateName required"))
		}
		name = fmt.Sprintf("%s%05d", gn, s.uid)
		md["name"] = name
		k.Name = name
		call.Key = k
	}
	if _, exists := s.objs[k]; exists {
		return c.end(call, apierrors.NewAlreadyExists(gr(gvk), name))
	}
	o["apiVersion"], o["kind"] = gvk.GroupVersion().String(), gvk.Kind
	if !strings.HasPrefix(c.actor, "setup") {
		delete(o, "status")
	}
	if s.Admission != nil {
		no, err := s.Admission.Admit(c, "CREATE", gvk, nil, o)
		if err != nil {
			return c.end(call, err)
		}
		o = no
		md, _ = o["metadata"].(map[string]interface{})
	}
	md["uid"] = fmt.Sprintf("%suid-%05d", s.UIDPrefix, s.uid)
	md["creationTimestamp"] = s.now()
	md["generation"] = float64(1)
	md["resourceVersion"] = s.nextRV()
	delete(md, "managedFields")
	delete(md, "deletionTimestamp")
	o = s.canon(gvk, o)
	if _, ok := s.versions[gvk.GroupKind()]; !ok {
		s.versions[gvk.GroupKind()] = gvk.Version
	}
	if s.BeforeCommit != nil {
		err, lose := s.BeforeCommit(call)
		if err != nil {
			return c.end(call, err)
		}
		if lose {
			call.LoseResponse = true
		}
	}
	s.objs[k] = o
	s.seq++
	w := &Write{Seq: s.seq, Actor: c.actor, Rid: call.Rid, Verb: "create", Key: k, GVK: gvk, After: o, CallSeq: call.Seq}
	call.Wrote, call.WriteSeq = true, w.Seq
	if err := decodeInto(o, obj, gvk); err != nil {
		return c.end(call, err)
	}
	_ = c.end(call, nil)
	s.emit(w)
	if call.LoseResponse {
		return apierrors.NewTimeoutError("simapi: response lost", 1)
	}
	return nil
}

func (c *Client) Delete(ctx context.Context, obj client.Object, opts ...client.DeleteOption) error {
	s := c.s
	if !c.nolock {
		s.mu.Lock()
		defer s.mu.Unlock()
	}
	gvk, err := c.gvkOf(obj)
	if err != nil {
		return err
	}
	k := keyOf(gvk, obj.GetNamespace(), obj.GetName())
	call := c.begin("delete", gvk, k)
	if err := c.fault(call); err != nil {
		return c.end(call, err)
	}
	old, ok := s.objs[k]
	if !ok {
		return c.end(call, apierrors.NewNotFound(gr(gvk), k.Name))
	}
	do := &client.DeleteOptions{}
	do.ApplyOptions(opts)
	if do.Preconditions != nil {
		if do.Preconditions.UID != nil && string(*do.Preconditions.UID) != UID(old) {
			return c.end(call, apierrors.NewConflict(gr(gvk), k.Name, fmt.Errorf("uid precondition failed")))
		}
		if do.Preconditions.ResourceVersion != nil && *do.Preconditions.ResourceVersion != Str(old, "metadata.resourceVersion") {
			return c.end(call, apierrors.NewConflict(gr(gvk), k.Name, fmt.Errorf("resourceVersion precondition failed")))
		}
	}
	if s.BeforeCommit != nil {
		err, lose := s.BeforeCommit(call)
		if err != nil {
			return c.end(call, err)
		}
		if lose {
			call.LoseResponse = true
		}
	}
	w := s.deleteLocked(c.actor, call, gvk, k, old)
	_ = c.end(call, nil)
	if w != nil {
		s.emit(w)
	}
	if call.LoseResponse {
		return apierrors.NewTimeoutError("simapi: response lost", 1)
	}
	return nil
}

func (s *Store) deleteLocked(actor string, call *Call, gvk schema.GroupVersionKind, k Key, old Obj) *Write {
	if len(Finalizers(old)) > 0 {
		if Deleting(old) {
			return nil
		}
		n := CopyObj(old)
		md := n["metadata"].(map[string]interface{})
		md["deletionTimestamp"] = s.now()
		md["resourceVersion"] = s.nextRV()
		s.objs[k] = n
		s.seq++
		w := &Write{Seq: s.seq, Actor: actor, Verb: "delete", Key: k, GVK: gvk, Before: old, After: n}
		if call != nil {
			w.Rid, w.CallSeq = call.Rid, call.Seq
			call.Wrote, call.WriteSeq = true, w.Seq
		}
		return w
	}
	delete(s.objs, k)
	s.seq++
	w := &Write{Seq: s.seq, Actor: actor, Verb: "delete", Key: k, GVK: gvk, Before: old, After: nil}
	if call != nil {
		w.Rid, w.CallSeq = call.Rid, call.Seq
		call.Wrote, call.WriteSeq = true, w.Seq
	}
	return w
}

func (c *Client) DeleteAllOf(ctx context.Context, obj client.Object, opts ...client.DeleteAllOfOption) error {
	return fmt.Errorf("simapi: DeleteAllOf not modelled")
}

func (c *Client) Update(ctx context.Context, obj client.Object, opts ...client.UpdateOption) error {
	return c.update(obj, false)
}

func (c *Client) update(obj client.Object, status bool) error {
	s := c.s
	if !c.nolock {
		s.mu.Lock()
		defer s.mu.Unlock()
	}
	gvk, err := c.gvkOf(obj)
	if err != nil {
		return err
	}
	k := keyOf(gvk, obj.GetNamespace(), obj.GetName())
	verb := "update"
	if status {
		verb = "update/status"
	}
	call := c.begin(verb, gvk, k)
	if err := c.fault(call); err != nil {
		return c.end(call, err)
	}
	old, ok := s.objs[k]
	if !ok {
		return c.end(call, apierrors.NewNotFound(gr(gvk), k.Name))
	}
	if rv := obj.GetResourceVersion(); rv != "" && rv != Str(old, "metadata.resourceVersion") {
		return c.end(call, apierrors.NewConflict(gr(gvk), k.Name, fmt.Errorf("the object has been modified; please apply your changes to the latest version and try again")))
	}
	if uid := string(obj.GetUID()); uid != "" && uid != UID(old) {
		return c.end(call, apierrors.NewConflict(gr(gvk), k.Name, fmt.Errorf("uid mismatch")))
	}
	n, err := toObj(obj)
	if err != nil {
		return c.end(call, err)
	}
	return c.commit(call, verb, gvk, k, old, n, status, obj)
}

func (c *Client) Patch(ctx context.Context, obj client.Object, p client.Patch, opts ...client.PatchOption) error {
	return c.patch(obj, p, false)
}

func (c *Client) patch(obj client.Object, p client.Patch, status bool) error {
	s := c.s
	if !c.nolock {
		s.mu.Lock()
		defer s.mu.Unlock()
	}
	gvk, err := c.gvkOf(obj)
	if err != nil {
		return err
	}
	k := keyOf(gvk, obj.GetNamespace(), obj.GetName())
	verb := "patch"
	if status {
		verb = "patch/status"
	}
	call := c.begin(verb, gvk, k)
	data, err := p.Data(obj)
	if err != nil {
		return c.end(call, err)
	}
	call.PatchType, call.Body = string(p.Type()), string(data)
	if err := c.fault(call); err != nil {
		return c.end(call, err)
	}
	old, ok := s.objs[k]
	if !ok {
		return c.end(call, apierrors.NewNotFound(gr(gvk), k.Name))
	}
	oldJS, _ := json.Marshal(old)
	var newJS []byte
	switch p.Type() {
	case types.MergePatchType:
		newJS, err = jsonpatch.MergePatch(oldJS, data)
	case types.JSONPatchType:
		var jp jsonpatch.Patch
		jp, err = jsonpatch.DecodePatch(data)
		if err == nil {
			newJS, err = jp.Apply(oldJS)
		}
	case types.StrategicMergePatchType:
		if !isBuiltinGroup(gvk.Group) || !s.Scheme.Recognizes(gvk) {
			return c.end(call, apierrors.NewGenericServerResponse(415, "patch", gr(gvk), k.Name, "the body of the request was in an unknown format - accepted media types include: application/json-patch+json, application/merge-patch+json, application/apply-patch+yaml", 0, false))
		}
		var t runtime.Object
		t, err = s.Scheme.New(gvk)
		if err == nil {
			newJS, err = strategicpatch.StrategicMergePatch(oldJS, data, t)
		}
	default:
		err = fmt.Errorf("simapi: unsupported patch type %s", p.Type())
	}
	if err != nil {
		return c.end(call, apierrors.NewBadRequest(err.Error()))
	}
	var n Obj
	if err := json.Unmarshal(newJS, &n); err != nil {
		return c.end(call, apierrors.NewBadRequest(err.Error()))
	}
	// optimistic lock carried inside the patch
	var pm map[string]interface{}
	if json.Unmarshal(data, &pm) == nil {
		if rv := Str(pm, "metadata.resourceVersion"); rv != "" && rv != Str(old, "metadata.resourceVersion") {
			return c.end(call, apierrors.NewConflict(gr(gvk), k.Name, fmt.Errorf("the object has been modified; please apply your changes to the latest version and try again")))
		}
	}
	return c.commit(call, verb, gvk, k, old, n, status, obj)
}

func isBuiltinGroup(g string) bool {
	switch g {
	case "", "apps", "networking.k8s.io", "autoscaling", "admissionregistration.k8s.io", "batch", "policy":
		return true
	}
	return false
}

// commit finishes an update / patch: sub-resource isolation, admission, metadata rules, no-op suppression,
// generation, finalizer-driven removal, log + monitors + events.
func (c *Client) commit(call *Call, verb string, gvk schema.GroupVersionKind, k Key, old, n Obj, status bool, out client.Object) error {
	s := c.s
	if status {
		merged := CopyObj(old)
		if st, ok := n["status"]; ok {
			merged["status"] = st
		} else {
			delete(merged, "status")
		}
		n = merged
	} else {
		if st, ok := old["status"]; ok {
			n["status"] = st
		} else {
			delete(n, "status")
		}
	}
	n["apiVersion"], n["kind"] = gvk.GroupVersion().String(), gvk.Kind
	if !status && s.Admission != nil {
		nn, err := s.Admission.Admit(c, "UPDATE", gvk, old, n)
		if err != nil {
			return c.end(call, err)
		}
		n = nn
	}
	md, _ := n["metadata"].(map[string]interface{})
	if md == nil {
		md = map[string]interface{}{}
		n["metadata"] = md
	}
	omd := old["metadata"].(map[string]interface{})
	for _, f := range []string{"uid", "creationTimestamp", "generation", "name", "namespace"} {
		if v, ok := omd[f]; ok {
			md[f] = v
		} else {
			delete(md, f)
		}
	}
	if dt, ok := omd["deletionTimestamp"]; ok {
		md["deletionTimestamp"] = dt
	} else {
		delete(md, "deletionTimestamp")
	}
	delete(md, "managedFields")
	nc := s.canon(gvk, n)
	oc := s.canon(gvk, old)
	if Equal(stripVolatile(oc), stripVolatile(nc)) {
		// no-op: nothing is committed, no event, resourceVersion unchanged
		_ = c.end(call, nil)
		return decodeInto(old, out, gvk)
	}
	if err := s.sizeGuard(gvk, k, nc); err != nil {
		return c.end(call, err)
	}
	if s.BeforeCommit != nil {
		err, lose := s.BeforeCommit(call)
		if err != nil {
			return c.end(call, err)
		}
		if lose {
			call.LoseResponse = true
		}
	}
	ncmd := nc["metadata"].(map[string]interface{})
	specChanged := !Equal(oc["spec"], nc["spec"])
	if gvk.Group == "apps" && gvk.Kind == "Deployment" && !Equal(PathK(oc, "metadata", "annotations"), PathK(nc, "metadata", "annotations")) {
		// the Deployment registry strategy bumps generation on annotation changes too
		specChanged = true
	}
	if _, hasSpec := nc["spec"]; !hasSpec {
		if _, had := oc["spec"]; !had {
			specChanged = false
		}
	}
	gen := IntD(old, "metadata.generation", 1)
	if specChanged && !status {
		gen++
	}
	ncmd["generation"] = float64(gen)
	ncmd["resourceVersion"] = s.nextRV()
	var after Obj = nc
	if Deleting(nc) && len(Finalizers(nc)) == 0 {
		delete(s.objs, k)
		after = nil
	} else {
		s.objs[k] = nc
	}
	s.seq++
	w := &Write{Seq: s.seq, Actor: c.actor, Rid: call.Rid, Verb: verb, Key: k, GVK: gvk, Before: old, After: after, CallSeq: call.Seq}
	call.Wrote, call.WriteSeq = true, w.Seq
	if err := decodeInto(nc, out, gvk); err != nil {
		return c.end(call, err)
	}
	_ = c.end(call, nil)
	s.emit(w)
	if call.LoseResponse {
		return apierrors.NewTimeoutError("simapi: response lost", 1)
	}
	return nil
}

func (c *Client) Status() client.SubResourceWriter { return &statusWriter{c} }
func (c *Client) SubResource(name string) client.SubResourceClient {
	panic("simapi: SubResource(" + name + ") not modelled")
}
func (c *Client) Scheme() *runtime.Scheme { return c.s.Scheme }
func (c *Client) RESTMapper() meta.RESTMapper {
	m := meta.NewDefaultRESTMapper(nil)
	for gvk := range c.s.Scheme.AllKnownTypes() {
		m.Add(gvk, meta.RESTScopeNamespace)
	}
	return m
}

type statusWriter struct{ c *Client }

func (w *statusWriter) Create(ctx context.Context, obj client.Object, sub client.Object, opts ...client.SubResourceCreateOption) error {
	return fmt.Errorf("simapi: status create not modelled")
}
func (w *statusWriter) Update(ctx context.Context, obj client.Object, opts ...client.SubResourceUpdateOption) error {
	return w.c.update(obj, true)
}
func (w *statusWriter) Patch(ctx context.Context, obj client.Object, p client.Patch, opts ...client.SubResourcePatchOption) error {
	return w.c.patch(obj, p, true)
}

// ---- garbage collector ---------------------------------------------------------------------------

// GCStep deletes one object all of whose owner references point to objects that no longer exist.
// It returns false when there is nothing to collect.
func (s *Store) GCStep() bool {
	s.mu.Lock()
	defer s.mu.Unlock()
	live := map[string]bool{}
	for _, o := range s.objs {
		live[UID(o)] = true
	}
	var keys []Key
	for k := range s.objs {
		keys = append(keys, k)
	}
	sort.Slice(keys, func(i, j int) bool { return keys[i].String() < keys[j].String() })
	for _, k := range keys {
		o := s.objs[k]
		owners := OwnerUIDs(o)
		if len(owners) == 0 || Deleting(o) && len(Finalizers(o)) > 0 {
			continue
		}
		dangling := true
		for _, u := range owners {
			if live[u] {
				dangling = false
			}
		}
		if !dangling {
			continue
		}
		gv, _ := schema.ParseGroupVersion(Str(o, "apiVersion"))
		gvk := gv.WithKind(Str(o, "kind"))
		s.calls++
		call := &Call{Seq: s.calls, Actor: "gc", Verb: "delete", GVK: gvk, Key: k}
		w := s.deleteLocked("gc", call, gvk, k, o)
		if w != nil {
			s.emit(w)
			return true
		}
	}
	return false
}
