// gencase prints the scenario the closed-loop engine draws for (property, seed, case index): a debugging aid.
package main

import (
	"encoding/json"
	"fmt"
	"os"
	"strconv"

	"verif/harness/core"
	_ "verif/harness/drivers"
	"verif/harness/drivers/e1"
)

func main() {
	prop := os.Args[1]
	seed, _ := strconv.ParseInt(os.Args[2], 10, 64)
	idx, _ := strconv.Atoi(os.Args[3])
	env := &core.Env{Seed: seed}
	s := e1.GenForCase(prop, env.RNG(idx), idx)
	b, _ := json.Marshal(s)
	fmt.Println(string(b))
}
