// Private dev binary of the C15 driver. Besides C15 it registers a dev-only "C07" check that keeps only the
// provider fixed-point findings (c07d:custom:*) of the same cases, so that clause (d) can be exercised on its own.
package main

import (
	"verif/harness/core"
	"verif/harness/drivers/c15custom"
)

func main() {
	core.Register(&core.Check{
		ID: "C07", Level: "exploration",
		Rule:      "dev only: the C15 cases, keeping the c07d:custom:* fixed-point findings",
		NumCases:  c15custom.NumCases,
		ChunkSize: 50,
		Relevant:  "ensure_calls",
		RunCase:   func(env *core.Env, idx int) *core.CaseResult { return c15custom.RunCase(env, idx, "C07") },
	})
	core.Main()
}
