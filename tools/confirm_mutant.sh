#!/bin/bash
# confirm_mutant.sh <PROP> <A|B>: confirms a seeded change in a scratch worktree of /repo (never touches /repo's working tree):
#   demo passes on the clean tree, fails with the patch, and the repo's test suite (pkg + api) still passes with the patch.
set -u
P=$1; V=$2
OUT=${MUT_OUT:-/tmp/mut-out}/$P; LOG=${MUT_LOG:-/tmp/mut-eval}; mkdir -p $LOG
export GOFLAGS=-mod=mod GOPROXY=off GOSUMDB=off GOTOOLCHAIN=local
PATCH=$OUT/$V.patch.diff
[ -f "$PATCH" ] || { echo "no patch $PATCH"; exit 2; }
DEMO=$(ls $OUT/$V.demo*_test.go 2>/dev/null | head -1)
DIR=$(grep -ohE 'go test[^`]*' $OUT/$V.demo.md 2>/dev/null | grep -oE '(\./)?(pkg|api)/[A-Za-z0-9_/.-]+' | head -1 | sed 's#^\./##; s#/$##')
RACE=""; grep -q -- '-race' $OUT/$V.demo.md 2>/dev/null && RACE="-race"
WT=/tmp/mut-confirm-$P-$V
git -C /repo worktree add -q --detach $WT HEAD || exit 2
C=-1; M=-1; S=-1
if [ -n "$DEMO" ] && [ -n "$DIR" ] && [ -d "$WT/$DIR" ]; then
  cp "$DEMO" "$WT/$DIR/zz_mut_demo_test.go"
  (cd $WT && go test $RACE -count=1 -run "MutDemo" ./$DIR/ > $LOG/$P.$V.demo-clean.log 2>&1); C=$?
  (cd $WT && git apply "$PATCH" && go test $RACE -count=1 -run "MutDemo" ./$DIR/ > $LOG/$P.$V.demo-mut.log 2>&1); M=$?
  rm -f "$WT/$DIR/zz_mut_demo_test.go"
  (cd $WT && go build ./... > $LOG/$P.$V.build.log 2>&1 && go test -count=1 ./pkg/... ./api/... > $LOG/$P.$V.suite.log 2>&1); S=$?
fi
echo "CONFIRM $P.$V dir=$DIR demo-clean-exit=$C (want 0) demo-mutant-exit=$M (want !=0) suite-with-mutant-exit=$S (want 0) fails=$(grep -c '^FAIL' $LOG/$P.$V.suite.log 2>/dev/null)"
git -C /repo worktree remove --force $WT
