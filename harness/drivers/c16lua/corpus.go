package c16lua

import (
	"fmt"
	"strings"
)

// unit = the work of one case: items run in order in one child (a fresh child continues after a death / kill).
type unit struct {
	Cat        string
	Name       string
	Items      []item
	TimeFP     string // fingerprint when an item exceeds the CPU bound (default c16:time:<cat>)
	StopAtOver bool   // growing family: items after the first over-bound one are not run
	Isolation  bool   // item[0] poisons the state, item[1] must see a pristine one
}

func hs(cat string, flavour string, kv ...string) unit {
	u := unit{Cat: cat, Name: cat}
	in := ingressInputJSON()
	for i := 0; i+1 < len(kv); i += 2 {
		u.Items = append(u.Items, item{Cat: cat, Name: kv[i], Script: kv[i+1], Input: in, Flavour: flavour})
	}
	return u
}

func single(cat, name, script string) unit {
	return unit{Cat: cat, Name: name, Items: []item{{Cat: cat, Name: name, Script: script, Input: ingressInputJSON(), Flavour: "ingress"}}}
}

// sz picks the quick or the thorough size list of a growing family.
func sz(thorough bool, quick []int, more []int) []int {
	if thorough {
		return more
	}
	return quick
}

func family(cat, name, fp string, tmpl string, sizes ...int) unit {
	u := unit{Cat: cat, Name: name, TimeFP: fp, StopAtOver: true}
	for _, n := range sizes {
		u.Items = append(u.Items, item{Cat: cat, Name: name, Script: strings.ReplaceAll(tmpl, "$N", fmt.Sprint(n)), Input: ingressInputJSON(), Flavour: "raw"})
	}
	return u
}

const (
	fpBacktrack = "c16:time:string-pattern-backtracking"
	fpGsubQuad  = "c16:time:string-gsub-quadratic-replace"
	fpLoadLoop  = "c16:time:load-go-reader-loop"
)

// hostileUnits is the fixed hostile corpus. Memory bombs and nesting bombs are outside the claim: data sizes stay
// below ~50 MB and nesting below a few thousand levels.
func hostileUnits(thorough bool) []unit {
	var us []unit

	// ---- scripts that never terminate on their own (each burns the 1 s deadline) ------------------
	for _, kv := range [][2]string{
		{"while-true", `while true do end`},
		{"repeat-until-false", `repeat local x = 1 until false`},
		{"for-to-huge", `for i = 1, math.huge do end return {}`},
		{"tailcall-forever", `local function f() return f() end return f()`},
		{"pcall-swallows-deadline", `while true do pcall(function() while true do end end) end`},
		{"xpcall-handler-loops", `xpcall(function() while true do end end, function(e) while true do end end) return {}`},
		{"pcall-retry", `local function spin() while true do end end for i = 1, 100000000 do pcall(spin) end return {}`},
		{"concat-forever", `local s = "" while true do s = s .. "x" end`},
		{"table-grow-forever", `local t = {} local n = 0 while true do n = n + 1 t[n] = n end`},
		{"string-calls-forever", `while true do string.rep("x", 100) end`},
		{"loop-in-index-metamethod", `local t = setmetatable({}, {__index = function(t, k) while true do end end}) return t.x`},
		{"loop-in-tostring", `return {a = tostring(setmetatable({}, {__tostring = function() while true do end end}))}`},
		{"loop-in-sort-comparator", `local t = {3, 2, 1} table.sort(t, function(a, b) while true do end end) return t`},
		{"loop-in-gsub-callback", `return {a = string.gsub("abc", ".", function(c) while true do end end)}`},
		{"loop-in-load-reader", `load(function() while true do end end)`},
		{"endless-lua-reader", `load(function() return "x = 1 " end)`},
		{"pcall-binary-tree", `local function f() pcall(f) pcall(f) end f() return {}`},
		{"gc-forever", `while true do collectgarbage() end`},
	} {
		us = append(us, single("nonterminating", kv[0], kv[1]))
	}

	// ---- Go-implemented library functions on adversarial input (may ignore the VM deadline) -------
	pat := `("a*"):rep(8) .. "b"`
	us = append(us,
		family("pattern-bomb", "find", fpBacktrack, `local s = ("a"):rep($N) local r = string.find(s, `+pat+`) return {r = tostring(r)}`, sz(thorough, []int{20, 28}, []int{16, 20, 24, 28, 40})...),
		family("pattern-bomb", "match", fpBacktrack, `local s = ("a"):rep($N) local r = string.match(s, `+pat+`) return {r = tostring(r)}`, sz(thorough, []int{20, 28}, []int{16, 20, 24, 28, 40})...),
		family("pattern-bomb", "gsub", fpBacktrack, `local s = ("a"):rep($N) local r = string.gsub(s, `+pat+`, "x") return {r = tostring(r)}`, sz(thorough, []int{20, 28}, []int{16, 20, 24, 28, 40})...),
		family("pattern-bomb", "gmatch", fpBacktrack, `local s = ("a"):rep($N) local n = 0 for w in string.gmatch(s, `+pat+`) do n = n + 1 end return {r = tostring(n)}`, sz(thorough, []int{20, 28}, []int{16, 20, 24, 28, 40})...),
		family("pattern-bomb", "lazy-rescan", fpBacktrack, `local s = ("a"):rep($N) local r = string.find(s, ".-b") return {r = tostring(r)}`, sz(thorough, []int{20000, 70000}, []int{10000, 20000, 40000, 70000, 150000})...),
		family("pattern-bomb", "balanced-rescan", fpBacktrack, `local s = ("("):rep($N) local r = string.find(s, "%b()") return {r = tostring(r)}`, sz(thorough, []int{40000, 140000}, []int{20000, 40000, 80000, 140000})...),
		family("gsub-many-matches", "gsub-string-repl", fpGsubQuad, `local s = ("a"):rep($N) local r = string.gsub(s, "a", "b") return {n = tostring(#r)}`, sz(thorough, []int{30000, 120000}, []int{10000, 30000, 60000, 120000, 250000})...),
		family("gsub-many-matches", "gsub-function-repl", fpGsubQuad, `local s = ("a"):rep($N) local r = string.gsub(s, "a", function(c) return "b" end) return {n = tostring(#r)}`, sz(thorough, []int{30000, 120000}, []int{10000, 30000, 60000, 120000, 250000})...),
		family("load-go-reader", "load-math-random", fpLoadLoop, `local f = load(math.random) return {t = type(f)}`, 1),
		// long subject against a greedy single-character repetition (the matcher recurses once per character)
		family("pattern-long-subject", "greedy-star", "c16:time:pattern-long-subject", `local s = ("a"):rep($N) local r = string.find(s, ".*") return {r = tostring(r)}`, 100000, 1000000, 4000000),
		family("pattern-long-subject", "greedy-star-fail", "c16:time:pattern-long-subject", `local s = ("a"):rep($N) local r = string.find(s, "^a*b") return {r = tostring(r)}`, 100000, 1000000, 4000000),
	)
	// large but modest inputs to linear library functions
	large := hs("large-input", "raw",
		"sort-500k", `local t = {} for i = 1, 500000 do t[i] = (i * 7919) % 1000003 end table.sort(t) return {n = tostring(#t)}`,
		"encode-2M-array", `local t = {} for i = 1, 2000000 do t[i] = i end return t`,
		"encode-300k-keys", `local t = {} for i = 1, 300000 do t["k" .. i] = "v" end return t`,
		"loadstring-300k-stmts", `local f = loadstring(("x=1 "):rep(300000)) return {t = type(f)}`,
		"json-decode-1M", `local v = json.decode("[" .. ("1,"):rep(1000000) .. "1]") return {n = tostring(#v)}`,
		"find-plain-20MB", `local s = ("a"):rep(20000000) return {r = tostring(string.find(s, "b", 1, true))}`,
		"find-pattern-10MB", `local s = ("a"):rep(10000000) return {r = tostring(string.find(s, "b"))}`,
		"concat-500k", `local t = {} for i = 1, 500000 do t[i] = "k" end return {s = tostring(#table.concat(t, ","))}`,
		"upper-lower-reverse-30MB", `local s = ("aB"):rep(15000000) return {a = tostring(#s:upper()), b = tostring(#s:lower()), c = tostring(#s:reverse())}`,
		"format-s-30MB", `local s = ("x"):rep(30000000) return {n = tostring(#string.format("%s|%s", s, "y"))}`,
		"rep-40MB", `return {n = tostring(#("x"):rep(40000000))}`,
		"return-string-20MB", `return {s = ("x"):rep(20000000)}`,
		"error-message-5MB", `error(("x"):rep(5000000))`,
		"key-1MB", `return {[("k"):rep(1000000)] = "v"}`,
		"byte-unpack-1M", `local s = ("x"):rep(1000000) return {n = tostring(select("#", string.byte(s, 1, -1)))}`,
		"gmatch-words-200k", `local n = 0 for w in string.gmatch(("ab "):rep(200000), "%a+") do n = n + 1 end return {n = tostring(n)}`,
		"wide-return-100k", `local t = {} for i = 1, 100000 do t["k" .. i] = tostring(i) end return t`,
		"nest-depth-2000", `local t = {} local c = t for i = 1, 2000 do c.n = {} c = c.n end return t`,
		"expr-chain-5000", `return {v = tostring(loadstring("return " .. ("1+"):rep(5000) .. "1")())}`,
		"concat-chain-3000", `return {v = tostring(#loadstring("return " .. ('"a"..'):rep(3000) .. '"a"')())}`,
		"blocks-150", `local f = loadstring(("do "):rep(150) .. "x = 1" .. (" end"):rep(150)) return {t = type(f)}`,
		"constants-100k", `local f = loadstring("return {" .. ("1,"):rep(100000) .. "1}") return {t = type(f), n = f and tostring(#f())}`,
		"locals-300", `local src = {} for i = 1, 300 do src[i] = "local v" .. i .. " = " .. i end local f, e = loadstring(table.concat(src, "\n")) return {t = type(f), e = tostring(e)}`,
	)
	for i := 0; i < len(large.Items); i += 6 { // several cases, so that the expensive ones run in parallel
		j := i + 6
		if j > len(large.Items) {
			j = len(large.Items)
		}
		us = append(us, unit{Cat: large.Cat, Name: large.Cat, Items: large.Items[i:j]})
	}

	// ---- recursion ---------------------------------------------------------------------------
	us = append(us, hs("recursion", "ingress",
		"infinite", `local function f() return 1 + f() end return f()`,
		"deep-bounded-200", `local function f(n) if n == 0 then return 0 end return 1 + f(n - 1) end return {v = tostring(f(200))}`,
		"deep-bounded-100000", `local function f(n) if n == 0 then return 0 end return 1 + f(n - 1) end return {v = tostring(f(100000))}`,
		"mutual", `local a, b function a(n) return b(n + 1) + 1 end function b(n) return a(n + 1) + 1 end return a(1)`,
		"through-pcall", `local function f() pcall(f) end f() return {ok = "1"}`,
		"index-function-self", `local t = setmetatable({}, {__index = function(t, k) return t[k] end}) return t.x`,
		"index-table-self", `local t = {} setmetatable(t, {__index = t}) return {v = tostring(t.x)}`,
		"index-table-cycle", `local a, b = {}, {} setmetatable(a, {__index = b}) setmetatable(b, {__index = a}) return {v = tostring(a.x)}`,
		"newindex-self", `local t = {} setmetatable(t, {__newindex = t}) t.x = 1 return t`,
		"newindex-cycle", `local a, b = {}, {} setmetatable(a, {__newindex = b}) setmetatable(b, {__newindex = a}) a.x = 1 return a`,
		"tostring-self", `local t = setmetatable({}, {__tostring = function(s) return tostring(s) end}) return {a = tostring(t)}`,
		"concat-meta", `local t = setmetatable({}, {__concat = function(a, b) return a .. b end}) return {a = t .. "x"}`,
		"call-meta", `local t = setmetatable({}, {__call = function(self) return self() end}) return t()`,
		"lt-meta", `local mt = {} mt.__lt = function(a, b) return a < b end local a, b = setmetatable({}, mt), setmetatable({}, mt) return {v = tostring(a < b)}`,
		"eq-meta", `local mt = {} mt.__eq = function(a, b) return a == b end local a, b = setmetatable({}, mt), setmetatable({}, mt) return {v = tostring(a == b)}`,
		"gsub-callback", `local function f(s) return (string.gsub(s, ".", f)) end return {a = f("abc")}`,
		"sort-comparator", `local function f(a, b) local t = {3, 2, 1} table.sort(t, f) return a < b end return {v = tostring(f(1, 2))}`,
		"xpcall-handler", `local function h(e) error(e) end return {v = tostring(xpcall(function() error("x") end, h))}`,
		"loadstring-self", `src = "return loadstring(src)()" return loadstring(src)()`,
		"error-in-error", `local function h(e) local x = nil; return x.y end return {v = tostring(xpcall(function() error("x") end, h))}`,
	))

	// ---- error() and runtime errors ----------------------------------------------------------------
	us = append(us, hs("errors", "ingress",
		"error-string", `error("boom")`,
		"error-table", `error({code = 42, msg = "boom"})`,
		"error-nil", `error(nil)`,
		"error-noarg", `error()`,
		"error-level0", `error("boom", 0)`,
		"error-level2", `error("boom", 2)`,
		"error-level-huge", `error("boom", 2^40)`,
		"error-level-negative", `error("boom", -5)`,
		"error-number", `error(12.5)`,
		"error-function", `error(function() end)`,
		"error-bool", `error(false)`,
		"error-tostring-errors", `error(setmetatable({}, {__tostring = function() error("again") end}))`,
		"error-tostring-returns-table", `error(setmetatable({}, {__tostring = function() return {} end}))`,
		"error-cyclic-table", `local t = {} t.t = t error(t)`,
		"error-in-pcall-rethrown", `local ok, e = pcall(error, {1}) error(e)`,
		"assert-false", `assert(false)`,
		"assert-msg-table", `assert(nil, {1})`,
		"assert-msg-nil", `assert(false, nil)`,
		"index-nil", `local x = nil return x.y`,
		"arith-table", `return 1 + {}`,
		"len-number", `return #5`,
		"concat-table", `return {} .. "x"`,
		"concat-nil", `local x return {a = tostring(nil) .. x}`,
		"compare-nil", `return nil < 1`,
		"compare-mixed", `return {} < "x"`,
		"call-nil", `undefined_function()`,
		"call-number", `local x = 5 x()`,
		"call-string-method-missing", `return ("x"):nosuch()`,
		"nan-index", `local t = {} t[0/0] = 1 return t`,
		"nil-index", `local t = {} t[nil] = 1 return t`,
		"syntax-open-brace", `return {`,
		"syntax-double-eq", `x = = 1`,
		"syntax-unterminated-string", `return "abc`,
		"syntax-unterminated-long-string", `return [[abc`,
		"syntax-unterminated-comment", `--[[ abc`,
		"syntax-bad-hex", `return 0x`,
		"syntax-bad-escape", `return "\q"`,
		"syntax-decimal-escape-overflow", `return {a = "\999"}`,
		"syntax-goto", `goto done ::done:: return {}`,
		"binary-chunk-header", "\x1bLua\x51\x00\x01\x04\x08\x04\x08\x00",
		"nul-bytes", "return {a = \"x\x00y\"}\x00\x00",
		"empty-script", ``,
		"comment-only", `-- nothing here`,
		"shebang", "#!/usr/bin/lua\nreturn {a = \"b\"}",
		"bom", "\xef\xbb\xbfreturn {a = \"b\"}",
		"crlf", "local t = {}\r\nt.a = \"b\"\r\nreturn t\r\n",
		"long-line", `return {a = "`+strings.Repeat("x", 200000)+`"}`,
		"reserved-as-name", `local end = 1`,
		"vararg-main", `return {n = tostring(select("#", ...))}`,
		"break-outside-loop", `break`,
		"return-midblock", `do return {a = "b"} end return 1`,
	))

	// ---- wrong / odd return values -------------------------------------------------------------
	ret := hs("returns", "ingress",
		"nil", `return nil`,
		"number", `return 1`,
		"string", `return "s"`,
		"bool", `return true`,
		"function", `return function() end`,
		"builtin-function", `return print`,
		"nothing", `local x = 1`,
		"userdata", `return newproxy()`,
		"multi-table-then-number", `return {a = "b"}, 1`,
		"multi-number-then-table", `return 1, {a = "b"}`,
		"multi-nil-last", `return {a = "b"}, nil`,
		"empty-table", `return {}`,
		"string-map", `return {a = "b", c = "d"}`,
		"array", `return {"a", "b", "c"}`,
		"number-values", `return {a = 1, b = 2.5}`,
		"bool-values", `return {a = true}`,
		"nested", `return {a = {b = "c"}}`,
		"obj-identity", `return obj`,
		"obj-annotations", `return obj.annotations`,
		"globals-table", `return _G`,
		"string-lib", `return string`,
		"function-value", `return {f = print}`,
		"userdata-value", `return {u = newproxy()}`,
		"sparse-array", `return {[1] = "a", [2] = "b", [4] = "d"}`,
		"nil-hole", `return {"a", nil, "c"}`,
		"mixed-keys", `return {"x", a = "y"}`,
		"bool-key", `return {[true] = "x"}`,
		"float-key", `return {[1.5] = "x"}`,
		"negative-key", `return {[-1] = "x"}`,
		"zero-key", `return {[0] = "x"}`,
		"string-and-number-1", `return {["1"] = "x", [1] = "y"}`,
		"table-key", `return {[{}] = "x"}`,
		"function-key", `return {[print] = "x"}`,
		"nan-value", `return {0/0}`,
		"inf-value", `return {1/0}`,
		"neg-inf-value", `return {a = -1/0}`,
		"nan-named", `return {a = 0/0}`,
		"huge-number", `return {a = 2^63}`,
		"neg-zero", `return {a = -0}`,
		"overflow-to-inf", `return {a = 1e308 * 10}`,
		"cyclic-self", `local t = {} t.t = t return t`,
		"cyclic-two", `local a, b = {}, {} a.b = b b.a = a return a`,
		"cyclic-array", `local t = {} t[1] = t return t`,
		"shared-subtable", `local s = {"x"} return {a = s, b = s}`,
		"metatable-index-values", `return setmetatable({}, {__index = function() return "v" end})`,
		"metatable-pairs-tostring", `return setmetatable({a = "b"}, {__tostring = function() error("x") end, __len = function() return 99 end, __metatable = false})`,
		"invalid-utf8", "return {a = \"\\255\\254\", [\"\\200k\"] = \"v\"}",
		"nul-key", "return {[\"a\\0b\"] = \"c\\0d\"}",
		"unicode", `return {["ключ"] = "значение ✓ 日本語 😀"}`,
		"numeric-strings", `return {a = "1", b = "1e5", c = "null", d = "true", e = ""}`,
		"empty-key", `return {[""] = "x"}`,
		"return-from-pcall", `return select(2, pcall(function() return {a = "b"} end))`,
		"return-from-loadstring", `return loadstring("return {a = 'b'}")()`,
		"return-after-error-caught", `pcall(error, "x") return {a = "b"}`,
		"global-not-returned", `annotations = {a = "b"}`,
		"shipped-nginx-shape", `local annotations = obj.annotations or {} annotations["nginx.ingress.kubernetes.io/canary"] = "true" annotations["nginx.ingress.kubernetes.io/canary-weight"] = obj.weight return annotations`,
	)
	us = append(us, ret)
	retRaw := hs("returns-custom", "custom",
		"data-shape", `return {spec = {hosts = {"a"}}, labels = {a = "b"}, annotations = {c = "d"}}`,
		"spec-array", `return {spec = {1, 2, 3}}`,
		"labels-wrong-type", `return {labels = {a = 1}}`,
		"labels-array", `return {labels = {"a"}}`,
		"unknown-fields", `return {other = "x"}`,
		"array-top", `return {"a"}`,
		"spec-nan", `return {spec = {v = 0/0}}`,
		"spec-cyclic", `local s = {} s.s = s return {spec = s}`,
		"obj-data", `return obj.data`,
	)
	us = append(us, retRaw)

	// ---- library functions with bad / overflowing arguments ----------------------------------------
	us = append(us, hs("bad-args", "ingress",
		"format-bad-1", `return {a = string.format("%d", "x")}`,
		"format-missing-arg", `return {a = string.format("%5.2s")}`,
		"format-lone-percent", `return {a = string.format("%", 1)}`,
		"format-unknown-verb", `return {a = string.format("%y", 1)}`,
		"format-many", `return {a = string.format(("%d"):rep(100), 1)}`,
		"format-huge-width", `return {a = string.format("%99999999d", 1)}`,
		"format-huge-precision", `return {a = string.format("%.99999999f", 1)}`,
		"format-c-huge", `return {a = string.format("%c", 1e10)}`,
		"format-d-2e63", `return {a = string.format("%d", 2^63)}`,
		"format-d-nan", `return {a = string.format("%d", 0/0)}`,
		"format-q", `return {a = string.format("%q", "a\n\0\"b")}`,
		"format-s-table", `return {a = string.format("%s", {})}`,
		"format-s-tostring-errors", `return {a = string.format("%s", setmetatable({}, {__tostring = function() error("x") end}))}`,
		"format-x-negative", `return {a = string.format("%x", -1)}`,
		"format-star", `return {a = string.format("%*d", 5, 1)}`,
		"rep-overflow", `return {a = ("ab"):rep(2^62)}`,
		"rep-negative", `return {a = ("x"):rep(-1)}`,
		"rep-nan", `return {a = ("x"):rep(0/0)}`,
		"rep-inf", `return {a = ("x"):rep(1/0)}`,
		"rep-empty-huge", `return {a = (""):rep(2^62)}`,
		"rep-fraction", `return {a = ("x"):rep(2.7)}`,
		"rep-string-count", `return {a = ("x"):rep("3")}`,
		"char-256", `return {a = string.char(256)}`,
		"char-negative", `return {a = string.char(-1)}`,
		"char-nan", `return {a = string.char(0/0)}`,
		"byte-range", `return {a = tostring(string.byte("abc", -100, 100))}`,
		"byte-huge", `return {a = tostring(string.byte("abc", 1e10))}`,
		"sub-extremes", `return {a = string.sub("abc", -2^63, 2^63)}`,
		"sub-nan", `return {a = string.sub("abc", 0/0)}`,
		"sub-huge-start", `return {a = ("x"):rep(10):sub(2^31, 2^32)}`,
		"len-nil", `return {a = string.len(nil)}`,
		"lower-number", `return {a = string.lower(5)}`,
		"reverse-unicode", `return {a = string.reverse("日本語")}`,
		"find-bad-class", `return {a = string.find("abc", "[a")}`,
		"find-lone-percent", `return {a = string.find("abc", "%")}`,
		"find-unbalanced-paren", `return {a = string.find("abc", "(()")}`,
		"find-close-paren", `return {a = string.find("abc", "a)")}`,
		"find-b-missing", `return {a = string.find("abc", "%b")}`,
		"find-f-missing", `return {a = string.find("abc", "%f")}`,
		"find-frontier", `return {a = tostring(string.find("THE (quick) fox", "%f[%a]%a+%f[%A]"))}`,
		"find-backref-invalid", `return {a = string.find("abc", "%1")}`,
		"find-backref-3", `return {a = string.find("abab", "(a)(b)%3")}`,
		"find-backref-ok", `return {a = tostring(string.find("abab", "(ab)%1"))}`,
		"find-40-captures", `return {a = tostring(string.find(("a"):rep(40), ("(a)"):rep(40)))}`,
		"find-init-huge", `return {a = tostring(string.find("a", "a", 2^40))}`,
		"find-init-negative-huge", `return {a = tostring(string.find("a", "a", -2^40))}`,
		"find-init-nan", `return {a = tostring(string.find("a", "a", 0/0))}`,
		"find-empty-both", `return {a = tostring(string.find("", ""))}`,
		"find-position-capture", `return {a = tostring(string.find("abc", "()b()"))}`,
		"match-anchors", `return {a = tostring(string.match("abc", "^$"))}`,
		"gsub-bad-capture", `return {a = string.gsub("abc", "b", "%2")}`,
		"gsub-repl-table-returns-table", `return {a = string.gsub("abc", "b", {b = {}})}`,
		"gsub-repl-func-returns-table", `return {a = string.gsub("abc", "b", function() return {} end)}`,
		"gsub-repl-func-errors", `return {a = string.gsub("abc", "b", function() error("x") end)}`,
		"gsub-empty-pattern", `return {a = string.gsub("abc", "", "x")}`,
		"gsub-star-empty-matches", `return {a = ("x"):rep(100):gsub("x*", "y")}`,
		"gsub-limit-negative", `return {a = string.gsub("aaa", "a", "b", -5)}`,
		"gsub-limit-huge", `return {a = string.gsub("aaa", "a", "b", 2^40)}`,
		"gsub-repl-number", `return {a = string.gsub("aaa", "a", 5)}`,
		"gsub-repl-nil", `return {a = string.gsub("aaa", "a", nil)}`,
		"gsub-percent-end", `return {a = string.gsub("aaa", "a", "%")}`,
		"gmatch-empty-pattern", `local n = 0 for w in ("abc"):gmatch("") do n = n + 1 end return {n = tostring(n)}`,
		"gmatch-star-nomatch", `local n = 0 for w in ("bbb"):gmatch("a*") do n = n + 1 end return {n = tostring(n)}`,
		"gmatch-bad-pattern", `for w in ("abc"):gmatch("[") do end return {}`,
		"gmatch-anchor", `local n = 0 for w in ("aaa"):gmatch("^a") do n = n + 1 end return {n = tostring(n)}`,
		"string-dump", `return {a = string.dump(function() end)}`,
		"concat-nil-element", `return {a = table.concat({1, nil, 3}, ",")}`,
		"concat-range-huge", `return {a = table.concat({}, "", 1, 2^31)}`,
		"concat-range-negative", `return {a = table.concat({1, 2, 3}, ",", -2^31, 3)}`,
		"concat-table-element", `return {a = table.concat({{}}, ",")}`,
		"insert-huge-pos", `local t = {1} table.insert(t, 2^60, 1) return {n = tostring(#t)}`,
		"insert-negative-pos", `local t = {1} table.insert(t, -5, 1) return {n = tostring(#t)}`,
		"insert-zero-pos", `local t = {1} table.insert(t, 0, 1) return {n = tostring(#t)}`,
		"insert-nan-pos", `local t = {1} table.insert(t, 0/0, 1) return {n = tostring(#t)}`,
		"insert-too-many-args", `local t = {1} table.insert(t, 1, 2, 3) return {n = tostring(#t)}`,
		"insert-nil-value", `local t = {1} table.insert(t, nil) return {n = tostring(#t)}`,
		"remove-huge-pos", `local t = {1} return {v = tostring(table.remove(t, 2^40))}`,
		"remove-negative-pos", `local t = {1} return {v = tostring(table.remove(t, -3))}`,
		"remove-empty", `return {v = tostring(table.remove({}))}`,
		"sort-mixed", `local t = {3, "a", {}} table.sort(t) return {}`,
		"sort-bad-comparator", `local t = {} for i = 1, 200 do t[i] = (i * 37) % 101 end table.sort(t, function(a, b) return true end) return {n = tostring(#t)}`,
		"sort-comparator-errors", `local t = {3, 2, 1} table.sort(t, function(a, b) error("x") end) return {}`,
		"sort-comparator-nonfunction", `local t = {3, 2, 1} table.sort(t, 5) return {}`,
		"sort-nan", `local t = {3, 0/0, 1, 0/0, 2} table.sort(t) return {n = tostring(#t)}`,
		"maxn-getn", `return {a = tostring(table.maxn({[1e15] = 1})), b = tostring(table.getn({1, 2, nil, 4}))}`,
		"len-holes", `local t = {} t[1] = 1 t[2] = 2 t[4] = 4 t[1000000] = 1 return {n = tostring(#t)}`,
		"huge-index-assign", `local t = {} t[2^53] = 1 t[2^31] = 2 t[-2^53] = 3 return {n = tostring(#t)}`,
		"array-presize", `local t = {} t[100000000] = 1 t[1] = 1 return {n = tostring(#t)}`,
		"unpack-huge-range", `return {n = tostring(select("#", unpack({}, 1, 1e7)))}`,
		"unpack-negative-range", `return {n = tostring(select("#", unpack({}, -1e7, 0)))}`,
		"unpack-nan", `return {n = tostring(select("#", unpack({}, 0/0, 0/0)))}`,
		"unpack-big-table", `local t = {} for i = 1, 100000 do t[i] = i end return {n = tostring(select("#", unpack(t)))}`,
		"select-negative", `return {a = tostring(select(-1, "a", "b"))}`,
		"select-negative-huge", `return {a = tostring(select(-2^40, "a", "b"))}`,
		"select-huge", `return {a = tostring(select(2^40, "a", "b"))}`,
		"select-zero", `return {a = tostring(select(0, "a", "b"))}`,
		"many-args-call", `local function f(...) return select("#", ...) end local t = {} for i = 1, 5000 do t[i] = i end return {n = tostring(f(unpack(t)))}`,
		"many-returns", `local function f() local t = {} for i = 1, 6000 do t[i] = i end return unpack(t) end return {n = tostring(select("#", f()))}`,
		"char-unpack-big", `local t = {} for i = 1, 4000 do t[i] = 65 end return {n = tostring(#string.char(unpack(t)))}`,
		"math-random-0", `return {a = tostring(math.random(0))}`,
		"math-random-negative", `return {a = tostring(math.random(-1))}`,
		"math-random-2e62", `return {a = tostring(math.random(2^62))}`,
		"math-random-reversed", `return {a = tostring(math.random(5, 1))}`,
		"math-random-huge-range", `return {a = tostring(math.random(-2^62, 2^62))}`,
		"math-random-nan", `return {a = tostring(math.random(0/0))}`,
		"math-randomseed-nan", `math.randomseed(0/0) return {a = tostring(math.random())}`,
		"math-fmod-zero", `return {a = tostring(math.fmod(1, 0)), b = tostring(1 % 0), c = tostring(-2^63 % 7)}`,
		"math-floor-nan", `return {a = tostring(math.floor(0/0)), b = tostring(math.ceil(1/0))}`,
		"math-max-noargs", `return {a = tostring(math.max())}`,
		"math-ldexp-huge", `return {a = tostring(math.ldexp(1, 2^40)), b = tostring(math.frexp(0/0)), c = tostring(math.modf(1/0))}`,
		"math-pow-overflow", `return {a = tostring(2^1024), b = tostring((-8)^(1/3)), c = tostring(math.sqrt(-1)), d = tostring(math.log(0))}`,
		"math-string-coercion", `return {a = tostring("10" + 5), b = tostring("0x10" * 2), c = tostring("1e2" / 4)}`,
		"math-bad-coercion", `return {a = "abc" + 1}`,
		"tonumber-bad-base", `return {a = tostring(tonumber("10", 99))}`,
		"tonumber-base-1", `return {a = tostring(tonumber("1", 1))}`,
		"tonumber-base-huge", `return {a = tostring(tonumber("1", 2^40))}`,
		"tonumber-base36", `return {a = tostring(tonumber("zz", 36)), b = tostring(tonumber("1e", 10)), c = tostring(tonumber("0x"))}`,
		"tonumber-400-digits", `return {a = tostring(tonumber(("9"):rep(400)))}`,
		"tonumber-spaces", `return {a = tostring(tonumber("  12  ")), b = tostring(tonumber("")), c = tostring(tonumber("1 2"))}`,
		"tostring-noarg", `return {a = tostring()}`,
		"tostring-returns-table", `return {a = tostring(setmetatable({}, {__tostring = function() return {} end}))}`,
		"tostring-returns-number", `return {a = tostring(setmetatable({}, {__tostring = function() return 5 end}))}`,
		"type-noarg", `return {a = type()}`,
		"pairs-nil", `for k, v in pairs(nil) do end return {}`,
		"ipairs-number", `for k, v in ipairs(5) do end return {}`,
		"next-invalid-key", `return {a = tostring(next({}, "nosuch"))}`,
		"next-modify-during", `local t = {a = 1, b = 2, c = 3} for k in pairs(t) do t[k .. "x"] = 1 t[k] = nil end return {}`,
		"rawset-nil-key", `rawset({}, nil, 1) return {}`,
		"rawget-nontable", `return {a = rawget("x", 1)}`,
		"rawequal-noargs", `return {a = tostring(rawequal())}`,
		"setmetatable-nontable", `setmetatable(5, {}) return {}`,
		"setmetatable-protected", `local t = setmetatable({}, {__metatable = "locked"}) setmetatable(t, {}) return {}`,
		"getmetatable-string-protected", `getmetatable("").__metatable = "locked" return {a = tostring(getmetatable(""))}`,
		"pcall-noargs", `return {a = tostring(pcall())}`,
		"pcall-nonfunction", `return {a = tostring(pcall(5))}`,
		"xpcall-nohandler", `return {a = tostring(xpcall(function() error("x") end))}`,
		"xpcall-nonfunction-handler", `return {a = tostring(xpcall(function() error("x") end, 5))}`,
		"collectgarbage-opts", `return {a = tostring(collectgarbage("count")), b = tostring(collectgarbage("stop")), c = tostring(collectgarbage("nosuch"))}`,
		"collectgarbage-1000", `for i = 1, 300 do collectgarbage() end return {}`,
		"print-flood", `for i = 1, 20000 do print(i, "x", {}, nil) end return {}`,
		"print-tostring-errors", `print(setmetatable({}, {__tostring = function() error("x") end})) return {}`,
		"printregs", `_printregs() return {}`,
		"newproxy-variants", `local a = newproxy(true) getmetatable(a).__index = function() return 1 end local b = newproxy(a) local c = newproxy(false) return {v = tostring(a.x), t = type(newproxy(5))}`,
		"coroutine-missing", `local co = coroutine.wrap(function() while true do coroutine.yield() end end) co() return {}`,
		"coroutine-guarded", `if coroutine then local co = coroutine.create(function() coroutine.yield(coroutine.running()) end) coroutine.resume(co) coroutine.resume(co) coroutine.resume(co) end return {c = type(coroutine)}`,
		"coroutine-wrap-recursive", `if not coroutine then return {none = "1"} end local function f() return coroutine.wrap(f)() end return f()`,
		"channel-missing", `return {c = type(channel), g = type(goroutine)}`,
		"json-decode-truncated", `return {a = tostring(json.decode("{"))}`,
		"json-decode-empty", `return {a = tostring(json.decode(""))}`,
		"json-decode-null", `return {a = tostring(json.decode("null"))}`,
		"json-decode-deep", `local v, e = json.decode(("["):rep(100000)) return {a = tostring(v), e = tostring(e)}`,
		"json-decode-deep-valid", `local v, e = json.decode(("["):rep(9000) .. ("]"):rep(9000)) return {a = type(v), e = tostring(e)}`,
		"json-decode-1e999", `local v, e = json.decode('{"a":1e999}') return {a = tostring(v), e = tostring(e)}`,
		"json-decode-bigint", `local v = json.decode("1" .. ("0"):rep(300)) return {a = tostring(v)}`,
		"json-decode-surrogate", `local v = json.decode('"\\ud800"') return {a = tostring(v)}`,
		"json-decode-dup-keys", `local v = json.decode('{"a":1,"a":2}') return {a = tostring(v.a)}`,
		"json-decode-number-arg", `return {a = tostring(json.decode(123))}`,
		"json-decode-table-arg", `return {a = tostring(json.decode({}))}`,
		"json-decode-noarg", `return {a = tostring(json.decode())}`,
		"json-encode-function", `local v, e = json.encode(print) return {a = tostring(v), e = tostring(e)}`,
		"json-encode-cyclic", `local t = {} t.t = t local v, e = json.encode(t) return {a = tostring(v), e = tostring(e)}`,
		"json-encode-nan", `local v, e = json.encode(0/0) return {a = tostring(v), e = tostring(e)}`,
		"json-encode-noarg", `return {a = tostring(json.encode())}`,
		"json-encode-lib", `local v, e = json.encode(json) return {a = tostring(v), e = tostring(e)}`,
		"json-encode-sparse", `local v, e = json.encode({[1] = 1, [3] = 3}) return {a = tostring(v), e = tostring(e)}`,
		"json-roundtrip-obj", `local s = json.encode(obj) local o = json.decode(s) return {same = tostring(json.encode(o) == s), w = o.weight}`,
		"json-overwritten", `json.encode = function() error("x") end return {a = "b"}`,
	))

	// ---- tampering with the environment of the running state ----------------------------------------
	us = append(us, hs("env-tamper", "ingress",
		"setfenv-1-empty", `setfenv(1, {}) return {}`,
		"setfenv-1-then-global", `setfenv(1, {}) return {a = tostring(1)}`,
		"setfenv-0-empty", `setfenv(0, {}) return {}`,
		"getfenv-50", `return {a = tostring(getfenv(50))}`,
		"getfenv-negative", `return {a = tostring(getfenv(-1))}`,
		"setfenv-builtin", `setfenv(print, {}) return {}`,
		"globals-index-everything", `setmetatable(_G, {__index = function(t, k) return k end}) return {a = undefined_name}`,
		"globals-newindex-error", `setmetatable(_G, {__newindex = function() error("ro") end}) x = 1 return {}`,
		"globals-nil", `_G = nil return {a = "b"}`,
		"string-nil", `string = nil return {a = ("x"):upper()}`,
		"tostring-nil", `rawset(_G, "tostring", nil) return {a = "b" .. 1}`,
		"string-mt-index-error", `getmetatable("").__index = function() error("x") end return {a = ("x"):len()}`,
		"string-mt-replaced", `local mt = getmetatable("") for k in pairs(mt) do mt[k] = nil end return {a = #"x" .. ""}`,
		"string-mt-arith", `getmetatable("").__add = function(a, b) return a .. b end return {a = "x" + "y"}`,
		"pcall-replaced", `pcall = function() while true do end end return {a = "b"}`,
		"error-replaced", `error = function() end error("x") return {a = "b"}`,
		"obj-nil", `obj = nil return {a = "b"}`,
		"obj-mutated", `obj.annotations = nil obj.weight = {} obj.matches[1] = obj return {a = "b"}`,
		"module-call", `module("evil", package and package.seeall) x = 1 return {a = "b"}`,
		"module-existing", `module("string") return {a = "b"}`,
		"require-loaded", `local s = require("string") return {t = type(s)}`,
		"require-missing", `local s = require("nosuchmodule") return {t = type(s)}`,
		"debug-missing", `return {d = type(debug), i = type(io), o = type(os), p = type(package), c = type(coroutine)}`,
	))
	us = append(us, unit{Cat: "isolation", Name: "state-not-shared-between-calls", Isolation: true, Items: []item{
		{Cat: "isolation", Name: "poison", Flavour: "ingress", Input: ingressInputJSON(), Script: `leak = "1" string.upper = function() return "POISON" end getmetatable("").__index.rep = nil math.huge = 1 json.encode = nil obj.weight = "poison" table.insert = nil getmetatable("").__add = function() return 1 end return {done = "1"}`},
		{Cat: "isolation", Name: "pristine", Flavour: "ingress", Input: ingressInputJSON(), Script: `return {leak = tostring(leak), up = ("a"):upper(), rep = type(("").rep), huge = tostring(math.huge == 1), enc = type(json.encode), w = obj.weight, ins = type(table.insert), add = tostring(getmetatable("").__add)}`},
	}})
	if thorough {
		us = append(us,
			family("pattern-bomb", "find-k-growing", fpBacktrack, `local s = ("a"):rep(30) local r = string.find(s, ("a*"):rep($N) .. "b") return {r = tostring(r)}`, 3, 4, 5, 6, 7, 8),
			family("pattern-bomb", "classes", fpBacktrack, `local s = ("a1"):rep($N) local r = string.find(s, ("[%w]*"):rep(7) .. "!") return {r = tostring(r)}`, 8, 12, 16, 24),
			family("pattern-bomb", "optional", fpBacktrack, `local s = ("a"):rep($N) local r = string.find(s, ("a?"):rep($N) .. ("a"):rep($N) .. "b") return {r = tostring(r)}`, 14, 18, 22, 26, 30),
		)
	}
	return us
}

// returnExpect: scripts of the "returns" unit whose literal return value JSON cannot carry as it stands. The caller
// must get an error, or an encoding that still says the same (listed); anything else is a silent re-interpretation
// of the script's answer (the encoder's cycle / sparse-array / key-type checks are the mechanism behind it).
var returnExpect = map[string]struct {
	Class string
	OK    []string
}{
	"sparse-array":        {"sparse-array-accepted", []string{`{"1":"a","2":"b","4":"d"}`, `["a","b",null,"d"]`}},
	"nil-hole":            {"sparse-array-accepted", []string{`["a",null,"c"]`, `{"1":"a","3":"c"}`}},
	"mixed-keys":          {"invalid-keys-accepted", []string{`{"1":"x","a":"y"}`}},
	"bool-key":            {"invalid-keys-accepted", nil},
	"float-key":           {"invalid-keys-accepted", []string{`{"1.5":"x"}`}},
	"negative-key":        {"invalid-keys-accepted", []string{`{"-1":"x"}`}},
	"zero-key":            {"invalid-keys-accepted", []string{`{"0":"x"}`}},
	"string-and-number-1": {"invalid-keys-accepted", nil},
	"table-key":           {"invalid-keys-accepted", nil},
	"function-key":        {"invalid-keys-accepted", nil},
	"nan-value":           {"non-finite-number-accepted", nil},
	"inf-value":           {"non-finite-number-accepted", nil},
	"neg-inf-value":       {"non-finite-number-accepted", nil},
	"nan-named":           {"non-finite-number-accepted", nil},
	"overflow-to-inf":     {"non-finite-number-accepted", nil},
	"cyclic-self":         {"cyclic-table-accepted", nil},
	"cyclic-two":          {"cyclic-table-accepted", nil},
	"cyclic-array":        {"cyclic-table-accepted", nil},
	"function-value":      {"unencodable-value-accepted", nil},
	"userdata-value":      {"unencodable-value-accepted", nil},
	"globals-table":       {"unencodable-value-accepted", nil},
	"string-lib":          {"unencodable-value-accepted", nil},
}
