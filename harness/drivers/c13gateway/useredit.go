package c13gateway

// useredit.go: the user edits the HTTPRoute while a rollout is in flight (appends a backend of their own to a rule that
// currently carries the canary backend, or had declared the canary backend themselves with weight 0 in the middle of a
// rule). Whatever the provider does next - another step, Finalise - the user's own backends must survive, in order.
// Oracle: per rule, the sequence of backendRefs that denote neither the stable nor the canary Service is unchanged by
// every provider call.

import (
	"context"
	"fmt"
	"math/rand"

	"sigs.k8s.io/controller-runtime/pkg/client"
	gw "sigs.k8s.io/gateway-api/apis/v1beta1"

	"verif/harness/core"
	"verif/harness/gen"
)

func foreignSeq(r *gw.HTTPRoute) [][]string {
	var out [][]string
	for i := range r.Spec.Rules {
		var l []string
		for j := range r.Spec.Rules[i].BackendRefs {
			ref := &r.Spec.Rules[i].BackendRefs[j]
			if refIsService(ref, stableSvc) || refIsService(ref, canarySvc) {
				continue
			}
			l = append(l, js(ref))
		}
		out = append(out, l)
	}
	return out
}

// userRulesOnly drops the rules the provider generated for match steps (their only backend is the canary Service).
func userRulesForeign(r *gw.HTTPRoute) [][]string {
	var out [][]string
	all := foreignSeq(r)
	for i := range r.Spec.Rules {
		rule := r.Spec.Rules[i]
		if len(rule.BackendRefs) == 1 && refIsService(&rule.BackendRefs[0], canarySvc) {
			continue
		}
		out = append(out, all[i])
	}
	return out
}

// RunUserEditCase: one generated route, a first step, a user edit, then more provider calls.
func RunUserEditCase(env *core.Env, idx int) *core.CaseResult {
	res := &core.CaseResult{}
	rng := rand.New(rand.NewSource(env.Seed*9176 + int64(idx)*131 + 7))
	route, _ := genRoute(rng)
	// variant A: the user pre-declared the canary backend (weight 0) in the middle of a stable rule
	predeclared := rng.Intn(2) == 0
	if predeclared {
		for i := range route.Spec.Rules {
			rule := &route.Spec.Rules[i]
			for j := range rule.BackendRefs {
				if refIsService(&rule.BackendRefs[j], stableSvc) {
					c := svcRef(rng, canarySvc)
					zero := int32(0)
					c.Weight = &zero
					c.Filters = nil
					rest := append([]gw.HTTPBackendRef{c, foreignRef(rng)}, rule.BackendRefs[j+1:]...)
					rule.BackendRefs = append(rule.BackendRefs[:j+1:j+1], rest...)
					break
				}
			}
		}
	}
	st := newStore(route)
	steps := genSteps(rng)
	if len(steps) == 0 {
		return res
	}
	apply := func(s step, what string) bool {
		before := userRulesForeign(st.route())
		strat := s.Strategy.DeepCopy()
		var err error
		for call := 0; call < 5; call++ {
			var ok bool
			pi := core.Try(func() { ok, err = st.p.EnsureRoutes(context.TODO(), strat) })
			if pi != nil || err != nil || ok {
				break
			}
		}
		res.Count("useredit_provider_calls", 1)
		after := userRulesForeign(st.route())
		if d := gen.FirstDiff("", before, after); d != "" {
			res.Violate("c13:user-backend-lost:"+what+":"+s.Kind, fmt.Sprintf("a %s step (%s) changed the user's own backends at %s", s.Kind, what, d),
				gen.NF{"predeclaredCanary": predeclared, "before": before, "after": after, "route": st.route().Spec.Rules})
			return false
		}
		return true
	}
	if !apply(steps[0], "first-step") {
		return res
	}
	// the user appends a backend of their own to every rule that now carries the canary backend (or to the first rule)
	cur := st.route()
	edited := false
	for i := range cur.Spec.Rules {
		rule := &cur.Spec.Rules[i]
		has := false
		for j := range rule.BackendRefs {
			if refIsService(&rule.BackendRefs[j], canarySvc) {
				has = true
			}
		}
		if has && !(len(rule.BackendRefs) == 1) {
			rule.BackendRefs = append(rule.BackendRefs, foreignRef(rng))
			edited = true
		}
	}
	if edited {
		if err := st.c.Client.Update(context.TODO(), cur); err != nil {
			res.Inconclusive = "user edit rejected by the fake client: " + err.Error()
			return res
		}
		res.Count("useredit_edits", 1)
	}
	for _, s := range steps[1:] {
		if !apply(s, "after-user-edit") {
			return res
		}
	}
	before := userRulesForeign(st.route())
	var err error
	for call := 0; call < 5; call++ {
		modified := false
		pi := core.Try(func() { modified, err = st.p.Finalise(context.TODO()) })
		if pi != nil || (err == nil && !modified) {
			break
		}
	}
	res.Count("useredit_finalise_calls", 1)
	after := userRulesForeign(st.route())
	if d := gen.FirstDiff("", before, after); d != "" {
		res.Violate("c13:user-backend-lost:finalise", "Finalise changed the user's own backends at "+d, gen.NF{"predeclaredCanary": predeclared, "edited": edited, "before": before, "after": after, "route": st.route().Spec.Rules})
	}
	res.AddSig(fmt.Sprintf("useredit|pre=%v|edit=%v|steps=%d", predeclared, edited, len(steps)))
	return res
}

var _ client.Object = &gw.HTTPRoute{}
