// vcheck: runner of the runtime-monitoring checks. See /verif/DESIGN.md.
package main

import (
	"verif/harness/core"
	_ "verif/harness/drivers"
)

func main() { core.Main() }
