package core

import (
	"encoding/json"
	"flag"
	"fmt"
	"io"
	"os"
	"strconv"

	"k8s.io/klog/v2"
)

func quietKlog() {
	fs := flag.NewFlagSet("k", flag.ContinueOnError)
	klog.InitFlags(fs)
	_ = fs.Set("logtostderr", "false")
	_ = fs.Set("alsologtostderr", "false")
	_ = fs.Set("stderrthreshold", "FATAL")
	klog.SetOutput(io.Discard)
}

// Main is the entry point shared by vcheck and the per-driver development binaries.
func Main() {
	if len(os.Args) < 2 {
		fmt.Fprintln(os.Stderr, "usage: vcheck <property>|list|worker ... [--tier quick|thorough] [--seed N] [--replay file] [--case i]")
		os.Exit(2)
	}
	if os.Getenv("VERIF_KLOG") == "" {
		quietKlog()
	}
	switch os.Args[1] {
	case "worker":
		os.Exit(WorkerMain(os.Args[2:]))
	case "list":
		for _, id := range IDs() {
			fmt.Println(id)
		}
		return
	}
	id := os.Args[1]
	fs := flag.NewFlagSet("vcheck", flag.ExitOnError)
	tier := fs.String("tier", envOr("VERIF_TIER", "quick"), "quick|thorough")
	seed := fs.Int64("seed", envInt("VERIF_SEED", 1), "seed")
	replay := fs.String("replay", "", "replay file")
	caseIdx := fs.Int("case", -1, "run only this case")
	workers := fs.Int("workers", int(envInt("VERIF_WORKERS", 0)), "worker processes")
	keep := fs.Bool("keep", false, "keep temp dir")
	_ = fs.Parse(os.Args[2:])
	opt := Options{Tier: *tier, Seed: *seed, Workers: *workers, KeepTmp: *keep}
	if *replay != "" {
		b, err := os.ReadFile(*replay)
		if err != nil {
			fmt.Fprintln(os.Stderr, err)
			os.Exit(2)
		}
		var r struct {
			Tier string `json:"tier"`
			Seed int64  `json:"seed"`
			Case int    `json:"case"`
		}
		if err := json.Unmarshal(b, &r); err != nil {
			fmt.Fprintln(os.Stderr, err)
			os.Exit(2)
		}
		opt.Tier, opt.Seed, opt.ReplayIdx = r.Tier, r.Seed, []int{r.Case}
	}
	if *caseIdx >= 0 {
		opt.ReplayIdx = []int{*caseIdx}
	}
	os.Exit(ParentMain(id, opt))
}

func envOr(k, d string) string {
	if v := os.Getenv(k); v != "" {
		return v
	}
	return d
}
func envInt(k string, d int64) int64 {
	if v := os.Getenv(k); v != "" {
		if n, err := strconv.ParseInt(v, 10, 64); err == nil {
			return n
		}
	}
	return d
}
