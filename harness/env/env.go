// Package env holds the environment actors of the closed-loop engine: simple models of the workload controllers
// that the rollout controllers drive but do not implement (kube Deployment / ReplicaSet / kubelet, Kruise CloneSet,
// StatefulSets, Advanced DaemonSet). They are assumed, not verified: they only have to be *legal* Kubernetes
// behaviour, and no monitor ever judges a write made by an "env:*" actor.
package env

import (
	"context"
	"fmt"
	apierrors "k8s.io/apimachinery/pkg/api/errors"
	"sort"
	"strconv"

	apps "k8s.io/api/apps/v1"
	corev1 "k8s.io/api/core/v1"
	metav1 "k8s.io/apimachinery/pkg/apis/meta/v1"
	"k8s.io/apimachinery/pkg/util/intstr"
	"sigs.k8s.io/controller-runtime/pkg/client"

	"github.com/openkruise/rollouts/pkg/util"
)

// Env is the set of environment actors over one store.
type Env struct {
	C      client.Client // acts as "env"
	podSeq int
	pick   int // the scheduler's pick of the current step (actors may use its parity to vary their internal order)
	// NeverReady decides whether a newly created pod will never become ready (failure injection).
	NeverReady func(p *corev1.Pod) bool
	// Nodes is the node count used by DaemonSets.
	Nodes int
	// Steps counts performed actions by kind.
	Steps map[string]int
}

func New(c client.Client) *Env {
	return &Env{C: c, Nodes: 4, Steps: map[string]int{}}
}

func ctx() context.Context { return context.TODO() }

func ownedBy(o metav1.Object, owner metav1.Object) bool {
	ref := metav1.GetControllerOf(o)
	return ref != nil && ref.UID == owner.GetUID()
}

// envConflict is what an actor's step ends with when a controller changed the object between the actor's read and its
// write (possible only when reconciles run on other goroutines): the actor simply retries at its next step.
type envConflict struct{}

func must(err error) {
	if err != nil {
		if apierrors.IsConflict(err) || apierrors.IsNotFound(err) || apierrors.IsAlreadyExists(err) {
			panic(envConflict{})
		}
		panic(fmt.Sprintf("env actor: %v", err))
	}
}

// Step performs at most one small action of one actor, chosen by order from pick (a permutation seed). It returns
// the name of the action taken or "".
func (e *Env) Step(pick int) string {
	actors := []func() string{e.stepDeployments, e.stepReplicaSets, e.stepPods, e.stepCloneSets, e.stepStatefulSets, e.stepDaemonSets}
	n := len(actors)
	e.pick = pick / n
	if e.pick < 0 {
		e.pick = -e.pick
	}
	for i := 0; i < n; i++ {
		if a := e.safely(actors[(pick+i)%n]); a != "" {
			e.Steps[a]++
			return a
		}
	}
	return ""
}

func (e *Env) safely(f func() string) (a string) {
	defer func() {
		if p := recover(); p != nil {
			if _, ok := p.(envConflict); ok {
				a = "retry-after-conflict"
				return
			}
			panic(p)
		}
	}()
	return f()
}

// Quiescent reports whether no actor has anything to do.
func (e *Env) Settle(max int) int {
	n := 0
	for n < max && e.Step(n) != "" {
		n++
	}
	return n
}

// ---- pods / kubelet ------------------------------------------------------------------------------

func podReady(p *corev1.Pod) bool {
	for _, c := range p.Status.Conditions {
		if c.Type == corev1.PodReady {
			return c.Status == corev1.ConditionTrue
		}
	}
	return false
}

const neverReadyAnno = "verif/never-ready"

// stepPods marks one not-ready pod ready (kubelet).
func (e *Env) stepPods() string {
	pods := &corev1.PodList{}
	must(e.C.List(ctx(), pods))
	for i := range pods.Items {
		p := &pods.Items[i]
		if p.DeletionTimestamp != nil || podReady(p) || p.Annotations[neverReadyAnno] == "true" {
			continue
		}
		p.Status.Phase = corev1.PodRunning
		p.Status.Conditions = []corev1.PodCondition{{Type: corev1.PodReady, Status: corev1.ConditionTrue}}
		must(e.C.Status().Update(ctx(), p))
		return "pod-ready"
	}
	return ""
}

func (e *Env) newPod(ns, prefix string, labels map[string]string, spec corev1.PodSpec, owner metav1.OwnerReference, fixedName string) *corev1.Pod {
	e.podSeq++
	name := fixedName
	if name == "" {
		name = fmt.Sprintf("%s-p%04d", prefix, e.podSeq)
	}
	p := &corev1.Pod{ObjectMeta: metav1.ObjectMeta{Name: name, Namespace: ns, Labels: map[string]string{}, Annotations: map[string]string{},
		OwnerReferences: []metav1.OwnerReference{owner}}, Spec: spec}
	for k, v := range labels {
		p.Labels[k] = v
	}
	if e.NeverReady != nil && e.NeverReady(p) {
		p.Annotations[neverReadyAnno] = "true"
	}
	return p
}

// ---- ReplicaSet controller -----------------------------------------------------------------------

func (e *Env) podsOf(ns string, owner metav1.Object) []*corev1.Pod {
	pods := &corev1.PodList{}
	must(e.C.List(ctx(), pods, client.InNamespace(ns)))
	var out []*corev1.Pod
	for i := range pods.Items {
		if ownedBy(&pods.Items[i], owner) && pods.Items[i].DeletionTimestamp == nil {
			out = append(out, &pods.Items[i])
		}
	}
	sort.Slice(out, func(i, j int) bool { return out[i].Name < out[j].Name })
	return out
}

func available(minReadySeconds int32) bool { return minReadySeconds < 100000 }

func (e *Env) stepReplicaSets() string {
	rss := &apps.ReplicaSetList{}
	must(e.C.List(ctx(), rss))
	for i := range rss.Items {
		rs := &rss.Items[i]
		if rs.DeletionTimestamp != nil {
			continue
		}
		owned := e.podsOf(rs.Namespace, rs)
		want := int(*rs.Spec.Replicas)
		if len(owned) < want {
			p := e.newPod(rs.Namespace, rs.Name, rs.Spec.Template.Labels, rs.Spec.Template.Spec, *metav1.NewControllerRef(rs, apps.SchemeGroupVersion.WithKind("ReplicaSet")), "")
			for k, v := range rs.Spec.Template.Annotations {
				p.Annotations[k] = v
			}
			must(e.C.Create(ctx(), p))
			return "rs-create-pod"
		}
		if len(owned) > want {
			// delete not-ready pods first, then the youngest
			victim := owned[len(owned)-1]
			for _, p := range owned {
				if !podReady(p) {
					victim = p
					break
				}
			}
			must(e.C.Delete(ctx(), victim))
			return "rs-delete-pod"
		}
		var ready int32
		for _, p := range owned {
			if podReady(p) {
				ready++
			}
		}
		n := int32(len(owned))
		st := apps.ReplicaSetStatus{Replicas: n, FullyLabeledReplicas: n, ReadyReplicas: ready, ObservedGeneration: rs.Generation}
		if available(rs.Spec.MinReadySeconds) {
			st.AvailableReplicas = ready
		}
		if fmt.Sprint(st) != fmt.Sprint(rs.Status) {
			rs.Status = st
			must(e.C.Status().Update(ctx(), rs))
			return "rs-status"
		}
	}
	return ""
}

// ---- native Deployment controller ---------------------------------------------------------------

func resolve(v *intstr.IntOrString, def string, total int, up bool) int32 {
	d := intstr.FromString(def)
	n, err := intstr.GetScaledValueFromIntOrPercent(intstr.ValueOrDefault(v, d), total, up)
	if err != nil {
		return 0
	}
	return int32(n)
}

// advancedControlled: the in-repo advanced deployment controller owns ReplicaSet scaling of this Deployment.
func advancedControlled(d *apps.Deployment) bool {
	return d.Annotations[util.BatchReleaseControlAnnotation] != "" && d.Spec.Strategy.Type == apps.RecreateDeploymentStrategyType && d.Spec.Paused
}

func (e *Env) stepDeployments() string {
	ds := &apps.DeploymentList{}
	must(e.C.List(ctx(), ds))
	for i := range ds.Items {
		if a := e.syncDeployment(&ds.Items[i]); a != "" {
			return a
		}
	}
	return ""
}

func (e *Env) ownedRS(d *apps.Deployment) []*apps.ReplicaSet {
	rsl := &apps.ReplicaSetList{}
	must(e.C.List(ctx(), rsl, client.InNamespace(d.Namespace)))
	var owned []*apps.ReplicaSet
	for i := range rsl.Items {
		if ownedBy(&rsl.Items[i], d) && rsl.Items[i].DeletionTimestamp == nil {
			owned = append(owned, &rsl.Items[i])
		}
	}
	sort.Slice(owned, func(i, j int) bool {
		if owned[i].CreationTimestamp.Equal(&owned[j].CreationTimestamp) {
			return owned[i].Name < owned[j].Name
		}
		return owned[i].CreationTimestamp.Before(&owned[j].CreationTimestamp)
	})
	return owned
}

func (e *Env) scaleRS(rs *apps.ReplicaSet, n int32, d *apps.Deployment) {
	rs.Spec.Replicas = &n
	setRSAnnotations(rs, d)
	must(e.C.Update(ctx(), rs))
}

func setRSAnnotations(rs *apps.ReplicaSet, d *apps.Deployment) {
	if rs.Annotations == nil {
		rs.Annotations = map[string]string{}
	}
	replicas := int32(1)
	if d.Spec.Replicas != nil {
		replicas = *d.Spec.Replicas
	}
	surge := int32(0)
	if d.Spec.Strategy.Type != apps.RecreateDeploymentStrategyType && d.Spec.Strategy.RollingUpdate != nil {
		surge = resolve(d.Spec.Strategy.RollingUpdate.MaxSurge, "25%", int(replicas), true)
	}
	rs.Annotations["deployment.kubernetes.io/desired-replicas"] = strconv.Itoa(int(replicas))
	rs.Annotations["deployment.kubernetes.io/max-replicas"] = strconv.Itoa(int(replicas + surge))
}

func (e *Env) syncDeployment(d *apps.Deployment) string {
	if d.DeletionTimestamp != nil {
		return ""
	}
	owned := e.ownedRS(d)
	var newRS *apps.ReplicaSet
	maxRev := 0
	for _, rs := range owned {
		if newRS == nil && util.EqualIgnoreHash(&rs.Spec.Template, &d.Spec.Template) {
			newRS = rs
		}
		if r, err := strconv.Atoi(rs.Annotations[util.DeploymentRevisionAnnotation]); err == nil && r > maxRev {
			maxRev = r
		}
	}
	replicas := int32(1)
	if d.Spec.Replicas != nil {
		replicas = *d.Spec.Replicas
	}
	// the new RS follows the Deployment's minReadySeconds (kube: getNewReplicaSet), paused or not
	if newRS != nil && newRS.Spec.MinReadySeconds != d.Spec.MinReadySeconds {
		newRS.Spec.MinReadySeconds = d.Spec.MinReadySeconds
		must(e.C.Update(ctx(), newRS))
		return "deploy-sync-minready"
	}
	if !advancedControlled(d) {
		if a := e.rollDeployment(d, owned, newRS, replicas, maxRev); a != "" {
			return a
		}
	}
	// status
	var st apps.DeploymentStatus
	st.ObservedGeneration = d.Generation
	for _, rs := range owned {
		st.Replicas += rs.Status.Replicas
		st.ReadyReplicas += rs.Status.ReadyReplicas
		st.AvailableReplicas += rs.Status.AvailableReplicas
		if rs == newRS {
			st.UpdatedReplicas = rs.Status.Replicas
		}
	}
	st.UnavailableReplicas = st.Replicas - st.AvailableReplicas
	if st.UnavailableReplicas < 0 {
		st.UnavailableReplicas = 0
	}
	st.Conditions = d.Status.Conditions
	st.CollisionCount = d.Status.CollisionCount
	if advancedControlled(d) {
		// the advanced deployment controller writes the status itself; only keep observedGeneration honest
		return ""
	}
	if fmt.Sprint(st) != fmt.Sprint(d.Status) {
		d.Status = st
		must(e.C.Status().Update(ctx(), d))
		return "deploy-status"
	}
	return ""
}

func (e *Env) rollDeployment(d *apps.Deployment, owned []*apps.ReplicaSet, newRS *apps.ReplicaSet, replicas int32, maxRev int) string {
	if d.Spec.Paused {
		// paused: only scaling. With a single active ReplicaSet it follows spec.replicas; with several, scale
		// proportionally only when the desired-replicas annotation shows that the size changed.
		var active []*apps.ReplicaSet
		for _, rs := range owned {
			if *rs.Spec.Replicas > 0 {
				active = append(active, rs)
			}
		}
		if len(active) == 1 && *active[0].Spec.Replicas != replicas {
			e.scaleRS(active[0], replicas, d)
			return "deploy-scale-paused"
		}
		if len(active) == 0 && len(owned) > 0 && replicas > 0 {
			// everything at zero: the newest ReplicaSet takes the replicas
			target := owned[len(owned)-1]
			if newRS != nil {
				target = newRS
			}
			e.scaleRS(target, replicas, d)
			return "deploy-scale-paused"
		}
		if len(active) > 1 {
			var total int32
			changed := false
			for _, rs := range active {
				total += *rs.Spec.Replicas
				if rs.Annotations["deployment.kubernetes.io/desired-replicas"] != strconv.Itoa(int(replicas)) {
					changed = true
				}
			}
			if changed && total != replicas {
				// put the difference on the newest active ReplicaSet (coarse proportional scaling)
				target := active[len(active)-1]
				n := *target.Spec.Replicas + (replicas - total)
				if n < 0 {
					n = 0
				}
				e.scaleRS(target, n, d)
				return "deploy-scale-paused"
			}
		}
		return ""
	}
	if newRS == nil {
		hash := util.ComputeHash(&d.Spec.Template, d.Status.CollisionCount)
		tmpl := *d.Spec.Template.DeepCopy()
		if tmpl.Labels == nil {
			tmpl.Labels = map[string]string{}
		}
		tmpl.Labels[apps.DefaultDeploymentUniqueLabelKey] = hash
		sel := d.Spec.Selector.DeepCopy()
		if sel.MatchLabels == nil {
			sel.MatchLabels = map[string]string{}
		}
		sel.MatchLabels[apps.DefaultDeploymentUniqueLabelKey] = hash
		zero := int32(0)
		rs := &apps.ReplicaSet{
			ObjectMeta: metav1.ObjectMeta{Name: d.Name + "-" + hash, Namespace: d.Namespace, Labels: tmpl.Labels,
				Annotations:     map[string]string{util.DeploymentRevisionAnnotation: strconv.Itoa(maxRev + 1)},
				OwnerReferences: []metav1.OwnerReference{*metav1.NewControllerRef(d, apps.SchemeGroupVersion.WithKind("Deployment"))}},
			Spec: apps.ReplicaSetSpec{Replicas: &zero, Selector: sel, Template: tmpl, MinReadySeconds: d.Spec.MinReadySeconds},
		}
		setRSAnnotations(rs, d)
		must(e.C.Create(ctx(), rs))
		return "deploy-create-rs"
	}
	var total, avail int32
	for _, rs := range owned {
		total += *rs.Spec.Replicas
		avail += rs.Status.AvailableReplicas
	}
	if d.Spec.Strategy.Type == apps.RecreateDeploymentStrategyType {
		for _, rs := range owned {
			if rs != newRS && *rs.Spec.Replicas > 0 {
				e.scaleRS(rs, 0, d)
				return "deploy-recreate-down"
			}
		}
		for _, rs := range owned {
			if rs != newRS && rs.Status.Replicas > 0 {
				return ""
			}
		}
		if *newRS.Spec.Replicas != replicas {
			e.scaleRS(newRS, replicas, d)
			return "deploy-recreate-up"
		}
		return ""
	}
	var ru apps.RollingUpdateDeployment
	if d.Spec.Strategy.RollingUpdate != nil {
		ru = *d.Spec.Strategy.RollingUpdate
	}
	surge := resolve(ru.MaxSurge, "25%", int(replicas), true)
	unavail := resolve(ru.MaxUnavailable, "25%", int(replicas), false)
	if surge == 0 && unavail == 0 {
		unavail = 1
	}
	if unavail > replicas {
		unavail = replicas
	}
	// scale up new
	if *newRS.Spec.Replicas < replicas {
		allowed := replicas + surge - total
		if allowed > replicas-*newRS.Spec.Replicas {
			allowed = replicas - *newRS.Spec.Replicas
		}
		if allowed > 0 {
			e.scaleRS(newRS, *newRS.Spec.Replicas+allowed, d)
			return "deploy-scale-up-new"
		}
	} else if *newRS.Spec.Replicas > replicas {
		e.scaleRS(newRS, replicas, d)
		return "deploy-scale-down-new"
	}
	// scale down old (kube: reconcileOldReplicaSets)
	var oldTotal int32
	for _, rs := range owned {
		if rs != newRS {
			oldTotal += *rs.Spec.Replicas
		}
	}
	if oldTotal == 0 {
		return ""
	}
	minAvail := replicas - unavail
	newUnavail := *newRS.Spec.Replicas - newRS.Status.AvailableReplicas
	maxScaledDown := total - minAvail - newUnavail
	if maxScaledDown <= 0 {
		return ""
	}
	// 1. clean up unhealthy old replicas
	cleaned := int32(0)
	for _, rs := range owned {
		if rs == newRS || cleaned >= maxScaledDown || *rs.Spec.Replicas == 0 {
			continue
		}
		if *rs.Spec.Replicas == rs.Status.AvailableReplicas {
			continue
		}
		dn := *rs.Spec.Replicas - rs.Status.AvailableReplicas
		if dn > maxScaledDown-cleaned {
			dn = maxScaledDown - cleaned
		}
		if dn > 0 {
			e.scaleRS(rs, *rs.Spec.Replicas-dn, d)
			return "deploy-cleanup-unhealthy-old"
		}
	}
	// 2. scale down healthy old replicas within the availability budget
	canAvail := avail - minAvail
	if canAvail <= 0 {
		return ""
	}
	for _, rs := range owned {
		if rs == newRS || *rs.Spec.Replicas == 0 {
			continue
		}
		dn := *rs.Spec.Replicas
		if dn > canAvail {
			dn = canAvail
		}
		if dn > 0 {
			e.scaleRS(rs, *rs.Spec.Replicas-dn, d)
			return "deploy-scale-down-old"
		}
	}
	return ""
}
