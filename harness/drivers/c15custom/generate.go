package c15custom

// Generators: Istio VirtualService / DestinationRule objects, made-up example.io kinds with nested specs,
// well-behaved Lua scripts (delivered through the kruise-rollout ConfigMap) and strategy sequences.

import (
	"fmt"
	"math/rand"
	"sort"
	"strings"

	"github.com/openkruise/rollouts/api/v1beta1"
	gatewayv1beta1 "sigs.k8s.io/gateway-api/apis/v1beta1"

	"verif/harness/gen"
)

const (
	caseNS      = "ns1"
	istioAPI    = "networking.istio.io/v1alpha3"
	customGroup = "example.io"
	customAPI   = "example.io/v1"
)

type obj = map[string]interface{}
type list = []interface{}

// caseIn is the complete input of one case; a case is a pure function of it.
type caseIn struct {
	Stable  string                           `json:"stableService"`
	Canary  string                           `json:"canaryService"`
	Refs    []v1beta1.ObjectRef              `json:"refs"`
	Objects []obj                            `json:"objects"` // parallel to Refs, as the user created them
	Scripts map[string]string                `json:"configMapScripts,omitempty"`
	Steps   []v1beta1.TrafficRoutingStrategy `json:"steps"`
	// BigInts: the generator put an integer beyond 2^53 somewhere (only for the signature)
	BigInts bool `json:"-"`
}

func genStrMap(rng *rand.Rand) interface{} {
	switch rng.Intn(5) {
	case 0:
		return nil // absent
	case 1:
		return obj{} // present and empty (an API server would drop it; kept to exercise nil == empty)
	}
	m := obj{}
	for i, n := 0, 1+rng.Intn(3); i < n; i++ {
		m[gen.Pick(rng, "app", "team", "example.io/owner", "k8s.io/z", "x")] = gen.Pick(rng, "", "1", "v", "a<b&c", `{"j":1}`)
	}
	return m
}

func genMeta(rng *rand.Rand, name string) obj {
	m := obj{"name": name, "namespace": caseNS}
	if v := genStrMap(rng); v != nil {
		m["labels"] = v
	}
	if v := genStrMap(rng); v != nil {
		m["annotations"] = v
	}
	if gen.Chance(rng, 15) {
		m["finalizers"] = list{"example.io/keep"}
	}
	if gen.Chance(rng, 15) {
		m["generation"] = int64(1 + rng.Intn(5))
	}
	return m
}

// ---- Istio ------------------------------------------------------------------------------------

func stableHost(rng *rand.Rand, stable string) string {
	if gen.Chance(rng, 30) {
		return stable + "." + caseNS + ".svc.cluster.local"
	}
	return stable
}

func otherHost(rng *rand.Rand, stable string) string {
	return gen.Pick(rng, "other", "other."+caseNS+".svc.cluster.local", stable+"-v2", "x"+stable, "reviews.prod.svc.cluster.local")
}

func genDestination(rng *rand.Rand, host string, withSubset bool) obj {
	d := obj{"host": host}
	if withSubset {
		d["subset"] = gen.Pick(rng, "v1", "v2", "base")
	}
	if gen.Chance(rng, 25) {
		d["port"] = obj{"number": []int64{80, 8080, 9090}[rng.Intn(3)]}
	}
	return obj{"destination": d}
}

func genRouteExtras(rng *rand.Rand, r obj) {
	if gen.Chance(rng, 25) {
		r["name"] = gen.Pick(rng, "primary", "r1", "api")
	}
	if gen.Chance(rng, 25) {
		r["timeout"] = gen.Pick(rng, "5s", "0.5s")
	}
	if gen.Chance(rng, 20) {
		r["retries"] = obj{"attempts": int64(1 + rng.Intn(4)), "perTryTimeout": "2s", "retryOn": "5xx,connect-failure"}
	}
	if gen.Chance(rng, 15) {
		r["fault"] = obj{"delay": obj{"percentage": obj{"value": []float64{0.1, 12.5, 50, 0.001}[rng.Intn(4)]}, "fixedDelay": "5s"}}
	}
	if gen.Chance(rng, 15) {
		r["headers"] = obj{"request": obj{"set": obj{"x-env": "prod"}, "remove": list{"x-debug"}}}
	}
	if gen.Chance(rng, 10) {
		r["mirror"] = obj{"host": "shadow"}
		r["mirrorPercentage"] = obj{"value": 12.5}
	}
}

func genHTTPMatchBlock(rng *rand.Rand) list {
	var ms list
	for i, n := 0, 1+rng.Intn(2); i < n; i++ {
		m := obj{}
		if gen.Chance(rng, 70) {
			m["uri"] = obj{gen.Pick(rng, "prefix", "exact", "regex"): gen.Pick(rng, "/api", "/", "/v[0-9]+")}
		}
		if gen.Chance(rng, 40) || len(m) == 0 {
			m["headers"] = obj{gen.Pick(rng, "x-user", "end-user"): obj{"exact": gen.Pick(rng, "jason", "a")}}
		}
		if gen.Chance(rng, 15) {
			m["ignoreUriCase"] = true
		}
		ms = append(ms, m)
	}
	return ms
}

// genHTTPRoute returns the route and its class (for the case signature).
func genHTTPRoute(rng *rand.Rand, stable string, allowRouteless bool) (obj, string) {
	r := obj{}
	class := ""
	k := rng.Intn(100)
	switch {
	case k < 45: // one stable destination
		d := genDestination(rng, stableHost(rng, stable), gen.Chance(rng, 35))
		if gen.Chance(rng, 30) {
			d["weight"] = int64(100)
		}
		r["route"] = list{d}
		class = "S"
	case k < 65: // several destinations, at least one stable
		n := 2 + rng.Intn(2)
		ws := splitWeights(rng, n)
		var ds list
		for i := 0; i < n; i++ {
			var d obj
			if i == 0 || gen.Chance(rng, 50) {
				d = genDestination(rng, stableHost(rng, stable), true)
			} else {
				d = genDestination(rng, otherHost(rng, stable), gen.Chance(rng, 40))
			}
			d["weight"] = int64(ws[i])
			ds = append(ds, d)
		}
		r["route"] = ds
		class = "M"
	case k < 92 || !allowRouteless: // other hosts only
		n := 1 + rng.Intn(2)
		ws := splitWeights(rng, n)
		var ds list
		for i := 0; i < n; i++ {
			d := genDestination(rng, otherHost(rng, stable), gen.Chance(rng, 40))
			if n > 1 || gen.Chance(rng, 30) {
				d["weight"] = int64(ws[i])
			}
			ds = append(ds, d)
		}
		r["route"] = ds
		class = "O"
	default: // legal Istio HTTPRoute without `route`: redirect / directResponse
		if gen.Chance(rng, 60) {
			r["redirect"] = obj{"uri": "/new", "authority": "new.example.com"}
		} else {
			r["directResponse"] = obj{"status": int64(503)}
		}
		class = "R"
	}
	if gen.Chance(rng, 30) {
		r["match"] = genHTTPMatchBlock(rng)
		class += "m"
	}
	genRouteExtras(rng, r)
	return r, class
}

func splitWeights(rng *rand.Rand, n int) []int {
	if n == 1 {
		return []int{100}
	}
	out := make([]int, n)
	left := 100
	for i := 0; i < n-1; i++ {
		w := rng.Intn(left + 1)
		out[i] = w
		left -= w
	}
	out[n-1] = left
	return out
}

func genL4Route(rng *rand.Rand, stable string, tls bool) (obj, string) {
	r := obj{}
	class := ""
	var ds list
	switch rng.Intn(3) {
	case 0:
		d := genDestination(rng, stableHost(rng, stable), gen.Chance(rng, 30))
		if gen.Chance(rng, 30) {
			d["weight"] = int64(100)
		}
		ds = list{d}
		class = "S"
	case 1:
		ds = list{genDestination(rng, otherHost(rng, stable), false)}
		class = "O"
	default:
		a, b := genDestination(rng, stableHost(rng, stable), true), genDestination(rng, otherHost(rng, stable), false)
		w := rng.Intn(101)
		a["weight"], b["weight"] = int64(w), int64(100-w)
		ds = list{a, b}
		class = "M"
	}
	r["route"] = ds
	if tls { // TLSRoute.match is required by Istio
		r["match"] = list{obj{"port": int64(443), "sniHosts": list{"a.example.com"}}}
		class += "m"
	} else if gen.Chance(rng, 40) {
		r["match"] = list{obj{"port": int64(27017)}}
		class += "m"
	}
	return r, class
}

func genVirtualService(rng *rand.Rand, name, stable string, allowRouteless bool) (obj, string) {
	spec := obj{"hosts": list{gen.Pick(rng, stable, stable+".example.com", "*")}}
	if gen.Chance(rng, 30) {
		spec["gateways"] = list{"gw", "mesh"}
	}
	var sig []string
	var http list
	for i, n := 0, 1+rng.Intn(3); i < n; i++ {
		r, c := genHTTPRoute(rng, stable, allowRouteless)
		http = append(http, r)
		sig = append(sig, c)
	}
	spec["http"] = http
	s := "http=" + strings.Join(sig, ",")
	if gen.Chance(rng, 20) {
		r, c := genL4Route(rng, stable, true)
		spec["tls"] = list{r}
		s += ":tls=" + c
	}
	if gen.Chance(rng, 30) {
		var tcp list
		var cs []string
		for i, n := 0, 1+rng.Intn(2); i < n; i++ {
			r, c := genL4Route(rng, stable, false)
			tcp = append(tcp, r)
			cs = append(cs, c)
		}
		spec["tcp"] = tcp
		s += ":tcp=" + strings.Join(cs, ",")
	}
	if gen.Chance(rng, 10) {
		spec["exportTo"] = list{"."}
	}
	o := obj{"apiVersion": istioAPI, "kind": "VirtualService", "metadata": genMeta(rng, name), "spec": spec}
	if gen.Chance(rng, 10) {
		o["status"] = obj{"observedGeneration": int64(1), "conditions": list{}}
	}
	return o, "VS(" + s + ")"
}

func genDestinationRule(rng *rand.Rand, name, stable string) (obj, string) {
	spec := obj{"host": stable}
	subsets := list{}
	n := rng.Intn(4)
	for i := 0; i < n; i++ {
		s := obj{"name": fmt.Sprintf("v%d", i+1), "labels": obj{"version": fmt.Sprintf("v%d", i+1)}}
		if gen.Chance(rng, 20) {
			s["trafficPolicy"] = obj{"loadBalancer": obj{"simple": "LEAST_CONN"}}
		}
		subsets = append(subsets, s)
	}
	spec["subsets"] = subsets
	tp := ""
	if gen.Chance(rng, 60) {
		p := obj{"loadBalancer": obj{"simple": gen.Pick(rng, "ROUND_ROBIN", "RANDOM")}}
		if gen.Chance(rng, 40) {
			p["connectionPool"] = obj{"tcp": obj{"maxConnections": int64(100)}, "http": obj{"http1MaxPendingRequests": int64(1024), "idleTimeout": "30s"}}
		}
		if gen.Chance(rng, 40) {
			p["outlierDetection"] = obj{"consecutive5xxErrors": int64(5), "interval": "30s", "baseEjectionTime": "30s", "maxEjectionPercent": int64(50)}
		}
		spec["trafficPolicy"] = p
		tp = ":tp"
	}
	if gen.Chance(rng, 10) {
		spec["exportTo"] = list{"."}
	}
	return obj{"apiVersion": istioAPI, "kind": "DestinationRule", "metadata": genMeta(rng, name), "spec": spec}, fmt.Sprintf("DR(subsets=%d%s)", n, tp)
}

// ---- made-up kinds ----------------------------------------------------------------------------

// keys a generated script may write; the generator keeps them type-correct (or absent)
var reservedKeys = map[string]bool{"canaryWeight": true, "stableWeight": true, "matches": true, "backends": true, "routing": true, "headerModifier": true, "legacy": true}

type valueStats struct{ emptyMap, emptyList, bigInt, float, listOfMaps int }

func genScalar(rng *rand.Rand, st *valueStats) interface{} {
	switch rng.Intn(9) {
	case 0:
		return gen.Pick(rng, "", "a", "x y", "a<b>&c", "ünï", "0", "true", "null", "[]")
	case 1:
		return int64(rng.Intn(200) - 50)
	case 2:
		return int64(0)
	case 3:
		return gen.Chance(rng, 50)
	case 4:
		st.float++
		return []float64{0.5, 1.25, 0.001, -2.75, 0.1, 1e-7, 123456.789}[rng.Intn(7)]
	case 5:
		if gen.Chance(rng, 25) {
			st.bigInt++
			return []int64{9007199254740993, 1 << 62, -9007199254740995}[rng.Intn(3)] // not representable as float64
		}
		return int64(1) << uint(rng.Intn(53))
	case 6:
		return "s" + fmt.Sprint(rng.Intn(5))
	}
	return int64(rng.Intn(10))
}

func genValue(rng *rand.Rand, depth int, st *valueStats) interface{} {
	k := rng.Intn(100)
	if depth <= 0 {
		k = k % 60
	}
	switch {
	case k < 45:
		return genScalar(rng, st)
	case k < 52:
		st.emptyMap++
		return obj{}
	case k < 60:
		st.emptyList++
		return list{}
	case k < 75:
		return genMap(rng, depth-1, st)
	case k < 85: // list of scalars
		var l list
		for i, n := 0, 1+rng.Intn(3); i < n; i++ {
			l = append(l, genScalar(rng, st))
		}
		return l
	default: // list of maps (may contain empty maps)
		st.listOfMaps++
		var l list
		for i, n := 0, 1+rng.Intn(3); i < n; i++ {
			l = append(l, genMap(rng, depth-1, st))
		}
		return l
	}
}

func genMap(rng *rand.Rand, depth int, st *valueStats) obj {
	m := obj{}
	for i, n := 0, rng.Intn(4); i < n; i++ {
		m[gen.Pick(rng, "a", "b", "conf", "items", "n", "flag", "name", "opts", "rules", "1")] = genValue(rng, depth, st)
	}
	if len(m) == 0 {
		st.emptyMap++
	}
	return m
}

func genCustomObject(rng *rand.Rand, kind, name string) (obj, *valueStats) {
	st := &valueStats{}
	spec := genMap(rng, 3, st)
	// keys the scripts work on: type-correct or absent
	switch rng.Intn(4) {
	case 0:
		spec["backends"] = list{}
		st.emptyList++
	case 1, 2:
		var l list
		for i, n := 0, 1+rng.Intn(3); i < n; i++ {
			b := obj{"name": fmt.Sprintf("b%d", i)}
			if gen.Chance(rng, 70) {
				b["weight"] = int64(rng.Intn(101))
			}
			if gen.Chance(rng, 30) {
				b["opts"] = genValue(rng, 1, st)
			}
			l = append(l, b)
		}
		spec["backends"] = l
	}
	switch rng.Intn(4) {
	case 0:
		spec["routing"] = obj{}
		st.emptyMap++
	case 1:
		spec["routing"] = obj{"stableService": "old", "extra": genValue(rng, 1, st)}
	}
	if gen.Chance(rng, 25) {
		spec["legacy"] = genValue(rng, 1, st)
	}
	o := obj{"apiVersion": customAPI, "kind": kind, "metadata": genMeta(rng, name), "spec": spec}
	if gen.Chance(rng, 15) {
		o["status"] = obj{"ready": true, "observed": list{}}
	}
	return o, st
}

// script building blocks; every block is a pure function of (obj.data, step) and nil-safe
var scriptOps = []struct{ name, code string }{
	{"weight", "spec.canaryWeight = obj.canaryWeight\nspec.stableWeight = obj.stableWeight\n"},
	{"matches", "spec.matches = obj.matches\n"},
	{"meta", "if data.annotations == nil then data.annotations = {} end\n" +
		"data.annotations[\"example.io/canary-weight\"] = tostring(obj.canaryWeight)\n" +
		"if data.labels == nil then data.labels = {} end\n" +
		"data.labels[\"example.io/canary\"] = \"true\"\n"},
	{"append", "if spec.backends == nil then spec.backends = {} end\n" +
		"table.insert(spec.backends, { name = obj.canaryService, weight = obj.canaryWeight })\n"},
	{"scale", "if spec.backends ~= nil then\n  for _, b in ipairs(spec.backends) do\n    if b.weight ~= nil and b.name ~= obj.canaryService then b.weight = math.floor(b.weight * obj.stableWeight / 100) end\n  end\nend\n"},
	{"nested", "if spec.routing == nil then spec.routing = {} end\nspec.routing.canaryService = obj.canaryService\nspec.routing.stableService = obj.stableService\n"},
	{"hdr", "spec.headerModifier = obj.requestHeaderModifier\n"},
	{"drop", "spec.legacy = nil\n"},
	// a script-level global that is never initialised: on the fresh interpreter every call is promised, `seenBefore` is nil
	// at the start of each call and the block always writes true; it writes false only if interpreter state
	// survives from one call to the next
	{"gacc", "spec.freshInterpreter = (seenBefore == nil)\nseenBefore = true\n"},
}

func genScript(rng *rand.Rand) (string, string) {
	var b strings.Builder
	b.WriteString("local data = obj.data\nlocal spec = data.spec\n")
	var names []string
	for _, op := range scriptOps {
		if gen.Chance(rng, 45) {
			// "scale" before "append" so that the appended entry is not rescaled
			names = append(names, op.name)
		}
	}
	if len(names) == 0 {
		names = []string{"weight"}
	}
	order := map[string]int{"weight": 0, "matches": 1, "meta": 2, "scale": 3, "append": 4, "nested": 5, "hdr": 6, "drop": 7, "gacc": 8}
	sort.Slice(names, func(i, j int) bool { return order[names[i]] < order[names[j]] })
	for _, n := range names {
		for _, op := range scriptOps {
			if op.name == n {
				b.WriteString(op.code)
			}
		}
	}
	b.WriteString("return data\n")
	return b.String(), strings.Join(names, "+")
}

// ---- strategies -------------------------------------------------------------------------------

func hdrType(s string) *gatewayv1beta1.HeaderMatchType {
	t := gatewayv1beta1.HeaderMatchType(s)
	return &t
}
func qType(s string) *gatewayv1beta1.QueryParamMatchType {
	t := gatewayv1beta1.QueryParamMatchType(s)
	return &t
}
func pType(s string) *gatewayv1beta1.PathMatchType {
	t := gatewayv1beta1.PathMatchType(s)
	return &t
}

// genMatch: types are always set (the Rollout CRD defaults them: Exact / Exact / PathPrefix).
func genMatch(rng *rand.Rand) (v1beta1.HttpRouteMatch, string) {
	m := v1beta1.HttpRouteMatch{}
	var kinds []string
	for len(kinds) == 0 {
		if gen.Chance(rng, 55) {
			for i, n := 0, 1+rng.Intn(2); i < n; i++ {
				m.Headers = append(m.Headers, gatewayv1beta1.HTTPHeaderMatch{Type: hdrType(gen.Pick(rng, "Exact", "RegularExpression")),
					Name: gatewayv1beta1.HTTPHeaderName(gen.Pick(rng, "user-agent", "x-canary", "env")), Value: gen.Pick(rng, "pc", "true", "^a.*")})
			}
			kinds = append(kinds, "hdr")
		}
		if gen.Chance(rng, 35) {
			for i, n := 0, 1+rng.Intn(2); i < n; i++ {
				m.QueryParams = append(m.QueryParams, gatewayv1beta1.HTTPQueryParamMatch{Type: qType(gen.Pick(rng, "Exact", "RegularExpression")),
					Name: gatewayv1beta1.HTTPHeaderName(gen.Pick(rng, "user", "ver")), Value: gen.Pick(rng, "a", "2")})
			}
			kinds = append(kinds, "query")
		}
		if gen.Chance(rng, 35) {
			m.Path = &gatewayv1beta1.HTTPPathMatch{Type: pType(gen.Pick(rng, "Exact", "PathPrefix", "RegularExpression")), Value: gen.Strp(gen.Pick(rng, "/", "/v2", "/api/.*"))}
			kinds = append(kinds, "path")
		}
	}
	return m, strings.Join(kinds, "+")
}

func genHeaderModifier(rng *rand.Rand) *gatewayv1beta1.HTTPHeaderFilter {
	f := &gatewayv1beta1.HTTPHeaderFilter{}
	for i, n := 0, rng.Intn(3); i < n; i++ {
		f.Set = append(f.Set, gatewayv1beta1.HTTPHeader{Name: gatewayv1beta1.HTTPHeaderName(gen.Pick(rng, "h1", "h2")), Value: gen.Pick(rng, "v1", "v2")})
	}
	for i, n := 0, rng.Intn(2); i < n; i++ {
		f.Add = append(f.Add, gatewayv1beta1.HTTPHeader{Name: "add", Value: gen.Pick(rng, "v1", "v2")})
	}
	for i, n := 0, rng.Intn(2); i < n; i++ {
		f.Remove = append(f.Remove, gen.Pick(rng, "r1", "r2"))
	}
	return f
}

func genStep(rng *rand.Rand) (v1beta1.TrafficRoutingStrategy, string) {
	s := v1beta1.TrafficRoutingStrategy{}
	k := rng.Intn(100)
	var sig []string
	if k < 55 || k >= 85 && k < 97 { // weight (alone, or together with matches)
		w := []int{0, 1, 5, 10, 20, 33, 50, 67, 99, 100, rng.Intn(101), rng.Intn(101)}[rng.Intn(12)]
		s.Traffic = gen.Strp(fmt.Sprintf("%d%%", w))
		sig = append(sig, "w")
	}
	if k >= 55 && k < 97 {
		var ks []string
		for i, n := 0, 1+rng.Intn(3); i < n; i++ {
			m, kind := genMatch(rng)
			s.Matches = append(s.Matches, m)
			ks = append(ks, kind)
		}
		sig = append(sig, "m("+strings.Join(ks, ",")+")")
	}
	if gen.Chance(rng, 25) {
		s.RequestHeaderModifier = genHeaderModifier(rng)
		sig = append(sig, "hm")
	}
	if len(sig) == 0 {
		sig = append(sig, "none")
	}
	return s, strings.Join(sig, "+")
}

// ---- whole case -------------------------------------------------------------------------------

func genCase(rng *rand.Rand) (*caseIn, string) {
	in := &caseIn{Stable: gen.Pick(rng, "echoserver", "svc-a")}
	in.Canary = in.Stable + "-canary"
	nrefs := 1 + rng.Intn(3)
	flavour := rng.Intn(10) // 0-3 istio, 4-7 custom, 8-9 mixed
	var sigs []string
	usedKinds := map[string]string{}
	hasDR := false
	for i := 0; i < nrefs; i++ {
		istio := flavour < 4 || (flavour >= 8 && i%2 == 0)
		var o obj
		var s string
		if istio {
			if i > 0 && gen.Chance(rng, 50) {
				o, s = genDestinationRule(rng, fmt.Sprintf("dr-%d", i), in.Stable)
				hasDR = true
			} else {
				o, s = genVirtualService(rng, fmt.Sprintf("vs-%d", i), in.Stable, true)
			}
		} else {
			kind := gen.Pick(rng, "Widget", "Gadget", "Gizmo")
			var st *valueStats
			o, st = genCustomObject(rng, kind, fmt.Sprintf("%s-%d", strings.ToLower(kind), i))
			if st.bigInt > 0 {
				in.BigInts = true
			}
			if _, ok := usedKinds[kind]; !ok {
				script, name := genScript(rng)
				usedKinds[kind] = name
				if in.Scripts == nil {
					in.Scripts = map[string]string{}
				}
				in.Scripts[scriptKey(kind, customGroup)] = script
			}
			s = fmt.Sprintf("%s[%s](em=%d,el=%d,f=%d,big=%d,lom=%d)", "Custom", usedKinds[kind], min1(st.emptyMap), min1(st.emptyList), min1(st.float), min1(st.bigInt), min1(st.listOfMaps))
		}
		md := o["metadata"].(obj)
		in.Refs = append(in.Refs, v1beta1.ObjectRef{APIVersion: o["apiVersion"].(string), Kind: o["kind"].(string), Name: md["name"].(string)})
		in.Objects = append(in.Objects, o)
		sigs = append(sigs, s)
	}
	if hasDR && gen.Chance(rng, 70) || gen.Chance(rng, 10) {
		in.Canary = in.Stable // DestinationRule mode: the canary is a subset of the stable host
	}
	nsteps := 1 + rng.Intn(4)
	if gen.Chance(rng, 4) {
		nsteps = 0
	}
	var ss []string
	for i := 0; i < nsteps; i++ {
		s, sg := genStep(rng)
		in.Steps = append(in.Steps, s)
		ss = append(ss, sg)
	}
	mode := "svc"
	if in.Canary == in.Stable {
		mode = "subset"
	}
	return in, fmt.Sprintf("%s|%s|steps=%s", mode, strings.Join(sigs, ";"), strings.Join(ss, ">"))
}

func min1(n int) int {
	if n > 0 {
		return 1
	}
	return 0
}

// scriptKey: how the provider keys ConfigMap scripts ("lua.traffic.routing.<Kind>.<group>").
func scriptKey(kind, group string) string { return "lua.traffic.routing." + kind + "." + group }
