# claim(pid, engine, level, technique, text, note, design_ref)
claim("C20", "E2-drivers", "exploration",
      "runtime monitoring: real ConvertTo/ConvertFrom executed on generated objects, round-trip compared under an independent meaning normal form; panics recovered and reported",
      "Held on N generated objects per run (200k quick / 2M thorough) covering every optional block nil/present in both directions; sampling of an unbounded input language, not a proof.",
      "Trusts the meaning normal form written from the property statement and the generator's reading of the CRD required-lists.",
      "DESIGN.md §4 C20")
