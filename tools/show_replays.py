#!/usr/bin/env python3
"""show_replays.py <dir> [n-last-writes] : compact view of violation replay files."""
import json, glob, sys
d = sys.argv[1]; n = int(sys.argv[2]) if len(sys.argv) > 2 else 14
for f in sorted(glob.glob(d + '/*.json')):
    r = json.load(open(f))
    print('=' * 100); print(r['fingerprint'], '| case', r['case'], '|', f)
    print('  MSG', r['msg'][:400])
    det = r.get('detail') or {}
    if isinstance(det, dict):
        if 'scenario' in det: print("  SPEC '" + json.dumps(det['scenario']) + "'")
        if det.get('userActions'): print('  USER', det['userActions'])
        if det.get('faults'): print('  FAULTS', det['faults'])
        if det.get('info') is not None: print('  INFO', json.dumps(det['info'])[:600])
        for l in (det.get('lastWrites') or [])[-n:]: print('    ', l[:330])
    else:
        print('  DETAIL', str(det)[:1500])
