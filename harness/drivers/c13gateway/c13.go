// Package c13gateway — property C13 "Gateway API routes: exact split, narrow matches, clean restore"
// (and clause (d) of C07 for this provider: EnsureRoutes reaches a fixed point).
//
// Monitor: the real provider (gateway.NewGatewayTrafficRouting) is driven through generated sequences
// EnsureRoutes(s1)..EnsureRoutes(sn); Finalise against a controller-runtime fake client holding a
// generated HTTPRoute; a write-recording interposer sits between provider and client. The oracles
// (oracle.go) are written from the property statement: a request-level HTTPRoute interpretation, the
// weight / match / finalise checks, history independence and the fixed point.
package c13gateway

import (
	"context"
	"encoding/json"
	"fmt"
	"strings"
	"sync"

	"github.com/openkruise/rollouts/api/v1beta1"
	"github.com/openkruise/rollouts/pkg/trafficrouting/network"
	"github.com/openkruise/rollouts/pkg/trafficrouting/network/gateway"
	"k8s.io/apimachinery/pkg/runtime"
	"sigs.k8s.io/controller-runtime/pkg/client"
	"sigs.k8s.io/controller-runtime/pkg/client/fake"
	gw "sigs.k8s.io/gateway-api/apis/v1beta1"

	"verif/harness/core"
	"verif/harness/gen"
)

const maxEnsureCalls = 5

func init() {
	core.Register(&core.Check{
		ID:    "C13",
		Level: "exploration",
		Rule: "a case = one generated HTTPRoute (stored form: gateway-api v0.7.1 CRD defaults applied; 1-4 rules; 0-3 matches per rule mixing path/headers/queryParams/method; " +
			"filters; redirect-only rules without backends; foreign Services / non-Service kinds / same-name refs in another namespace or group next to or instead of the stable Service) " +
			"plus one generated sequence of 0-4 traffic strategies (weight 0..100, match steps mixing path / header / query matchers in any order, with and without requestHeaderModifier, " +
			"Traffic+Matches together) followed by Finalise. Every strategy is pushed through the real gateway provider (EnsureRoutes repeated until it reports done, at most 5 calls) against a " +
			"controller-runtime fake client behind a write-recording interposer; each strategy is also applied alone to a fresh copy of the route. Checked: weight split and frame per rule; " +
			"request-level narrowness of every generated canary rule over an alphabet of synthetic requests (paths x methods x values of every mentioned header / query name); restore after " +
			"Finalise; history independence at every step; fixed point of EnsureRoutes / Finalise (reported under C07). " +
			"Every tenth case instead lets the user edit the route mid-rollout (a backend of their own appended to the rules that carry the canary backend; or the canary backend pre-declared by the user with weight 0 in the middle of a rule): the user's own backends must survive every later step and Finalise, in order. " +
			"distinct = distinct (rule-class multiset, step-kind sequence) signature.",
		Assumptions: []string{
			"the stored HTTPRoute carries the CRD defaults (path PathPrefix '/', header/query type Exact, backendRef group ''/kind Service/weight 1, redirect statusCode 302); a rule whose user wrote `matches: []` keeps no matches (defaults apply to absent fields only) and accepts every request",
			"a backendRef denotes the stable (canary) Service iff group is ''/absent, kind is Service/absent, name equals the configured name and namespace is absent or the route's namespace; anything else is a foreign backend",
			"the user's route never references the canary Service; canary and stable Service names differ (the end-to-end / disableGenerateCanaryService mode, where both names coincide, is outside the statement)",
			"request-level reading: a rule accepts a request iff any of its matches does, a match iff all of its path/header/query/method conditions do; a step match with `path` is standalone, one without is combined with the conditions of the original rule; regular expressions are full-string Go regexps on both sides of the comparison",
			"only the narrowness direction is a verdict (the statement says 'accepts only'); selected requests that no canary rule accepts, repeated header names and more than 8 matches in a generated rule (both rejected by a real API server) are counted as observations, not violations",
			"Finalise: the weight field of the stable backendRef is owned by the rollout once the route is referenced; user rules are compared modulo that one field",
			"history independence and all comparisons are on canonical JSON of typed objects (nil == empty), order-sensitive (rule order decides precedence between equal matches); after a match step the comparison is modulo the weight of stable backendRefs (same ownership reading as for Finalise) and modulo the weight of a generated rule's single canary backendRef (a copy of the former)",
			"fixed point (C07 d): the call that first returns true and one further call make zero effective writes (object compared before/after every write call); true within 3 calls; Finalise: a call after the first `modified=true` returns false with zero effective writes",
		},
		NumCases:  NumCases,
		ChunkSize: 50,
		Relevant:  "ensure_calls",
		RunCase: func(env *core.Env, idx int) *core.CaseResult {
			if idx%10 == 9 {
				// the user edits the route while the rollout is in flight (see useredit.go)
				r := RunUserEditCase(env, idx)
				r.Count("ensure_calls", r.Counters["useredit_provider_calls"])
				return r
			}
			return RunCase(env, idx, "C13")
		},
	})
}

// NumCases is a pure function of the tier.
func NumCases(env *core.Env) int {
	if env.Thorough() {
		return 100000
	}
	return 3000
}

// RunCase runs case idx and keeps the violations that belong to prop ("C13": everything but the
// provider fixed point; "C07": only the fixed point, fingerprints "c07d:gateway:...").
func RunCase(env *core.Env, idx int, prop string) *core.CaseResult {
	rng := env.RNG(idx)
	route, classes := genRoute(rng)
	steps := genSteps(rng)
	// as stored: through JSON once
	stored := &gw.HTTPRoute{}
	_ = json.Unmarshal([]byte(js(route)), stored)
	res := runScenario(stored, steps, true)
	res.Violations = filterProp(res.Violations, prop)
	// minimise the first case of every fingerprint seen by this worker
	for i := range res.Violations {
		v := &res.Violations[i]
		if !firstSeen(v.Fingerprint) {
			continue
		}
		mr, ms := minimise(stored, steps, v.Fingerprint)
		if d, ok := v.Detail.(gen.NF); ok {
			d["minimal"] = gen.NF{"route": json.RawMessage(js(mr)), "steps": json.RawMessage(js(ms))}
			if mv := findViolation(runScenario(mr, ms, false), v.Fingerprint); mv != nil {
				d["minimalMsg"] = mv.Msg
				if md, ok := mv.Detail.(gen.NF); ok {
					d["minimalObserved"] = md["observedRules"]
					if x, ok := md["sequenceRules"]; ok {
						d["minimalSequenceRules"] = x
					}
					if x, ok := md["witnessRequest"]; ok {
						d["minimalWitness"] = x
					}
				}
			}
		}
	}
	// signature of what was exercised
	if res.Counters["ensure_calls"] > 0 || res.Counters["finalise_calls"] > 0 {
		cs := map[string]int{}
		for _, c := range classes {
			cs[c]++
		}
		var parts []string
		for _, c := range sortedKeys(cs) {
			parts = append(parts, fmt.Sprintf("%s*%d", c, cs[c]))
		}
		var ks []string
		for _, s := range steps {
			ks = append(ks, stepSig(s))
		}
		res.AddSig("rules[" + strings.Join(parts, ",") + "]:steps[" + strings.Join(ks, ",") + "]")
		for _, c := range classes {
			res.AddSet("rule_classes", c)
		}
		for _, s := range steps {
			res.AddSet("step_kinds", stepSig(s))
		}
	}
	if idx < 8 {
		res.Sample = gen.NF{"route": json.RawMessage(js(stored)), "steps": json.RawMessage(js(steps))}
	}
	return res
}

func filterProp(vs []core.Violation, prop string) []core.Violation {
	var out []core.Violation
	for _, v := range vs {
		isFix := strings.HasPrefix(v.Fingerprint, "c07d:")
		if (prop == "C07") == isFix {
			out = append(out, v)
		}
	}
	return out
}

func findViolation(r *core.CaseResult, fp string) *core.Violation {
	for i := range r.Violations {
		if r.Violations[i].Fingerprint == fp {
			return &r.Violations[i]
		}
	}
	return nil
}

var (
	seenMu sync.Mutex
	seenFP = map[string]bool{}
)

func firstSeen(fp string) bool {
	seenMu.Lock()
	defer seenMu.Unlock()
	if seenFP[fp] {
		return false
	}
	seenFP[fp] = true
	return true
}

func sortedKeys(m map[string]int) []string {
	var ks []string
	for k := range m {
		ks = append(ks, k)
	}
	for i := range ks {
		for j := i + 1; j < len(ks); j++ {
			if ks[j] < ks[i] {
				ks[i], ks[j] = ks[j], ks[i]
			}
		}
	}
	return ks
}

// ---- store: fake client + interposer + real provider ---------------------------------------------------

var (
	schemeOnce sync.Once
	scheme     *runtime.Scheme
)

func getScheme() *runtime.Scheme {
	schemeOnce.Do(func() {
		scheme = runtime.NewScheme()
		_ = gw.AddToScheme(scheme)
	})
	return scheme
}

type store struct {
	c *recClient
	p network.NetworkProvider
}

func newStore(route *gw.HTTPRoute) *store {
	obj := route.DeepCopy()
	obj.ResourceVersion = ""
	inner := fake.NewClientBuilder().WithScheme(getScheme()).WithObjects(obj).Build()
	rc := &recClient{Client: inner}
	name := routeName
	p, _ := gateway.NewGatewayTrafficRouting(rc, gateway.Config{Key: "ns1/rollout-demo", Namespace: nsName, CanaryService: canarySvc, StableService: stableSvc,
		TrafficConf: &v1beta1.GatewayTrafficRouting{HTTPRouteName: &name}})
	return &store{c: rc, p: p}
}

func (s *store) route() *gw.HTTPRoute {
	r := &gw.HTTPRoute{}
	if err := s.c.Client.Get(context.TODO(), client.ObjectKey{Namespace: nsName, Name: routeName}, r); err != nil {
		return &gw.HTTPRoute{}
	}
	return r
}

// semantic form of the stored object
func semantic(r *gw.HTTPRoute) string {
	return js(gen.NF{"outside": json.RawMessage(outsideRules(r)), "rules": r.Spec.Rules})
}

// ruleForms gives the compared form of every rule; mod: modulo the rollout-owned weight fields.
func ruleForms(r *gw.HTTPRoute, mod bool) []string {
	var out []string
	for i := range r.Spec.Rules {
		rule := r.Spec.Rules[i]
		if !mod {
			out = append(out, js(rule))
			continue
		}
		// a generated rule whose only backend is the canary Service: the provider copies the weight from the
		// stable backendRef, whose weight field is the rollout's; as a sole backend it receives all or nothing
		if len(rule.BackendRefs) == 1 && refIsService(&rule.BackendRefs[0], canarySvc) {
			rule = *rule.DeepCopy()
			rule.BackendRefs[0].Weight = nil
		}
		out = append(out, modStableWeight(rule))
	}
	return out
}

func rawList(xs []string) []json.RawMessage {
	var out []json.RawMessage
	for _, x := range xs {
		out = append(out, json.RawMessage(x))
	}
	return out
}

// the first rule in which two rule lists differ carries a ref that only looks like the stable / canary Service
func firstDifferingRuleHasLookalike(a, b []gw.HTTPRouteRule, fa, fb []string) bool {
	has := func(r *gw.HTTPRouteRule) bool {
		for i := range r.BackendRefs {
			ref := &r.BackendRefs[i]
			if (string(ref.Name) == stableSvc && !refIsService(ref, stableSvc)) || (string(ref.Name) == canarySvc && !refIsService(ref, canarySvc)) {
				return true
			}
		}
		return false
	}
	for i := 0; i < len(a) || i < len(b); i++ {
		switch {
		case i >= len(a):
			return has(&b[i])
		case i >= len(b):
			return has(&a[i])
		case fa[i] != fb[i]:
			return has(&a[i]) || has(&b[i])
		}
	}
	return false
}

// ---- running a scenario ---------------------------------------------------------------------------------

// ensure repeats EnsureRoutes until it reports done (at most maxEnsureCalls) and checks the fixed point.
func (sc *scenario) ensure(st *store, s step, history string, count bool) bool {
	res := sc.res
	done := false
	for call := 1; call <= maxEnsureCalls; call++ {
		st.c.reset()
		var ok bool
		var err error
		strat := s.Strategy.DeepCopy()
		pi := core.Try(func() { ok, err = st.p.EnsureRoutes(context.TODO(), strat) })
		if count {
			res.Count("ensure_calls", 1)
			res.Count("write_calls", int64(st.c.writes))
			res.Count("effective_writes", int64(st.c.effective))
		}
		if pi != nil {
			res.Violate("c13:panic:EnsureRoutes:"+pi.Site+":"+core.NormPanic(pi.Value), "EnsureRoutes panicked: "+pi.Value, sc.detail(gen.NF{"history": history, "stack": pi.Stack}))
			return false
		}
		if err != nil {
			res.Violate("c13:error:EnsureRoutes:"+s.Kind, "EnsureRoutes returned an error on a healthy store: "+err.Error(), sc.detail(gen.NF{"history": history}))
			return false
		}
		if !ok {
			continue
		}
		done = true
		if count {
			res.Count("fixed_points_checked", 1)
		}
		if st.c.effective > 0 {
			res.Violate("c07d:gateway:ensure-true-with-writes:"+s.Kind, fmt.Sprintf("EnsureRoutes returned true in a call that changed the route (%d effective writes)", st.c.effective), sc.detail(gen.NF{"history": history}))
		}
		if call > 3 {
			res.Violate("c07d:gateway:ensure-slow:"+s.Kind, fmt.Sprintf("EnsureRoutes needed %d calls to report done", call), sc.detail(gen.NF{"history": history}))
		}
		// one more call: true, zero effective writes
		st.c.reset()
		before := semantic(st.route())
		var ok2 bool
		var err2 error
		pi = core.Try(func() { ok2, err2 = st.p.EnsureRoutes(context.TODO(), s.Strategy.DeepCopy()) })
		if count {
			res.Count("ensure_calls", 1)
			res.Count("write_calls", int64(st.c.writes))
			res.Count("effective_writes", int64(st.c.effective))
		}
		if pi != nil {
			res.Violate("c13:panic:EnsureRoutes:"+pi.Site+":"+core.NormPanic(pi.Value), "EnsureRoutes panicked: "+pi.Value, sc.detail(gen.NF{"history": history, "stack": pi.Stack}))
			return false
		}
		if err2 != nil || !ok2 || st.c.effective > 0 || semantic(st.route()) != before {
			res.Violate("c07d:gateway:ensure-not-a-fixed-point:"+s.Kind, fmt.Sprintf("after EnsureRoutes returned true, the next call returned (%v, %v) with %d effective writes", ok2, err2, st.c.effective), sc.detail(gen.NF{"history": history}))
		}
		break
	}
	if !done {
		res.Violate("c07d:gateway:ensure-never-done:"+s.Kind, fmt.Sprintf("EnsureRoutes did not report done within %d calls", maxEnsureCalls), sc.detail(gen.NF{"history": history, "observedRules": json.RawMessage(js(st.route().Spec.Rules))}))
	}
	return done
}

// finalise repeats Finalise until it reports "not modified" and checks quiescence.
func (sc *scenario) finalise(st *store, history string, count bool) bool {
	res := sc.res
	for call := 1; call <= maxEnsureCalls; call++ {
		st.c.reset()
		var modified bool
		var err error
		pi := core.Try(func() { modified, err = st.p.Finalise(context.TODO()) })
		if count {
			res.Count("finalise_calls", 1)
			res.Count("write_calls", int64(st.c.writes))
			res.Count("effective_writes", int64(st.c.effective))
		}
		if pi != nil {
			res.Violate("c13:panic:Finalise:"+pi.Site+":"+core.NormPanic(pi.Value), "Finalise panicked: "+pi.Value, sc.detail(gen.NF{"history": history, "stack": pi.Stack}))
			return false
		}
		if err != nil {
			res.Violate("c13:error:Finalise", "Finalise returned an error on a healthy store: "+err.Error(), sc.detail(gen.NF{"history": history}))
			return false
		}
		if modified {
			if call >= 3 {
				res.Violate("c07d:gateway:finalise-slow", fmt.Sprintf("Finalise still reports modifications at call %d", call), sc.detail(gen.NF{"history": history}))
			}
			continue
		}
		if count {
			res.Count("fixed_points_checked", 1)
		}
		if st.c.effective > 0 {
			res.Violate("c07d:gateway:finalise-unmodified-with-writes", "Finalise reported 'not modified' in a call that changed the route", sc.detail(gen.NF{"history": history}))
		}
		return true
	}
	res.Violate("c07d:gateway:finalise-never-quiescent", fmt.Sprintf("Finalise reported modifications in each of %d calls", maxEnsureCalls), sc.detail(gen.NF{"history": history}))
	return false
}

func historyOf(steps []step, upto int, fin bool) string {
	var ks []string
	for i := 0; i <= upto && i < len(steps); i++ {
		ks = append(ks, stepSig(steps[i]))
	}
	if fin {
		ks = append(ks, "Finalise")
	}
	return strings.Join(ks, " ; ")
}

// runScenario drives the provider through the whole sequence and applies every oracle.
func runScenario(route *gw.HTTPRoute, steps []step, count bool) *core.CaseResult {
	res := &core.CaseResult{}
	sc := &scenario{route: route, steps: steps, res: res, reqs: alphabet(route, steps)}
	seq := newStore(route)
	var lastFresh *store
	diverged := false
	alive := true
	for i, s := range steps {
		hist := historyOf(steps, i, false)
		// the sequence
		if alive && !sc.ensure(seq, s, hist, count) {
			alive = false
		}
		// the step alone on a fresh copy: step oracles are judged here (history [s])
		fresh := newStore(route)
		lastFresh = fresh
		if !sc.ensure(fresh, s, stepSig(s), count) {
			lastFresh = nil
			continue
		}
		fr := fresh.route()
		sc.checkFrame(fr, stepSig(s))
		if s.Kind == "weight" {
			sc.checkWeight(fr.Spec.Rules, s.Weight, stepSig(s))
		} else {
			sc.checkMatch(fr.Spec.Rules, s.Strategy.Matches, stepSig(s))
		}
		// history independence: the sequence must have arrived at the same object
		if alive && !diverged && i > 0 {
			res.Count("history_comparisons", 1)
			sr := seq.route()
			// a match step leaves the user's rules alone; the weight of their stable backendRef is the rollout's
			// once it has been rewritten by an earlier weight step: after a match step compare modulo that field
			mod := s.Kind == "match"
			fa, fb := ruleForms(sr, mod), ruleForms(fr, mod)
			a := js(gen.NF{"outside": json.RawMessage(outsideRules(sr)), "rules": rawList(fa)})
			b := js(gen.NF{"outside": json.RawMessage(outsideRules(fr)), "rules": rawList(fb)})
			if a != b {
				diverged = true
				var x, y interface{}
				_ = json.Unmarshal([]byte(a), &x)
				_ = json.Unmarshal([]byte(b), &y)
				fp := "c13:history:" + steps[i-1].Kind + "-then-" + s.Kind
				if firstDifferingRuleHasLookalike(sr.Spec.Rules, fr.Spec.Rules, fa, fb) {
					fp = lookalikeFP
				}
				res.Violate(fp,
					fmt.Sprintf("after [%s] the route differs from the route after [%s] alone on a fresh copy (first difference at %s; %d vs %d rules)", hist, stepSig(s), gen.FirstDiff("", x, y), len(sr.Spec.Rules), len(fr.Spec.Rules)),
					sc.detail(gen.NF{"history": hist, "sequenceRules": json.RawMessage(js(sr.Spec.Rules)), "observedRules": json.RawMessage(js(fr.Spec.Rules))}))
			}
		}
	}
	// Finalise
	if len(steps) == 0 {
		lastFresh = newStore(route)
	}
	if alive {
		hist := historyOf(steps, len(steps)-1, true)
		if sc.finalise(seq, hist, count) && !diverged {
			r := seq.route()
			sc.checkFrame(r, hist)
			sc.checkFinalise(r.Spec.Rules, hist)
		}
	}
	if lastFresh != nil && (len(steps) > 1 || !alive) {
		hist := "Finalise"
		if len(steps) > 0 {
			hist = stepSig(steps[len(steps)-1]) + " ; Finalise"
		}
		if sc.finalise(lastFresh, hist, count) {
			r := lastFresh.route()
			sc.checkFrame(r, hist)
			sc.checkFinalise(r.Spec.Rules, hist)
		}
	}
	return res
}
