package c13gateway

// recClient: a write-recording interposer between the provider and the fake client. Every write call is
// bracketed by a snapshot of all HTTPRoutes of the namespace; a write is "effective" iff the snapshot changed.

import (
	"context"

	"sigs.k8s.io/controller-runtime/pkg/client"
	gw "sigs.k8s.io/gateway-api/apis/v1beta1"
)

type recClient struct {
	client.Client
	reads     int
	writes    int
	effective int
}

func (r *recClient) reset() { r.reads, r.writes, r.effective = 0, 0, 0 }

func (r *recClient) snapshot() string {
	l := &gw.HTTPRouteList{}
	if err := r.Client.List(context.TODO(), l, client.InNamespace(nsName)); err != nil {
		return "error:" + err.Error()
	}
	for i := range l.Items {
		l.Items[i].ResourceVersion = ""
		l.Items[i].ManagedFields = nil
		l.Items[i].Generation = 0
	}
	return js(l.Items)
}

func (r *recClient) record(fn func() error) error {
	before := r.snapshot()
	err := fn()
	r.writes++
	if r.snapshot() != before {
		r.effective++
	}
	return err
}

func (r *recClient) Get(ctx context.Context, key client.ObjectKey, obj client.Object, opts ...client.GetOption) error {
	r.reads++
	return r.Client.Get(ctx, key, obj, opts...)
}
func (r *recClient) Create(ctx context.Context, obj client.Object, opts ...client.CreateOption) error {
	return r.record(func() error { return r.Client.Create(ctx, obj, opts...) })
}
func (r *recClient) Update(ctx context.Context, obj client.Object, opts ...client.UpdateOption) error {
	return r.record(func() error { return r.Client.Update(ctx, obj, opts...) })
}
func (r *recClient) Patch(ctx context.Context, obj client.Object, patch client.Patch, opts ...client.PatchOption) error {
	return r.record(func() error { return r.Client.Patch(ctx, obj, patch, opts...) })
}
func (r *recClient) Delete(ctx context.Context, obj client.Object, opts ...client.DeleteOption) error {
	return r.record(func() error { return r.Client.Delete(ctx, obj, opts...) })
}
func (r *recClient) DeleteAllOf(ctx context.Context, obj client.Object, opts ...client.DeleteAllOfOption) error {
	return r.record(func() error { return r.Client.DeleteAllOf(ctx, obj, opts...) })
}
