package c15custom

// Independent oracles: own JSON trees with exact numbers, own exact / meaning comparison, own reading
// of an Istio VirtualService. Nothing here calls a helper of the code under test.

import (
	"bytes"
	"encoding/json"
	"fmt"
	"math/big"
	"reflect"
	"sort"
	"strconv"
	"strings"
)

// bookkeepingAnno is the provider's own annotation (named in the property's anchors).
const bookkeepingAnno = "rollouts.kruise.io/original-spec-configuration"

// num is a JSON number in canonical exact form (big.Rat string), so 3, 3.0 and 3e0 are the same value
// and 9007199254740993 differs from 9007199254740992.
type num string

func decodeTree(b []byte) (interface{}, error) {
	dec := json.NewDecoder(bytes.NewReader(b))
	dec.UseNumber()
	var v interface{}
	if err := dec.Decode(&v); err != nil {
		return nil, err
	}
	return canonTree(v), nil
}

func canonTree(v interface{}) interface{} {
	switch t := v.(type) {
	case json.Number:
		r, ok := new(big.Rat).SetString(string(t))
		if !ok {
			return "badnum:" + string(t)
		}
		return num(r.RatString())
	case map[string]interface{}:
		out := make(map[string]interface{}, len(t))
		for k, x := range t {
			out[k] = canonTree(x)
		}
		return out
	case []interface{}:
		out := make([]interface{}, len(t))
		for i, x := range t {
			out[i] = canonTree(x)
		}
		return out
	}
	return v
}

func treeOf(v interface{}) interface{} {
	b, err := json.Marshal(v)
	if err != nil {
		return fmt.Sprintf("unmarshalable:%v", err)
	}
	t, _ := decodeTree(b)
	return t
}

func numFloat(n num) float64 {
	r, _ := new(big.Rat).SetString(string(n))
	f, _ := r.Float64()
	return f
}

func kindOfValue(v interface{}) string {
	switch t := v.(type) {
	case nil:
		return "null"
	case map[string]interface{}:
		if len(t) == 0 {
			return "empty-map"
		}
		return "map"
	case []interface{}:
		if len(t) == 0 {
			return "empty-list"
		}
		return "list"
	case num:
		return "number"
	case string:
		return "string"
	case bool:
		return "bool"
	}
	return "other"
}

// exactDiff: first difference between two trees. want = what should be there, got = what is there.
// class is a stable, index-free description of the kind of difference.
func exactDiff(path string, want, got interface{}) (where, class string) {
	if reflect.DeepEqual(want, got) {
		return "", ""
	}
	wm, wok := want.(map[string]interface{})
	gm, gok := got.(map[string]interface{})
	if wok && gok && (len(wm) > 0 || len(gm) > 0) {
		keys := map[string]bool{}
		for k := range wm {
			keys[k] = true
		}
		for k := range gm {
			keys[k] = true
		}
		var ks []string
		for k := range keys {
			ks = append(ks, k)
		}
		sort.Strings(ks)
		for _, k := range ks {
			wv, win := wm[k]
			gv, gin := gm[k]
			switch {
			case win && !gin:
				return path + "." + k, kindOfValue(wv) + "-lost"
			case !win && gin:
				return path + "." + k, kindOfValue(gv) + "-added"
			}
			if w, c := exactDiff(path+"."+k, wv, gv); w != "" {
				return w, c
			}
		}
		return path, "map"
	}
	wl, wok := want.([]interface{})
	gl, gok := got.([]interface{})
	if wok && gok && (len(wl) > 0 || len(gl) > 0) {
		if len(wl) != len(gl) {
			if len(wl) == 0 || len(gl) == 0 {
				return path, kindOfValue(want) + "-became-" + kindOfValue(got)
			}
			return path, "list-length"
		}
		for i := range wl {
			if w, c := exactDiff(path+"["+strconv.Itoa(i)+"]", wl[i], gl[i]); w != "" {
				return w, c
			}
		}
		return path, "list"
	}
	wn, wok := want.(num)
	gn, gok := got.(num)
	if wok && gok {
		if numFloat(wn) == numFloat(gn) {
			return path, "number-beyond-float64-precision"
		}
		return path, "number-value"
	}
	wk, gk := kindOfValue(want), kindOfValue(got)
	if wk == gk {
		return path, wk + "-value"
	}
	return path, wk + "-became-" + gk
}

// meaningNorm drops nulls and empty containers (recursively) from maps; list elements keep their
// position (an element that is null or empty becomes nil). Used only where the statement says
// "untouched" for values that have travelled through a script and back.
func meaningNorm(v interface{}) interface{} {
	switch t := v.(type) {
	case map[string]interface{}:
		out := map[string]interface{}{}
		for k, x := range t {
			if n := meaningNorm(x); n != nil {
				out[k] = n
			}
		}
		if len(out) == 0 {
			return nil
		}
		return out
	case []interface{}:
		if len(t) == 0 {
			return nil
		}
		out := make([]interface{}, len(t))
		for i, x := range t {
			out[i] = meaningNorm(x)
		}
		return out
	}
	return v
}

func meaningEqual(a, b interface{}) bool { return reflect.DeepEqual(meaningNorm(a), meaningNorm(b)) }

func without(m map[string]interface{}, keys ...string) map[string]interface{} {
	out := map[string]interface{}{}
	for k, v := range m {
		skip := false
		for _, d := range keys {
			if k == d {
				skip = true
			}
		}
		if !skip {
			out[k] = v
		}
	}
	return out
}

func asMap(v interface{}) map[string]interface{} {
	m, _ := v.(map[string]interface{})
	return m
}
func asList(v interface{}) []interface{} {
	l, _ := v.([]interface{})
	return l
}
func asString(v interface{}) string {
	s, _ := v.(string)
	return s
}

// ---- state of one referenced object -------------------------------------------------------------

type objState struct {
	HasSpec     bool
	Spec        interface{}
	Labels      map[string]interface{} // nil when absent or empty (nil == empty for metadata maps)
	Annotations map[string]interface{} // without the bookkeeping annotation; nil when absent or empty
	HasBook     bool
	Book        string
	Rest        interface{} // everything else except metadata.resourceVersion
}

func stateOf(tree interface{}) *objState {
	o := asMap(tree)
	st := &objState{}
	rest := map[string]interface{}{}
	for k, v := range o {
		switch k {
		case "spec":
			st.HasSpec, st.Spec = true, v
		case "metadata":
			md := map[string]interface{}{}
			for mk, mv := range asMap(v) {
				switch mk {
				case "labels":
					if m := asMap(mv); len(m) > 0 {
						st.Labels = m
					}
				case "annotations":
					a := map[string]interface{}{}
					for ak, av := range asMap(mv) {
						if ak == bookkeepingAnno {
							st.HasBook, st.Book = true, asString(av)
						} else {
							a[ak] = av
						}
					}
					if len(a) > 0 {
						st.Annotations = a
					}
				case "resourceVersion":
				default:
					md[mk] = mv
				}
			}
			rest["metadata"] = md
		default:
			rest[k] = v
		}
	}
	st.Rest = rest
	return st
}

func (s *objState) view() map[string]interface{} {
	v := map[string]interface{}{"labels": s.Labels, "annotations": s.Annotations}
	if s.HasSpec {
		v["spec"] = s.Spec
	} else {
		v["spec"] = "<absent>"
	}
	if s.HasBook {
		v["bookkeepingAnnotation"] = s.Book
	}
	return v
}

type sectionDiff struct{ section, where, class, want, got string }

// diffUserConfig compares spec (exact), labels and annotations (nil == empty) of two states.
func diffUserConfig(want, got *objState) []sectionDiff {
	var out []sectionDiff
	switch {
	case want.HasSpec && !got.HasSpec:
		out = append(out, sectionDiff{"spec", "spec", "spec-lost", jsonStr(want.Spec), "<absent>"})
	case !want.HasSpec && got.HasSpec:
		out = append(out, sectionDiff{"spec", "spec", "spec-added", "<absent>", jsonStr(got.Spec)})
	default:
		if w, c := exactDiff("spec", want.Spec, got.Spec); w != "" {
			out = append(out, sectionDiff{"spec", w, c, jsonStr(valueAt(want.Spec, w[len("spec"):])), jsonStr(valueAt(got.Spec, w[len("spec"):]))})
		}
	}
	if w, c := exactDiff("labels", mapOrEmpty(want.Labels), mapOrEmpty(got.Labels)); w != "" {
		out = append(out, sectionDiff{"labels", w, c, jsonStr(want.Labels), jsonStr(got.Labels)})
	}
	if w, c := exactDiff("annotations", mapOrEmpty(want.Annotations), mapOrEmpty(got.Annotations)); w != "" {
		out = append(out, sectionDiff{"annotations", w, c, jsonStr(want.Annotations), jsonStr(got.Annotations)})
	}
	return out
}

// valueAt follows a path produced by exactDiff (".key" / "[i]" elements); "<absent>" when it leaves the tree.
func valueAt(v interface{}, path string) interface{} {
	for path != "" {
		if path[0] == '[' {
			j := strings.Index(path, "]")
			i, _ := strconv.Atoi(path[1:j])
			l := asList(v)
			if i >= len(l) {
				return "<absent>"
			}
			v, path = l[i], path[j+1:]
			continue
		}
		// ".key": keys may contain dots, so take the longest key that exists
		m := asMap(v)
		rest := path[1:]
		found := false
		for end := len(rest); end > 0; end-- {
			if end < len(rest) && rest[end] != '.' && rest[end] != '[' {
				continue
			}
			if x, ok := m[rest[:end]]; ok {
				v, path, found = x, rest[end:], true
				break
			}
		}
		if !found {
			return "<absent>"
		}
	}
	return v
}

func mapOrEmpty(m map[string]interface{}) interface{} {
	if m == nil {
		return map[string]interface{}{}
	}
	return m
}

// ---- Istio reading --------------------------------------------------------------------------------

// isHostOf: the destination host names service svc (short name or a name qualified below it).
func isHostOf(host, svc string) bool { return host == svc || strings.HasPrefix(host, svc+".") }

type routeClass struct {
	dests       int
	stableDests int
	hasMatch    bool
	single      bool // one destination, stable, no match block, weight absent or 100
}

func classifyRoute(r map[string]interface{}, stable string) routeClass {
	c := routeClass{}
	if m, ok := r["match"]; ok && m != nil {
		c.hasMatch = true
	}
	ds := asList(r["route"])
	c.dests = len(ds)
	for _, d := range ds {
		if isHostOf(asString(asMap(asMap(d)["destination"])["host"]), stable) {
			c.stableDests++
		}
	}
	if c.dests == 1 && c.stableDests == 1 && !c.hasMatch {
		w, has := asMap(ds[0])["weight"]
		if !has || w == num("100") {
			c.single = true
		}
	}
	return c
}

type istioFinding struct{ rule, proto, msg string }

// checkVirtualService judges the VirtualService spec written for a step against the original spec.
//   - every original route none of whose destinations is the stable service is still there, in order,
//     meaning-equal ("routes to other hosts are untouched");
//   - for a pure weight step w: every match-less http/tcp route with one single stable destination
//     has exactly two destinations: the original one with weight 100-w and the canary with weight w.
func checkVirtualService(orig, got interface{}, stable, canary string, weight int, weightStep bool, counts map[string]int64) []istioFinding {
	var out []istioFinding
	o, g := asMap(orig), asMap(got)
	for _, proto := range []string{"http", "tcp", "tls"} {
		or, gr := asList(o[proto]), asList(g[proto])
		if len(or) == 0 {
			continue
		}
		offset := len(gr) - len(or)
		for i, r := range or {
			rm := asMap(r)
			c := classifyRoute(rm, stable)
			if c.stableDests == 0 {
				counts["istio_other_host_routes_checked"]++
				if offset < 0 || !meaningEqual(rm, gr[i+offset]) {
					var have interface{}
					if offset >= 0 {
						have = gr[i+offset]
					}
					out = append(out, istioFinding{"other-host-route-touched", proto, fmt.Sprintf("%s route %d goes to other hosts only but was changed: want %s got %s", proto, i, jsonStr(rm), jsonStr(have))})
				}
				continue
			}
			if !weightStep || proto == "tls" {
				continue
			}
			if c.hasMatch {
				if c.dests == 1 {
					counts["istio_single_stable_with_match_not_judged"]++
				}
				continue
			}
			if !c.single {
				counts["istio_multi_destination_routes_not_judged"]++
				if offset == 0 { // observations only: the statement says nothing about these routes
					sum, canaries := new(big.Rat), 0
					for _, d := range asList(asMap(gr[i])["route"]) {
						if n, ok := asMap(d)["weight"].(num); ok {
							r, _ := new(big.Rat).SetString(string(n))
							sum.Add(sum, r)
						}
						if isCanaryDestination(asMap(d), stable, canary) {
							canaries++
						}
					}
					if sum.Cmp(big.NewRat(100, 1)) != 0 {
						counts["obs_istio_multi_destination_weights_do_not_sum_to_100"]++
					}
					if canaries > 1 {
						counts["obs_istio_route_with_several_stable_destinations_gets_several_canary_entries"]++
					}
				}
				continue
			}
			counts["istio_single_stable_splits_checked"]++
			if offset != 0 {
				out = append(out, istioFinding{"split", proto, fmt.Sprintf("%s: %d routes before a weight step, %d after", proto, len(or), len(gr))})
				break
			}
			gm := asMap(gr[i])
			if !meaningEqual(without(rm, "route"), without(gm, "route")) {
				out = append(out, istioFinding{"split-other-fields", proto, fmt.Sprintf("%s route %d: fields besides `route` changed: want %s got %s", proto, i, jsonStr(without(rm, "route")), jsonStr(without(gm, "route")))})
			}
			gd := asList(gm["route"])
			od := asMap(asList(rm["route"])[0])
			ok := false
			if len(gd) == 2 {
				for s := 0; s < 2; s++ {
					es, ec := asMap(gd[s]), asMap(gd[1-s])
					if meaningEqual(without(es, "weight"), without(od, "weight")) && es["weight"] == num(strconv.Itoa(100-weight)) &&
						ec["weight"] == num(strconv.Itoa(weight)) && isCanaryDestination(ec, stable, canary) {
						ok = true
					}
				}
			}
			if !ok {
				out = append(out, istioFinding{"split", proto, fmt.Sprintf("%s route %d: single stable destination %s at weight %d: want [it with weight %d, canary with weight %d], got %s", proto, i, jsonStr(od), weight, 100-weight, weight, jsonStr(gm["route"]))})
			}
		}
	}
	return out
}

// isCanaryDestination: {destination:{host: canary}, weight} or, when canary == stable service (the canary is a
// DestinationRule subset), {destination:{host: stable, subset: "canary"}, weight} — and nothing else.
func isCanaryDestination(e map[string]interface{}, stable, canary string) bool {
	for k := range e {
		if k != "destination" && k != "weight" {
			return false
		}
	}
	d := asMap(e["destination"])
	host := asString(d["host"])
	if stable == canary {
		return len(d) == 2 && isHostOf(host, stable) && d["subset"] == "canary"
	}
	return len(d) == 1 && isHostOf(host, canary)
}

func jsonStr(v interface{}) string {
	b, _ := json.Marshal(untree(v))
	return string(b)
}

// untree makes a tree printable again (num -> json.Number).
func untree(v interface{}) interface{} {
	switch t := v.(type) {
	case num:
		r, _ := new(big.Rat).SetString(string(t))
		if r.IsInt() {
			return json.Number(r.Num().String())
		}
		f, _ := r.Float64()
		return f
	case map[string]interface{}:
		out := map[string]interface{}{}
		for k, x := range t {
			out[k] = untree(x)
		}
		return out
	case []interface{}:
		out := make([]interface{}, len(t))
		for i, x := range t {
			out[i] = untree(x)
		}
		return out
	}
	return v
}
