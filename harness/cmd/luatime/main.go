// luatime: development tool - runs one Lua script through luamanager.RunLuaScript and prints wall / CPU time.
package main

import (
	"fmt"
	"os"
	"runtime"
	"syscall"
	"time"

	"k8s.io/apimachinery/pkg/apis/meta/v1/unstructured"

	"github.com/openkruise/rollouts/pkg/util/luamanager"
)

func cpu() time.Duration {
	var ru syscall.Rusage
	_ = syscall.Getrusage(syscall.RUSAGE_SELF, &ru)
	return time.Duration(ru.Utime.Nano() + ru.Stime.Nano())
}

func main() {
	runtime.GOMAXPROCS(1)
	script := os.Args[1]
	t0, c0 := time.Now(), cpu()
	_, err := (&luamanager.LuaManager{}).RunLuaScript(&unstructured.Unstructured{Object: map[string]interface{}{}}, script)
	var ms runtime.MemStats
	runtime.ReadMemStats(&ms)
	e := ""
	if err != nil {
		e = err.Error()
		if len(e) > 160 {
			e = e[:160]
		}
	}
	fmt.Printf("wall=%v cpu=%v sys=%dMB err=%q\n", time.Since(t0), cpu()-c0, ms.Sys>>20, e)
}
