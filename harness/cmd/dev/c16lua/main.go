// Private development binary of the C16 driver (see drivers/README.md).
package main

import (
	"verif/harness/core"
	_ "verif/harness/drivers/c16lua"
)

func main() { core.Main() }
