package sim

import (
	"fmt"

	"sigs.k8s.io/controller-runtime/pkg/client"
)

func (s *Scenario) installOtherWorkload(w *World) error {
	return fmt.Errorf("workload kind %q not modelled yet", s.Kind)
}
func (s *Scenario) otherWorkloadObject() client.Object           { return nil }
func (s *Scenario) setOtherTemplate(obj client.Object, v string) {}
