package monitor

import (
	"encoding/json"
	"fmt"
	"sort"
	"strings"

	"verif/harness/interp"
	"verif/harness/simapi"
)

// ---- C02: steps are gated --------------------------------------------------------------------------------------

type c02state struct {
	planEdited   bool // the user edited the Rollout spec: "the step's pods" of a step entered by a jump is then ambiguous
	nextByUser   bool // the persisted nextStepIndex was last changed by the user (a pending jump request)
	epoch        string
	step         int
	upgradeOK    map[int]string // step -> "" (ok) or reason why the evidence is missing
	sawUpgrade   map[int]bool
	trafficOK    map[int]bool
	skipOK       map[int]bool // the step left StepUpgrade straight to StepMetricsAnalysis under the documented full-replacement skip
	approved     map[int]bool
	userRequest  bool // a user request that may legitimately move the cursor happened since the last controller status write
	pausedAtRid  map[int]bool
	lastStepSeen int
}

func (c *c02state) init() {
	c.upgradeOK, c.sawUpgrade, c.trafficOK, c.approved, c.pausedAtRid = map[int]string{}, map[int]bool{}, map[int]bool{}, map[int]bool{}, map[int]bool{}
	c.skipOK = map[int]bool{}
}

func (c *c02state) resetEpoch(e string) {
	c.epoch = e
	c.init()
}

func specOf(o simapi.Obj) string {
	b, _ := json.Marshal(simapi.Path(o, "spec"))
	return string(b)
}

func (s *Set) c02(w *simapi.Write, v *simapi.View) {
	st := &s.st02
	// --- user requests
	if w.Actor == "user" {
		switch {
		case w.Key.Kind == "Rollout" && strings.HasSuffix(w.Verb, "/status") && w.Before != nil && w.After != nil:
			bs, as := subStatus(w.Before), subStatus(w.After)
			if bs != nil && as != nil {
				if simapi.Str(bs, "currentStepState") == "StepPaused" && simapi.Str(as, "currentStepState") == "StepReady" {
					st.approved[int(simapi.IntD(as, "currentStepIndex", 0))] = true
					s.count("c02_user_approvals", 1)
				}
				if simapi.IntD(bs, "nextStepIndex", 0) != simapi.IntD(as, "nextStepIndex", 0) {
					st.userRequest = true
					st.nextByUser = true
				}
			}
		case w.Key.Kind == "Rollout" && w.Before != nil && w.After != nil && specOf(w.Before) != specOf(w.After):
			st.userRequest = true
			st.planEdited = true
		case w.Key.Kind == "Rollout" && (w.After == nil || simapi.Deleting(w.After)):
			st.userRequest = true
		case w.Key == s.S.WorkloadKey() && w.Before != nil && w.After != nil &&
			(workloadImage(w.Before) != workloadImage(w.After) || simapi.Label(w.Before, "rollouts.kruise.io/rollout-id") != simapi.Label(w.After, "rollouts.kruise.io/rollout-id")):
			st.userRequest = true
		}
		return
	}
	if w.Actor != "rollout-ctrl" {
		return
	}
	// --- paused: no forward progress while spec.strategy.paused
	if s.prev != nil {
		pro := s.prev.GetKey(simapi.Key{Group: "rollouts.kruise.io", Kind: "Rollout", NS: s.ns, Name: s.S.RolloutName()})
		if pro != nil && simapi.Bool(pro, "spec.strategy.paused") && simapi.Str(pro, "status.phase") == "Progressing" && !simapi.Deleting(pro) && !simapi.Bool(pro, "spec.disabled") {
			reason, _ := condReason(pro, "Progressing")
			if reason == "InRolling" || reason == "Paused" {
				s.count("c02_writes_while_paused_checked", 1)
				allowed := false
				if w.Key.Kind == "Rollout" && w.Before != nil && w.After != nil {
					// only the condition reason/message (and bookkeeping annotations) may change
					b, a := simapi.CopyObj(w.Before), simapi.CopyObj(w.After)
					for _, o := range []simapi.Obj{b, a} {
						if m := simapi.Map(o, "status"); m != nil {
							delete(m, "conditions")
							delete(m, "message")
							delete(m, "observedGeneration")
							// top-level mirrors of the sub-status cursor (the user's approval patch shows up here)
							delete(m, "currentStepIndex")
							delete(m, "currentStepState")
						}
						if m := simapi.Map(o, "metadata"); m != nil {
							delete(m, "annotations")
							delete(m, "resourceVersion")
							delete(m, "generation")
							delete(m, "finalizers")
						}
						for _, sub := range []string{"canaryStatus", "blueGreenStatus"} {
							if m := simapi.Map(o, "status."+sub); m != nil {
								delete(m, "message")
								delete(m, "lastUpdateTime")
								delete(m, "observedWorkloadGeneration")
								delete(m, "observedRolloutID")
								delete(m, "canaryReplicas")
								delete(m, "canaryReadyReplicas")
							}
						}
					}
					allowed = simapi.Equal(b, a)
				}
				// a rollback / new revision detected while paused is handled before the pause check (documented order)
				if !allowed && workloadImage(s.workload(v)) != "" {
					if wl := s.workload(v); wl != nil {
						ss := subStatus(pro)
						_ = ss
					}
				}
				if !allowed && !s.st10.cancelling && !s.st10.superseding && !st.userRequest {
					s.violate("C02", "c02:progress-while-paused:"+w.Key.Kind, fmt.Sprintf("rollout-ctrl wrote %s (%s) while the Rollout is marked paused", w.Key, w.Verb), w, nil)
				}
			}
		}
	}
	if w.Key.Kind != "Rollout" || !strings.HasSuffix(w.Verb, "/status") || w.Before == nil || w.After == nil {
		return
	}
	bs, as := subStatus(w.Before), subStatus(w.After)
	if as == nil {
		st.userRequest = false
		return
	}
	epoch := simapi.Str(w.After, "status.canaryStatus.canaryRevision") + simapi.Str(w.After, "status.blueGreenStatus.updatedRevision") + "/" + simapi.Str(as, "rolloutHash")
	reasonB, _ := condReason(w.Before, "Progressing")
	reasonA, _ := condReason(w.After, "Progressing")
	if epoch != st.epoch || reasonA == "Initializing" {
		st.resetEpoch(epoch)
	}
	if bs == nil {
		st.userRequest = false
		return
	}
	kb, ka := int(simapi.IntD(bs, "currentStepIndex", 0)), int(simapi.IntD(as, "currentStepIndex", 0))
	sb, sa := simapi.Str(bs, "currentStepState"), simapi.Str(as, "currentStepState")
	// provenance of the persisted nextStepIndex: a value the controller itself wrote is not a user's jump request
	nextChangedByCtrl := simapi.IntD(bs, "nextStepIndex", 0) != simapi.IntD(as, "nextStepIndex", 0)
	wasByUser := st.nextByUser
	if nextChangedByCtrl {
		st.nextByUser = false
	}
	rolling := simapi.Str(w.After, "status.phase") == "Progressing" && reasonB == "InRolling" && (reasonA == "InRolling" || reasonA == "Finalising")
	if !rolling {
		return
	}
	s.addSet("c02_transitions", fmt.Sprintf("%s/%s:%s->%s", s.S.Kind, s.S.Style, sb, sa))
	// evidence collection at sub-state exits
	if kb == ka && sb == "StepUpgrade" && (sa == "StepTrafficRouting" || sa == "StepMetricsAnalysis") {
		s.st03.exitReplicas[kb] = s.replicasNow(v)
		s.st03.scaledSince = false
		st.sawUpgrade[kb] = true
		stp := s.stepSpec(kb)
		R := s.replicasNow(v)
		need := 0
		if stp != nil {
			need = interp.PlannedFloor(simapi.Path(stp, "replicas"), R, s.S.Kind, s.S.Style)
			if full, _ := interp.Planned(simapi.Path(stp, "replicas"), R); sa == "StepMetricsAnalysis" && s.isRealPartitionStyle() && full >= R {
				// documented skip, decided for the size the workload has now (a later resize does not undo it)
				st.skipOK[kb] = true
			}
		}
		_, ready := s.newReady(v)
		s.count("c02_upgrade_exits_checked", 1)
		if ready < need && workloadImage(s.workload(v)) != s.stableImg {
			st.upgradeOK[kb] = fmt.Sprintf("only %d ready new-revision pods, step %d needs %d of %d", ready, kb, need, R)
			s.violate("C02", "c02:upgrade-reported-done-before-pods-ready", fmt.Sprintf("step %d left StepUpgrade with %d ready new-revision pods, the step calls for %d of %d", kb, ready, need, R), w, nil)
		}
	}
	if kb == ka && sb == "StepTrafficRouting" && sa == "StepMetricsAnalysis" {
		st.trafficOK[kb] = true
	}
	// cursor changes
	advancing := (ka != kb) || (sa == "Completed" && sb != "Completed")
	if !advancing {
		return
	}
	s.count("c02_cursor_changes_checked", 1)
	normal := (ka == kb+1 && sb == "StepReady") || (sa == "Completed" && sb == "StepReady" && ka == kb)
	// a step jump stays pending in the persisted status (nextStepIndex differs from the natural successor) until the
	// controller consumes it, possibly many reconciles after the user's patch
	nsteps := len(s.rolloutSteps())
	natural := int64(kb + 1)
	if kb >= nsteps {
		natural = -1
	}
	if nb := simapi.IntD(bs, "nextStepIndex", 0); nb > 0 && nb != natural && wasByUser {
		st.userRequest = true
	}
	st.nextByUser = false
	defer func() { st.userRequest = false }()
	if st.userRequest && !normal {
		s.addSet("c02_discharges", "user-request")
		return // jump / plan edit / rollback / new revision / scale: the cursor may move
	}
	if !normal {
		s.violate("C02", fmt.Sprintf("c02:cursor-moved-without-request:%s->%s", sb, sa), fmt.Sprintf("rollout-ctrl moved the cursor from step %d (%s) to step %d (%s) without a user request", kb, sb, ka, sa), w, nil)
		return
	}
	// normal advance k -> k+1 (or completion): needs upgrade evidence, traffic evidence, pause discharge
	stp := s.stepSpec(kb)
	if stp == nil {
		return
	}
	if !st.sawUpgrade[kb] && !st.userRequest && st.planEdited {
		s.count("c02_obs_jump_entered_step_after_plan_edit_not_judged", 1)
	}
	if !st.sawUpgrade[kb] && !st.userRequest && !st.planEdited {
		// entered at StepTrafficRouting by a jump to a step with identical replicas: the pods of that size are checked here
		R := s.replicasNow(v)
		need := interp.PlannedFloor(simapi.Path(stp, "replicas"), R, s.S.Kind, s.S.Style)
		_, ready := s.newReady(v)
		if ready < need && workloadImage(s.workload(v)) != s.stableImg {
			s.violate("C02", "c02:advanced-without-upgrade", fmt.Sprintf("step %d -> %d without the step's pods: %d ready new-revision pods, step calls for %d of %d", kb, ka, ready, need, R), w, nil)
		}
	}
	_, hasW, hasM := stepTraffic(stp)
	if (hasW || hasM) && s.S.HasTraffic() && !st.trafficOK[kb] {
		// documented skip: real-partition steps that replace every stable pod go Upgrade -> MetricsAnalysis
		R := s.replicasNow(v)
		need, _ := interp.Planned(simapi.Path(stp, "replicas"), R)
		if !(s.isRealPartitionStyle() && need >= R) && !st.skipOK[kb] {
			s.violate("C02", "c02:advanced-without-traffic-routing", fmt.Sprintf("step %d -> %d although step %d configures traffic and was never reported as routed", kb, ka, kb), w, nil)
		}
	}
	// pause discharge
	discharge := ""
	switch {
	case st.approved[kb]:
		discharge = "approved"
	case simapi.Path(stp, "pause.duration") != nil:
		discharge = "duration"
	case kb == nsteps && simapi.Str(stp, "replicas") == "100%" && s.S.Style != "bluegreen":
		discharge = "last-step-100%"
	}
	if discharge == "" {
		s.violate("C02", "c02:advanced-without-approval", fmt.Sprintf("step %d -> %d (%s -> %s) without approval, pause duration or a 100%% last canary step", kb, ka, sb, sa), w, nil)
	} else {
		s.addSet("c02_discharges", discharge)
	}
}

// ---- C10: rollback and supersession put traffic back on stable first --------------------------------------------

type c10state struct {
	cancelling  bool
	superseding bool
	armedByUser bool // cancelling was set at the user's rollback write; the controller has not acknowledged it yet
	checked     int
}

func (s *Set) c10(w *simapi.Write, v *simapi.View) {
	st := &s.st10
	// enter / leave
	if w.Key.Kind == "Rollout" && w.After != nil {
		reason, _ := condReason(w.After, "Progressing")
		if reason == "Cancelling" {
			if !st.cancelling {
				s.count("c10_rollbacks_observed", 1)
			}
			st.cancelling = true
			st.armedByUser = false
		} else if st.cancelling && (reason == "Completed" || reason == "Initializing" || simapi.Str(w.After, "status.phase") != "Progressing") {
			st.cancelling = false
			st.armedByUser = false
		}
		if st.superseding && (reason == "Initializing" || reason == "Completed" || reason == "Cancelling" || simapi.Str(w.After, "status.phase") != "Progressing") {
			st.superseding = false
		}
	}
	if w.Key.Kind == "Rollout" && w.After == nil {
		st.cancelling, st.superseding = false, false
	}
	if w.Actor == "user" && w.Key == s.S.WorkloadKey() && w.Before != nil && w.After != nil && s.inRolling() && s.S.Style != "bluegreen" {
		bi, ai := workloadImage(w.Before), workloadImage(w.After)
		if bi != ai && ai != s.stableImg && bi != s.stableImg {
			st.superseding = true
			s.count("c10_supersessions_observed", 1)
		}
	}
	if w.Actor == "user" && w.Key == s.S.WorkloadKey() && w.Before != nil && w.After != nil && s.inRolling() {
		// the user's rollback itself arms the monitor, not only the controller's acknowledgement of it: a rollback that
		// arrives while the release is rolling (whatever sub-state the last step is in) must be treated as one. Not
		// armed when a rollback in batches applies (no traffic routing then anyway) and not for a revert that arrives
		// before any pod of the new revision exists (the controllers handle that as one more release).
		bi, ai := workloadImage(w.Before), workloadImage(w.After)
		if bi != ai && ai == s.stableImg && s.S.HasTraffic() && !st.cancelling {
			if tot, _ := s.podsByImage(v); tot[bi] > 0 {
				st.cancelling = true
				st.armedByUser = true
				s.count("c10_rollbacks_observed", 1)
				s.count("c10_rollbacks_armed_by_the_users_write", 1)
			}
		}
	}
	if !(st.cancelling || st.superseding) || !s.S.HasTraffic() || s.canary == s.stable {
		return
	}
	if !(isController(w.Actor) || w.Actor == "gc") {
		return
	}
	// does this write remove or hand back new-revision capacity?
	what := ""
	switch {
	case w.Key.Kind == "BatchRelease" && w.Before != nil && (w.After == nil || simapi.Deleting(w.After) && !simapi.Deleting(w.Before)):
		what = "batchrelease-deleted"
	case w.Key.Kind == "BatchRelease" && w.Before != nil && w.After != nil && simapi.Path(w.Before, "spec.releasePlan.batchPartition") != nil && simapi.Path(w.After, "spec.releasePlan.batchPartition") == nil:
		what = "batchpartition-released"
	case w.Key.Kind == "Deployment" && w.Before != nil && simapi.Label(w.Before, "rollouts.kruise.io/canary-deployment") != "" &&
		(w.After == nil || simapi.IntD(w.After, "spec.replicas", 0) < simapi.IntD(w.Before, "spec.replicas", 0) || (simapi.Deleting(w.After) && !simapi.Deleting(w.Before))):
		what = "canary-deployment-removed"
	case w.Key == s.S.WorkloadKey() && w.Before != nil && w.After != nil && !strings.HasSuffix(w.Verb, "/status") &&
		simapi.HasAnno(w.Before, "batchrelease.rollouts.kruise.io/control-info") && !simapi.HasAnno(w.After, "batchrelease.rollouts.kruise.io/control-info"):
		what = "workload-handed-back"
	}
	if what == "" {
		return
	}
	s.count("c10_capacity_removals_checked", 1)
	s.addSet("c10_removal_kinds", what)
	cr := interp.RouteTo(v, s.ns, s.canary)
	if cr.Share > 0 || cr.Match {
		mode := "rollback"
		if st.superseding {
			mode = "supersession"
		}
		if st.armedByUser && !st.superseding {
			mode = "rollback-not-acknowledged"
		}
		s.violate("C10", fmt.Sprintf("c10:%s:%s-before-traffic-restored", mode, what), fmt.Sprintf("%s during %s: %s %s while the gateway still sends share=%d match=%v to the canary Service via %v", what, mode, w.Actor, w.Key, cr.Share, cr.Match, cr.Sources), w, nil)
	}
}

// ---- end-of-run oracles ------------------------------------------------------------------------------------------------

func (s *Set) c09() {
	for _, p := range s.R.W.Panics {
		site := p.PanicSite
		if site == "" {
			site = "unknown"
		}
		s.violate("C09", "c09:controller-panic:"+site+":"+normPanic(p.Panic), fmt.Sprintf("%s reconcile %s panicked: %s", p.Ctrl, p.Key, p.Panic), nil, p.PanicStack)
	}
	if adm := s.R.W.Store.Admission; adm != nil {
		for _, p := range adm.Panics {
			first := p
			if i := strings.Index(p, "\n"); i > 0 {
				first = p[:i]
			}
			s.violate("C09", "c09:webhook-panic:"+normPanic(first), "admission handler panicked: "+first, nil, p)
		}
	}
	for _, a := range s.R.W.AliasViolations {
		s.violate("C19", "c19:cache-alias-mutation:"+normPanic(a), a, nil, nil)
	}
}

func normPanic(v string) string {
	var b strings.Builder
	inNum := false
	for _, r := range v {
		if r >= '0' && r <= '9' {
			if !inNum {
				b.WriteByte('N')
				inNum = true
			}
			continue
		}
		inNum = false
		b.WriteRune(r)
	}
	out := b.String()
	if len(out) > 100 {
		out = out[:100]
	}
	return out
}

func (s *Set) c07() {
	r := s.R
	if r.StopReason == "" || strings.HasPrefix(r.StopReason, "install") || strings.HasPrefix(r.StopReason, "setup") {
		return
	}
	s.count("c07_runs_checked", 1)
	healthy := r.Faults.Empty()
	if r.Terminal {
		s.count("c07_terminal_reached", 1)
		return
	}
	if !healthy {
		return // judged by C06 against the baseline
	}
	st := fmt.Sprintf("phase=%s reason=%s step=%d state=%s", s.phase, s.reason, s.step, s.state)
	if strings.HasPrefix(r.StopReason, "stalled") {
		s.violate("C07", fmt.Sprintf("c07:lost-wakeup:%s/%s:%s/%s", s.S.Kind, s.S.Style, s.reason, s.state), "nothing is enabled (no queued key, no timer, environment quiescent) but the rollout is not terminal: "+st, nil, map[string]interface{}{"trace": tailOf(r.Trace, 80)})
	} else if strings.HasPrefix(r.StopReason, "runaway object growth") {
		mode := "canary-service"
		if s.canary == s.stable {
			mode = "no-canary-service"
		}
		s.violate("C07", fmt.Sprintf("c07:runaway-object-growth:%s:%s", mode, growthProvider(s.S.Provider)), "an object keeps growing with every reconcile instead of reaching a fixed point: "+r.StopReason+"; "+st, nil, map[string]interface{}{"trace": tailOf(r.Trace, 40)})
	} else if r.StopReason == "budget exhausted" {
		s.violate("C07", fmt.Sprintf("c07:budget-exceeded:%s/%s:%s/%s", s.S.Kind, s.S.Style, s.reason, s.state), fmt.Sprintf("terminal state not reached within %d actions: %s", r.Budget, st), nil, map[string]interface{}{"trace": tailOf(r.Trace, 80)})
	}
}

func tailOf(l []string, n int) []string {
	if len(l) > n {
		return l[len(l)-n:]
	}
	return l
}

// Projection is the user-visible final state used by the relational oracles (C05, C06, C19).
func (s *Set) Projection(v *simapi.View) map[string]interface{} {
	out := map[string]interface{}{}
	var names []string
	for _, k := range v.Keys() {
		if k.NS != s.ns || k.Kind == "Pod" || k.Kind == "ReplicaSet" {
			continue
		}
		names = append(names, k.Kind+"/"+k.Name)
	}
	sort.Strings(names)
	out["objects"] = names
	if ro := s.ro; ro != nil {
		reason, status := condReason(ro, "Progressing")
		_, succ := condReason(ro, "Succeeded")
		rp := map[string]interface{}{"phase": simapi.Str(ro, "status.phase"), "progressing": reason + "/" + status, "succeeded": succ}
		if simapi.Str(ro, "status.phase") == "Disabled" {
			// like the cursor: the conditions a disabled Rollout keeps record where the user's action caught the release
			delete(rp, "progressing")
			delete(rp, "succeeded")
			succ = ""
		}
		if succ == "True" {
			// the cursor of a completed release is determined by the plan; after a rollback / disabling it merely records
			// where the user's action happened to catch the release
			rp["step"], rp["state"] = s.step, s.state
		}
		out["rollout"] = rp
	}
	if wl := s.workload(v); wl != nil {
		tot, ready := s.podsByImage(v)
		out["workload"] = map[string]interface{}{"image": workloadImage(wl), "replicas": simapi.IntD(wl, "spec.replicas", 1), "pods": tot, "ready": ready,
			"paused": simapi.Bool(wl, "spec.paused"), "strategy": simapi.Path(wl, "spec.strategy"), "updateStrategy": simapi.Path(wl, "spec.updateStrategy"),
			"minReadySeconds": simapi.IntD(wl, "spec.minReadySeconds", 0), "progressDeadlineSeconds": simapi.Path(wl, "spec.progressDeadlineSeconds")}
	}
	if svc := v.Get("Service", s.ns, s.stable); svc != nil {
		out["stableSelector"] = simapi.Path(svc, "spec.selector")
	}
	out["routes"] = interp.Routes(v, s.ns)
	if h := v.Get("HorizontalPodAutoscaler", s.ns, s.S.Name+"-hpa"); h != nil {
		out["hpaTarget"] = simapi.Str(h, "spec.scaleTargetRef.name")
	}
	return out
}

// ConfigProjection is the configuration (not the progress) the controllers have put in place: compared between a faulty
// and an undisturbed run at the same logical point of the release (C06: nothing left half-configured).
func (s *Set) ConfigProjection(v *simapi.View) map[string]interface{} {
	out := map[string]interface{}{}
	if wl := s.workload(v); wl != nil {
		out["workload"] = map[string]interface{}{"replicas": simapi.IntD(wl, "spec.replicas", 1), "paused": simapi.Bool(wl, "spec.paused"), "strategy": simapi.Path(wl, "spec.strategy"),
			"updateStrategy": simapi.Path(wl, "spec.updateStrategy"), "minReadySeconds": simapi.IntD(wl, "spec.minReadySeconds", 0), "progressDeadlineSeconds": simapi.Path(wl, "spec.progressDeadlineSeconds"),
			"controlled": simapi.HasAnno(wl, "batchrelease.rollouts.kruise.io/control-info"), "inProgressing": simapi.HasAnno(wl, "rollouts.kruise.io/in-progressing")}
		// ReplicaSets of the workload by image: minReadySeconds is how blue-green keeps the old revision in place
		rs := map[string]interface{}{}
		for _, r := range v.List("ReplicaSet", s.ns) {
			if simapi.ControllerOwnerUID(r) != simapi.UID(wl) || simapi.IntD(r, "spec.replicas", 0) == 0 {
				continue
			}
			img := ""
			if cs := simapi.List(r, "spec.template.spec.containers"); len(cs) > 0 {
				img = simapi.Str(cs[0], "image")
			}
			rs[img] = simapi.IntD(r, "spec.minReadySeconds", 0)
		}
		out["replicaSetMinReadySeconds"] = rs
	}
	canaries := []interface{}{}
	for _, d := range v.List("Deployment", s.ns) {
		if simapi.Label(d, "rollouts.kruise.io/canary-deployment") != "" && !simapi.Deleting(d) {
			canaries = append(canaries, map[string]interface{}{"replicas": simapi.IntD(d, "spec.replicas", 1), "finalizers": simapi.Path(d, "metadata.finalizers")})
		}
	}
	out["canaryDeployments"] = canaries
	if br := v.Get("BatchRelease", s.ns, s.S.RolloutName()); br != nil {
		// (the batch state is progress, not configuration: it may be re-verifying at this instant)
		out["batchRelease"] = map[string]interface{}{"batchPartition": simapi.Path(br, "spec.releasePlan.batchPartition"), "phase": simapi.Str(br, "status.phase"),
			"currentBatch": simapi.IntD(br, "status.canaryStatus.currentBatch", 0)}
	}
	for _, n := range []string{s.stable, s.canary} {
		if svc := v.Get("Service", s.ns, n); svc != nil {
			out["selector/"+n] = simapi.Path(svc, "spec.selector")
		}
	}
	out["routes"] = interp.Routes(v, s.ns)
	if h := v.Get("HorizontalPodAutoscaler", s.ns, s.S.Name+"-hpa"); h != nil {
		out["hpaTarget"] = simapi.Str(h, "spec.scaleTargetRef.name")
	}
	return out
}

func (s *Set) c05() {
	r := s.R
	if !r.Terminal || !r.Quiescent || r.Mode() == "bg-superseded" {
		return
	}
	v := r.W.Store.Snapshot()
	s.ro = v.GetKey(simapi.Key{Group: "rollouts.kruise.io", Kind: "Rollout", NS: s.ns, Name: s.S.RolloutName()})
	s.count("c05_final_states_checked", 1)
	exit := "success"
	if len(r.UserActions) > 0 {
		for _, a := range r.UserActions {
			for _, e := range []string{"rollback", "delete", "disable", "v3"} {
				if strings.HasPrefix(a, e) && a != "delete-workload" && a != "delete-tr" {
					exit = e
				}
			}
		}
	}
	s.addSet("c05_exit_kinds", fmt.Sprintf("%s/%s/%s/%s", s.S.Kind, s.S.Style, providerKind(s.S.Provider), exit))
	wl := s.workload(v)
	if wl == nil {
		// the user deleted the workload itself during the release; when the Rollout was deleted afterwards, what the rollout
		// created must still be gone
		if exit == "delete" {
			for _, res := range s.residue(v, false) {
				s.violate("C05", fmt.Sprintf("c05:residue-after-workload-deleted:%s", firstWords(res, 1)), "after the workload and then the Rollout were deleted: "+res, nil, s.Projection(v))
			}
		}
		return
	}
	// one specific history gets its own fingerprint: the Rollout was deleted / disabled after the webhook had held the
	// workload back but before the BatchRelease existed, so nobody resumes the workload
	if exit == "delete" || exit == "disable" || exit == "rollback" {
		cls := ""
		switch {
		case !s.brCreatedSinceRelease:
			cls = "before-batchrelease-created"
		case s.brAtExit == "none" || s.brAtExit == "deleting":
			// the BatchRelease of the release had already been told to go (supersession reset) when the user's exit arrived
			cls = "while-batchrelease-being-removed"
		}
		verb := map[string]string{"delete": "deleted", "disable": "disabled", "rollback": "rolled-back"}[exit]
		held := simapi.Bool(wl, "spec.paused") || simapi.Bool(wl, "spec.updateStrategy.paused")
		if p := simapi.Path(wl, "spec.updateStrategy.partition"); p != nil && fmt.Sprint(p) != "0" && fmt.Sprint(p) != "0%" {
			held = true
		}
		if p, ok := simapi.Int(wl, "spec.updateStrategy.rollingUpdate.partition"); ok && p > 0 {
			held = true
		}
		if cls != "" && held {
			s.violate("C05", "c05:workload-left-held:rollout-"+verb+"-"+cls, fmt.Sprintf("the Rollout was %s when no live BatchRelease existed (%s): nobody resumes the workload, it stays held (paused=%v partition=%v) and never reaches the user's revision", verb, cls, simapi.Bool(wl, "spec.paused"), simapi.Path(wl, "spec.updateStrategy.partition")), nil, s.Projection(v))
			return
		}
	}
	// (the recorded classes above and below explain their own residue; the generic residue check comes after them)
	// one specific history gets its own fingerprint: another revision was published while the cleanup of the completed
	// release was running; the cleanup erases the new release's in-progress marker, the Rollout becomes Healthy and never
	// takes the new revision up
	if s.publishedDuringCleanup && s.phase == "Healthy" {
		tot, _ := s.podsByImage(v)
		if held(wl, s.S.Kind) && tot[workloadImage(wl)] == 0 {
			s.violate("C05", "c05:revision-published-during-cleanup-never-released", fmt.Sprintf("%s/%s: a revision (%s) published while the cleanup of the completed release was running is never released: the Rollout is Healthy, the workload stays held (%s) on pods %v", s.S.Kind, s.S.Style, workloadImage(wl), holdStr(wl, s.S.Kind), tot), nil, s.Projection(v))
			return
		}
	}
	for _, res := range s.residue(v, false) {
		s.violate("C05", fmt.Sprintf("c05:residue:%s:%s/%s", firstWords(res, 1), s.S.Kind, s.S.Style), "after the rollout ended ("+exit+"): "+res, nil, s.Projection(v))
	}
	// user-owned fields back to the user's configuration
	bad := func(field string, got, want interface{}) {
		s.violate("C05", fmt.Sprintf("c05:not-restored:%s:%s/%s", field, s.S.Kind, s.S.Style), fmt.Sprintf("after the rollout ended (%s) %s is %v, the user configured %v", exit, field, jsonStr(got), jsonStr(want)), nil, s.Projection(v))
	}
	switch s.S.Kind {
	case "deployment":
		if simapi.Bool(wl, "spec.paused") {
			bad("paused", true, false)
		}
		if got := simapi.Str(wl, "spec.strategy.type"); got != "RollingUpdate" {
			bad("strategy.type", got, "RollingUpdate")
		}
		if got, want := fmt.Sprint(simapi.Path(wl, "spec.strategy.rollingUpdate.maxSurge")), orDefault(s.S.MaxSurge, "25%"); got != want {
			bad("maxSurge", got, want)
		}
		if got, want := fmt.Sprint(simapi.Path(wl, "spec.strategy.rollingUpdate.maxUnavailable")), orDefault(s.S.MaxUnavail, "25%"); got != want {
			bad("maxUnavailable", got, want)
		}
		if got := simapi.IntD(wl, "spec.minReadySeconds", 0); got != 0 {
			bad("minReadySeconds", got, 0)
		}
		if got := simapi.IntD(wl, "spec.progressDeadlineSeconds", -1); got != 600 {
			bad("progressDeadlineSeconds", got, 600)
		}
	case "statefulset", "advstatefulset":
		if p, ok := simapi.Int(wl, "spec.updateStrategy.rollingUpdate.partition"); ok && p != 0 {
			bad("updateStrategy.rollingUpdate.partition", p, nil)
		}
		if got := simapi.Str(wl, "spec.updateStrategy.type"); got != "RollingUpdate" && got != "" {
			bad("updateStrategy.type", got, "RollingUpdate")
		}
	case "daemonset":
		if p, ok := simapi.Int(wl, "spec.updateStrategy.rollingUpdate.partition"); ok && p != 0 {
			bad("updateStrategy.rollingUpdate.partition", p, nil)
		}
		if simapi.Bool(wl, "spec.updateStrategy.rollingUpdate.paused") {
			bad("updateStrategy.rollingUpdate.paused", true, false)
		}
		if got := simapi.Str(wl, "spec.updateStrategy.type"); got != "RollingUpdate" && got != "" {
			bad("updateStrategy.type", got, "RollingUpdate")
		}
	case "cloneset":
		if simapi.Bool(wl, "spec.updateStrategy.paused") {
			bad("updateStrategy.paused", true, false)
		}
		if p := simapi.Path(wl, "spec.updateStrategy.partition"); p != nil && fmt.Sprint(p) != "0" {
			bad("updateStrategy.partition", p, nil)
		}
		if got, want := fmt.Sprint(simapi.Path(wl, "spec.updateStrategy.maxSurge")), orDefault(s.S.MaxSurge, "0"); got != want {
			bad("maxSurge", got, want)
		}
		if got, want := fmt.Sprint(simapi.Path(wl, "spec.updateStrategy.maxUnavailable")), orDefault(s.S.MaxUnavail, "20%"); got != want {
			bad("maxUnavailable", got, want)
		}
		if got := simapi.IntD(wl, "spec.minReadySeconds", 0); got != 0 {
			bad("minReadySeconds", got, 0)
		}
	}
	if h := v.Get("HorizontalPodAutoscaler", s.ns, s.S.Name+"-hpa"); h != nil {
		if got := simapi.Str(h, "spec.scaleTargetRef.name"); got != s.S.Name {
			bad("hpa.scaleTargetRef.name", got, s.S.Name)
		}
	}
	// the user's routing (interpreted: which Service gets which share / match from which source) is what it was
	if s.origRoutes != "" && s.S.HasTraffic() {
		if now := jsonStr(interp.Routes(v, s.ns)); now != s.origRoutes {
			mode := "canary-service"
			if s.canary == s.stable {
				mode = "no-canary-service"
			}
			s.violate("C05", fmt.Sprintf("c05:not-restored:routes:%s:%s", mode, providerKind(s.S.Provider)), fmt.Sprintf("after the rollout ended (%s) the gateway resources route %s, before the release they routed %s", exit, now, s.origRoutes), nil, s.Projection(v))
		}
	}
	// converged to the user's desired revision
	tot, ready := s.podsByImage(v)
	img := workloadImage(wl)
	R := s.replicasNow(v)
	if len(tot) != 1 || tot[img] != R || ready[img] != R {
		s.violate("C05", fmt.Sprintf("c05:not-converged:%s/%s:%s", s.S.Kind, s.S.Style, exit), fmt.Sprintf("after the rollout ended (%s) and the cluster went quiet, pods are %v (ready %v), the user wants %d x %s", exit, tot, ready, R, img), nil, s.Projection(v))
	}
}

// growthProvider names the provider kind whose object can grow (composite providers: the Gateway API part).
func growthProvider(p string) string {
	if strings.Contains(p, "gateway") {
		return "gateway"
	}
	return providerKind(p)
}

func providerKind(p string) string {
	if i := strings.Index(p, ":"); i > 0 && !strings.Contains(p, "+") {
		return p[:i]
	}
	return p
}

func orDefault(v, d string) string {
	if v == "" {
		return d
	}
	return v
}

func jsonStr(v interface{}) string {
	b, _ := json.Marshal(v)
	return string(b)
}

func firstWords(s string, n int) string {
	f := strings.Fields(s)
	if len(f) > n {
		f = f[:n]
	}
	return strings.Join(f, "-")
}
