package c16lua

// (c1) environment walk + dynamic escape probes.

import (
	"encoding/json"
	"fmt"
	"os"
	"path/filepath"
	"sort"
	"strings"

	lua "github.com/yuin/gopher-lua"

	"github.com/openkruise/rollouts/pkg/util/luamanager"

	"verif/harness/core"
)

// allowed = reviewed functions that cannot touch files, processes or the network (gopher-lua source read:
// baselib.go, mathlib.go, stringlib.go, tablelib.go; luamanager/json.go). print/_printregs write to the
// controller's stdout only. load/loadstring compile strings. require/module/loadfile/dofile are NOT here:
// they are judged by the dynamic probes.
var allowedFunctions = func() map[string]bool {
	m := map[string]bool{}
	for _, n := range strings.Fields(`assert collectgarbage error getfenv getmetatable ipairs load loadstring next pairs pcall print
		rawequal rawget rawset select _printregs setfenv setmetatable tonumber tostring type unpack xpcall module newproxy`) {
		m[n] = true
	}
	for _, n := range strings.Fields(`abs acos asin atan atan2 ceil cos cosh deg exp floor fmod frexp ldexp log log10 max min mod modf pow rad random randomseed sin sinh sqrt tan tanh`) {
		m["math."+n] = true
	}
	for _, n := range strings.Fields(`byte char dump find format gsub len lower match rep reverse sub upper gmatch gfind`) {
		m["string."+n] = true
	}
	for _, n := range strings.Fields(`getn concat insert maxn remove sort`) {
		m["table."+n] = true
	}
	m["json.decode"], m["json.encode"] = true, true
	return m
}()

// judgedDynamically: reachable in the unchanged tree or commonly opened; the verdict comes from a probe that
// tries to read / execute / delete a sentinel file, not from the name.
var judgedDynamically = map[string]string{
	"loadfile": "loadfile", "dofile": "dofile", "require": "require",
}

// allowedValues are non-function, non-table globals.
var allowedValues = map[string]bool{"_VERSION": true, "_GOPHER_LUA_VERSION": true, "math.pi": true, "math.huge": true,
	"string._NAME": true, "math._NAME": true, "table._NAME": true, "json._NAME": true, "_G._NAME": true, "_NAME": true}

// buildStateCopy constructs a state exactly as luamanager.RunLuaScript does (copied construction).
func buildStateCopy() (*lua.LState, error) {
	l := lua.NewState(lua.Options{SkipOpenLibs: true})
	for _, pair := range []struct {
		n string
		f lua.LGFunction
	}{
		{lua.MathLibName, lua.OpenMath},
		{lua.BaseLibName, lua.OpenBase},
		{lua.TabLibName, lua.OpenTable},
		{lua.StringLibName, lua.OpenString},
		{luamanager.JsonLibName, luamanager.OpenJson},
	} {
		if err := l.CallByParam(lua.P{Fn: l.NewFunction(pair.f), NRet: 0, Protect: true}, lua.LString(pair.n)); err != nil {
			return nil, err
		}
	}
	return l, nil
}

// walkGo walks the globals of a state with the Go API: "function <path>", "table <path>", "<type> <path>".
func walkGo(l *lua.LState) []string {
	seen := map[*lua.LTable]bool{}
	var out []string
	var walk func(t *lua.LTable, prefix string)
	walk = func(t *lua.LTable, prefix string) {
		if seen[t] {
			return
		}
		seen[t] = true
		t.ForEach(func(k, v lua.LValue) {
			p := prefix + k.String()
			out = append(out, v.Type().String()+" "+p)
			if vt, ok := v.(*lua.LTable); ok {
				walk(vt, p+".")
			}
			if mt, ok := l.GetMetatable(v).(*lua.LTable); ok && v.Type() != lua.LTString {
				out = append(out, "table "+p+".<mt>")
				walk(mt, p+".<mt>.")
			}
		})
	}
	walk(l.Get(lua.GlobalsIndex).(*lua.LTable), "")
	if mt, ok := l.GetMetatable(lua.LString("")).(*lua.LTable); ok {
		walk(mt, "<string-mt>.")
	}
	sort.Strings(out)
	return out
}

// luaWalker is run through the REAL RunLuaScript; it lists every value reachable from _G (tables recursively,
// metatables, the string metatable) as "<type> <path>".
const luaWalker = `
local seen, out = {}, {}
local function walk(t, prefix)
  if seen[t] then return end
  seen[t] = true
  local k, v = next(t)
  while k ~= nil do
    local p = prefix .. tostring(k)
    local ty = type(v)
    if not (prefix == "" and k == "obj") then
      out[#out + 1] = ty .. " " .. p
      if ty == "table" then walk(v, p .. ".") end
      if ty ~= "string" then
        local mt = getmetatable(v)
        if type(mt) == "table" then out[#out + 1] = "table " .. p .. ".<mt>" walk(mt, p .. ".<mt>.") end
      end
    end
    k, v = next(t, k)
  end
end
walk(_G, "")
local smt = getmetatable("")
if type(smt) == "table" then walk(smt, "<string-mt>.") end
return {names = out}
`

type probe struct {
	Tag    string // also the strace window label
	Script string // $P sentinel Lua file, $Q sentinel text file, $R file to delete, $X file that must not appear, $D dir, $M module name of $P
	FP     string // fingerprint when the probe (or the syscall log inside its window) shows the capability
	What   string
}

func escapeProbes() []probe {
	return []probe{
		{"loadfile-exec", `local f, e = loadfile("$P") if f then return f() end return {err = tostring(e)}`, "c16:escape:loadfile-reads-file", "loadfile compiled a file of the controller's filesystem"},
		{"loadfile-leak", `local f, e = loadfile("$Q") return {f = tostring(f), err = tostring(e)}`, "c16:escape:loadfile-reads-file", "loadfile read a file of the controller's filesystem"},
		{"loadfile-missing", `local f, e = loadfile("$D/does-not-exist.lua") return {f = tostring(f), err = tostring(e)}`, "c16:escape:loadfile-reads-file", "loadfile tried to open a path"},
		{"loadfile-pcall", `local ok, f, e = pcall(loadfile, "$P") if ok and f then return f() end return {err = tostring(f) .. tostring(e)}`, "c16:escape:loadfile-reads-file", "loadfile compiled a file"},
		{"dofile-exec", `return dofile("$P")`, "c16:escape:dofile-executes-file", "dofile executed a file of the controller's filesystem"},
		{"dofile-leak", `local ok, e = pcall(dofile, "$Q") return {ok = tostring(ok), err = tostring(e)}`, "c16:escape:dofile-executes-file", "dofile read a file"},
		{"require-path", `return require("$P")`, "c16:escape:require-loads-file", "require loaded a file"},
		{"require-module", `if package then package.path = "$D/?.lua" end return require("$M")`, "c16:escape:require-loads-file", "require loaded a file via package.path"},
		{"package-loaders", `local r = {} for i, l in ipairs(package.loaders) do local ok, f = pcall(l, "$M") if type(f) == "function" then return f() end end return r`, "c16:escape:require-loads-file", "package.loaders loaded a file"},
		{"package-loadlib", `local f, e = package.loadlib("$P", "luaopen_x") return {f = tostring(f), e = tostring(e)}`, "c16:escape:package-loadlib", "package.loadlib reached the filesystem"},
		{"io-open-read", `local f = io.open("$Q", "r") local s = f:read("*a") f:close() return {s = s}`, "c16:escape:io-reads-file", "io.open read a file"},
		{"io-lines", `local r = {} for l in io.lines("$Q") do r[#r + 1] = l end return {s = table.concat(r, "|")}`, "c16:escape:io-reads-file", "io.lines read a file"},
		{"io-open-write", `local f = io.open("$X", "w") f:write("x") f:close() return {done = "1"}`, "c16:escape:io-writes-file", "io.open created a file"},
		{"io-popen", `local f = io.popen("cat $Q") local s = f:read("*a") f:close() return {s = s}`, "c16:escape:io-popen-runs-process", "io.popen ran a process"},
		{"io-stdout", `io.stdout:write("x") io.stderr:write("") return {t = type(io.stdin)}`, "c16:escape:io-std-streams", "io std streams reachable"},
		{"os-execute", `local rc = os.execute("touch $X") return {rc = tostring(rc)}`, "c16:escape:os-execute-runs-process", "os.execute ran a process"},
		{"os-remove", `local ok, e = os.remove("$R") return {ok = tostring(ok), e = tostring(e)}`, "c16:escape:os-remove-deletes-file", "os.remove deleted a file"},
		{"os-rename", `local ok, e = os.rename("$R", "$X") return {ok = tostring(ok), e = tostring(e)}`, "c16:escape:os-rename-moves-file", "os.rename moved a file"},
		{"os-getenv", `return {v = tostring(os.getenv("C16LUA_SECRET_ENV"))}`, "c16:escape:os-getenv-reads-environment", "os.getenv read the controller's environment"},
		{"os-setenv", `os.setenv("C16LUA_SET", "1") return {done = "1"}`, "c16:escape:os-setenv", "os.setenv changed the controller's environment"},
		{"os-tmpname", `return {n = tostring(os.tmpname())}`, "c16:escape:os-tmpname", "os.tmpname reachable"},
		{"os-exit", `os.exit(7)`, "c16:escape:os-exit-kills-process", "os.exit terminated the controller process"},
		{"os-time-clock", `return {t = tostring(os.time()), c = tostring(os.clock()), d = tostring(os.date())}`, "c16:escape:os-time", "os time functions reachable"},
		{"debug-registry", `local r = debug.getregistry and debug.getregistry() return {t = type(r), i = type(debug.getinfo), u = type(debug.setupvalue)}`, "c16:escape:debug-library", "debug library reachable"},
		{"debug-upvalue-builtin", `local n, v = debug.getupvalue(ipairs, 1) return {n = tostring(n), v = tostring(v)}`, "c16:escape:debug-library", "debug library reachable"},
		{"load-string-chunkname", `local f = load(function() return nil end, "$P") local g = loadstring("return {a = 'b'}", "@$P") return g()`, "c16:escape:load-reads-file", "load/loadstring touched the file named as chunk name"},
		{"getfenv-walk", `if io or os or package or debug then return {direct = "1"} end local r = {} for lvl = 0, 5 do local ok, e = pcall(getfenv, lvl) if ok and type(e) == "table" then for k, v in pairs(e) do if type(v) == "table" and k ~= "_G" and k ~= "obj" then r[k] = "table" end end end end return r`, "c16:escape:getfenv", "getfenv reached an environment that holds io/os/package/debug although they are not globals"},
		{"string-dump-load", `local ok, s = pcall(string.dump, loadfile) return {ok = tostring(ok), s = tostring(s)}`, "c16:escape:string-dump", "string.dump of a builtin"},
		{"newproxy-meta", `if io or os then return {direct = "1"} end local p = newproxy(true) local mt = getmetatable(p) mt.__index = _G return {t = type(p.io), o = type(p.os)}`, "c16:escape:newproxy", "newproxy reached io/os although they are not globals"},
		{"stdin-read", `local f, e = loadfile() return {f = type(f), e = tostring(e)}`, "c16:escape:loadfile-reads-stdin", "loadfile() read the controller's stdin"},
	}
}

type sentinels struct {
	Dir, P, Q, R, X, M string
	Token              string
}

func makeSentinels(tag string) (*sentinels, error) {
	dir, err := os.MkdirTemp("", "c16sentinel-"+tag+"-")
	if err != nil {
		return nil, err
	}
	s := &sentinels{Dir: dir, Token: "C16SENTINEL" + filepath.Base(dir)[len("c16sentinel-"):]}
	s.Token = strings.NewReplacer("-", "x").Replace(s.Token)
	s.M = "c16mod"
	s.P = filepath.Join(dir, s.M+".lua")
	s.Q = filepath.Join(dir, "secret.txt")
	s.R = filepath.Join(dir, "victim.txt")
	s.X = filepath.Join(dir, "created.txt")
	if err := os.WriteFile(s.P, []byte(`return {sentinel = "`+s.Token+`"}`+"\n"), 0o644); err != nil {
		return nil, err
	}
	if err := os.WriteFile(s.Q, []byte(s.Token+"\n"), 0o644); err != nil {
		return nil, err
	}
	if err := os.WriteFile(s.R, []byte("victim\n"), 0o644); err != nil {
		return nil, err
	}
	return s, nil
}

func (s *sentinels) cleanup() { _ = os.RemoveAll(s.Dir) }

func (s *sentinels) fill(script string) string {
	return strings.NewReplacer("$P", s.P, "$Q", s.Q, "$R", s.R, "$X", s.X, "$D", s.Dir, "$M", s.M).Replace(script)
}

func probeItems(s *sentinels) []item {
	var its []item
	for _, p := range escapeProbes() {
		its = append(its, item{Cat: "escape-probe", Name: p.Tag, Script: s.fill(p.Script), Input: ingressInputJSON(), Flavour: "raw"})
	}
	return its
}

// judgeProbes decides, from what the scripts returned and from the sentinel files, which capabilities are real.
// capable[tag-family] is used by the environment walk for the dynamically judged names.
func judgeProbes(res *core.CaseResult, s *sentinels, rs []itemResult) map[string]bool {
	capable := map[string]bool{}
	ps := escapeProbes()
	for i, p := range ps {
		if i >= len(rs) {
			break
		}
		r := rs[i]
		res.Count("escape_probes", 1)
		hit := ""
		text := r.JSON + "\n" + r.Err
		switch {
		case strings.Contains(text, s.Token):
			hit = "the sentinel's content came back to the script"
		case p.Tag == "os-exit" && r.Kind == "death":
			hit = "the process exited"
		case p.Tag == "os-getenv" && strings.Contains(r.JSON, "c16-env-secret"):
			hit = "an environment variable of the process came back"
		case p.Tag == "io-stdout" && r.Kind == "table":
			hit = "io.stdout / io.stdin are usable"
		case p.Tag == "os-tmpname" && r.Kind == "table", p.Tag == "os-time-clock" && r.Kind == "table", p.Tag == "os-setenv" && r.Kind == "table":
			hit = "the os library answered"
		case (p.Tag == "debug-registry" || p.Tag == "debug-upvalue-builtin") && r.Kind == "table":
			hit = "the debug library answered"
		case p.Tag == "package-loadlib" && r.Kind == "table":
			hit = "package.loadlib answered"
		case p.Tag == "loadfile-missing" && strings.Contains(r.JSON, "can not open file"):
			hit = "loadfile reported the result of an open() on a path chosen by the script"
		case p.Tag == "stdin-read" && r.Kind == "table":
			hit = "loadfile() with no argument read the process's standard input"
		case p.Tag == "newproxy-meta" && r.Kind == "table" && (strings.Contains(r.JSON, `"t":"table"`) || strings.Contains(r.JSON, `"o":"table"`)):
			hit = "io / os reachable"
		case p.Tag == "getfenv-walk" && r.Kind == "table" && (strings.Contains(r.JSON, `"io"`) || strings.Contains(r.JSON, `"os"`) || strings.Contains(r.JSON, `"package"`) || strings.Contains(r.JSON, `"debug"`)):
			hit = "io / os / package / debug reachable through getfenv"
		}
		if _, err := os.Stat(s.X); err == nil {
			hit = "a file was created on the controller's filesystem"
			_ = os.Remove(s.X)
		}
		if _, err := os.Stat(s.R); err != nil {
			hit = "a file of the controller's filesystem was removed"
			_ = os.WriteFile(s.R, []byte("victim\n"), 0o644)
		}
		if r.Kind == "panic" {
			res.Count("panics", 1)
			res.Violate("c16:panic:"+r.Site+":"+core.NormPanic(r.Panic), "probe "+p.Tag+" panicked: "+r.Panic, map[string]interface{}{"script": p.Script, "stack": r.Stack})
		}
		if r.Kind == "death" && p.Tag != "os-exit" && hit == "" {
			res.Violate("c16:death:"+deathClass(r), "probe "+p.Tag+" killed the process: "+firstFatal(r.Stderr), map[string]interface{}{"script": p.Script, "stderr": r.Stderr})
		}
		res.AddSig("probe:" + p.Tag + ":" + r.Kind + ":" + boolStr(hit != "", "capable", "inert"))
		if hit == "" {
			continue
		}
		capable[strings.SplitN(p.Tag, "-", 2)[0]] = true
		if p.Tag == "stdin-read" {
			// same function, same defect as loadfile(path); stdin is /dev/null in the child. Not a separate verdict.
			continue
		}
		res.Violate(p.FP, p.What+": "+hit, map[string]interface{}{"probe": p.Tag, "script": s.fill(p.Script), "result_kind": r.Kind, "result": capStr(r.JSON, 600), "error": capStr(r.Err, 600),
			"sentinel_file": s.P, "sentinel_content_token": s.Token})
	}
	return capable
}

func boolStr(b bool, t, f string) string {
	if b {
		return t
	}
	return f
}

// runEnvCase = (c1): Go-side walk of a copied construction, Lua-side walk through the real RunLuaScript, allow-list
// judgement, dynamic probes.
func runEnvCase(res *core.CaseResult) {
	s, err := makeSentinels("env")
	if err != nil {
		res.Inconclusive = "cannot create sentinel files: " + err.Error()
		return
	}
	defer s.cleanup()
	os.Setenv("C16LUA_SECRET_ENV", "c16-env-secret")
	defer os.Unsetenv("C16LUA_SECRET_ENV")

	// Lua-side walk through the real RunLuaScript + all probes, in children
	items := append([]item{{Cat: "env-walk", Name: "walker", Script: luaWalker, Input: ingressInputJSON(), Flavour: "raw"}}, probeItems(s)...)
	out := runItems(items, runOpt{})
	wr := out.Results[0]
	res.Count("scripts_run", int64(len(items)))
	var real []string
	if wr.Kind == "table" && wr.JSONLen == len(wr.JSON) {
		var v struct {
			Names []string `json:"names"`
		}
		if err := json.Unmarshal([]byte(wr.JSON), &v); err == nil {
			real = v.Names
		}
	}
	if len(real) == 0 {
		res.Inconclusive = fmt.Sprintf("the environment walker did not return its list through the real RunLuaScript: kind=%s err=%s", wr.Kind, capStr(wr.Err, 300))
	}
	sort.Strings(real)
	capable := judgeProbes(res, s, out.Results[1:])

	// Go-side walk of the copied construction
	var copied []string
	if l, err := buildStateCopy(); err == nil {
		copied = walkGo(l)
		l.Close()
	}
	union := map[string]bool{}
	for _, n := range real {
		union[n] = true
	}
	mismatch := 0
	cset := map[string]bool{}
	for _, n := range copied {
		cset[n] = true
		if !union[n] && len(real) > 0 {
			mismatch++
		}
	}
	for _, n := range real {
		if !cset[n] {
			mismatch++
		}
	}
	for _, n := range copied {
		union[n] = true
	}
	res.Count("env_copy_vs_real_mismatches", int64(mismatch))
	var names []string
	for n := range union {
		names = append(names, n)
	}
	sort.Strings(names)
	var funcs []string
	for _, n := range names {
		sp := strings.SplitN(n, " ", 2)
		if len(sp) != 2 {
			continue
		}
		ty, path := sp[0], normPath(sp[1])
		switch ty {
		case "function":
			res.Count("env_functions_walked", 1)
			funcs = append(funcs, path)
			res.AddSet("reachable_functions", path)
			if allowedFunctions[path] {
				continue
			}
			if fam, ok := judgedDynamically[path]; ok {
				// verdict by probe; (loadfile / dofile fire there with their own fingerprint)
				if capable[fam] {
					res.AddSet("reachable_and_capable", path)
				} else {
					res.AddSet("reachable_but_inert", path)
				}
				continue
			}
			res.Violate("c16:env:function-outside-allowlist:"+path, "a function that is not on the reviewed allow-list is reachable from scripts: "+path,
				map[string]interface{}{"path": sp[1], "all_reachable": names})
		case "table":
			res.Count("env_tables_walked", 1)
		case "string", "number", "boolean":
			res.Count("env_values_walked", 1)
		default: // userdata, channel, thread …
			res.Count("env_values_walked", 1)
			if !allowedValues[path] {
				res.Violate("c16:env:value-outside-allowlist:"+ty+":"+path, "a "+ty+" value is reachable from scripts: "+path, map[string]interface{}{"path": sp[1]})
			}
		}
	}
	res.AddSig(fmt.Sprintf("env-walk:functions=%d:mismatch=%d", len(funcs), mismatch))
	res.Sample = map[string]interface{}{"kind": "env-walk", "reachable_functions": funcs, "capable": capable}
}

// normPath: "_G.x" == "x"; "<string-mt>.__index.rep" == "string.rep" is already deduplicated by the walkers' seen sets;
// metatable members keep their "<mt>" path (never on the allow-list on purpose).
func normPath(p string) string {
	for strings.HasPrefix(p, "_G.") {
		p = strings.TrimPrefix(p, "_G.")
	}
	return p
}

func deathClass(r itemResult) string {
	line := firstFatal(r.Stderr)
	if strings.Contains(line, "stack overflow") || strings.Contains(r.Stderr, "goroutine stack exceeds") {
		return "stack-overflow:" + r.Site
	}
	return core.NormPanic(line) + ":" + r.Site
}
