package main

import (
	"verif/harness/core"
	_ "verif/harness/drivers/c17advdeploy"
)

func main() { core.Main() }
