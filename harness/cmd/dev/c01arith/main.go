package main

import (
	"verif/harness/core"
	_ "verif/harness/drivers/c01arith"
)

func main() { core.Main() }
