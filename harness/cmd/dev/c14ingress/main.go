// Private development binary of the C14 driver. It also registers the C07 (clause d) view of the same cases so
// that the "c07d:ingress:*" fingerprints can be exercised without the C07 driver.
package main

import (
	"verif/harness/core"
	"verif/harness/drivers/c14ingress"
)

func main() {
	if core.Lookup("C07") == nil {
		core.Register(&core.Check{
			ID: "C07", Level: "exploration", Rule: "dev view: provider fixed point (clause d) on the C14 cases",
			NumCases:  func(env *core.Env) int { return c14ingress.NumCases(env) },
			ChunkSize: 50, Relevant: "fixed_point_checks",
			RunCase: func(env *core.Env, idx int) *core.CaseResult { return c14ingress.RunCase(env, idx, "C07") },
		})
	}
	core.Main()
}
