// Package c19iso decides C19 (rollouts are isolated from each other).
//
// e4.go: history checker for the process-wide helpers. Many goroutines hammer grace expectations (directly and through
// RunWithGraceSeconds on the process-global instance), ResourceExpectations and the Lua runtime on a few keys with
// unique ids; every client call is recorded at the caller's boundary {client, op, args, call time, result, return time}
// from one monotonic clock and checked per key with porcupine against a small sequential model. An operation on key A
// that changes an answer on key B, a lost update, or a torn read shows up as a non-linearizable per-key history.
package c19iso

import (
	"encoding/json"
	"fmt"
	"math/rand"
	"os"
	"path/filepath"
	"sort"
	"strings"
	"sync"
	"time"

	"github.com/anishathalye/porcupine"
	lua "github.com/yuin/gopher-lua"
	"k8s.io/apimachinery/pkg/apis/meta/v1/unstructured"

	expectations "github.com/openkruise/rollouts/pkg/util/expectation"
	"github.com/openkruise/rollouts/pkg/util/grace"
	"github.com/openkruise/rollouts/pkg/util/luamanager"

	"verif/harness/core"
	"verif/harness/gen"
)

type e4in struct {
	Obj      string `json:"obj"` // grace | gracewrap | resexp
	Key      string `json:"key"`
	Op       string `json:"op"`
	Action   string `json:"action,omitempty"`
	Name     string `json:"name,omitempty"`
	Modified bool   `json:"modified,omitempty"`
}

type e4out struct {
	Bool bool   `json:"bool"`
	Set  string `json:"set,omitempty"`
}

// graceSecondsForever keeps every recorded expectation unsatisfied for the whole history, so that no answer depends on
// the clock.
const graceSecondsForever = 360000

func setStr(m map[string]bool) string {
	var l []string
	for k, v := range m {
		if v {
			l = append(l, k)
		}
	}
	sort.Strings(l)
	return strings.Join(l, ",")
}

func parseSet(s string) map[string]bool {
	m := map[string]bool{}
	for _, e := range strings.Split(s, ",") {
		if e != "" {
			m[e] = true
		}
	}
	return m
}

// sequential model of one key. State is the canonical string of a set: actions for grace, "action:name" for resexp.
func e4step(state, input, output interface{}) (bool, interface{}) {
	st := parseSet(state.(string))
	in, out := input.(e4in), output.(e4out)
	switch in.Obj {
	case "grace", "gracewrap":
		switch in.Op {
		case "expect":
			st[in.Action] = true
		case "observe":
			delete(st, in.Action)
		case "satisfied":
			return out.Bool == !st[in.Action], state
		case "satisfied-now":
			// asked with a grace period of 0: whatever is recorded has expired, the answer is "satisfied", and asking
			// changes nothing (the record stays until Observe / the cleaner removes it)
			return out.Bool, state
		case "delete":
			st = map[string]bool{}
		case "get":
			return out.Set == setStr(st), state
		case "run":
			// RunWithGraceSeconds(key, action, forever, f) with f returning (Modified, nil); out.Bool = retry
			if in.Modified {
				st[in.Action] = true
				return out.Bool, setStr(st)
			}
			if st[in.Action] {
				return out.Bool, state
			}
			return !out.Bool, state
		}
	case "resexp":
		id := in.Action + ":" + in.Name
		switch in.Op {
		case "expect":
			st[id] = true
		case "observe":
			delete(st, id)
		case "satisfied":
			if len(st) == 0 {
				return out.Bool && out.Set == "", state
			}
			if out.Bool {
				return false, state
			}
			// the call reports the pending names of one (any) action with pending names
			for _, a := range []string{"create", "delete"} {
				sub := map[string]bool{}
				for k := range st {
					if strings.HasPrefix(k, a+":") {
						sub[k] = true
					}
				}
				if len(sub) > 0 && out.Set == setStr(sub) {
					return true, state
				}
			}
			return false, state
		case "delete":
			st = map[string]bool{}
		case "get":
			return out.Set == setStr(st), state
		}
	}
	return true, setStr(st)
}

var e4model = porcupine.Model{
	Partition: func(h []porcupine.Operation) [][]porcupine.Operation {
		by := map[string][]porcupine.Operation{}
		var keys []string
		for _, o := range h {
			k := o.Input.(e4in).Obj + "|" + o.Input.(e4in).Key
			if _, ok := by[k]; !ok {
				keys = append(keys, k)
			}
			by[k] = append(by[k], o)
		}
		sort.Strings(keys)
		var out [][]porcupine.Operation
		for _, k := range keys {
			out = append(out, by[k])
		}
		return out
	},
	Init:  func() interface{} { return "" },
	Step:  e4step,
	Equal: func(a, b interface{}) bool { return a.(string) == b.(string) },
	DescribeOperation: func(in, out interface{}) string {
		b, _ := json.Marshal(in)
		c, _ := json.Marshal(out)
		return string(b) + " -> " + string(c)
	},
}

type e4recorder struct {
	mu    sync.Mutex
	ops   []porcupine.Operation
	start time.Time
}

func (r *e4recorder) now() int64 { return int64(time.Since(r.start)) }

func (r *e4recorder) add(o porcupine.Operation) {
	r.mu.Lock()
	r.ops = append(r.ops, o)
	r.mu.Unlock()
}

type graceAPI interface {
	Expect(controllerKey string, action grace.Action)
	Observe(controllerKey string, action grace.Action)
	SatisfiedExpectations(controllerKey string, action grace.Action, graceSeconds int32) (bool, time.Duration)
	DeleteExpectations(controllerKey string)
}

var graceActions = []string{"create", "delete", "patch", "unpatch"}

// e4History runs one concurrent history on fresh instances and returns it.
func e4History(rng *rand.Rand, hid string) (ops []porcupine.Operation, clients, keysN int) {
	clients = []int{4, 8, 16, 32}[rng.Intn(4)]
	perClient := 12 + rng.Intn(28)
	// keys that look like the ones the controllers build (namespace/name, prefixes of each other, uid-like)
	pool := []string{"ns/demo", "ns/demo-canary", "ns1/demo", "ns10/demo", "ns/dem", "0f1e-uid-a", "0f1e-uid-ab"}
	rng.Shuffle(len(pool), func(i, j int) { pool[i], pool[j] = pool[j], pool[i] })
	keysN = 2 + rng.Intn(3)
	keys := make([]string, keysN)
	for i := range keys {
		keys[i] = hid + "/" + pool[i]
	}
	ge := grace.NewGraceExpectations()
	re := expectations.NewResourceExpectations()
	rec := &e4recorder{start: time.Now()}
	seeds := make([]int64, clients)
	for i := range seeds {
		seeds[i] = rng.Int63()
	}
	var wg sync.WaitGroup
	gate := make(chan struct{})
	for c := 0; c < clients; c++ {
		wg.Add(1)
		go func(c int) {
			defer wg.Done()
			lr := rand.New(rand.NewSource(seeds[c]))
			<-gate
			for i := 0; i < perClient; i++ {
				in := e4in{Key: keys[lr.Intn(len(keys))]}
				switch lr.Intn(3) {
				case 0:
					in.Obj = "grace"
				case 1:
					in.Obj = "gracewrap"
				default:
					in.Obj = "resexp"
				}
				var out e4out
				var t0, t1 int64
				switch in.Obj {
				case "grace":
					in.Action = graceActions[lr.Intn(len(graceActions))]
					in.Op = []string{"expect", "observe", "satisfied", "satisfied", "get", "delete", "satisfied-now", "expect"}[lr.Intn(8)]
					t0 = rec.now()
					switch in.Op {
					case "expect":
						ge.Expect(in.Key, grace.Action(in.Action))
					case "observe":
						ge.Observe(in.Key, grace.Action(in.Action))
					case "satisfied":
						out.Bool, _ = ge.SatisfiedExpectations(in.Key, grace.Action(in.Action), graceSecondsForever)
					case "satisfied-now":
						out.Bool, _ = ge.SatisfiedExpectations(in.Key, grace.Action(in.Action), 0)
					case "get":
						m := map[string]bool{}
						for a := range ge.GetExpectations(in.Key) {
							m[string(a)] = true
						}
						out.Set = setStr(m)
					case "delete":
						ge.DeleteExpectations(in.Key)
					}
					t1 = rec.now()
				case "gracewrap":
					// the process-global instance, through the entry point the traffic-routing manager uses. RunWithGraceSeconds
					// is a read-then-write sequence that relies on the work-queue never running two reconciles of one
					// rollout at a time, so every key here belongs to ONE client (its own rollout); what is checked is that
					// the other clients' traffic on their (look-alike) keys never changes this client's answers.
					in.Key = fmt.Sprintf("%s#c%d", in.Key, c)
					in.Action = graceActions[lr.Intn(len(graceActions))]
					in.Op = []string{"run", "run", "run", "satisfied", "get", "observe", "satisfied-now"}[lr.Intn(7)]
					in.Modified = lr.Intn(3) == 0
					t0 = rec.now()
					switch in.Op {
					case "run":
						mod := in.Modified
						retry, _, _ := grace.RunWithGraceSeconds(in.Key, in.Action, graceSecondsForever, func() (bool, error) { return mod, nil })
						out.Bool = retry
					case "satisfied":
						out.Bool, _ = grace.DefaultGraceExpectations.SatisfiedExpectations(in.Key, grace.Action(in.Action), graceSecondsForever)
					case "satisfied-now":
						out.Bool, _ = grace.DefaultGraceExpectations.SatisfiedExpectations(in.Key, grace.Action(in.Action), 0)
					case "get":
						m := map[string]bool{}
						for a := range grace.DefaultGraceExpectations.GetExpectations(in.Key) {
							m[string(a)] = true
						}
						out.Set = setStr(m)
					case "observe":
						grace.DefaultGraceExpectations.Observe(in.Key, grace.Action(in.Action))
					}
					t1 = rec.now()
				case "resexp":
					in.Action = []string{"create", "delete"}[lr.Intn(2)]
					in.Op = []string{"expect", "expect", "observe", "satisfied", "satisfied", "get", "delete"}[lr.Intn(7)]
					// few names, so that expect/observe of different clients meet; unique per key by construction of the set
					in.Name = fmt.Sprintf("pod-%d", lr.Intn(4))
					t0 = rec.now()
					switch in.Op {
					case "expect":
						re.Expect(in.Key, expectations.Action(in.Action), in.Name)
					case "observe":
						re.Observe(in.Key, expectations.Action(in.Action), in.Name)
					case "satisfied":
						ok, _, pending := re.SatisfiedExpectations(in.Key)
						out.Bool = ok
						m := map[string]bool{}
						for a, names := range pending {
							for _, n := range names {
								m[string(a)+":"+n] = true
							}
						}
						out.Set = setStr(m)
					case "get":
						m := map[string]bool{}
						for a, names := range re.GetExpectations(in.Key) {
							for _, n := range names.List() {
								m[string(a)+":"+n] = true
							}
						}
						out.Set = setStr(m)
					case "delete":
						re.DeleteExpectations(in.Key)
					}
					t1 = rec.now()
				}
				rec.add(porcupine.Operation{ClientId: c, Input: in, Call: t0, Output: out, Return: t1})
				if lr.Intn(4) == 0 {
					time.Sleep(time.Duration(lr.Intn(50)) * time.Microsecond)
				}
			}
		}(c)
	}
	close(gate)
	wg.Wait()
	// leave the process-global instance as found
	for _, k := range keys {
		for c := 0; c < clients; c++ {
			grace.DefaultGraceExpectations.DeleteExpectations(fmt.Sprintf("%s#c%d", k, c))
		}
	}
	return rec.ops, clients, keysN
}

func e4Case(env *core.Env, idx int) *core.CaseResult {
	res := &core.CaseResult{}
	rng := env.RNG(idx)
	hid := fmt.Sprintf("h%d", idx)
	ops, clients, keysN := e4History(rng, hid)
	res.Count("e4_histories", 1)
	res.Count("e4_operations_recorded", int64(len(ops)))
	overlap := 0
	for i := range ops {
		for j := i + 1; j < len(ops) && j < i+40; j++ {
			if ops[i].Call < ops[j].Return && ops[j].Call < ops[i].Return && ops[i].ClientId != ops[j].ClientId {
				overlap++
			}
		}
	}
	res.Count("e4_overlapping_operation_pairs", int64(overlap))
	kinds := map[string]bool{}
	for _, o := range ops {
		in := o.Input.(e4in)
		kinds[in.Obj+"."+in.Op] = true
	}
	for k := range kinds {
		res.AddSet("e4_operation_kinds", k)
	}
	r, info := porcupine.CheckOperationsVerbose(e4model, ops, 90*time.Second)
	switch r {
	case porcupine.Ok:
		res.Count("e4_histories_linearizable", 1)
		res.AddSig(fmt.Sprintf("e4|clients=%d|keys=%d|overlap>0=%v", clients, keysN, overlap > 0))
	case porcupine.Unknown:
		res.Inconclusive = "porcupine timed out on history " + hid
	case porcupine.Illegal:
		// witness: the per-key partition that is not linearizable (shortest one), as recorded
		var witness []string
		parts := e4model.Partition(ops)
		bad := ""
		for _, p := range parts {
			if rr, _ := porcupine.CheckOperationsVerbose(porcupine.Model{Init: e4model.Init, Step: e4model.Step, Equal: e4model.Equal}, p, 30*time.Second); rr == porcupine.Illegal {
				in := p[0].Input.(e4in)
				if bad == "" || len(p) < len(witness) {
					bad = in.Obj
					witness = witness[:0]
					sort.Slice(p, func(i, j int) bool { return p[i].Call < p[j].Call })
					for _, o := range p {
						witness = append(witness, fmt.Sprintf("c%02d [%d,%d] %s", o.ClientId, o.Call, o.Return, e4model.DescribeOperation(o.Input, o.Output)))
					}
				}
			}
		}
		_ = info
		if len(witness) > 200 {
			witness = witness[:200]
		}
		res.Violate("c19:e4:not-linearizable:"+bad, fmt.Sprintf("the recorded history of %s on one key has no sequential explanation (%d clients)", bad, clients), gen.NF{"history": witness})
	}
	if idx < 2 {
		var first []string
		for i, o := range ops {
			if i >= 12 {
				break
			}
			first = append(first, fmt.Sprintf("c%02d [%d,%d] %s", o.ClientId, o.Call, o.Return, e4model.DescribeOperation(o.Input, o.Output)))
		}
		res.Sample = gen.NF{"kind": "e4 history", "clients": clients, "keys": keysN, "operations": len(ops), "overlappingPairs": overlap, "first": first}
	}
	return res
}

// ---- Lua runtime: concurrent calls give the answers of solo calls ------------------------------------------------

type luaJob struct {
	script, name string
	obj          map[string]interface{}
}

func luaJobs(rng *rand.Rand, repo string) ([]luaJob, error) {
	files, _ := filepath.Glob(filepath.Join(repo, "lua_configuration/trafficrouting_ingress/*.lua"))
	if len(files) == 0 {
		return nil, fmt.Errorf("no ingress lua scripts under %s", repo)
	}
	sort.Strings(files)
	var jobs []luaJob
	for i := 0; i < 24; i++ {
		f := files[rng.Intn(len(files))]
		b, err := os.ReadFile(f)
		if err != nil {
			return nil, err
		}
		ann := map[string]interface{}{"kubernetes.io/ingress.class": "nginx", fmt.Sprintf("user/a%d", i): fmt.Sprint(rng.Intn(1000))}
		obj := map[string]interface{}{"annotations": ann, "weight": fmt.Sprint([]int{-1, 0, 1, 20, 50, 100}[rng.Intn(6)]), "canaryService": fmt.Sprintf("svc-%d-canary", i)}
		if rng.Intn(2) == 0 {
			obj["matches"] = []interface{}{map[string]interface{}{"headers": []interface{}{map[string]interface{}{"name": fmt.Sprintf("h%d", i), "value": fmt.Sprint(rng.Intn(100)), "type": []string{"Exact", "RegularExpression"}[rng.Intn(2)]}}}}
		}
		jobs = append(jobs, luaJob{script: string(b), name: filepath.Base(f), obj: obj})
	}
	return jobs, nil
}

func runLua(j luaJob) string {
	cp := map[string]interface{}{}
	b, _ := json.Marshal(j.obj)
	_ = json.Unmarshal(b, &cp)
	l, err := (&luamanager.LuaManager{}).RunLuaScript(&unstructured.Unstructured{Object: cp}, j.script)
	if err != nil {
		return "error: " + firstLine(err.Error())
	}
	rv := l.Get(-1)
	if rv.Type() != lua.LTTable {
		return "non-table: " + rv.Type().String()
	}
	out, err := luamanager.Encode(rv)
	if err != nil {
		return "encode error: " + firstLine(err.Error())
	}
	var v interface{}
	if json.Unmarshal(out, &v) == nil {
		b, _ := json.Marshal(v) // maps are written with sorted keys
		return string(b)
	}
	return string(out)
}

func firstLine(s string) string {
	if i := strings.Index(s, "\n"); i > 0 {
		return s[:i]
	}
	return s
}

func luaCase(env *core.Env, idx int) *core.CaseResult {
	res := &core.CaseResult{}
	rng := env.RNG(idx)
	jobs, err := luaJobs(rng, repoDir())
	if err != nil {
		res.Inconclusive = err.Error()
		return res
	}
	solo := make([]string, len(jobs))
	for i, j := range jobs {
		solo[i] = runLua(j)
	}
	conc := make([][]string, 4)
	var wg sync.WaitGroup
	for rep := range conc {
		conc[rep] = make([]string, len(jobs))
		for i := range jobs {
			wg.Add(1)
			go func(rep, i int) {
				defer wg.Done()
				conc[rep][i] = runLua(jobs[i])
			}(rep, i)
		}
	}
	wg.Wait()
	res.Count("lua_concurrent_calls", int64(4*len(jobs)))
	distinct := map[string]bool{}
	for i := range jobs {
		distinct[solo[i]] = true
		for rep := range conc {
			if strings.Contains(conc[rep][i], "context deadline exceeded") || strings.Contains(solo[i], "context deadline exceeded") {
				// the interpreter's own 1 s wall-clock deadline fired (96 VMs at once on a loaded machine): that is the
				// deadline doing its job, not one call's data leaking into another - recorded, not judged
				res.Count("lua_calls_not_judged_deadline_under_load", 1)
				continue
			}
			if conc[rep][i] != solo[i] {
				res.Violate("c19:lua:concurrent-answer-differs:"+jobs[i].name, "a Lua call run concurrently with others returned a different answer than the same call run alone",
					gen.NF{"script": jobs[i].name, "obj": jobs[i].obj, "solo": solo[i], "concurrent": conc[rep][i]})
			}
		}
	}
	res.Count("lua_distinct_answers", int64(len(distinct)))
	res.AddSig(fmt.Sprintf("lua|distinct=%d", len(distinct)))
	return res
}
