package c08webhook

// Generators: raw JSON workloads (old, new) as an API server would hand them to the webhook, the Rollouts of
// the namespace and — for Deployments — the ReplicaSets. Everything is plain map[string]interface{} so that
// "absent" / "empty" / "null" are under the generator's control.

import (
	"encoding/json"
	"fmt"
	"math/rand"
	"sort"
	"strings"

	"github.com/openkruise/rollouts/api/v1beta1"
	apps "k8s.io/api/apps/v1"
	corev1 "k8s.io/api/core/v1"
	metav1 "k8s.io/apimachinery/pkg/apis/meta/v1"
	"k8s.io/apimachinery/pkg/types"
	"k8s.io/apimachinery/pkg/util/intstr"

	"verif/harness/gen"
)

type obj = map[string]interface{}

// names of the public API this property talks about (written out here, not imported from the code under test)
const (
	keySelector      = "rollouts.kruise.io/workload-type"
	keyRolloutID     = "rollouts.kruise.io/rollout-id"
	keyInProgress    = "rollouts.kruise.io/in-progressing"
	keyDepStrategy   = "rollouts.kruise.io/deployment-strategy"
	keyOrigStrategy  = "rollouts.kruise.io/original-deployment-strategy"
	keyStableRev     = "rollouts.kruise.io/stable-revision"
	keyHash          = "pod-template-hash"
	keyControlPlane  = "control-plane"
	webhookConfigObj = "kruise-rollout-mutating-webhook-configuration"
)

type kindInfo struct {
	Tag        string // name used in counters / signatures
	APIVersion string
	Kind       string
	Group      string
	Version    string
	Resource   string
	Unified    bool // served by /mutate-unified-workload only
}

var kinds = []kindInfo{
	{"Deployment", "apps/v1", "Deployment", "apps", "v1", "deployments", false},
	{"CloneSet", "apps.kruise.io/v1alpha1", "CloneSet", "apps.kruise.io", "v1alpha1", "clonesets", false},
	{"DaemonSet", "apps.kruise.io/v1alpha1", "DaemonSet", "apps.kruise.io", "v1alpha1", "daemonsets", false},
	{"StatefulSet", "apps/v1", "StatefulSet", "apps", "v1", "statefulsets", true},
	{"AdvStatefulSet", "apps.kruise.io/v1beta1", "StatefulSet", "apps.kruise.io", "v1beta1", "statefulsets", true},
}

const (
	wlName = "echo"
	wlNS   = "ns1"
	wlUID  = "0a1b2c3d-0000-4000-8000-00000000e0e0"
)

// roSpec is the generator's description of one Rollout in the cluster.
type roSpec struct {
	Name       string `json:"name"`
	NS         string `json:"namespace"`
	APIVersion string `json:"refApiVersion"`
	Kind       string `json:"refKind"`
	RefName    string `json:"refName"`
	Disabled   bool   `json:"specDisabled"`
	Phase      string `json:"phase"`
	Deleting   bool   `json:"deleting"`
	Strategy   string `json:"strategy"` // empty | canary | partition | bluegreen
	TR         bool   `json:"trafficRouting"`
}

// rsSpec describes one ReplicaSet.
type rsSpec struct {
	Name           string `json:"name"`
	Owned          bool   `json:"ownedByDeployment"`
	Replicas       int32  `json:"replicas"`
	StatusReplicas int32  `json:"statusReplicas"`
	ReadyReplicas  int32  `json:"readyReplicas"`
	AvailReplicas  int32  `json:"availableReplicas"`
	Deleting       bool   `json:"deleting"`
	Hash           string `json:"hash"`
	Image          string `json:"image"` // "" = same template as the old Deployment
	Revision       int    `json:"revision"`
}

type caseIn struct {
	K        kindInfo
	Old, New obj
	Edits    []string
	Rollouts []roSpec
	RSs      []rsSpec
}

func cp(v interface{}) interface{} {
	switch t := v.(type) {
	case obj:
		o := obj{}
		for k, x := range t {
			o[k] = cp(x)
		}
		return o
	case []interface{}:
		o := make([]interface{}, len(t))
		for i, x := range t {
			o[i] = cp(x)
		}
		return o
	}
	return v
}

func sub(o obj, path ...string) obj {
	cur := o
	for _, p := range path {
		n, ok := cur[p].(obj)
		if !ok {
			return nil
		}
		cur = n
	}
	return cur
}

// ensure returns the map at path, creating it (and its parents) when absent / null.
func ensure(o obj, path ...string) obj {
	cur := o
	for _, p := range path {
		n, ok := cur[p].(obj)
		if !ok {
			n = obj{}
			cur[p] = n
		}
		cur = n
	}
	return cur
}

func genTemplate(rng *rand.Rand) obj {
	tl := obj{"app": "echo"}
	if gen.Chance(rng, 20) {
		tl[keyHash] = "5b494f7bf"
	}
	md := obj{"labels": tl}
	switch rng.Intn(5) {
	case 0:
		md["annotations"] = obj{"note": "a"}
	case 1:
		md["annotations"] = obj{}
	}
	if gen.Chance(rng, 40) {
		md["creationTimestamp"] = nil // the way the API server serialises a built-in pod template
	}
	c := obj{"name": "main", "image": "echo:v1"}
	if gen.Chance(rng, 40) {
		c["env"] = []interface{}{obj{"name": "K", "value": "1"}}
	}
	if gen.Chance(rng, 50) { // defaulted container fields
		c["imagePullPolicy"] = "IfNotPresent"
		c["terminationMessagePath"] = "/dev/termination-log"
		c["terminationMessagePolicy"] = "File"
		c["resources"] = obj{}
	}
	sp := obj{"containers": []interface{}{c}}
	if gen.Chance(rng, 50) {
		sp["restartPolicy"] = "Always"
		sp["dnsPolicy"] = "ClusterFirst"
		sp["terminationGracePeriodSeconds"] = float64(30)
		sp["securityContext"] = obj{}
		sp["schedulerName"] = "default-scheduler"
	}
	return obj{"metadata": md, "spec": sp}
}

func genReplicas(rng *rand.Rand) interface{} {
	switch r := rng.Intn(100); {
	case r < 12:
		return nil // absent
	case r < 24:
		return float64(0)
	case r < 40:
		return float64(1)
	}
	return float64(3 + rng.Intn(8))
}

// genWorkload builds the stored (old) object.
// focus: the stored object is in the middle of a release of the first Rollout (used to reach the in-progress rows often enough).
func genWorkload(rng *rand.Rand, k kindInfo, markNames []string, focus bool) obj {
	md := obj{"name": wlName, "namespace": wlNS, "uid": wlUID, "generation": float64(3), "resourceVersion": "1001", "creationTimestamp": "2023-05-01T00:00:00Z"}
	// labels
	var labels obj
	if gen.Chance(rng, 88) {
		labels = obj{keySelector: gen.Pick(rng, "deployment", "cloneset", "statefulset", "StatefulSet", "daemonset", "", "x")}
	} else {
		switch rng.Intn(3) {
		case 0:
			labels = obj{}
		case 1:
			labels = obj{"app": "echo"}
		}
	}
	if labels != nil && gen.Chance(rng, 50) {
		labels["app"] = "echo"
	}
	if labels != nil && gen.Chance(rng, 7) {
		labels[keyRolloutID] = "v1"
	}
	if labels != nil && k.Kind == "Deployment" && gen.Chance(rng, 2) {
		labels[keyControlPlane] = "controller-manager"
	}
	if labels != nil {
		md["labels"] = labels
	}
	// annotations
	var annos obj
	switch r := rng.Intn(100); {
	case r < 22:
	case r < 40:
		annos = obj{}
	default:
		annos = obj{"team": "a"}
		if gen.Chance(rng, 40) {
			annos["deployment.kubernetes.io/revision"] = "2"
		}
	}
	setA := func(k, v string) {
		if annos == nil {
			annos = obj{}
		}
		annos[k] = v
	}
	if gen.Chance(rng, 38) {
		setA(keyRolloutID, "v1")
	}
	inProg := false
	if focus || gen.Chance(rng, 33) {
		inProg = true
		name := gen.Pick(rng, markNames...)
		r := rng.Intn(100)
		if focus {
			name, r = markNames[0], r*85/100
		}
		switch {
		case r < 70:
			setA(keyInProgress, fmt.Sprintf(`{"rolloutName":"%s"}`, name))
		case r < 85:
			setA(keyInProgress, fmt.Sprintf(`{"rolloutName":"%s","RolloutDone":true}`, name))
		case r < 93:
			setA(keyInProgress, `{"rolloutName":"ro-zz"}`)
		default:
			setA(keyInProgress, "not-json")
		}
	}
	if k.Kind == "Deployment" {
		p := 12
		if inProg {
			p = 70
		}
		if gen.Chance(rng, p) {
			styleCase := rng.Intn(5)
			if inProg && gen.Chance(rng, 35) {
				styleCase = 0
			}
			switch styleCase {
			case 0, 1:
				setA(keyDepStrategy, gen.Pick(rng,
					`{"rollingStyle":"Partition","rollingUpdate":{"maxUnavailable":"25%","maxSurge":"25%"},"paused":false,"partition":1}`,
					`{"rollingStyle":"partition","rollingUpdate":{"maxUnavailable":1,"maxSurge":0},"partition":"20%"}`,
					`{"rollingStyle":"Partition","paused":true}`))
			case 2, 3:
				setA(keyOrigStrategy, `{"maxUnavailable":"25%","maxSurge":"25%","progressDeadlineSeconds":600,"minReadySeconds":0}`)
			case 4:
				setA(keyDepStrategy, `{"rollingStyle":"Canary"}`)
			}
		}
	}
	if annos != nil {
		md["annotations"] = annos
	}

	spec := obj{"selector": obj{"matchLabels": obj{"app": "echo"}}, "template": genTemplate(rng)}
	if k.Kind != "DaemonSet" {
		if r := genReplicas(rng); r != nil {
			spec["replicas"] = r
		}
	}
	replicas := float64(1)
	if r, ok := spec["replicas"].(float64); ok {
		replicas = r
	}
	// status: every field varies on its own (the handlers must not be fooled by readiness / availability)
	le := func(n float64) float64 { // a value in [0,n], most often n itself
		if n <= 0 || gen.Chance(rng, 55) {
			return n
		}
		return float64(rng.Intn(int(n) + 1))
	}
	stReplicas := replicas
	switch r := rng.Intn(100); {
	case r < 12:
		stReplicas = replicas + 2 // scaling down
	case r < 22 && replicas > 0:
		stReplicas = replicas - 1 // scaling up
	}
	upd := stReplicas
	if gen.Chance(rng, 32) {
		upd = le(stReplicas)
	}
	updReady, ready := le(upd), le(stReplicas)
	avail := le(ready)
	curRev, updRev := "echo-6d4b75cb6d", "echo-6d4b75cb6d"
	if (upd != stReplicas) != gen.Chance(rng, 10) { // mostly consistent with the pod counts, sometimes lagging
		updRev = "echo-7f9c6b9d8f"
	}
	var status obj
	switch k.Tag {
	case "Deployment":
		if gen.Chance(rng, 25) {
			spec["paused"] = true
		} else if gen.Chance(rng, 30) {
			spec["paused"] = false
		}
		switch r := rng.Intn(100); {
		case r < 10: // absent (not what a real API server sends; unit-test shape)
		case r < 75:
			spec["strategy"] = obj{"type": "RollingUpdate", "rollingUpdate": obj{"maxSurge": "25%", "maxUnavailable": "25%"}}
		case r < 85:
			spec["strategy"] = obj{"type": "RollingUpdate", "rollingUpdate": obj{"maxSurge": float64(1), "maxUnavailable": float64(0)}}
		default:
			spec["strategy"] = obj{"type": "Recreate"}
		}
		if gen.Chance(rng, 60) {
			spec["revisionHistoryLimit"] = float64(10)
			spec["progressDeadlineSeconds"] = float64(600)
		}
		status = obj{"replicas": stReplicas, "updatedReplicas": upd, "readyReplicas": ready, "availableReplicas": avail, "observedGeneration": float64(3)}
		if stReplicas-avail > 0 {
			status["unavailableReplicas"] = stReplicas - avail
		}
	case "CloneSet":
		switch r := rng.Intn(100); {
		case r < 10:
		case r < 18:
			spec["updateStrategy"] = obj{}
		default:
			us := obj{"type": gen.Pick(rng, "ReCreate", "InPlaceIfPossible"), "maxUnavailable": "20%", "maxSurge": float64(0)}
			switch rng.Intn(5) {
			case 0:
				us["partition"] = float64(0)
			case 1:
				us["partition"] = "20%"
			case 2:
				us["partition"] = "100%"
			case 3:
				us["partition"] = float64(2)
			}
			if gen.Chance(rng, 12) {
				us["paused"] = true
			}
			spec["updateStrategy"] = us
		}
		status = obj{"replicas": stReplicas, "updatedReplicas": upd, "readyReplicas": ready, "availableReplicas": avail, "updatedReadyReplicas": updReady,
			"observedGeneration": float64(3), "currentRevision": curRev, "updateRevision": updRev}
		if gen.Chance(rng, 50) {
			status["expectedUpdatedReplicas"] = le(stReplicas)
			status["updatedAvailableReplicas"] = le(updReady)
		}
	case "DaemonSet":
		ru := func() obj {
			o := obj{"rollingUpdateType": "Standard", "maxUnavailable": float64(1), "maxSurge": float64(0)}
			switch rng.Intn(4) {
			case 0:
				o["partition"] = float64(0)
			case 1:
				o["partition"] = float64(10)
			case 2:
				o["paused"] = false
			}
			return o
		}
		switch r := rng.Intn(100); {
		case r < 7:
		case r < 12:
			spec["updateStrategy"] = obj{}
		case r < 20:
			spec["updateStrategy"] = obj{"type": "RollingUpdate"}
		case r < 75:
			spec["updateStrategy"] = obj{"type": "RollingUpdate", "rollingUpdate": ru()}
		case r < 88:
			spec["updateStrategy"] = obj{"type": "OnDelete"}
		default:
			spec["updateStrategy"] = obj{"type": "OnDelete", "rollingUpdate": ru()}
		}
		d := []float64{0, 3, 3, 10, 10, 10}[rng.Intn(6)]
		u := d
		if gen.Chance(rng, 32) {
			u = le(d)
		}
		cur, dsReady := d, le(d)
		if gen.Chance(rng, 15) {
			cur = le(d)
		}
		dsAvail := le(dsReady)
		status = obj{"desiredNumberScheduled": d, "currentNumberScheduled": cur, "numberReady": dsReady, "numberAvailable": dsAvail, "updatedNumberScheduled": u,
			"numberMisscheduled": float64(0), "observedGeneration": float64(3), "daemonSetHash": "6d4b75cb6d"}
	case "StatefulSet", "AdvStatefulSet":
		spec["serviceName"] = "echo"
		ru := func() obj {
			o := obj{}
			switch rng.Intn(3) {
			case 0:
				o["partition"] = float64(0)
			case 1:
				o["partition"] = float64(2)
			}
			if k.Tag == "AdvStatefulSet" && gen.Chance(rng, 60) {
				o["maxUnavailable"] = "20%"
				o["podUpdatePolicy"] = "ReCreate"
			}
			return o
		}
		switch r := rng.Intn(100); {
		case r < 10:
		case r < 16:
			spec["updateStrategy"] = obj{}
		case r < 28:
			spec["updateStrategy"] = obj{"type": "RollingUpdate"}
		case r < 82:
			spec["updateStrategy"] = obj{"type": "RollingUpdate", "rollingUpdate": ru()}
		case r < 88:
			spec["updateStrategy"] = obj{"rollingUpdate": ru()}
		default:
			spec["updateStrategy"] = obj{"type": "OnDelete"}
		}
		if gen.Chance(rng, 50) {
			spec["podManagementPolicy"] = "OrderedReady"
			spec["revisionHistoryLimit"] = float64(10)
		}
		status = obj{"replicas": stReplicas, "updatedReplicas": upd, "readyReplicas": ready, "availableReplicas": avail, "currentReplicas": stReplicas - upd,
			"observedGeneration": float64(3), "currentRevision": curRev, "updateRevision": updRev}
	}
	o := obj{"apiVersion": k.APIVersion, "kind": k.Kind, "metadata": md, "spec": spec}
	if gen.Chance(rng, 92) {
		o["status"] = status
	}
	return o
}

var editNames = []string{"none", "anno", "anno-nil-empty", "label", "sel-remove", "sel-add", "image", "env", "tmpl-label", "tmpl-anno", "hash-only",
	"rid-anno", "rid-label", "scale", "scale0", "unpause", "pause", "strategy", "inprog-remove"}
var editWeights = []int{4, 8, 3, 6, 2, 2, 16, 5, 5, 4, 7, 14, 4, 4, 2, 9, 2, 6, 3}

// applyEdit mutates n (a copy of the stored object); returns the precise edit name or "" when not applicable.
func applyEdit(rng *rand.Rand, k kindInfo, name string, n obj) string {
	md := sub(n, "metadata")
	spec := sub(n, "spec")
	tmpl := sub(spec, "template")
	switch name {
	case "none":
		return "none"
	case "anno":
		a, ok := md["annotations"].(obj)
		if !ok {
			md["annotations"] = obj{"team": "b"}
			return "anno"
		}
		if _, has := a["team"]; has && gen.Chance(rng, 40) {
			delete(a, "team")
		} else {
			a["team"] = gen.Pick(rng, "b", "c")
		}
		return "anno"
	case "anno-nil-empty":
		a, present := md["annotations"]
		if !present {
			md["annotations"] = obj{}
			return "anno-nil-empty"
		}
		if m, ok := a.(obj); ok && len(m) == 0 {
			delete(md, "annotations")
			return "anno-nil-empty"
		}
		return ""
	case "label":
		l, ok := md["labels"].(obj)
		if !ok {
			md["labels"] = obj{"tier": "x"}
			return "label"
		}
		if _, has := l["tier"]; has {
			delete(l, "tier")
		} else {
			l["tier"] = "x"
		}
		return "label"
	case "sel-remove":
		l, ok := md["labels"].(obj)
		if !ok {
			return ""
		}
		if _, has := l[keySelector]; !has {
			return ""
		}
		delete(l, keySelector)
		return "sel-remove"
	case "sel-add":
		l, ok := md["labels"].(obj)
		if ok {
			if _, has := l[keySelector]; has {
				return ""
			}
		}
		ensure(md, "labels")[keySelector] = "statefulset"
		return "sel-add"
	case "image":
		c := sub(tmpl, "spec")["containers"].([]interface{})[0].(obj)
		c["image"] = "echo:v2"
		return "image"
	case "env":
		c := sub(tmpl, "spec")["containers"].([]interface{})[0].(obj)
		if _, has := c["env"]; has && gen.Chance(rng, 40) {
			delete(c, "env")
		} else {
			c["env"] = []interface{}{obj{"name": "K", "value": "2"}}
		}
		return "env"
	case "tmpl-label":
		l := ensure(tmpl, "metadata", "labels")
		if _, has := l["ver"]; has {
			delete(l, "ver")
		} else {
			l["ver"] = "2"
		}
		return "tmpl-label"
	case "tmpl-anno":
		tm := ensure(tmpl, "metadata")
		a, ok := tm["annotations"].(obj)
		if !ok || len(a) == 0 {
			tm["annotations"] = obj{"note": "b"}
		} else if gen.Chance(rng, 50) {
			a["note"] = "c"
		} else {
			a["extra"] = "1"
		}
		return "tmpl-anno"
	case "hash-only":
		l := ensure(tmpl, "metadata", "labels")
		if _, has := l[keyHash]; has && gen.Chance(rng, 50) {
			delete(l, keyHash)
		} else if has {
			l[keyHash] = "7f9c6b9d8f"
		} else {
			l[keyHash] = "5b494f7bf"
		}
		return "hash-only"
	case "rid-anno":
		a, _ := md["annotations"].(obj)
		if cur, has := a[keyRolloutID]; has {
			if gen.Chance(rng, 65) {
				a[keyRolloutID] = cur.(string) + "x"
				return "rid-anno-change"
			}
			delete(a, keyRolloutID)
			return "rid-anno-remove"
		}
		ensure(md, "annotations")[keyRolloutID] = "v2"
		return "rid-anno-set"
	case "rid-label":
		l, _ := md["labels"].(obj)
		if cur, has := l[keyRolloutID]; has {
			if gen.Chance(rng, 65) {
				l[keyRolloutID] = cur.(string) + "x"
				return "rid-label-change"
			}
			delete(l, keyRolloutID)
			return "rid-label-remove"
		}
		ensure(md, "labels")[keyRolloutID] = "v2"
		return "rid-label-set"
	case "scale":
		if k.Kind == "DaemonSet" {
			return ""
		}
		cur, _ := spec["replicas"].(float64)
		spec["replicas"] = cur + 2
		return "scale"
	case "scale0":
		if k.Kind == "DaemonSet" {
			return ""
		}
		if cur, ok := spec["replicas"].(float64); ok && cur == 0 {
			return ""
		}
		spec["replicas"] = float64(0)
		return "scale0"
	case "unpause":
		if k.Kind != "Deployment" {
			return ""
		}
		if p, _ := spec["paused"].(bool); !p {
			return ""
		}
		if gen.Chance(rng, 50) {
			spec["paused"] = false
		} else {
			delete(spec, "paused")
		}
		return "unpause"
	case "pause":
		if k.Kind != "Deployment" {
			return ""
		}
		if p, _ := spec["paused"].(bool); p {
			return ""
		}
		spec["paused"] = true
		return "pause"
	case "strategy":
		switch k.Tag {
		case "Deployment":
			st, _ := spec["strategy"].(obj)
			if st == nil {
				spec["strategy"] = obj{"type": "Recreate"}
				return "strategy"
			}
			if st["type"] == "Recreate" {
				spec["strategy"] = obj{"type": "RollingUpdate", "rollingUpdate": obj{"maxSurge": "25%", "maxUnavailable": "25%"}}
			} else if gen.Chance(rng, 50) {
				spec["strategy"] = obj{"type": "Recreate"}
			} else {
				spec["strategy"] = obj{"type": "RollingUpdate", "rollingUpdate": obj{"maxSurge": "50%", "maxUnavailable": float64(1)}}
			}
			return "strategy"
		case "CloneSet":
			us := ensure(spec, "updateStrategy")
			us["partition"] = gen.Pick(rng, "50%", "0%", "100%")
			return "strategy"
		case "DaemonSet":
			us := ensure(spec, "updateStrategy")
			if ru, ok := us["rollingUpdate"].(obj); ok {
				ru["partition"] = float64(rng.Intn(4))
				return "strategy"
			}
			return ""
		default:
			us := ensure(spec, "updateStrategy")
			if ru, ok := us["rollingUpdate"].(obj); ok {
				ru["partition"] = float64(rng.Intn(4))
				return "strategy"
			}
			return ""
		}
	case "inprog-remove":
		a, _ := md["annotations"].(obj)
		if _, has := a[keyInProgress]; !has {
			return ""
		}
		delete(a, keyInProgress)
		return "inprog-remove"
	}
	return ""
}

func pickWeighted(rng *rand.Rand, w []int) int {
	t := 0
	for _, x := range w {
		t += x
	}
	r := rng.Intn(t)
	for i, x := range w {
		if r < x {
			return i
		}
		r -= x
	}
	return len(w) - 1
}

func genRollouts(rng *rand.Rand, k kindInfo, focus bool) []roSpec {
	var n int
	switch r := rng.Intn(100); {
	case r < 12:
		n = 0
	case r < 67:
		n = 1
	case r < 90:
		n = 2
	default:
		n = 3
	}
	if focus && n == 0 {
		n = 1
	}
	names := []string{"ro-a", "ro-b", "ro-c"}
	rng.Shuffle(len(names), func(i, j int) { names[i], names[j] = names[j], names[i] })
	var out []roSpec
	for i := 0; i < n; i++ {
		r := roSpec{Name: names[i], NS: wlNS, APIVersion: k.APIVersion, Kind: k.Kind, RefName: wlName}
		pMatch := 12
		if i == 0 {
			pMatch = 78
		}
		if gen.Chance(rng, pMatch) {
			if gen.Chance(rng, 6) { // same group, other version
				r.APIVersion = k.Group + "/v1beta9"
			}
		} else {
			switch rng.Intn(4) {
			case 0:
				r.RefName = "other"
			case 1:
				r.Kind = gen.Pick(rng, "Deployment", "CloneSet", "StatefulSet", "DaemonSet")
				if r.Kind == k.Kind {
					r.RefName = "other"
				}
			case 2:
				if k.Group == "apps" {
					r.APIVersion = "apps.kruise.io/v1alpha1"
				} else {
					r.APIVersion = "apps/v1"
				}
			case 3:
				r.NS = "ns2"
			}
		}
		r.Deleting = gen.Chance(rng, 10)
		normal := gen.Pick(rng, "", "Initial", "Healthy", "Healthy", "Progressing", "Progressing")
		switch x := rng.Intn(100); {
		case x < 72:
			r.Phase = normal
		case x < 86:
			r.Disabled, r.Phase = true, "Disabled"
		case x < 93:
			r.Disabled, r.Phase = true, normal
		default:
			r.Disabled, r.Phase = false, "Disabled"
		}
		if r.Deleting && gen.Chance(rng, 60) {
			r.Phase = "Terminating"
		}
		switch x := rng.Intn(100); {
		case x < 8:
			r.Strategy = "empty"
		case x < 33:
			r.Strategy = "canary"
		case x < 75:
			r.Strategy = "partition"
		default:
			r.Strategy = "bluegreen"
			if k.Kind != "Deployment" && k.Kind != "CloneSet" { // validation refuses blue-green for the other kinds
				r.Strategy = "partition"
			}
		}
		r.TR = r.Strategy != "empty" && gen.Chance(rng, 45)
		if focus && i == 0 { // an active Rollout that references the workload exactly
			r.APIVersion, r.Kind, r.RefName, r.NS = k.APIVersion, k.Kind, wlName, wlNS
			r.Deleting, r.Disabled = false, false
			if r.Phase == "Disabled" || r.Phase == "Terminating" {
				r.Phase = "Progressing"
			}
			if r.Strategy == "empty" {
				r.Strategy = "partition"
			}
		}
		out = append(out, r)
	}
	sort.Slice(out, func(i, j int) bool { return out[i].Name < out[j].Name })
	return out
}

func (r roSpec) build() *v1beta1.Rollout {
	ro := &v1beta1.Rollout{ObjectMeta: metav1.ObjectMeta{Name: r.Name, Namespace: r.NS, UID: types.UID("uid-" + r.Name), Generation: 2}}
	ro.Spec.WorkloadRef = v1beta1.ObjectRef{APIVersion: r.APIVersion, Kind: r.Kind, Name: r.RefName}
	ro.Spec.Disabled = r.Disabled
	ro.Status.Phase = v1beta1.RolloutPhase(r.Phase)
	if r.Deleting {
		t := metav1.Unix(1700000000, 0)
		ro.DeletionTimestamp = &t
		ro.Finalizers = []string{"rollouts.kruise.io/rollout"}
	}
	p20, p100 := intstr.FromString("20%"), intstr.FromString("100%")
	steps := []v1beta1.CanaryStep{{Replicas: &p20}, {Replicas: &p100}}
	var tr []v1beta1.TrafficRoutingRef
	if r.TR {
		tr = []v1beta1.TrafficRoutingRef{{Service: "echo", GracePeriodSeconds: 3, Ingress: &v1beta1.IngressTrafficRouting{Name: "echo"}}}
		steps[0].Traffic = gen.Strp("20%")
	}
	switch r.Strategy {
	case "canary":
		ro.Spec.Strategy.Canary = &v1beta1.CanaryStrategy{Steps: steps, TrafficRoutings: tr, EnableExtraWorkloadForCanary: true}
	case "partition":
		ro.Spec.Strategy.Canary = &v1beta1.CanaryStrategy{Steps: steps, TrafficRoutings: tr}
	case "bluegreen":
		ro.Spec.Strategy.BlueGreen = &v1beta1.BlueGreenStrategy{Steps: steps, TrafficRoutings: tr}
	}
	return ro
}

func genRSs(rng *rand.Rand) []rsSpec {
	var n int
	switch r := rng.Intn(100); {
	case r < 7:
		n = 0
	case r < 55:
		n = 1
	case r < 85:
		n = 2
	default:
		n = 3
	}
	hashes := []string{"5b494f7bf", "6d4b75cb6d", "7f9c6b9d8f"}
	var out []rsSpec
	for i := 0; i < n; i++ {
		s := rsSpec{Name: "echo-" + hashes[i], Owned: !gen.Chance(rng, 8), Replicas: 3, Deleting: gen.Chance(rng, 4), Hash: hashes[i], Revision: i + 1}
		if gen.Chance(rng, 18) {
			s.Replicas = 0
		}
		s.StatusReplicas = s.Replicas
		switch r := rng.Intn(100); {
		case r < 15 && s.Replicas == 0:
			s.StatusReplicas = 2 // scaled down, pods not gone yet
		case r < 15:
			s.StatusReplicas = int32(rng.Intn(int(s.Replicas))) // scaling up
		}
		if s.StatusReplicas > 0 {
			s.ReadyReplicas = s.StatusReplicas
			if gen.Chance(rng, 40) {
				s.ReadyReplicas = int32(rng.Intn(int(s.StatusReplicas) + 1))
			}
			s.AvailReplicas = s.ReadyReplicas
			if s.ReadyReplicas > 0 && gen.Chance(rng, 30) {
				s.AvailReplicas = int32(rng.Intn(int(s.ReadyReplicas) + 1))
			}
		}
		if i < n-1 {
			s.Image = fmt.Sprintf("echo:v0.%d", i)
		}
		out = append(out, s)
	}
	return out
}

func (s rsSpec) build(oldTemplate obj) *apps.ReplicaSet {
	rs := &apps.ReplicaSet{TypeMeta: metav1.TypeMeta{APIVersion: "apps/v1", Kind: "ReplicaSet"}}
	rs.Name, rs.Namespace = s.Name, wlNS
	rs.UID = types.UID("uid-" + s.Name)
	rs.Labels = map[string]string{"app": "echo", keyHash: s.Hash}
	rs.Annotations = map[string]string{"deployment.kubernetes.io/revision": fmt.Sprint(s.Revision)}
	rs.CreationTimestamp = metav1.Unix(1690000000+int64(s.Revision)*1000, 0)
	uid := types.UID(wlUID)
	if !s.Owned {
		uid = "ffffffff-0000-4000-8000-000000000000"
	}
	t := true
	rs.OwnerReferences = []metav1.OwnerReference{{APIVersion: "apps/v1", Kind: "Deployment", Name: wlName, UID: uid, Controller: &t, BlockOwnerDeletion: &t}}
	if s.Deleting {
		d := metav1.Unix(1700000000, 0)
		rs.DeletionTimestamp = &d
		rs.Finalizers = []string{"foregroundDeletion"}
	}
	rs.Spec.Replicas = gen.I32p(s.Replicas)
	rs.Spec.Selector = &metav1.LabelSelector{MatchLabels: map[string]string{"app": "echo", keyHash: s.Hash}}
	tpl := corev1.PodTemplateSpec{}
	b, _ := json.Marshal(oldTemplate)
	_ = json.Unmarshal(b, &tpl)
	if tpl.Labels == nil {
		tpl.Labels = map[string]string{}
	}
	tpl.Labels[keyHash] = s.Hash
	if s.Image != "" && len(tpl.Spec.Containers) > 0 {
		tpl.Spec.Containers[0].Image = s.Image
	}
	rs.Spec.Template = tpl
	rs.Status.Replicas, rs.Status.ReadyReplicas, rs.Status.AvailableReplicas = s.StatusReplicas, s.ReadyReplicas, s.AvailReplicas
	return rs
}

func genCase(rng *rand.Rand, idx int) *caseIn {
	in := &caseIn{K: kinds[idx%len(kinds)]}
	focus := in.K.Kind == "Deployment" && gen.Chance(rng, 22)
	in.Rollouts = genRollouts(rng, in.K, focus)
	markNames := []string{"ro-a", "ro-b"}
	for _, r := range in.Rollouts { // bias the in-progress mark towards a Rollout that references the workload
		if r.RefName == wlName && r.Kind == in.K.Kind && r.NS == wlNS {
			markNames = []string{r.Name, r.Name, r.Name, r.Name, "ro-a", "ro-c"}
			break
		}
	}
	if focus {
		for _, r := range in.Rollouts {
			if r.RefName == wlName && r.Kind == in.K.Kind && r.NS == wlNS && r.APIVersion == in.K.APIVersion && !r.Deleting && !r.Disabled && r.Phase != "Disabled" {
				markNames = []string{r.Name}
			}
		}
	}
	in.Old = genWorkload(rng, in.K, markNames, focus)
	in.New = cp(in.Old).(obj)
	n := 1
	switch r := rng.Intn(100); {
	case r < 55:
	case r < 90:
		n = 2
	default:
		n = 3
	}
	seen := map[string]bool{}
	for tries := 0; len(in.Edits) < n && tries < 12; tries++ {
		e := editNames[pickWeighted(rng, editWeights)]
		if focus && len(in.Edits) == 0 && tries == 0 && gen.Chance(rng, 70) {
			e = gen.Pick(rng, "image", "image", "env", "tmpl-label", "tmpl-anno", "rid-anno", "rid-anno")
		}
		if seen[e] || (e == "none" && len(in.Edits) > 0) {
			continue
		}
		if got := applyEdit(rng, in.K, e, in.New); got != "" {
			seen[e] = true
			in.Edits = append(in.Edits, got)
			if got == "none" {
				break
			}
		}
	}
	if len(in.Edits) == 0 {
		in.Edits = []string{"none"}
	}
	sort.Strings(in.Edits)
	if in.K.Kind == "Deployment" {
		in.RSs = genRSs(rng)
	}
	return in
}

func (in *caseIn) editSig() string { return strings.Join(in.Edits, "+") }
