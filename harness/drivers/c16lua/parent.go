package c16lua

import (
	"bufio"
	"encoding/json"
	"fmt"
	"os"
	"os/exec"
	"strconv"
	"strings"
	"syscall"
	"time"
)

const (
	cpuBoundMs   = 10000             // the code claims a 1 s deadline; 10x slack, on CPU time (scripts that stop at the deadline but then spend 3-5 s unwinding a huge stack stay well inside on a loaded machine)
	killCPUMs    = 10500             // a running script is killed once it has consumed this much CPU (verdict: over bound)
	slowMs       = 2000              // above this and within the bound: recorded as an observation, never a verdict
	wallKill     = 60 * time.Second  // safety net only: no CPU progress of the running script for this long (blocked, not computing)
	wallCap      = 15 * time.Minute  // absolute cap per script (a machine loaded so heavily makes the run inconclusive)
	helloTimeout = 60 * time.Second  // child start-up
	memBombKB    = 512 * 1024        // time is not judged for a call during which the child's peak RSS exceeded 512 MiB (memory / nesting bomb: outside the claim)
	rssKillKB    = 6 * 1024 * 1024   // machine protection: a child above 6 GiB RSS is killed (memory bomb: outside the claim)
	straceBin    = "/usr/bin/strace" // (c2)
	straceSet    = "trace=openat,open,creat,execve,execveat,socket,connect,bind,unlink,unlinkat,rename,renameat,mkdir,fork,vfork,clone3"
)

type runOpt struct {
	Markers   bool
	StraceDir string // non-empty: run the child under strace, trace files are written here
	KillCPUMs int64  // 0 = default
}

type runOut struct {
	Results []itemResult
	Traces  []string // strace output files (one per spawned child)
}

// procStat reads CPU (ms) and peak RSS (KB) of a live process from /proc.
func procStat(pid int) (cpuMs int64, hwmKB int64, ok bool) {
	b, err := os.ReadFile(fmt.Sprintf("/proc/%d/stat", pid))
	if err != nil {
		return 0, 0, false
	}
	s := string(b)
	i := strings.LastIndex(s, ")")
	if i < 0 {
		return 0, 0, false
	}
	f := strings.Fields(s[i+1:])
	if len(f) < 13 {
		return 0, 0, false
	}
	ut, _ := strconv.ParseInt(f[11], 10, 64)
	st, _ := strconv.ParseInt(f[12], 10, 64)
	cpuMs = (ut + st) * 10 // CLK_TCK = 100
	if sb, err := os.ReadFile(fmt.Sprintf("/proc/%d/status", pid)); err == nil {
		for _, l := range strings.Split(string(sb), "\n") {
			if strings.HasPrefix(l, "VmHWM:") {
				ff := strings.Fields(l)
				if len(ff) >= 2 {
					hwmKB, _ = strconv.ParseInt(ff[1], 10, 64)
				}
			}
		}
	}
	return cpuMs, hwmKB, true
}

// runItems executes the items in order in child processes; a child that dies or is killed is blamed on the
// item it was running and a fresh child continues with the next item.
func runItems(items []item, opt runOpt) runOut {
	out := runOut{Results: make([]itemResult, len(items))}
	next := 0
	for next < len(items) {
		n, trace := runChildOnce(items[next:], out.Results[next:], next, opt)
		if trace != "" {
			out.Traces = append(out.Traces, trace)
		}
		if n <= 0 {
			n = 1
		}
		next += n
	}
	return out
}

func runChildOnce(items []item, res []itemResult, base int, opt runOpt) (consumed int, trace string) {
	exe, err := os.Executable()
	if err != nil {
		res[0] = itemResult{Kind: "nochild", Err: err.Error()}
		return 1, ""
	}
	jf, err := os.CreateTemp("", "c16job-*.json")
	if err != nil {
		res[0] = itemResult{Kind: "nochild", Err: err.Error()}
		return 1, ""
	}
	defer os.Remove(jf.Name())
	jb, _ := json.Marshal(job{Items: items, Markers: opt.Markers, Base: base})
	jf.Write(jb)
	jf.Close()
	ef, err := os.CreateTemp("", "c16err-*.txt")
	if err != nil {
		res[0] = itemResult{Kind: "nochild", Err: err.Error()}
		return 1, ""
	}
	defer os.Remove(ef.Name())
	defer ef.Close()
	pr, pw, err := os.Pipe()
	if err != nil {
		res[0] = itemResult{Kind: "nochild", Err: err.Error()}
		return 1, ""
	}
	defer pr.Close()
	var cmd *exec.Cmd
	if opt.StraceDir != "" {
		trace = fmt.Sprintf("%s/trace-%d.txt", opt.StraceDir, base)
		cmd = exec.Command(straceBin, "-f", "-e", straceSet, "-o", trace, exe)
	} else {
		cmd = exec.Command(exe)
	}
	cmd.Env = append(os.Environ(), envChild+"=1", envJob+"="+jf.Name(), "GOMAXPROCS=1", "GOTRACEBACK=single")
	cmd.Stdin, cmd.Stdout, cmd.Stderr = nil, nil, ef
	cmd.Dir = os.TempDir() // no ./lua_configuration there: pkg/util's init() stays quiet and cheap; Lua execution does not depend on cwd
	cmd.ExtraFiles = []*os.File{pw}
	cmd.SysProcAttr = &syscall.SysProcAttr{Setpgid: true}
	if err := cmd.Start(); err != nil {
		pw.Close()
		res[0] = itemResult{Kind: "nochild", Err: err.Error()}
		return 1, trace
	}
	pw.Close()
	killAll := func() {
		_ = syscall.Kill(-cmd.Process.Pid, syscall.SIGKILL)
		_ = cmd.Process.Kill()
	}
	events := make(chan childEvent, 64)
	go func() {
		sc := bufio.NewScanner(pr)
		sc.Buffer(make([]byte, 1<<20), 64<<20)
		for sc.Scan() {
			var ev childEvent
			if json.Unmarshal(sc.Bytes(), &ev) == nil {
				events <- ev
			}
		}
		close(events)
	}()
	killCPU := opt.KillCPUMs
	if killCPU == 0 {
		killCPU = killCPUMs
	}
	childPid := 0
	cur, completed := -1, 0
	var cpuAtStart, lastCPU, lastHWM, hwmAtStart int64
	var startWall, lastProgress time.Time
	spawned := time.Now()
	killReason := ""
	bye, recycle := false, false
	tick := time.NewTicker(50 * time.Millisecond)
	defer tick.Stop()
loop:
	for {
		select {
		case ev, ok := <-events:
			if !ok {
				break loop
			}
			switch {
			case ev.Hello != nil:
				childPid = *ev.Hello
			case ev.Start != nil:
				cur, cpuAtStart, startWall, lastCPU, lastProgress = *ev.Start, ev.CPUms, time.Now(), ev.CPUms, time.Now()
				if _, hwm, ok := procStat(childPid); ok {
					hwmAtStart, lastHWM = hwm, hwm
				}
			case ev.Done != nil:
				if ev.Idx < len(res) {
					res[ev.Idx] = *ev.Done
				}
				cur = -1
				completed = ev.Idx + 1
			case ev.Bye:
				bye = true
			case ev.Recycle:
				recycle = true
			}
		case <-tick.C:
			if killReason != "" {
				continue
			}
			if childPid == 0 {
				if time.Since(spawned) > helloTimeout {
					killReason = "hello"
					killAll()
				}
				continue
			}
			if cur >= 0 {
				if cpu, hwm, ok := procStat(childPid); ok {
					if cpu > lastCPU {
						lastProgress = time.Now()
					}
					lastCPU, lastHWM = cpu, hwm
				}
				if lastCPU-cpuAtStart > killCPU {
					killReason = "cpu"
					killAll()
				} else if lastHWM > rssKillKB {
					killReason = "rss"
					killAll()
				} else if time.Since(lastProgress) > wallKill || time.Since(startWall) > wallCap {
					killReason = "wall"
					killAll()
				}
			}
		}
	}
	werr := cmd.Wait()
	if opt.StraceDir != "" && childPid > 0 {
		_ = syscall.Kill(childPid, syscall.SIGKILL) // a tracee may survive a killed strace
	}
	exitErr := ""
	if werr != nil {
		exitErr = werr.Error()
	}
	var totalCPU, maxRSS int64
	if cmd.ProcessState != nil {
		if ru, ok := cmd.ProcessState.SysUsage().(*syscall.Rusage); ok && ru != nil && opt.StraceDir == "" {
			totalCPU = (ru.Utime.Sec+ru.Stime.Sec)*1000 + int64(ru.Utime.Usec+ru.Stime.Usec)/1000
			maxRSS = ru.Maxrss
		}
	}
	if cur >= 0 && cur < len(res) {
		r := itemResult{ExitErr: exitErr, RSS0KB: hwmAtStart}
		r.CPUms = lastCPU - cpuAtStart
		if totalCPU-cpuAtStart > r.CPUms {
			r.CPUms = totalCPU - cpuAtStart
		}
		r.RSS1KB = lastHWM
		if maxRSS > r.RSS1KB {
			r.RSS1KB = maxRSS
		}
		r.WallMs = time.Since(startWall).Milliseconds()
		switch killReason {
		case "cpu":
			r.Kind = "killed-cpu"
		case "wall":
			r.Kind = "killed-wall"
		case "rss":
			r.Kind = "killed-rss"
		default:
			r.Kind = "death"
			eb, _ := os.ReadFile(ef.Name())
			full := dropKlog(string(eb))
			r.Site = deathSite(full)
			r.Stderr = headTail(full, 3000, 1500)
		}
		res[cur] = r
		return cur + 1, trace
	}
	if completed >= len(res) && (bye || exitErr == "") {
		return len(res), trace
	}
	if recycle && completed > 0 {
		return completed, trace
	}
	// the child ended outside any script (start-up failure / harness trouble): not a verdict about Lua
	eb, _ := os.ReadFile(ef.Name())
	if completed < len(res) {
		res[completed] = itemResult{Kind: "nochild", Err: "child ended outside a script: " + exitErr + " reason=" + killReason, Stderr: headTail(string(eb), 2000, 1000)}
		return completed + 1, trace
	}
	return len(res), trace
}

// dropKlog removes klog lines (package init() chatter) from a child's stderr.
func dropKlog(s string) string {
	var keep []string
	for _, l := range strings.Split(s, "\n") {
		if len(l) > 6 && strings.ContainsRune("IWEF", rune(l[0])) && l[1] >= '0' && l[1] <= '9' && l[2] >= '0' && l[2] <= '9' && l[3] >= '0' && l[3] <= '9' && l[4] >= '0' && l[4] <= '9' && l[5] == ' ' {
			continue
		}
		keep = append(keep, l)
	}
	return strings.Join(keep, "\n")
}

func headTail(s string, h, t int) string {
	if len(s) <= h+t {
		return s
	}
	return s[:h] + "\n…\n" + s[len(s)-t:]
}

// deathSite names the frame a fatal-error trace is blamed on (function name only): a rollouts frame among the
// first frames of the crashing goroutine if there is one, else the first gopher-lua frame.
func deathSite(stderr string) string {
	var frames []string
	for _, l := range strings.Split(stderr, "\n") {
		if strings.HasPrefix(l, "github.com/yuin/gopher-lua") || strings.HasPrefix(l, "github.com/openkruise/rollouts/") || strings.HasPrefix(l, "encoding/json.") {
			fn := l
			if i := strings.LastIndex(fn, "("); i > 0 {
				fn = fn[:i]
			}
			frames = append(frames, fn)
			if len(frames) >= 16 {
				break
			}
		}
	}
	first := "unknown"
	for _, fn := range frames {
		if strings.HasPrefix(fn, "github.com/openkruise/rollouts/") {
			return strings.TrimPrefix(fn, "github.com/openkruise/rollouts/")
		}
		if first == "unknown" && strings.HasPrefix(fn, "github.com/yuin/") {
			first = strings.TrimPrefix(fn, "github.com/yuin/")
		}
	}
	return first
}

func firstFatal(stderr string) string {
	for _, l := range strings.Split(stderr, "\n") {
		if strings.HasPrefix(l, "fatal error:") || strings.HasPrefix(l, "panic:") || strings.HasPrefix(l, "runtime:") || strings.Contains(l, "SIGSEGV") {
			return strings.TrimSpace(l)
		}
	}
	ls := strings.Split(strings.TrimSpace(stderr), "\n")
	if len(ls) > 0 && ls[0] != "" {
		return strings.TrimSpace(ls[0])
	}
	return "no output"
}
