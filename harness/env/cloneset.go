package env

import (
	"fmt"
	"sort"
	"strings"

	kruisev1alpha1 "github.com/openkruise/kruise-api/apps/v1alpha1"
	apps "k8s.io/api/apps/v1"
	corev1 "k8s.io/api/core/v1"
	metav1 "k8s.io/apimachinery/pkg/apis/meta/v1"
	"k8s.io/apimachinery/pkg/util/intstr"

	"github.com/openkruise/rollouts/pkg/util"
)

// ---- Kruise CloneSet controller (recreate-update model) ----------------------------------------

func csRevision(cs *kruisev1alpha1.CloneSet) string {
	return cs.Name + "-" + util.ComputeHash(&cs.Spec.Template, nil)
}

func shortHash(rev string) string { return rev[strings.LastIndex(rev, "-")+1:] }

func (e *Env) stepCloneSets() string {
	l := &kruisev1alpha1.CloneSetList{}
	must(e.C.List(ctx(), l))
	for i := range l.Items {
		if a := e.syncCloneSet(&l.Items[i]); a != "" {
			return a
		}
	}
	return ""
}

func (e *Env) syncCloneSet(cs *kruisev1alpha1.CloneSet) string {
	if cs.DeletionTimestamp != nil {
		return ""
	}
	update := csRevision(cs)
	current := cs.Status.CurrentRevision
	if current == "" {
		current = update
	}
	R := int32(1)
	if cs.Spec.Replicas != nil {
		R = *cs.Spec.Replicas
	}
	pods := e.podsOf(cs.Namespace, cs)
	var olds, news []*corev1.Pod
	for _, p := range pods {
		if p.Labels[apps.ControllerRevisionHashLabelKey] == update {
			news = append(news, p)
		} else {
			olds = append(olds, p)
		}
	}
	T := int32(len(pods))
	P := int32(0)
	if cs.Spec.UpdateStrategy.Partition != nil {
		n, _ := intstr.GetScaledValueFromIntOrPercent(cs.Spec.UpdateStrategy.Partition, int(R), true)
		P = int32(n)
	}
	if P > R {
		P = R
	}
	if P < 0 {
		P = 0 // (the API server's validation of a real CloneSet rejects a negative partition; the model tolerates it)
	}
	S := int32(0)
	if cs.Spec.UpdateStrategy.MaxSurge != nil {
		n, _ := intstr.GetScaledValueFromIntOrPercent(cs.Spec.UpdateStrategy.MaxSurge, int(R), true)
		S = int32(n)
	}
	MU := resolve(cs.Spec.UpdateStrategy.MaxUnavailable, "20%", int(R), true)
	if cs.Spec.UpdateStrategy.MaxUnavailable == nil && MU < 1 {
		MU = 1
	}
	minReady := cs.Spec.MinReadySeconds
	isAvail := func(p *corev1.Pod) bool { return podReady(p) && available(minReady) }
	var unavailableNow int32
	for _, p := range pods {
		if !isAvail(p) {
			unavailableNow++
		}
	}
	// A real controller writes the status at the end of every sync, i.e. also between two pod actions: in half of the
	// steps (by the scheduler's pick) the status is brought up to date first, in the other half the next pod action comes
	// first and the status lags - both orders happen in a cluster.
	writeStatus := func() bool {
		st := cs.Status.DeepCopy()
		st.ObservedGeneration = cs.Generation
		st.Replicas = T
		st.ReadyReplicas, st.AvailableReplicas, st.UpdatedReplicas, st.UpdatedReadyReplicas = 0, 0, int32(len(news)), 0
		for _, p := range pods {
			if podReady(p) {
				st.ReadyReplicas++
			}
			if isAvail(p) {
				st.AvailableReplicas++
			}
		}
		for _, p := range news {
			if podReady(p) {
				st.UpdatedReadyReplicas++
			}
		}
		st.UpdateRevision = update
		st.CurrentRevision = current
		st.ExpectedUpdatedReplicas = R - P
		if len(olds) == 0 && T == R && st.UpdatedReadyReplicas == R || R == 0 && T == 0 {
			st.CurrentRevision = update
		}
		st.LabelSelector = metav1.FormatLabelSelector(cs.Spec.Selector)
		if fmt.Sprint(*st) != fmt.Sprint(cs.Status) {
			cs.Status = *st
			must(e.C.Status().Update(ctx(), cs))
			return true
		}
		return false
	}
	if e.pick%2 == 1 && writeStatus() {
		return "cs-status"
	}
	updating := int32(len(olds)) > P && !cs.Spec.UpdateStrategy.Paused
	allowedTotal := R
	if updating {
		allowedTotal = R + S
	}
	mkPod := func(rev string, tmpl *corev1.PodTemplateSpec) {
		labels := map[string]string{}
		for k, v := range tmpl.Labels {
			labels[k] = v
		}
		labels[apps.ControllerRevisionHashLabelKey] = rev
		labels[apps.DefaultDeploymentUniqueLabelKey] = shortHash(rev)
		p := e.newPod(cs.Namespace, cs.Name, labels, tmpl.Spec, *metav1.NewControllerRef(cs, kruisev1alpha1.SchemeGroupVersion.WithKind("CloneSet")), "")
		for k, v := range tmpl.Annotations {
			p.Annotations[k] = v
		}
		must(e.C.Create(ctx(), p))
	}
	// 1. scale out
	if T < R || (updating && T < allowedTotal) {
		rev := update
		if int32(len(olds)) < P && T < R && current != update && len(olds) > 0 {
			// keep the reserved share on the old revision: re-create from an existing old pod's template
			rev = olds[0].Labels[apps.ControllerRevisionHashLabelKey]
			tmpl := &corev1.PodTemplateSpec{ObjectMeta: metav1.ObjectMeta{Labels: map[string]string{}}, Spec: olds[0].Spec}
			for k, v := range olds[0].Labels {
				if k != apps.ControllerRevisionHashLabelKey && k != apps.DefaultDeploymentUniqueLabelKey && !strings.HasPrefix(k, "rollouts.kruise.io/") {
					tmpl.Labels[k] = v
				}
			}
			mkPod(rev, tmpl)
			return "cs-create-old-pod"
		}
		mkPod(rev, &cs.Spec.Template)
		return "cs-create-pod"
	}
	// 2. scale in: more pods than replicas + surge; the surge is room for new-revision pods, old-revision pods beyond the
	// replica count are surplus whatever the surge says (a user's scale-down in the middle of a surging update)
	if T > allowedTotal || int32(len(olds)) > R {
		var victim *corev1.Pod
		for _, p := range pods {
			if !podReady(p) {
				victim = p
				break
			}
		}
		if victim == nil {
			if int32(len(olds)) > P {
				victim = olds[len(olds)-1]
			} else if len(news) > 0 {
				victim = news[len(news)-1]
			} else {
				victim = pods[len(pods)-1]
			}
		}
		must(e.C.Delete(ctx(), victim))
		return "cs-delete-pod"
	}
	// 3. update: recreate one old pod within the unavailability budget
	if updating && unavailableNow < MU {
		// kruise's default update order (kubecontroller.ActivePods): not-ready pods first, then the youngest
		sort.SliceStable(olds, func(i, j int) bool {
			if podReady(olds[i]) != podReady(olds[j]) {
				return !podReady(olds[i])
			}
			ti, tj := olds[i].CreationTimestamp, olds[j].CreationTimestamp
			if !ti.Equal(&tj) {
				return tj.Before(&ti)
			}
			return olds[i].Name > olds[j].Name
		})
		must(e.C.Delete(ctx(), olds[0]))
		return "cs-recreate-old-pod"
	}
	// 4. status
	if writeStatus() {
		return "cs-status"
	}
	return ""
}
