package sim

import (
	"context"
	"fmt"

	kruisev1alpha1 "github.com/openkruise/kruise-api/apps/v1alpha1"
	kruisev1beta1 "github.com/openkruise/kruise-api/apps/v1beta1"
	apps "k8s.io/api/apps/v1"
	metav1 "k8s.io/apimachinery/pkg/apis/meta/v1"
	utilpointer "k8s.io/utils/pointer"
	"sigs.k8s.io/controller-runtime/pkg/client"

	"verif/harness/env"
)

func (s *Scenario) installOtherWorkload(w *World) error {
	switch s.Kind {
	case "statefulset":
		sts := &apps.StatefulSet{ObjectMeta: metav1.ObjectMeta{Name: s.Name, Namespace: s.NS, Labels: map[string]string{"app": s.Name}},
			Spec: apps.StatefulSetSpec{Replicas: utilpointer.Int32(s.Replicas), ServiceName: s.SvcName(),
				Selector: &metav1.LabelSelector{MatchLabels: map[string]string{"app": s.Name}}, Template: podTemplate(s.Name, "v1"),
				PodManagementPolicy: apps.OrderedReadyPodManagement,
				UpdateStrategy:      apps.StatefulSetUpdateStrategy{Type: apps.RollingUpdateStatefulSetStrategyType}}}
		return w.Store.As("user").Create(context.TODO(), sts)
	case "advstatefulset":
		sts := &kruisev1beta1.StatefulSet{ObjectMeta: metav1.ObjectMeta{Name: s.Name, Namespace: s.NS, Labels: map[string]string{"app": s.Name}},
			Spec: kruisev1beta1.StatefulSetSpec{Replicas: utilpointer.Int32(s.Replicas), ServiceName: s.SvcName(),
				Selector: &metav1.LabelSelector{MatchLabels: map[string]string{"app": s.Name}}, Template: podTemplate(s.Name, "v1"),
				PodManagementPolicy: apps.OrderedReadyPodManagement,
				UpdateStrategy:      kruisev1beta1.StatefulSetUpdateStrategy{Type: apps.RollingUpdateStatefulSetStrategyType}}}
		return w.Store.As("user").Create(context.TODO(), sts)
	case "daemonset":
		// one pod per node: the scenario's replica count is the node count of the simulated cluster
		w.Env.Nodes = int(s.Replicas)
		ds := &kruisev1alpha1.DaemonSet{ObjectMeta: metav1.ObjectMeta{Name: s.Name, Namespace: s.NS, Labels: map[string]string{"app": s.Name},
			Annotations: map[string]string{env.NodesAnnotation: fmt.Sprint(s.Replicas)}},
			Spec: kruisev1alpha1.DaemonSetSpec{Selector: &metav1.LabelSelector{MatchLabels: map[string]string{"app": s.Name}}, Template: podTemplate(s.Name, "v1"),
				UpdateStrategy: kruisev1alpha1.DaemonSetUpdateStrategy{Type: kruisev1alpha1.RollingUpdateDaemonSetStrategyType}}}
		return w.Store.As("user").Create(context.TODO(), ds)
	}
	return fmt.Errorf("workload kind %q not modelled yet", s.Kind)
}

func (s *Scenario) otherWorkloadObject() client.Object {
	if s.Kind == "statefulset" {
		return &apps.StatefulSet{}
	}
	if s.Kind == "advstatefulset" {
		return &kruisev1beta1.StatefulSet{}
	}
	if s.Kind == "daemonset" {
		return &kruisev1alpha1.DaemonSet{}
	}
	return nil
}

func (s *Scenario) setOtherTemplate(obj client.Object, v string) {
	if o, ok := obj.(*apps.StatefulSet); ok {
		o.Spec.Template.Spec.Containers[0].Image = "img:" + v
	}
	if o, ok := obj.(*kruisev1beta1.StatefulSet); ok {
		o.Spec.Template.Spec.Containers[0].Image = "img:" + v
	}
	if o, ok := obj.(*kruisev1alpha1.DaemonSet); ok {
		o.Spec.Template.Spec.Containers[0].Image = "img:" + v
	}
}
