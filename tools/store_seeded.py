#!/usr/bin/env python3
"""store_seeded.py <mut-out dir> <confirm log> [<eval log> ...]

Copies the seeded changes that were confirmed (demo passes clean, fails with the patch, repo suite passes with the patch)
into /verif/seeded/<PROP>-<V>/ as patch.diff, demo_test.go, demo.md and meta.json. meta.json records the property, what the
change does, what it needs to manifest, what the author ran, what was run here to confirm it, and which /verif checks were
run against it with which outcome (from the eval logs written by tools/eval_mutant.sh)."""
import json, os, re, shutil, sys

args = [a for a in sys.argv[1:] if not a.startswith('--')]
# --rename A=C,B=D stores variant A of the source directory as <PROP>-C (a second, independent sample of changes)
rename = {}
for a in sys.argv[1:]:
    if a.startswith('--rename='):
        for kv in a[len('--rename='):].split(','):
            k, v = kv.split('=')
            rename[k] = v
src, confirm = args[0], args[1]
evals = args[2:]
dst_root = '/verif/seeded'
conf = {}
for l in open(confirm):
    m = re.match(r'CONFIRM (C\d+)\.([AB]) .*demo-clean-exit=(-?\d+).*demo-mutant-exit=(-?\d+).*suite-with-mutant-exit=(-?\d+)', l)
    if m:
        conf[(m.group(1), m.group(2))] = (int(m.group(3)), int(m.group(4)), int(m.group(5)), l.strip())
checks = {}
for e in evals:
    for l in open(e):
        m = re.match(r'CHECK (C\d+)\.([AB]) (C\d+) exit=(\d+) (\d+) violations:(.*)', l)
        if m:
            checks.setdefault((m.group(1), m.group(2)), {})[m.group(3)] = {'exit': int(m.group(4)), 'violations': int(m.group(5)), 'fingerprints': m.group(6).split()}
n = 0
for prop in sorted(os.listdir(src)):
    d = os.path.join(src, prop)
    if not re.match(r'C\d+$', prop) or not os.path.isdir(d):
        continue
    meta_all = {}
    mp = os.path.join(d, 'meta.json')
    if os.path.exists(mp):
        try:
            meta_all = json.load(open(mp))
        except Exception:
            meta_all = {}
    for v in 'AB':
        c = conf.get((prop, v))
        if not c or c[0] != 0 or c[1] == 0 or c[2] != 0:
            print('skip (not confirmed)', prop, v, c)
            continue
        out = os.path.join(dst_root, f'{prop}-{rename.get(v, v)}')
        os.makedirs(out, exist_ok=True)
        shutil.copy(os.path.join(d, f'{v}.patch.diff'), os.path.join(out, 'patch.diff'))
        for f in os.listdir(d):
            if f.startswith(f'{v}.demo') and f.endswith('.go'):
                shutil.copy(os.path.join(d, f), os.path.join(out, 'demo_test.go'))
            if f == f'{v}.demo.md':
                shutil.copy(os.path.join(d, f), os.path.join(out, 'demo.md'))
        am = meta_all.get(v, meta_all if 'what' in meta_all else {})
        meta = {
            'property': prop,
            'variant': rename.get(v, v),
            'sample': 2 if rename else 1,
            'what': am.get('what'),
            'needs_to_manifest': am.get('needs'),
            'files': am.get('files'),
            'author_ran': am.get('ran'),
            'confirmed_here': {
                'how': 'tools/confirm_mutant.sh: scratch worktree of /repo HEAD; demo copied into the package; go test -run MutDemo on the clean tree, then git apply patch.diff and the same command; then go build ./... && go test ./pkg/... ./api/... with the patch and without the demo; worktree removed',
                'demo_exit_clean_tree': c[0], 'demo_exit_with_patch': c[1], 'repo_suite_exit_with_patch': c[2],
            },
            'checks_run_against_it': checks.get((prop, v), {}),
        }
        json.dump(meta, open(os.path.join(out, 'meta.json'), 'w'), indent=1)
        n += 1
print('stored', n)
