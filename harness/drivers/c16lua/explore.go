package c16lua

import (
	"encoding/json"
	"fmt"
	"os"
	"strconv"
)

// exploreMain: C16LUA_EXPLORE=<file.lua> [C16LUA_FLAVOUR=raw|ingress|custom] [C16LUA_KILLCPU=ms] <binary>
// runs one script the way the check does (child process, CPU watchdog) and prints the result; used to
// minimise findings by hand.
func exploreMain(file string) {
	b, err := os.ReadFile(file)
	if err != nil {
		fmt.Fprintln(os.Stderr, err)
		os.Exit(2)
	}
	fl := os.Getenv("C16LUA_FLAVOUR")
	if fl == "" {
		fl = "raw"
	}
	opt := runOpt{}
	if v, err := strconv.Atoi(os.Getenv("C16LUA_KILLCPU")); err == nil {
		opt.KillCPUMs = int64(v)
	}
	out := runItems([]item{{Cat: "explore", Name: file, Script: string(b), Input: ingressInputJSON(), Flavour: fl}}, opt)
	r := out.Results[0]
	if len(r.JSON) > 600 {
		r.JSON = r.JSON[:600] + "…"
	}
	jb, _ := json.MarshalIndent(r, "", " ")
	fmt.Println(string(jb))
}
