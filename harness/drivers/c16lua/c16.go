package c16lua

import "os"

func init() {
	if os.Getenv(envChild) != "" {
		childMain()
		os.Exit(0)
	}
	if f := os.Getenv("C16LUA_EXPLORE"); f != "" {
		exploreMain(f)
		os.Exit(0)
	}
}
