// Package compose registers the properties that are decided by several engines together: the closed loop (E1)
// plus component drivers (E2). Case indices are split into consecutive segments, one per engine.
package compose

import (
	"fmt"
	"strings"

	"verif/harness/core"
	"verif/harness/drivers/c01arith"
	"verif/harness/drivers/c09validate"
	"verif/harness/drivers/c13gateway"
	"verif/harness/drivers/c14ingress"
	"verif/harness/drivers/c15custom"
	"verif/harness/drivers/e1"
)

type segment struct {
	name string
	n    func(env *core.Env) int
	run  func(env *core.Env, idx int) *core.CaseResult
}

func register(id, level, rule, relevant string, assumptions []string, segs []segment) {
	total := func(env *core.Env) int {
		t := 0
		for _, s := range segs {
			t += s.n(env)
		}
		return t
	}
	core.Register(&core.Check{
		ID: id, Level: level, Rule: rule, Assumptions: assumptions, Relevant: relevant, ChunkSize: 1,
		NumCases: total,
		RunCase: func(env *core.Env, idx int) *core.CaseResult {
			off := 0
			for _, s := range segs {
				n := s.n(env)
				if idx < off+n {
					res := s.run(env, idx-off)
					if res == nil {
						res = &core.CaseResult{}
					}
					res.Count("cases_"+s.name, 1)
					for i := range res.Sigs {
						res.Sigs[i] = s.name + ":" + res.Sigs[i]
					}
					return res
				}
				off += n
			}
			return &core.CaseResult{Inconclusive: fmt.Sprintf("index %d outside all segments", idx)}
		},
	})
}

func e1seg(prop string) segment {
	sp := e1.Specs[prop]
	return segment{name: "closedloop", n: func(env *core.Env) int {
		if env.Thorough() {
			return sp.Thorough
		}
		return sp.Quick
	}, run: e1.ClosedLoopCase(prop)}
}

// keepPrefix keeps only violations whose fingerprint has (or has not) one of the prefixes.
func keepPrefix(res *core.CaseResult, keep bool, prefixes ...string) *core.CaseResult {
	if res == nil {
		return nil
	}
	var out []core.Violation
	for _, v := range res.Violations {
		has := false
		for _, p := range prefixes {
			if strings.HasPrefix(v.Fingerprint, p) {
				has = true
			}
		}
		if has == keep {
			out = append(out, v)
		}
	}
	res.Violations = out
	return res
}

func init() {
	c07 := e1.Specs["C07"]
	register("C07", "exploration",
		c07.Rule+" PLUS provider fixed points: the gateway / ingress / custom-Lua drivers re-apply every step after EnsureRoutes first reports done and require done again with zero effective writes, and done within 3 calls; PLUS target-vs-readiness arithmetic: for every control, replicas and step in the enumerated domain the exposure the written knob restores must satisfy the real IsBatchReady.",
		"cases_closedloop", c07.Assumptions,
		[]segment{
			e1seg("C07"),
			{name: "gateway", n: c13gateway.NumCases, run: func(env *core.Env, i int) *core.CaseResult { return c13gateway.RunCase(env, i, "C07") }},
			{name: "ingress", n: c14ingress.NumCases, run: func(env *core.Env, i int) *core.CaseResult { return c14ingress.RunCase(env, i, "C07") }},
			{name: "custom", n: c15custom.NumCases, run: func(env *core.Env, i int) *core.CaseResult { return c15custom.RunCase(env, i, "C07") }},
			{name: "arith", n: c01arith.NumCases, run: func(env *core.Env, i int) *core.CaseResult {
				return keepPrefix(c01arith.RunCase(env, i), true, "c07e:")
			}},
		})

	c09 := e1.Specs["C09"]
	register("C09", "exploration",
		c09.Rule+" PLUS admission: generated v1beta1 / v1alpha1 Rollouts (all optional blocks, garbage replicas / traffic strings, every workload kind) as CREATE / UPDATE requests to the real validating handler over a store with other Rollouts; no handler panic, structural promises on every accepted object, accepted workload kinds probed through the real ControllerFinder.",
		"cases_closedloop", c09.Assumptions,
		[]segment{
			e1seg("C09"),
			{name: "admission", n: c09validate.NumCases, run: c09validate.RunCase},
		})

	c01 := e1.Specs["C01"]
	register("C01", "exploration",
		c01.Rule+" PLUS arithmetic: for each of the seven BatchRelease controls, every replicas in 0..R and every canaryReplicas in {0..R+2} U {0%..100%} the real CalculateBatchContext + UpgradeBatch run against a recording client and the written knob is interpreted independently (bound and monotonicity).",
		"cases_closedloop", c01.Assumptions,
		[]segment{
			e1seg("C01"),
			{name: "arith", n: c01arith.NumCases, run: func(env *core.Env, i int) *core.CaseResult {
				return keepPrefix(c01arith.RunCase(env, i), false, "c07e:")
			}},
		})
}
