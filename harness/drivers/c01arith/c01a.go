// Package c01arith is the ARITHMETIC half of C01 (pod exposure never exceeds the step; the knob never moves back) and
// clause (e) of C07 (the update target the controller sets suffices for its own readiness criterion).
//
// Monitor: for every control (CloneSet / StatefulSet / Advanced StatefulSet-unordered / DaemonSet / Deployment partition-style,
// Deployment canary-style, CloneSet / Deployment blue-green) the REAL control plane (Initialize -> UpgradeBatch ->
// EnsureBatchPodsReadyAndLabeled, i.e. BuildController + CalculateBatchContext + UpgradeBatch + IsBatchReady) runs against a
// controller-runtime fake client behind a write-recording interposer; the workload object is read back and judged with the
// exposure()/planned() interpreters of interp.go.
//
// Violations carry the prefix "c01:" (bound / monotone / panic) or "c07e:" (sufficiency) so that the composing check can
// filter them.
package c01arith

import (
	"fmt"
	"math/rand"
	"runtime/debug"

	"k8s.io/apimachinery/pkg/util/intstr"
	"k8s.io/utils/pointer"
	"sigs.k8s.io/controller-runtime/pkg/client"

	"verif/harness/core"
	"verif/harness/gen"
)

const (
	quickR    = 120
	thoroughR = 1000
)

func maxR(env *core.Env) int {
	if env.Thorough() {
		return thoroughR
	}
	return quickR
}

// NumCases: one case per (control, replicas).
func NumCases(env *core.Env) int { return numTargets * (maxR(env) + 1) }

func init() {
	core.Register(&core.Check{
		ID:    "C01A",
		Level: "exploration",
		Rule: "one case = (control, replicas); controls = the 7 batch-release controls (the StatefulSet control twice: native ordered and Advanced-StatefulSet unordered). " +
			"Inside a case every step in {0..R+2} U {0%..100%} is judged from the state the control's real Initialize leaves (fresh); in the same world two follow-up batches are then run and judged, " +
			"each in a relation to its predecessor (higher / equal / lower, same or other int-percent form) that rotates with (replicas + step index + seed), the workload being settled at the knob's level in between; " +
			"plan length 1-4 and the position of the judged batch rotate too (including a plan that grows by edits). For the controls that read no-need-update pods a second world per step runs the step and one follow-up " +
			"in a rollback-in-batches state (NoNeedUpdateReplicas in {1, ceil(r/3), r-1}, rotating). " +
			"quick: R=120 - the fresh-state domain control x replicas 0..120 x step is enumerated completely (8 x 121 x 224 = 216,832 calls; exhaustive), follow-ups and rollback states are the rotating sample on top; " +
			"thorough: replicas 0..1000, all percents, all int steps for replicas<=120 and boundary + 150 sampled int steps above. " +
			"non-trivial = the real UpgradeBatch ran on replicas>0; distinct = (control, replicas bucket, int/percent, raise/no-op/lower-attempt, rollback).",
		Assumptions: []string{
			"C01 bound is asserted on calls that RAISE exposure: exposure(after) - planned(step, replicas) < replicas/100 for percent steps, <= 0 for int steps (the documented percent->integer slack)",
			"C01 monotone: one UpgradeBatch never leaves exposure lower than it found it, whatever the start state (knob beyond the step after a plan edit / non-monotone plan / mixed int-percent plan)",
			"in rollback-in-batches states (NoNeedUpdateReplicas set) only monotone, no-panic and C07e are asserted (DESIGN C01: 'pods on the new revision' is not defined against the plan there)",
			"exposure: CloneSet replicas - kept(partition) with Kruise rounding (percent rounds up; <100% on >1 replicas keeps at most replicas-1); StatefulSet replicas - partition; DaemonSet desiredNumberScheduled - partition; " +
				"partition-style Deployment from the strategy annotation (int -> min(p,replicas); percent -> ceil, capped at replicas-1 unless 100% or replicas<=1); canary Deployment spec.replicas; " +
				"blue-green min(resolved maxSurge rounded up, replicas), 0 while paused / partition 100%",
			"C07e environment: after UpgradeBatch the workload controller does exactly what the knob asks: updated = exposure(after), all ready (rollback states: plus the no-need-update pods not covered by it; ordered StatefulSet: those are the lowest ordinals); " +
				"then the real EnsureBatchPodsReadyAndLabeled (real CalculateBatchContext + IsBatchReady) must return nil",
			"rollout-id empty and failureThreshold nil (batch labels are C12's subject); StatefulSet/DaemonSet pods are synthesised by the interposer (updated+ready ones only)",
			"within one world only the first failing call is reported per oracle prefix (c01 / c07e); a C07e failure of a follow-up call is classified by a fresh-state probe of the same step: target-short (fails from fresh too) vs stale-knob-kept (the control kept an earlier, insufficient knob); C07e fingerprints carry the input class int / pct-le100 / pct-gt100",
		},
		NumCases:  NumCases,
		ChunkSize: 2,
		// the fake client allocates a JSON round trip per Get; a laxer GC setting buys ~20% throughput for ~300 MB per worker
		Setup:      func(env *core.Env) error { debug.SetGCPercent(400); return nil },
		Relevant:   "writes_checked",
		RunCase:    RunCase,
		Exhaustive: func(env *core.Env) bool { return !env.Thorough() },
	})
}

// ---- domain ------------------------------------------------------------------------------------

type step = intstr.IntOrString

func pct(p int) step { return intstr.FromString(fmt.Sprintf("%d%%", p)) }

func stepsFor(env *core.Env, r int, rng *rand.Rand) []step {
	R := maxR(env)
	var out []step
	if !env.Thorough() || r <= quickR {
		top := R + 2
		if env.Thorough() {
			top = quickR + 2
			if r+2 > top {
				top = r + 2
			}
		}
		for n := 0; n <= top; n++ {
			out = append(out, intstr.FromInt(n))
		}
	} else {
		seen := map[int]bool{}
		add := func(n int) {
			if n >= 0 && n <= R+2 && !seen[n] {
				seen[n] = true
				out = append(out, intstr.FromInt(n))
			}
		}
		for _, n := range []int{0, 1, 2, 3, r/100 - 1, r / 100, r/100 + 1, r / 2, r - r/100 - 1, r - r/100, r - r/100 + 1, r - 3, r - 2, r - 1, r, r + 1, r + 2, R + 2} {
			add(n)
		}
		for i := 0; i < 150; i++ {
			add(rng.Intn(r + 3))
		}
	}
	for p := 0; p <= 100; p++ {
		out = append(out, pct(p))
	}
	return out
}

// relation of a judged step to the batch that was run before it in the same world
type relation int

const (
	relFresh       relation = iota // no previous batch: the state real Initialize left
	relHigherSame                  // normal progression, same int/percent type
	relEqual                       // the same step again
	relLowerSame                   // the knob is already beyond the step (plan edit / non-monotone plan): lowering attempt
	relHigherCross                 // normal progression, int after percent or percent after int
	relLowerCross                  // lowering attempt across types
	numRelations
)

var relationNames = [numRelations]string{"fresh", "after-lower-same-type", "after-equal", "after-higher-same-type", "after-lower-cross-type", "after-higher-cross-type"}

func max(a, b int) int {
	if a > b {
		return a
	}
	return b
}
func min(a, b int) int {
	if a < b {
		return a
	}
	return b
}

// nextStep derives the step that follows s in the wanted relation; v varies the distance deterministically.
func nextStep(rel relation, s step, r, R, v int) step {
	P := planned(s, r)
	far := v%2 == 1
	if isPct(s) {
		p, _ := parsePct(s.StrVal)
		switch rel {
		case relHigherSame:
			if far {
				return pct(min(100, p+1+(v*7)%60))
			}
			return pct(min(100, p+1))
		case relLowerSame:
			if far {
				return pct(p / 2)
			}
			return pct(max(0, p-1))
		case relHigherCross:
			if far {
				return intstr.FromInt(min(R+2, P+1+(v*5)%(r/2+2)))
			}
			return intstr.FromInt(min(R+2, P+1))
		case relLowerCross:
			if far {
				return intstr.FromInt(P / 2)
			}
			return intstr.FromInt(max(0, P-1))
		}
		return s
	}
	n := int(s.IntVal)
	switch rel {
	case relHigherSame:
		if far {
			return intstr.FromInt(min(R+2, n+1+(v*5)%(r/2+2)))
		}
		return intstr.FromInt(min(R+2, n+1))
	case relLowerSame:
		if far {
			return intstr.FromInt(n / 2)
		}
		return intstr.FromInt(max(0, n-1))
	case relHigherCross:
		if r == 0 {
			return pct(100)
		}
		if far {
			return pct(min(100, ceilDiv(P*100, r)+1+(v*7)%60))
		}
		return pct(min(100, P*100/r+1))
	case relLowerCross:
		if r == 0 {
			return pct(0)
		}
		if far {
			return pct(P * 100 / r / 2)
		}
		return pct(max(0, ceilDiv(P*100, r)-1))
	}
	return s
}

func trailing(s step, R int) step {
	if isPct(s) {
		return pct(100)
	}
	return intstr.FromInt(R + 2)
}

func bucket(r int) string {
	switch {
	case r == 0:
		return "0"
	case r == 1:
		return "1"
	case r < 10:
		return "2-9"
	case r < 100:
		return "10-99"
	case r == 100:
		return "100"
	case r < 200:
		return "101-199"
	}
	return "200+"
}

// ---- one evaluation ------------------------------------------------------------------------------

type evalInput struct {
	Target   string   `json:"control"`
	Replicas int      `json:"replicas"`
	Plan     []string `json:"plan"`
	Current  int      `json:"currentBatch"`
	Start    string   `json:"startState"`
	History  []string `json:"batchesAlreadyRun,omitempty"`
	NoNeed   *int32   `json:"noNeedUpdateReplicas,omitempty"`
}

func planStrings(p []step) []string {
	var out []string
	for _, s := range p {
		out = append(out, s.String())
	}
	return out
}

// chain is one world in which consecutive batches are run through the real control, each call judged.
type chain struct {
	res      *core.CaseResult
	w        *world
	t, r     int
	nn       *int32
	c01Seen  bool // an earlier call of this chain already failed a C01 oracle (report one defect once)
	c07Seen  bool
	history  []string
	prevStep *step
	knobStep *step // the step whose call last wrote the knob (the knob in place has its int/percent form)
	dead     bool
	objs     []client.Object
	probe    bool // scratch chain used to classify a failure; counts nothing
}

func newChain(res *core.CaseResult, t, r int, objs []client.Object, nn *int32) *chain {
	c := &chain{res: res, w: newWorld(t, r, objs), t: t, r: r, nn: nn, objs: objs}
	// start state: status at the level the knob asks; rollback states start with the no-need-update pods already updated
	st0, err := c.w.read()
	if err == nil {
		err = c.w.settle(c.w.updatedCount(st0.Exposure, nn))
	}
	if err != nil {
		res.Inconclusive = "start state: " + err.Error()
		c.dead = true
	}
	return c
}

// judge runs the real UpgradeBatch for plan[cur] in the chain's current state and applies the oracles.
func (c *chain) judge(plan []step, cur int, rel relation) {
	if c.dead {
		return
	}
	res, w, t, r, nn := c.res, c.w, c.t, c.r, c.nn
	tn := targetNames[t]
	s := plan[cur]
	in := evalInput{Target: tn, Replicas: r, Plan: planStrings(plan), Current: cur, Start: relationNames[rel], History: append([]string(nil), c.history...), NoNeed: nn}
	knobOf := c.knobStep
	c.history = append(c.history, s.String())
	sc := s
	c.prevStep = &sc
	res.Count("evaluations", 1)
	res.Count("evaluations."+tn, 1)

	before, err := w.read()
	if err != nil {
		res.Inconclusive = "read before: " + err.Error()
		c.dead = true
		return
	}
	br := mkRelease(t, plan, cur, nn)
	w.cli.writes = nil
	var uerr error
	pi := core.Try(func() { uerr = mkPlane(t, w.cli, br).UpgradeBatch() })
	detail := func(extra gen.NF) gen.NF {
		d := gen.NF{"input": in, "knob_before": before, "writes": w.cli.writes}
		for k, v := range extra {
			d[k] = v
		}
		return d
	}
	if pi != nil {
		if !c.c01Seen {
			res.Violate("c01:panic:"+tn+":"+pi.Site+":"+core.NormPanic(pi.Value), fmt.Sprintf("%s UpgradeBatch panicked on replicas=%d plan=%v batch=%d: %s", tn, r, in.Plan, cur, pi.Value),
				detail(gen.NF{"stack": pi.Stack}))
		}
		c.c01Seen, c.dead = true, true
		return
	}
	if uerr != nil {
		res.Count("upgrade_errors", 1)
		res.Count("upgrade_errors."+tn, 1)
		if res.Inconclusive == "" {
			res.Inconclusive = fmt.Sprintf("%s UpgradeBatch returned an error on replicas=%d plan=%v batch=%d start=%s: %v", tn, r, in.Plan, cur, in.Start, uerr)
		}
		c.dead = true
		return
	}
	after, err := w.read()
	if err != nil {
		res.Inconclusive = "read after: " + err.Error()
		c.dead = true
		return
	}
	if len(w.cli.writes) > 0 {
		c.knobStep = &sc
	}
	P := planned(s, r)
	rollback := nn != nil
	typ := "int"
	if isPct(s) {
		typ = "percent"
	}
	class := "noop"
	switch {
	case before.Exposure > P:
		class = "lower-attempt"
	case after.Exposure > before.Exposure:
		class = "raise"
	}
	if r > 0 {
		res.Count("writes_checked", int64(len(w.cli.writes)))
		res.Count("writes_checked."+tn, int64(len(w.cli.writes)))
		res.Count("calls_judged", 1)
		switch class {
		case "lower-attempt":
			res.Count("lower_attempts."+tn, 1)
		case "raise":
			res.Count("raises."+tn, 1)
		default:
			res.Count("noops."+tn, 1)
		}
		sig := fmt.Sprintf("%s:r%s:%s:%s", tn, bucket(r), typ, class)
		if rollback {
			sig += ":rollback"
		}
		res.AddSig(sig)
	}

	// (b) monotone
	if after.Exposure < before.Exposure {
		if !c.c01Seen {
			// cross-type: the knob in place was written for a step of the other int/percent form
			relType := "same-type"
			if knobOf != nil && isPct(*knobOf) != isPct(s) {
				relType = "cross-type"
			}
			fp := "c01:monotone:" + tn + ":" + relType
			if rollback {
				fp += ":rollback"
			}
			res.Violate(fp, fmt.Sprintf("%s UpgradeBatch moved the knob back: exposure %d -> %d (replicas=%d plan=%v batch=%d, batches already run %v)", tn, before.Exposure, after.Exposure, r, in.Plan, cur, in.History),
				detail(gen.NF{"knob_after": after, "planned": P}))
		}
		c.c01Seen = true
	}
	// (a) bound on raises (not in rollback-in-batches states)
	if !rollback && after.Exposure > before.Exposure {
		over := after.Exposure - P
		bad := over > 0
		if isPct(s) {
			bad = over > 0 && over*100 >= r // an excess below replicas/100 is the documented slack
		}
		if bad {
			if !c.c01Seen {
				res.Violate("c01:bound:"+tn+":"+typ, fmt.Sprintf("%s UpgradeBatch exposes %d pods, step %s of %d replicas plans %d (excess %d; allowed: < %d/100 for percent, 0 for int)", tn, after.Exposure, s.String(), r, P, over, r),
					detail(gen.NF{"knob_after": after, "planned": P}))
			}
			c.c01Seen = true
		}
	}

	// (c) C07e sufficiency
	if err := w.settle(w.updatedCount(after.Exposure, nn)); err != nil {
		res.Inconclusive = "settle after: " + err.Error()
		c.dead = true
		return
	}
	var rerr error
	pi = core.Try(func() { rerr = mkPlane(t, w.cli, br).EnsureBatchPodsReadyAndLabeled() })
	if pi != nil {
		if !c.c07Seen {
			res.Violate("c07e:panic:"+tn+":"+pi.Site+":"+core.NormPanic(pi.Value), fmt.Sprintf("%s EnsureBatchPodsReadyAndLabeled panicked: %s", tn, pi.Value), detail(gen.NF{"stack": pi.Stack}))
		}
		c.c07Seen, c.dead = true, true
		return
	}
	if r > 0 {
		res.Count("sufficiency_checked", 1)
		res.Count("sufficiency_checked."+tn, 1)
	}
	if rerr != nil {
		if !c.c07Seen {
			// target-short: the target the control computes for this step is insufficient even from the fresh state;
			// stale-knob-kept: from the fresh state the step gets a sufficient knob, here the control kept an earlier, insufficient one
			mech := "target-short"
			if rel != relFresh && !c.probe {
				tmp := &core.CaseResult{}
				pc := newChain(tmp, t, r, c.objs, nn)
				pc.probe = true
				pc.judge([]step{s}, 0, relFresh)
				if !pc.c07Seen {
					mech = "stale-knob-kept"
				}
			}
			var ctxJSON interface{}
			if bc, cerr := realContext(t, w.cli, br); cerr == nil && bc != nil {
				ctxJSON = gen.Canon(bc)
				if int(bc.DesiredUpdatedReplicas) > r {
					mech = "demand-exceeds-replicas"
				}
			}
			// input class: percent steps convert exactly on <=100 replicas, above that the documented <1% rounding is in play
			cls := "int"
			if isPct(s) {
				cls = "pct-le100"
				if r > 100 {
					cls = "pct-gt100"
				}
			}
			fp := "c07e:" + tn + ":" + mech + ":" + cls
			if rollback {
				fp += ":rollback"
			}
			res.Violate(fp, fmt.Sprintf("%s: the knob UpgradeBatch leaves asks for %d updated pods of %d, the workload delivers exactly that, yet the batch can never become ready: %v (plan=%v batch=%d, batches already run %v)",
				tn, after.Exposure, r, rerr, in.Plan, cur, in.History),
				detail(gen.NF{"knob_after": after, "planned": P, "workload_reports_updated": w.updatedCount(after.Exposure, nn), "real_batch_context": ctxJSON, "readiness_error": rerr.Error()}))
		}
		c.c07Seen = true
	}
}

// noNeedValues: NoNeedUpdateReplicas values for rollback-in-batches states.
func noNeedValues(r int) []int32 {
	if r < 1 {
		return nil
	}
	var out []int32
	seen := map[int]bool{}
	for _, v := range []int{1, (r + 2) / 3, r - 1} {
		if v >= 1 && v <= r && !seen[v] {
			seen[v] = true
			out = append(out, int32(v))
		}
	}
	return out
}

var chainRelations = [5]relation{relHigherSame, relLowerSame, relHigherCross, relEqual, relLowerCross}

// RunCase runs case idx = replicas*numTargets + control.
func RunCase(env *core.Env, idx int) *core.CaseResult {
	res := &core.CaseResult{}
	t, r := idx%numTargets, idx/numTargets
	R := maxR(env)
	if r > R {
		return res
	}
	tn := targetNames[t]
	rng := env.RNG(idx)

	var objs []client.Object
	var ierr error
	if pi := core.Try(func() { objs, ierr = initialised(t, r) }); pi != nil {
		res.Violate("c01:panic:"+tn+":initialize:"+pi.Site+":"+core.NormPanic(pi.Value), fmt.Sprintf("%s Initialize panicked on replicas=%d: %s", tn, r, pi.Value), gen.NF{"stack": pi.Stack})
		return res
	}
	if ierr != nil {
		res.Inconclusive = ierr.Error()
		return res
	}
	// the state Initialize leaves must not expose anything
	{
		w := newWorld(t, r, objs)
		st, err := w.read()
		if err != nil {
			res.Inconclusive = "read initial state: " + err.Error()
			return res
		}
		res.Count("initialize_checked", 1)
		if st.Exposure != 0 {
			res.Violate("c01:bound:"+tn+":initialize", fmt.Sprintf("%s Initialize leaves a knob that exposes %d of %d pods before any batch", tn, st.Exposure, r), gen.NF{"replicas": r, "knob": st})
		}
	}

	steps := stepsFor(env, r, rng)
	nns := noNeedValues(r)
	for si, s := range steps {
		v := r + si + int(env.Seed%1000)
		// chain 1: fresh state, then two follow-up batches in rotating relations. The plan the release carries grows with the
		// chain for pad 2 (a plan edit that appends batches), so that the judged batch is also seen as the last one of a 1- and 2-batch plan.
		rel2 := chainRelations[v%5]
		rel3 := chainRelations[(v/5+v+2)%5]
		s2 := nextStep(rel2, s, r, R, v)
		s3 := nextStep(rel3, s2, r, R, v/3)
		full := []step{s, s2, s3}
		c := newChain(res, t, r, objs, nil)
		switch v % 3 {
		case 0:
			c.judge(full, 0, relFresh)
			c.judge(full, 1, rel2)
			c.judge(full, 2, rel3)
		case 1:
			withT := append(append([]step(nil), full...), trailing(s3, R))
			c.judge(withT, 0, relFresh)
			c.judge(withT, 1, rel2)
			c.judge(withT, 2, rel3)
		default:
			c.judge(full[:1], 0, relFresh)
			c.judge(full[:2], 1, rel2)
			c.judge(full, 2, rel3)
		}
		// chain 2 (controls that read no-need-update pods): rollback-in-batches state, the step and one lowering attempt
		if supportsRollback(t) && len(nns) > 0 {
			nn := nns[v%len(nns)]
			relb := []relation{relLowerSame, relHigherSame, relLowerCross}[(v/3)%3]
			sb := nextStep(relb, s, r, R, v)
			cb := newChain(res, t, r, objs, pointer.Int32(nn))
			cb.c01Seen, cb.c07Seen = c.c01Seen, c.c07Seen
			plan := []step{s, sb}
			cb.judge(plan, 0, relFresh)
			cb.judge(plan, 1, relb)
		}
	}
	if idx < 8 {
		res.Sample = gen.NF{"control": tn, "replicas": r, "steps": len(steps), "relations": relationNames, "no_need_update_values": nns}
	}
	return res
}
