// Package c15custom — property C15 "Custom (Lua) network resources: stateless apply, exact restore"
// (+ the provider fixed-point clause (d) of C07 for the custom provider).
//
// Monitor: the real customNetworkProvider (NewCustomController / Initialize / EnsureRoutes / Finalise) runs on
// generated unstructured objects against a controller-runtime fake client behind a write-recording interposer.
// Oracles (oracle.go) are written from the property statement.
package c15custom

import (
	"context"
	"encoding/json"
	"errors"
	"fmt"
	"regexp"
	"strconv"
	"strings"

	"github.com/openkruise/rollouts/api/v1beta1"
	"github.com/openkruise/rollouts/pkg/trafficrouting/network"
	custom "github.com/openkruise/rollouts/pkg/trafficrouting/network/customNetworkProvider"
	lua "github.com/yuin/gopher-lua"
	corev1 "k8s.io/api/core/v1"
	metav1 "k8s.io/apimachinery/pkg/apis/meta/v1"
	"k8s.io/apimachinery/pkg/apis/meta/v1/unstructured"
	"k8s.io/apimachinery/pkg/runtime"
	"k8s.io/apimachinery/pkg/types"
	clientgoscheme "k8s.io/client-go/kubernetes/scheme"
	"sigs.k8s.io/controller-runtime/pkg/client/fake"

	"verif/harness/core"
)

type nf = map[string]interface{}

var scheme = func() *runtime.Scheme {
	s := runtime.NewScheme()
	_ = clientgoscheme.AddToScheme(s)
	return s
}()

func init() {
	core.Register(&core.Check{
		ID:    "C15",
		Level: "exploration",
		Rule: "a case = 1-3 referenced unstructured objects (Istio VirtualService: 1-3 http routes with one stable / several / other-host destinations, " +
			"subsets, match blocks, redirect-only rules, tls/tcp sections; DestinationRule: 0-3 subsets, trafficPolicy; made-up example.io kinds: nested specs " +
			"with empty maps/lists, ints up to 2^62, floats, bools, lists of maps, nil/empty/filled labels and annotations) + for the made-up kinds a generated " +
			"well-behaved Lua script (any subset of 9 building blocks, one of which reads and writes never-initialised script globals: on the promised fresh interpreter it is a pure function of the step) delivered through the kruise-rollout ConfigMap + a sequence of 0-4 strategies " +
			"(weight 0..100, header/query/path matches in any mix, both, neither, requestHeaderModifier). The real provider applies s1..sn (each EnsureRoutes " +
			"repeated until done, at most 5 calls) and Finalise; after every step the state is compared with that step applied alone to a fresh copy, the Istio " +
			"reading is checked, and after Finalise the user's configuration is compared exactly. Non-trivial = at least one step reached done; " +
			"distinct = distinct (service mode, object shapes, script blocks, step kinds) signature.",
		Assumptions: []string{
			"environment = controller-runtime fake client (no admission, no CRD pruning/defaulting); objects are read back from the store after creation and that reading is 'what the user had'",
			"exact restore: spec is compared as JSON with exact numbers (3 == 3.0, 2^53+1 != 2^53), absent != null != {} != []; for metadata.labels / metadata.annotations absent == empty (an API server never stores an empty map there); the bookkeeping annotation must be gone; everything outside spec/labels/annotations must never change",
			"history independence compares spec (exact), labels and annotations (bookkeeping annotation excluded) of s1..si against si alone on a fresh copy — both sides have travelled through Lua, so conversion artefacts (empty table -> null) cancel out and are left to C16",
			"Istio 'route with a single stable destination' is read as: no `match` block (the built-in script skips routes with matches by design), exactly one destination, host = stable service (short or qualified below it), weight absent or 100; judged only on pure weight steps (traffic set, no matches). 'untouched' for other-host routes = equal after dropping nulls / empty containers, same relative position",
			"objects legal for the built-in scripts: VirtualService always has `http`, every http rule has `route` or is a redirect/directResponse rule (legal Istio), TLS rules have `match`; DestinationRule always has `subsets` (possibly empty) — a DestinationRule without subsets is not generated (canary-by-subset is meaningless without a stable subset)",
			"strategy matches carry explicit types (the Rollout CRD defaults them); traffic is always '<n>%'",
			"C07(d): done within 3 EnsureRoutes calls, and one further call reports done with zero effective writes (effective = stored object differs modulo resourceVersion)",
		},
		NumCases:  NumCases,
		ChunkSize: 50,
		Relevant:  "steps_done",
		RunCase:   func(env *core.Env, idx int) *core.CaseResult { return RunCase(env, idx, "C15") },
	})
}

func NumCases(env *core.Env) int {
	if env.Thorough() {
		return 100000
	}
	return 3000
}

// RunCase runs case idx; prop selects which violations are kept ("C15": all but c07d:*, "C07": only c07d:*).
func RunCase(env *core.Env, idx int, prop string) *core.CaseResult {
	rng := env.RNG(idx)
	in, sig := genCase(rng)
	res := &core.CaseResult{}
	in = cloneIn(in)
	if !legal(in) {
		res.Inconclusive = "harness: generator left its own input language (case " + strconv.Itoa(idx) + ")"
		return res
	}
	runOnce(in, res)
	if v, ok := res.Counters["steps_done"]; ok && v > 0 {
		res.AddSig(sig)
	}
	var keep []core.Violation
	for _, v := range res.Violations {
		isC07 := strings.HasPrefix(v.Fingerprint, "c07d:")
		if (prop == "C07") == isC07 {
			keep = append(keep, v)
		}
	}
	res.Violations = keep
	for i := range res.Violations {
		minimise(in, &res.Violations[i])
	}
	if idx < 8 {
		res.Sample = nf{"signature": sig, "input": in}
	}
	return res
}

// ---- world ----------------------------------------------------------------------------------------

type world struct {
	rec  *recClient
	prov network.NetworkProvider
}

func newWorld(in *caseIn) (*world, error) {
	inner := fake.NewClientBuilder().WithScheme(scheme).Build()
	ctx := context.TODO()
	cm := &corev1.ConfigMap{ObjectMeta: metav1.ObjectMeta{Namespace: "kruise-rollout", Name: "kruise-rollout-configuration"}, Data: map[string]string{}}
	for k, v := range in.Scripts {
		cm.Data[k] = v
	}
	if err := inner.Create(ctx, cm); err != nil {
		return nil, err
	}
	for _, o := range in.Objects {
		b, err := json.Marshal(o)
		if err != nil {
			return nil, err
		}
		u := &unstructured.Unstructured{}
		if err := u.UnmarshalJSON(b); err != nil { // as an API server decodes it (int64 / float64)
			return nil, err
		}
		if err := inner.Create(ctx, u); err != nil {
			return nil, err
		}
	}
	rec := &recClient{Client: inner, scheme: scheme}
	prov, err := custom.NewCustomController(rec, custom.Config{
		Key: "rollout-demo", RolloutNs: caseNS, CanaryService: in.Canary, StableService: in.Stable,
		TrafficConf: append([]v1beta1.ObjectRef(nil), in.Refs...),
	})
	if err != nil {
		return nil, err
	}
	return &world{rec: rec, prov: prov}, nil
}

func (w *world) state(ref v1beta1.ObjectRef) (*objState, error) {
	u := &unstructured.Unstructured{}
	u.SetAPIVersion(ref.APIVersion)
	u.SetKind(ref.Kind)
	if err := w.rec.Client.Get(context.TODO(), types.NamespacedName{Namespace: caseNS, Name: ref.Name}, u); err != nil {
		return nil, err
	}
	b, err := u.MarshalJSON()
	if err != nil {
		return nil, err
	}
	t, err := decodeTree(b)
	if err != nil {
		return nil, err
	}
	return stateOf(t), nil
}

func (w *world) states(in *caseIn) ([]*objState, error) {
	var out []*objState
	for _, r := range in.Refs {
		s, err := w.state(r)
		if err != nil {
			return nil, err
		}
		out = append(out, s)
	}
	return out, nil
}

func kindClass(kind string) string {
	if kind == "VirtualService" || kind == "DestinationRule" {
		return kind
	}
	return "Custom"
}

var luaPos = regexp.MustCompile(`<string>:\d+: `)

// luaErrClass: stable class of a Lua error (no positions, no traceback).
func luaErrClass(err error) (string, bool) {
	var ae *lua.ApiError
	if !errors.As(err, &ae) {
		return "", false
	}
	msg := ae.Error()
	if ae.Object != nil {
		msg = ae.Object.String()
	}
	if i := strings.Index(msg, "\n"); i >= 0 {
		msg = msg[:i]
	}
	msg = luaPos.ReplaceAllString(msg, "")
	return core.NormPanic(strings.TrimSpace(msg)), true
}

type stepOutcome struct {
	done  bool
	err   error
	pi    *core.PanicInfo
	calls int
}

// applyStep repeats EnsureRoutes until it reports done (at most 5 calls) and evaluates C07(d).
func applyStep(w *world, in *caseIn, step *v1beta1.TrafficRoutingStrategy, res *core.CaseResult, detail func() nf) stepOutcome {
	out := stepOutcome{}
	ctx := context.TODO()
	ensure := func() (done bool, err error, pi *core.PanicInfo, writes []writeRec) {
		w.rec.reset()
		for attempt := 0; attempt < 8; attempt++ {
			pi = core.Try(func() { done, err = w.prov.EnsureRoutes(ctx, step.DeepCopy()) })
			res.Count("ensure_calls", 1)
			// the Lua VM has a 1 s wall-clock budget; none of the scripts here loops, so a deadline error is CPU
			// starvation of this process — the controller would requeue, so do we (the call wrote nothing but the snapshot)
			if pi == nil && err != nil && strings.Contains(err.Error(), "context deadline exceeded") {
				res.Count("lua_deadline_retries", 1)
				continue
			}
			break
		}
		return done, err, pi, append([]writeRec(nil), w.rec.log...)
	}
	var history []interface{}
	for call := 1; call <= 5; call++ {
		done, err, pi, writes := ensure()
		out.calls = call
		history = append(history, nf{"call": call, "done": done, "err": errStr(err), "writes": writes})
		checkFrameWrites(in, writes, res, detail)
		if pi != nil || err != nil {
			out.pi, out.err = pi, err
			return out
		}
		if !done {
			continue
		}
		out.done = true
		res.Count("steps_done", 1)
		res.Count(fmt.Sprintf("done_at_call_%d", call), 1)
		if call > 3 {
			d := detail()
			d["calls"] = history
			res.Violate("c07d:custom:done-only-after-more-than-3-calls", fmt.Sprintf("EnsureRoutes reported done only at call %d", call), d)
		}
		// fixed point: one more call
		done2, err2, pi2, writes2 := ensure()
		history = append(history, nf{"call": "extra", "done": done2, "err": errStr(err2), "writes": writes2})
		res.Count("fixed_point_checks", 1)
		eff := 0
		for _, wr := range writes2 {
			if wr.Effective {
				eff++
			}
		}
		switch {
		case pi2 != nil:
			out.pi = pi2
		case err2 != nil:
			d := detail()
			d["calls"] = history
			res.Violate("c07d:custom:error-after-done", "EnsureRoutes returned an error after it had reported done: "+err2.Error(), d)
		case !done2:
			d := detail()
			d["calls"] = history
			res.Violate("c07d:custom:not-done-after-done", "EnsureRoutes reported done, the next call with the same step reports not done", d)
		case eff > 0:
			d := detail()
			d["calls"] = history
			res.Violate("c07d:custom:write-after-done", fmt.Sprintf("EnsureRoutes reported done, the next call made %d effective write(s)", eff), d)
		case len(writes2) > 0:
			res.Count("noop_writes_after_done", int64(len(writes2)))
		}
		return out
	}
	d := detail()
	d["calls"] = history
	res.Violate("c07d:custom:never-done", "EnsureRoutes did not report done within 5 calls of the same step", d)
	return out
}

func errStr(err error) string {
	if err == nil {
		return ""
	}
	s := err.Error()
	if len(s) > 400 {
		s = s[:400] + "…"
	}
	return s
}

// checkFrameWrites: the provider may only update the referenced objects.
func checkFrameWrites(in *caseIn, writes []writeRec, res *core.CaseResult, detail func() nf) {
	for _, wr := range writes {
		ok := wr.Verb == "update"
		if ok {
			ok = false
			for _, r := range in.Refs {
				if r.Kind == wr.Kind && r.Name == wr.Name {
					ok = true
				}
			}
		}
		if !ok {
			d := detail()
			d["write"] = wr
			res.Violate("c15:frame:write-outside-referenced-objects:"+wr.Verb, fmt.Sprintf("provider issued %s on %s/%s", wr.Verb, wr.Kind, wr.Name), d)
		}
	}
}

func parseWeight(s *v1beta1.TrafficRoutingStrategy) (int, bool) {
	if s.Traffic == nil || !strings.HasSuffix(*s.Traffic, "%") {
		return 0, false
	}
	n, err := strconv.Atoi(strings.TrimSuffix(*s.Traffic, "%"))
	if err != nil {
		return 0, false
	}
	return n, true
}

// blameRef finds the kind class of the first referenced object that, alone, makes the step fail the same way.
func blameRef(in *caseIn, step *v1beta1.TrafficRoutingStrategy, class string) string {
	for i := range in.Refs {
		one := &caseIn{Stable: in.Stable, Canary: in.Canary, Refs: in.Refs[i : i+1], Objects: in.Objects[i : i+1], Scripts: in.Scripts}
		w, err := newWorld(one)
		if err != nil {
			continue
		}
		var e error
		var pi *core.PanicInfo
		for attempt := 0; attempt < 8; attempt++ { // see applyStep: a deadline error is CPU starvation, ask again
			pi = core.Try(func() { _, e = w.prov.EnsureRoutes(context.TODO(), step.DeepCopy()) })
			if pi != nil || e == nil || !strings.Contains(e.Error(), "context deadline exceeded") {
				break
			}
		}
		if pi != nil {
			continue
		}
		if c, ok := luaErrClass(e); ok && c == class {
			return kindClass(in.Refs[i].Kind)
		}
	}
	return "unknown"
}

// runOnce executes the whole case; everything it reports is a pure function of in.
func runOnce(in *caseIn, res *core.CaseResult) {
	res.Count("cases", 1)
	wa, err := newWorld(in)
	if err != nil {
		res.Inconclusive = "harness: cannot build world: " + err.Error()
		return
	}
	orig, err := wa.states(in)
	if err != nil {
		res.Inconclusive = "harness: cannot read objects: " + err.Error()
		return
	}
	res.Count("refs", int64(len(in.Refs)))
	inJSON, _ := json.Marshal(in)
	baseDetail := func() nf { return nf{"input": in, "inputJSON": string(inJSON)} } // the string keeps integers beyond 2^53 exact

	var ierr error
	if pi := core.Try(func() { ierr = wa.prov.Initialize(context.TODO()) }); pi != nil {
		d := baseDetail()
		d["stack"] = pi.Stack
		res.Violate("c15:panic:Initialize:"+pi.Site+":"+core.NormPanic(pi.Value), "Initialize panicked: "+pi.Value, d)
		return
	}
	if ierr != nil {
		res.Violate("c15:error:Initialize", "Initialize failed on existing objects with existing scripts: "+ierr.Error(), baseDetail())
		return
	}

	for i := range in.Steps {
		step := &in.Steps[i]
		detail := func() nf { d := baseDetail(); d["stepIndex"] = i; d["step"] = step; return d }
		oc := applyStep(wa, in, step, res, detail)
		if oc.pi != nil {
			d := detail()
			d["stack"] = oc.pi.Stack
			res.Violate("c15:panic:EnsureRoutes:"+oc.pi.Site+":"+core.NormPanic(oc.pi.Value), "EnsureRoutes panicked: "+oc.pi.Value, d)
			break
		}
		if oc.err != nil {
			if strings.Contains(oc.err.Error(), "context deadline exceeded") {
				res.Inconclusive = "the Lua VM's 1 s wall-clock budget was exceeded 8 times in a row by a loop-free script (CPU starvation of the worker)"
				return
			}
			if class, ok := luaErrClass(oc.err); ok {
				res.Count("lua_errors", 1)
				res.Violate("c15:lua-error:"+blameRef(in, step, class)+":"+class, "the script fails on a legal object, the step can never be applied: "+errStr(oc.err), detail())
			} else {
				res.Violate("c15:error:EnsureRoutes:"+core.NormPanic(firstWords(oc.err.Error(), 8)), "EnsureRoutes failed: "+errStr(oc.err), detail())
			}
			break
		}
		if !oc.done {
			break
		}
		cur, err := wa.states(in)
		if err != nil {
			res.Violate("c15:frame:referenced-object-gone", "referenced object cannot be read after a step: "+err.Error(), detail())
			break
		}
		// frame: nothing outside spec / labels / annotations
		for k := range cur {
			if w, c := exactDiff("", orig[k].Rest, cur[k].Rest); w != "" {
				d := detail()
				d["object"], d["where"], d["want"], d["got"] = in.Refs[k], w, untree(orig[k].Rest), untree(cur[k].Rest)
				res.Violate("c15:frame:field-outside-spec-labels-annotations-changed:"+kindClass(in.Refs[k].Kind), fmt.Sprintf("%s %s: %s (%s)", in.Refs[k].Kind, in.Refs[k].Name, w, c), d)
			}
			if !cur[k].HasBook {
				res.Count("obs_no_bookkeeping_annotation_during_step", 1)
			}
		}
		// observation (no verdict): empty containers come back from the script as null and are stored as such;
		// an API server that drops nulls of non-nullable CRD fields would make the step's compare-and-update never settle
		nulls := 0
		for k := range cur {
			nulls += countNulls(cur[k].Spec)
		}
		if nulls > 0 {
			res.Count("obs_steps_storing_null_where_user_had_empty_container", 1)
			if wp, err := newWorld(in); err == nil {
				wp.rec.pruneNulls = true
				scratch := &core.CaseResult{}
				op := applyStep(wp, in, step, scratch, detail)
				if !op.done && op.err == nil && op.pi == nil {
					res.Count("obs_step_never_done_if_apiserver_drops_nulls", 1)
				}
			}
		}
		// Istio reading
		weight, hasW := parseWeight(step)
		weightStep := hasW && len(step.Matches) == 0
		for k, r := range in.Refs {
			if r.Kind != "VirtualService" || !orig[k].HasSpec || !cur[k].HasSpec {
				continue
			}
			counts := map[string]int64{}
			fs := checkVirtualService(orig[k].Spec, cur[k].Spec, in.Stable, in.Canary, weight, weightStep, counts)
			for n, v := range counts {
				res.Count(n, v)
			}
			for _, f := range fs {
				d := detail()
				d["object"], d["originalSpec"], d["specAfterStep"] = r, untree(orig[k].Spec), untree(cur[k].Spec)
				res.Violate("c15:istio:"+f.rule+":"+f.proto, f.msg, d)
			}
		}
		// interpreter freshness (absolute; the comparison below is differential and runs in the same process, so state
		// that survives from call to call would show on both of its sides): the "gacc" block of a generated script
		// writes whether its never-initialised global was still nil
		for k, r := range in.Refs {
			if !cur[k].HasSpec {
				continue
			}
			if v, ok := asMap(cur[k].Spec)["freshInterpreter"]; ok {
				res.Count("interpreter_freshness_checked", 1)
				if b, isB := v.(bool); !isB || !b {
					d := detail()
					d["object"], d["specAfterStep"] = r, untree(cur[k].Spec)
					res.Violate("c15:history:interpreter-state-survives-between-calls", "a script global assigned during an earlier call was still set when the script ran for this step: what is written is not a function of the original and this step alone", d)
				}
			}
		}
		// history independence: s1..si  vs  si alone on a fresh copy
		if i > 0 {
			wb, err := newWorld(in)
			if err != nil {
				continue
			}
			scratch := &core.CaseResult{}
			ob := applyStep(wb, in, step, scratch, detail)
			for _, v := range scratch.Violations { // fixed-point findings on the fresh copy count as well
				res.Violate(v.Fingerprint, v.Msg, v.Detail)
			}
			if ob.pi != nil || ob.err != nil || !ob.done {
				res.Count("history_fresh_run_not_done", 1)
				continue
			}
			fresh, err := wb.states(in)
			if err != nil {
				continue
			}
			res.Count("history_comparisons", int64(len(cur)))
			for k := range cur {
				for _, sd := range diffUserConfig(fresh[k], cur[k]) {
					d := detail()
					d["object"], d["where"], d["difference"], d["valueFreshCopy"], d["valueAfterSequence"] = in.Refs[k], sd.where, sd.class, sd.want, sd.got
					d["afterWholeSequence"], d["afterThisStepAloneOnFreshCopy"] = untree(cur[k].view()), untree(fresh[k].view())
					res.Violate("c15:history-dependence:"+kindClass(in.Refs[k].Kind)+":"+sd.section,
						fmt.Sprintf("%s %s after steps 1..%d differs from step %d alone on a fresh copy at %s (%s)", in.Refs[k].Kind, in.Refs[k].Name, i+1, i+1, sd.where, sd.class), d)
				}
			}
		}
	}

	// Finalise (the manager repeats it while it reports modified)
	var fin []interface{}
	settled := false
	for call := 1; call <= 3; call++ {
		var modified bool
		var ferr error
		wa.rec.reset()
		pi := core.Try(func() { modified, ferr = wa.prov.Finalise(context.TODO()) })
		res.Count("finalise_calls", 1)
		writes := append([]writeRec(nil), wa.rec.log...)
		fin = append(fin, nf{"call": call, "modified": modified, "err": errStr(ferr), "writes": writes})
		checkFrameWrites(in, writes, res, baseDetail)
		if pi != nil {
			d := baseDetail()
			d["stack"] = pi.Stack
			res.Violate("c15:panic:Finalise:"+pi.Site+":"+core.NormPanic(pi.Value), "Finalise panicked: "+pi.Value, d)
			return
		}
		if ferr != nil {
			d := baseDetail()
			d["finalise"] = fin
			res.Violate("c15:error:Finalise", "Finalise failed: "+errStr(ferr), d)
			return
		}
		if !modified {
			settled = true
			break
		}
	}
	if !settled {
		d := baseDetail()
		d["finalise"] = fin
		res.Violate("c07d:custom:finalise-never-settles", "Finalise still reports modified at its third call", d)
	}
	end, err := wa.states(in)
	if err != nil {
		res.Violate("c15:frame:referenced-object-gone", "referenced object cannot be read after Finalise: "+err.Error(), baseDetail())
		return
	}
	res.Count("restores_compared", int64(len(end)))
	for k := range end {
		ref := in.Refs[k]
		mk := func(where, class string) nf {
			d := baseDetail()
			d["object"], d["where"], d["difference"], d["finalise"] = ref, where, class, fin
			d["userHad"], d["afterFinalise"] = untree(orig[k].view()), untree(end[k].view())
			return d
		}
		if end[k].HasBook {
			res.Violate("c15:restore:bookkeeping-annotation-left:"+kindClass(ref.Kind), fmt.Sprintf("%s %s still carries %s after Finalise", ref.Kind, ref.Name, bookkeepingAnno), mk("annotations", "bookkeeping-left"))
		}
		for _, sd := range diffUserConfig(orig[k], end[k]) {
			d := mk(sd.where, sd.class)
			d["valueUserHad"], d["valueAfterFinalise"] = sd.want, sd.got
			res.Violate("c15:restore:"+sd.section+":"+restoreClass(sd.class)+":"+kindClass(ref.Kind),
				fmt.Sprintf("%s %s: %s not restored exactly at %s (%s): user had %s, after Finalise %s", ref.Kind, ref.Name, sd.section, sd.where, sd.class, trunc(sd.want, 200), trunc(sd.got, 200)), d)
		}
		if w, c := exactDiff("", orig[k].Rest, end[k].Rest); w != "" {
			d := mk(w, c)
			d["want"], d["got"] = untree(orig[k].Rest), untree(end[k].Rest)
			res.Violate("c15:frame:field-outside-spec-labels-annotations-changed:"+kindClass(ref.Kind), fmt.Sprintf("%s %s: %s (%s) after Finalise", ref.Kind, ref.Name, w, c), d)
		}
	}
}

// restoreClass keeps fingerprints per defect rather than per symptom: integers that do not survive a float64,
// empty containers / nulls changing into each other, and any other content difference.
func restoreClass(class string) string {
	switch {
	case class == "number-beyond-float64-precision":
		return "int64-precision"
	case strings.Contains(class, "empty-") || strings.Contains(class, "null"):
		return "empty-vs-null-vs-absent"
	}
	return "content"
}

func countNulls(v interface{}) int {
	n := 0
	switch t := v.(type) {
	case nil:
		return 1
	case map[string]interface{}:
		for _, x := range t {
			n += countNulls(x)
		}
	case []interface{}:
		for _, x := range t {
			n += countNulls(x)
		}
	}
	return n
}

func trunc(s string, n int) string {
	if len(s) > n {
		return s[:n] + "…"
	}
	return s
}

func firstWords(s string, n int) string {
	f := strings.Fields(s)
	if len(f) > n {
		f = f[:n]
	}
	return strings.Join(f, " ")
}
