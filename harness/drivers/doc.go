// Package drivers links every property check into vcheck.
package drivers
