package c19iso

// iso.go: several rollouts in ONE simulated cluster served by ONE set of real reconcilers, with reconciles running on
// real goroutines (3 workers per controller, key-exclusive) in a binary built with -race. Oracles:
//   (1) every tenant ends in the final state (projection) of the same scenario run alone, and no monitor fires for a
//       tenant that is silent when the tenant runs alone;
//   (2) the Go race detector reports nothing (reports are collected from GORACE log files by the parent);
//   (3) no worker dies (fatal "concurrent map writes" etc.).

import (
	"encoding/json"
	"fmt"
	"math/rand"
	"os"
	"path/filepath"
	"regexp"
	"sort"
	"strings"

	expectations "github.com/openkruise/rollouts/pkg/util/expectation"
	"github.com/openkruise/rollouts/pkg/util/grace"

	"verif/harness/core"
	"verif/harness/drivers/e1"
	"verif/harness/gen"
	"verif/harness/monitor"
	"verif/harness/sim"
	"verif/harness/simapi"
)

func repoDir() string {
	if d := os.Getenv("VERIF_REPO_DIR"); d != "" {
		return d
	}
	return "."
}

func cloneScenario(s *sim.Scenario) *sim.Scenario {
	b, _ := json.Marshal(s)
	c := &sim.Scenario{}
	_ = json.Unmarshal(b, c)
	return c
}

// genTenants draws 2-4 scenarios with names chosen to collide wherever a key is built carelessly: the same workload /
// Rollout / Service / Ingress names in different namespaces, namespaces that are prefixes of each other, and (sameNS)
// two workloads in one namespace whose names are prefixes of each other.
func genTenants(rng *rand.Rand) (ss []*sim.Scenario, sameNS bool) {
	n := 2 + rng.Intn(2)
	sameNS = rng.Intn(4) == 0
	nss := []string{"ns", "ns1", "ns10", "default"}
	rng.Shuffle(len(nss), func(i, j int) { nss[i], nss[j] = nss[j], nss[i] })
	for i := 0; i < n; i++ {
		s := e1.GenFor("C19", rng)
		var ev []sim.Injected
		for _, e := range s.Events {
			if e.Action == "v3" && s.Style == "bluegreen" {
				e.Action = "rollback"
			}
			ev = append(ev, e)
		}
		s.Events = ev
		s.Pre = nil
		s.NS, s.Name = nss[i%len(nss)], "echo"
		if sameNS {
			// two tenants share the first namespace
			switch i {
			case 0:
				s.NS, s.Name = nss[0], "echo"
			case 1:
				s.NS, s.Name = nss[0], "echo-b"
			}
		}
		// keep the runs short: the comparison is per tenant and there are several of them
		if s.Replicas > 5 {
			s.Replicas = 2 + s.Replicas%4
		}
		if len(s.Steps) > 3 {
			s.Steps = s.Steps[:3]
			var ev2 []sim.Injected
			for _, e := range s.Events {
				if e.AtStep <= 3 && !strings.HasPrefix(e.Action, "jump:") {
					ev2 = append(ev2, e)
				}
			}
			s.Events = ev2
		}
		ss = append(ss, s)
	}
	return ss, sameNS
}

// lightProjection is the final-state summary used for tenants that share a namespace (the monitors' own projection is
// namespace-wide): objects are attributed to the tenant with the longest matching name.
func lightProjection(v *simapi.View, s *sim.Scenario, all []*sim.Scenario) map[string]interface{} {
	owns := func(name string) bool {
		best := ""
		for _, t := range all {
			if t.NS != s.NS {
				continue
			}
			if (name == t.Name || strings.HasPrefix(name, t.Name+"-")) && len(t.Name) > len(best) {
				best = t.Name
			}
		}
		return best == s.Name
	}
	out := map[string]interface{}{}
	var names []string
	for _, k := range v.Keys() {
		if k.NS != s.NS || k.Kind == "Pod" || k.Kind == "ReplicaSet" || !owns(k.Name) {
			continue
		}
		n := k.Name
		if k.Kind == "Deployment" && n != s.Name {
			n = "<canary>"
		}
		names = append(names, k.Kind+"/"+n)
	}
	sort.Strings(names)
	out["objects"] = names
	if ro := v.GetKey(simapi.Key{Group: "rollouts.kruise.io", Kind: "Rollout", NS: s.NS, Name: s.RolloutName()}); ro != nil {
		conds := []string{}
		for _, c := range simapi.List(ro, "status.conditions") {
			conds = append(conds, fmt.Sprintf("%s=%s/%s", simapi.Str(c, "type"), simapi.Str(c, "status"), simapi.Str(c, "reason")))
		}
		sort.Strings(conds)
		if simapi.Str(ro, "status.phase") == "Disabled" {
			// the conditions a disabled Rollout keeps record where the user's action happened to catch the release
			conds = nil
		}
		out["rollout"] = map[string]interface{}{"phase": simapi.Str(ro, "status.phase"), "conditions": conds}
	}
	if wl := v.GetKey(s.WorkloadKey()); wl != nil {
		img := ""
		if cs := simapi.List(wl, "spec.template.spec.containers"); len(cs) > 0 {
			img = simapi.Str(cs[0], "image")
		}
		pods := map[string]int{}
		for _, p := range v.List("Pod", s.NS) {
			if simapi.Deleting(p) || simapi.Label(p, "app") != s.Name {
				continue
			}
			if cs := simapi.List(p, "spec.containers"); len(cs) > 0 {
				pods[simapi.Str(cs[0], "image")]++
			}
		}
		out["workload"] = map[string]interface{}{"image": img, "replicas": simapi.IntD(wl, "spec.replicas", 1), "pods": pods, "paused": simapi.Bool(wl, "spec.paused"),
			"strategy": simapi.Path(wl, "spec.strategy"), "updateStrategy": simapi.Path(wl, "spec.updateStrategy")}
	}
	if svc := v.Get("Service", s.NS, s.SvcName()); svc != nil {
		out["stableSelector"] = simapi.Path(svc, "spec.selector")
	}
	return out
}

// familyOf is the property and clause of a fingerprint ("c01:exposure-raised-during-supersession"), without the
// variant suffixes.
func familyOf(fp string) string {
	parts := strings.SplitN(fp, ":", 3)
	if len(parts) < 2 {
		return fp
	}
	return parts[0] + ":" + parts[1]
}

// sameEndOfRelease: the conditions a Rollout is left with after a user's rollback / disabling record whether that action
// caught the release before or after its end, which is the schedule's doing (the same queued action lands a few
// reconciles earlier or later), not a neighbour's. The condition details are compared only when the release succeeded in
// both runs; the phase, the workload, the objects and the routes are always compared.
func sameEndOfRelease(a, b map[string]interface{}) (map[string]interface{}, map[string]interface{}) {
	succeeded := func(m map[string]interface{}) bool {
		ro, _ := m["rollout"].(map[string]interface{})
		if ro == nil {
			return false
		}
		if s, ok := ro["succeeded"].(string); ok {
			return s == "True"
		}
		if l, ok := ro["conditions"].([]string); ok {
			for _, c := range l {
				if strings.HasPrefix(c, "Succeeded=True") {
					return true
				}
			}
		}
		return false
	}
	if succeeded(a) && succeeded(b) {
		return a, b
	}
	strip := func(m map[string]interface{}) map[string]interface{} {
		out := map[string]interface{}{}
		for k, v := range m {
			out[k] = v
		}
		if ro, _ := m["rollout"].(map[string]interface{}); ro != nil {
			out["rollout"] = map[string]interface{}{"phase": ro["phase"]}
		}
		return out
	}
	return strip(a), strip(b)
}

func userActionSet(l []string) string {
	m := map[string]bool{}
	for _, a := range l {
		a = strings.TrimSpace(a)
		if a == "approve" || a == "noop" || strings.HasPrefix(a, "->") {
			continue
		}
		m[a] = true
	}
	var out []string
	for a := range m {
		out = append(out, a)
	}
	sort.Strings(out)
	return strings.Join(out, ",")
}

type soloResult struct {
	proj      map[string]interface{}
	light     map[string]interface{}
	fps       map[string]bool
	terminal  bool
	quiescent bool
	actions   string
	stop      string
}

func multiCase(env *core.Env, idx int, concurrent, timed bool) *core.CaseResult {
	res := &core.CaseResult{}
	rng := env.RNG(idx)
	tenants, sameNS := genTenants(rng)
	if timed {
		// grace periods of 1 s on the traffic routes: RunWithGraceSeconds now records expectations in the process-wide
		// table (with 0 it only clears them), waits are real
		for _, s := range tenants {
			if !s.HasTraffic() {
				s.Provider = "ingress:nginx"
			}
			s.Grace = 1
			s.Events = nil
			if len(s.Steps) > 2 {
				s.Steps = s.Steps[:2]
			}
		}
	}
	seed := rng.Int63()
	known := core.KnownFingerprints()
	knownFamily := map[string]bool{}
	for fp := range known {
		knownFamily[familyOf(fp)] = true
	}

	// each tenant alone
	solos := make([]*soloResult, len(tenants))
	for i, s := range tenants {
		r, m, vs, err := e1.RunScenario(cloneScenario(s), nil, false)
		if err != nil {
			res.Inconclusive = "engine: " + err.Error()
			return res
		}
		if strings.HasPrefix(r.StopReason, "install") || strings.HasPrefix(r.StopReason, "setup") {
			res.Count("cases_skipped_tenant_not_installable", 1)
			return res
		}
		so := &soloResult{fps: map[string]bool{}, terminal: r.Terminal, quiescent: r.Quiescent, actions: userActionSet(r.UserActions), stop: r.StopReason}
		snap := r.W.Store.Snapshot()
		so.proj = m.Projection(snap)
		so.light = lightProjection(snap, s, []*sim.Scenario{s})
		for _, v := range vs {
			so.fps[v.Fingerprint] = true
			if v.Prop == "C19" {
				// the cache-alias monitor (objects handed out by no-deep-copy lists must not be mutated: in production they
				// are the informer cache every other worker reads) belongs to this property whoever runs the scenario
				res.Violate(v.Fingerprint, v.Msg, gen.NF{"scenario": s, "detail": v.Detail})
			}
		}
		solos[i] = so
	}

	// all tenants together
	var clones []*sim.Scenario
	for _, s := range tenants {
		clones = append(clones, cloneScenario(s))
	}
	mr, err := sim.NewMultiRun(clones, repoDir(), seed, concurrent)
	if err != nil {
		res.Inconclusive = "engine: " + err.Error()
		return res
	}
	nsCount := map[string]int{}
	for _, s := range clones {
		nsCount[s.NS]++
	}
	mons := make([]*monitor.Set, len(clones))
	for i, r := range mr.Runs {
		if nsCount[r.S.NS] == 1 {
			mons[i] = monitor.AttachTenant(r)
		}
	}
	// every key of the process-wide grace / expectation tables must belong to exactly one of the rollouts
	judged := map[string]bool{}
	uidOwner := map[string]string{}
	ownerOf := func(ns, name string) string {
		best, bestLen := "", -1
		for _, t := range clones {
			if t.NS != ns {
				continue
			}
			if (name == t.Name || strings.HasPrefix(name, t.Name+"-")) && len(t.Name) > bestLen {
				best, bestLen = t.NS+"/"+t.Name, len(t.Name)
			}
		}
		return best
	}
	mr.AfterAction = func() {
		for table, keys := range map[string][]string{"grace": grace.VerifKeys(), "resource-expectations": expectations.VerifKeys()} {
			for _, k := range keys {
				if judged[table+k] {
					continue
				}
				judged[table+k] = true
				res.Count("process_table_keys_judged", 1)
				owner := ""
				if i := strings.Index(k, "/"); i > 0 {
					owner = ownerOf(k[:i], k[i+1:])
				} else {
					if _, ok := uidOwner[k]; !ok {
						snap := mr.W.Store.Snapshot()
						for _, key := range snap.Keys() {
							uidOwner[simapi.UID(snap.GetKey(key))] = ownerOf(key.NS, key.Name)
						}
					}
					owner = uidOwner[k]
				}
				if owner == "" {
					res.Violate("c19:process-table-key-not-attributable-to-one-rollout:"+table, fmt.Sprintf("the %s table holds key %q, which is neither <namespace>/<name> of one rollout's objects nor the uid of one: rollouts whose objects share that name share the entry", table, k), gen.NF{"key": k, "tenants": tenantNames(clones)})
				}
			}
		}
	}
	mr.Execute()
	res.Count("multi_runs", 1)
	res.Count("tenants_run_together", int64(len(clones)))
	res.Count("scheduler_actions", int64(mr.Actions))
	res.Count("store_writes", int64(mr.W.Store.Writes()))
	res.Count("reconciles_started", int64(mr.ReconcilesStarted))
	if concurrent {
		res.Count("concurrent_runs", 1)
		res.Count("reconcile_pairs_overlapping_in_time", int64(sumMap(mr.OverlappedPairs)))
		res.Count("reconcile_pairs_overlapping_across_tenants", int64(mr.CrossTenantPairs))
		for k := range mr.OverlappedPairs {
			res.AddSet("overlapping_controller_pairs", k)
		}
		res.AddSet("max_reconciles_in_flight", fmt.Sprint(mr.MaxInFlight))
	}
	if sameNS {
		res.Count("runs_with_two_tenants_in_one_namespace", 1)
	}
	if strings.HasPrefix(mr.StopReason, "install") || strings.HasPrefix(mr.StopReason, "setup") {
		res.Inconclusive = "multi-tenant setup: " + mr.StopReason
		return res
	}
	snap := mr.W.Store.Snapshot()
	var kinds []string
	for i, r := range mr.Runs {
		s := r.S
		so := solos[i]
		kinds = append(kinds, s.Kind+"/"+s.Style+"/"+providerKind(s.Provider))
		detail := func(extra interface{}) interface{} {
			var others []string
			for j, o := range clones {
				if j != i {
					others = append(others, o.String())
				}
			}
			status := interface{}(nil)
			if ro := r.Rollout(); ro != nil {
				status = ro.Status
			}
			var lastWrites []string
			if mons[i] != nil {
				lastWrites = mons[i].Tail()
			}
			return gen.NF{"lastWrites": lastWrites, "tenant": s, "together_with": others, "concurrent": concurrent, "seed": seed, "stop": r.StopReason, "soloStop": so.stop, "userActions": r.UserActions, "info": extra, "rolloutStatus": status, "schedulerTail": mr.Tail, "workload": mr.W.Store.Snapshot().GetKey(s.WorkloadKey())}
		}
		var vs []monitor.Violation
		if mons[i] != nil {
			vs = mons[i].Finish()
			for k, n := range mons[i].Counters {
				if k == "writes_seen" {
					res.Count("tenant_writes_monitored", n)
				}
			}
		}
		affectedByKnown := false
		for fp := range so.fps {
			if known[fp] {
				// the solo run itself shows a recorded finding of another property (whether it shows depends on the
				// schedule): its end state is not a reference
				affectedByKnown = true
			}
		}
		for _, v := range vs {
			if known[v.Fingerprint] {
				affectedByKnown = true
				res.AddSet("known_findings_seen", v.Fingerprint)
			}
		}
		for _, v := range vs {
			if so.fps[v.Fingerprint] || known[v.Fingerprint] {
				continue
			}
			if strings.HasPrefix(v.Fingerprint, "c07:") && !r.Terminal {
				continue // reported below as not-terminal
			}
			if knownFamily[familyOf(v.Fingerprint)] {
				// a variant of a recorded finding of another property: whether and in which variant those show depends on
				// the schedule (the solo run of this very tenant shows them under some scheduler seeds and not under
				// others), so their appearing only next to others says nothing about isolation
				res.AddSet("known_finding_family_seen_together_only", v.Fingerprint)
				continue
			}
			res.Violate("c19:monitor-silent-alone-fires-together:"+v.Fingerprint, fmt.Sprintf("tenant %s/%s: a monitor that is silent when the rollout runs alone fired when it ran next to others: %s", s.NS, s.Name, v.Msg), detail(v.Detail))
		}
		if so.terminal && !r.Terminal {
			res.Violate(fmt.Sprintf("c19:not-terminal-together:%s/%s", s.Kind, s.Style), fmt.Sprintf("tenant %s/%s reaches its terminal state alone (%s) but not next to the others (%s)", s.NS, s.Name, so.stop, r.StopReason), detail(nil))
			continue
		}
		if so.terminal && so.quiescent && r.Terminal && r.Quiescent && !affectedByKnown {
			if so.actions != userActionSet(r.UserActions) {
				res.Count("tenants_not_compared_different_user_actions_fired", 1)
				continue
			}
			res.Count("tenant_final_states_compared", 1)
			var want, got map[string]interface{}
			if mons[i] != nil {
				want, got = so.proj, mons[i].Projection(snap)
			} else {
				want, got = so.light, lightProjection(snap, s, clones)
				res.Count("tenant_final_states_compared_same_namespace", 1)
			}
			want, got = sameEndOfRelease(want, got)
			if d := gen.FirstDiff("", want, got); d != "" {
				res.Violate(fmt.Sprintf("c19:final-state-differs-from-solo:%s:%s/%s", normPath(d), s.Kind, s.Style), fmt.Sprintf("tenant %s/%s ends in a different state next to the others than alone, at %s", s.NS, s.Name, d), detail(gen.NF{"alone": want, "together": got}))
			}
		}
	}
	for _, p := range mr.W.Panics {
		res.Violate("c19:panic:"+core.NormPanic(p.Panic)+":"+p.PanicSite, "panic while several rollouts were reconciled: "+p.Panic, gen.NF{"stack": p.PanicStack})
	}
	sort.Strings(kinds)
	res.AddSig(fmt.Sprintf("multi|%s|conc=%v|sameNS=%v", strings.Join(kinds, "+"), concurrent, sameNS))
	if idx%16 == 2 || idx%16 == 3 {
		var ts []string
		for _, s := range clones {
			ts = append(ts, s.String())
		}
		res.Sample = gen.NF{"kind": "multi-tenant run", "tenants": ts, "concurrent": concurrent, "actions": mr.Actions, "writes": mr.W.Store.Writes(), "maxInFlight": mr.MaxInFlight, "overlaps": mr.OverlappedPairs, "stop": mr.StopReason}
	}
	return res
}

func tenantNames(l []*sim.Scenario) []string {
	var out []string
	for _, t := range l {
		out = append(out, t.NS+"/"+t.Name)
	}
	return out
}

func sumMap(m map[string]int) int {
	n := 0
	for _, v := range m {
		n += v
	}
	return n
}

func providerKind(p string) string {
	if i := strings.Index(p, ":"); i > 0 {
		return p[:i]
	}
	return p
}

var digits = regexp.MustCompile(`[0-9]+`)

func normPath(p string) string {
	p = digits.ReplaceAllString(p, "N")
	if len(p) > 80 {
		p = p[:80]
	}
	return p
}

// ---- race reports -------------------------------------------------------------------------------------------------

var frameRe = regexp.MustCompile(`^  ([^\s(]+)\(`)

// parseRaceLogs reads every GORACE log file with the given prefix and returns the reports deduplicated by the pair of
// innermost repo/harness functions of the two conflicting accesses (line numbers stripped).
func parseRaceLogs(prefix string) (reports map[string]string, blocks int) {
	reports = map[string]string{}
	files, _ := filepath.Glob(prefix + "*")
	for _, f := range files {
		b, err := os.ReadFile(f)
		if err != nil {
			continue
		}
		for _, blk := range strings.Split(string(b), "==================") {
			if !strings.Contains(blk, "WARNING: DATA RACE") {
				continue
			}
			blocks++
			// the first two stacks are the two accesses
			var tops []string
			section := -1
			got := false
			for _, l := range strings.Split(blk, "\n") {
				if strings.HasPrefix(l, "Read at") || strings.HasPrefix(l, "Write at") || strings.HasPrefix(l, "Previous read at") || strings.HasPrefix(l, "Previous write at") ||
					strings.HasPrefix(l, "Atomic") || strings.HasPrefix(l, "Previous atomic") {
					section++
					got = false
					continue
				}
				if strings.HasPrefix(l, "Goroutine ") {
					break
				}
				if section < 0 || section > 1 || got {
					continue
				}
				if m := frameRe.FindStringSubmatch(l); m != nil {
					fn := m[1]
					if strings.Contains(fn, "openkruise/rollouts/") || strings.HasPrefix(fn, "verif/harness/") {
						tops = append(tops, strings.TrimPrefix(fn, "github.com/openkruise/rollouts/"))
						got = true
					}
				}
			}
			if len(tops) == 0 {
				// no repo / harness frame in the accesses: key by the first frames of any package
				for _, l := range strings.Split(blk, "\n") {
					if m := frameRe.FindStringSubmatch(l); m != nil {
						tops = append(tops, m[1])
						if len(tops) == 2 {
							break
						}
					}
				}
			}
			sort.Strings(tops)
			key := strings.Join(tops, "|")
			if _, ok := reports[key]; !ok {
				if len(blk) > 6000 {
					blk = blk[:6000]
				}
				reports[key] = blk
			}
		}
	}
	return
}

func init() {
	core.Register(&core.Check{
		ID: "C19", Level: "exploration", ChunkSize: 1, DeathIsViolation: true,
		Relevant: "tenant_final_states_compared",
		Rule: "runtime monitoring under the Go race detector. (a) 2-4 rollouts with colliding names (same workload / Rollout / Service / Ingress names in different namespaces, namespaces that are prefixes of each other, " +
			"two workloads with prefix-related names in one namespace) run in ONE simulated cluster served by ONE set of real reconcilers; in concurrent cases reconciles run on real goroutines (3 workers per controller, " +
			"key-exclusive like a work-queue) while the scheduler goroutine steps the environment and the users; every tenant must reach the final projection of the same scenario run alone, and a monitor (C01-C05, C10, C11, C18) " +
			"that is silent alone must stay silent. (b) E4: 4-32 goroutines call grace expectations (direct and via RunWithGraceSeconds on the process-global instance) and ResourceExpectations on 2-4 colliding keys; the recorded " +
			"history {client, op, args, call, return} is checked per key with porcupine against a sequential set model. (c) concurrent Lua calls must return the answers of the same calls made alone. " +
			"All of it runs in a -race binary (GORACE halt_on_error=0 log_path): any DATA RACE block in the logs is a violation, a worker death (fatal concurrent map access) is a violation. distinct = signature of tenant mix / history shape.",
		Assumptions: []string{
			"the race detector only sees the interleavings that happened; held on the executions produced, not a proof",
			"environment actors, the simulated API server and the re-stated watch predicates are trusted; grace periods are 0 (fast mode)",
			"final states are compared only when the same user events fired alone and together (event triggers depend on the schedule)",
		},
		NumCases: func(env *core.Env) int {
			if env.Thorough() {
				return 1600
			}
			return 64
		},
		WorkerBinary: func(env *core.Env) string { return os.Getenv("VERIF_RACE_BIN") },
		WorkerEnv: func(env *core.Env, tmp string) []string {
			return []string{"GORACE=halt_on_error=0 log_path=" + filepath.Join(tmp, "race")}
		},
		RunCase: func(env *core.Env, idx int) *core.CaseResult {
			var res *core.CaseResult
			if idx%17 == 6 {
				// timed cases (real 1 s grace periods): spread over the workers, they mostly sleep
				res = multiCase(env, idx, true, true)
				if raceEnabled {
					res.Count("cases_run_under_race_detector", 1)
				}
				res.Count("timed_multi_runs", 1)
				return res
			}
			switch idx % 8 {
			case 0, 1:
				res = e4Case(env, idx)
			case 2:
				res = luaCase(env, idx)
			case 3:
				res = multiCase(env, idx, false, false)
			default:
				res = multiCase(env, idx, true, false)
			}
			if raceEnabled {
				res.Count("cases_run_under_race_detector", 1)
			}
			return res
		},
		Finish: func(env *core.Env, agg *core.Aggregate) {
			if os.Getenv("VERIF_RACE_BIN") == "" {
				agg.Inconclusive = append(agg.Inconclusive, "no -race worker binary (VERIF_RACE_BIN unset): race oracle did not run")
			}
			reports, blocks := parseRaceLogs(filepath.Join(agg.TmpDir, "race"))
			agg.Counters["race_report_blocks"] += int64(blocks)
			agg.Counters["race_reports_distinct"] += int64(len(reports))
			for key, blk := range reports {
				agg.AddViolation(-1, core.Violation{Fingerprint: "c19:data-race:" + key, Msg: "the Go race detector reported a data race between " + key, Detail: gen.NF{"report": strings.Split(blk, "\n")}})
			}
		},
	})
}
