package env

import (
	"crypto/sha1"
	"encoding/hex"
	"encoding/json"
	"fmt"
	"sort"
	"strconv"

	kruisev1alpha1 "github.com/openkruise/kruise-api/apps/v1alpha1"
	apps "k8s.io/api/apps/v1"
	corev1 "k8s.io/api/core/v1"
	metav1 "k8s.io/apimachinery/pkg/apis/meta/v1"
)

// Kruise Advanced DaemonSet controller model (updateStrategy RollingUpdate, rollingUpdateType Standard):
//   - one pod per node; the node set is e.Nodes nodes "node-0" .. "node-<n-1>" (no Node objects exist, nothing in the
//     code under test reads them); a pod carries its node in spec.nodeName;
//   - a missing pod is (re-)created from the *current* template, whatever the partition says (that is what a DaemonSet
//     controller does: the partition only limits which existing pods it deletes);
//   - rolling update: while not paused, delete pods of an old revision as long as more than `partition` old pods remain
//     and fewer than maxUnavailable (default 1) pods are unavailable; youngest old pod first is not defined by Kruise, the
//     model takes them in node order;
//   - status: observedGeneration, desiredNumberScheduled, currentNumberScheduled, numberReady, numberAvailable,
//     numberUnavailable, updatedNumberScheduled, daemonSetHash (the bare hash, as Kruise writes it).
// Pods carry the hash in the controller-revision-hash label, which is what the code under test reads.

// NodesAnnotation on a DaemonSet: the number of nodes its node selector matches in the modelled cluster.
const NodesAnnotation = "verif/nodes"

func dsHashOf(t *corev1.PodTemplateSpec) string {
	b, _ := json.Marshal(t)
	h := sha1.Sum(b)
	return hex.EncodeToString(h[:])[:10]
}

func (e *Env) stepDaemonSets() string {
	l := &kruisev1alpha1.DaemonSetList{}
	must(e.C.List(ctx(), l))
	for i := range l.Items {
		if a := e.syncDaemonSet(&l.Items[i]); a != "" {
			return a
		}
	}
	return ""
}

func (e *Env) syncDaemonSet(ds *kruisev1alpha1.DaemonSet) string {
	if ds.DeletionTimestamp != nil {
		return ""
	}
	update := dsHashOf(&ds.Spec.Template)
	N := e.Nodes
	if v, err := strconv.Atoi(ds.Annotations[NodesAnnotation]); err == nil && v >= 0 {
		// several DaemonSets of one simulated cluster may each be given their own node set (their node selector)
		N = v
	}
	pods := e.podsOf(ds.Namespace, ds)
	byNode := map[string]*corev1.Pod{}
	for _, p := range pods {
		byNode[p.Spec.NodeName] = p
	}
	part, paused, maxUnavail := 0, false, 1
	onDelete := ds.Spec.UpdateStrategy.Type == kruisev1alpha1.OnDeleteDaemonSetStrategyType
	if ru := ds.Spec.UpdateStrategy.RollingUpdate; ru != nil {
		if ru.Partition != nil {
			part = int(*ru.Partition)
		}
		if ru.Paused != nil {
			paused = *ru.Paused
		}
		if ru.MaxUnavailable != nil {
			maxUnavail = int(resolve(ru.MaxUnavailable, "1", N, true))
			if maxUnavail < 1 {
				maxUnavail = 1
			}
		}
	}
	// 1. a node without a pod gets one from the current template
	for n := 0; n < N; n++ {
		node := fmt.Sprintf("node-%d", n)
		if byNode[node] != nil {
			continue
		}
		labels := map[string]string{}
		for k, v := range ds.Spec.Template.Labels {
			labels[k] = v
		}
		labels[apps.ControllerRevisionHashLabelKey] = update
		spec := *ds.Spec.Template.Spec.DeepCopy()
		spec.NodeName = node
		p := e.newPod(ds.Namespace, ds.Name, labels, spec, *metav1.NewControllerRef(ds, kruisev1alpha1.SchemeGroupVersion.WithKind("DaemonSet")), "")
		must(e.C.Create(ctx(), p))
		return "ds-create-pod"
	}
	// 2. rolling update
	var olds []*corev1.Pod
	unavailable := 0
	for _, p := range pods {
		if p.Labels[apps.ControllerRevisionHashLabelKey] != update {
			olds = append(olds, p)
		}
		if !podReady(p) || !available(ds.Spec.MinReadySeconds) {
			unavailable++
		}
	}
	sort.Slice(olds, func(i, j int) bool { return olds[i].Spec.NodeName < olds[j].Spec.NodeName })
	if !onDelete && !paused && len(pods) == N && len(olds) > part && unavailable < maxUnavail {
		must(e.C.Delete(ctx(), olds[0]))
		return "ds-recreate-pod"
	}
	// 3. status
	st := ds.Status.DeepCopy()
	st.ObservedGeneration = ds.Generation
	st.DesiredNumberScheduled = int32(N)
	st.CurrentNumberScheduled = int32(len(pods))
	st.NumberReady, st.NumberAvailable, st.UpdatedNumberScheduled = 0, 0, 0
	for _, p := range pods {
		if podReady(p) {
			st.NumberReady++
			if available(ds.Spec.MinReadySeconds) {
				st.NumberAvailable++
			}
		}
		if p.Labels[apps.ControllerRevisionHashLabelKey] == update {
			st.UpdatedNumberScheduled++
		}
	}
	st.NumberUnavailable = st.DesiredNumberScheduled - st.NumberAvailable
	st.DaemonSetHash = update
	if fmt.Sprint(*st) == fmt.Sprint(ds.Status) {
		return ""
	}
	ds.Status = *st
	must(e.C.Status().Update(ctx(), ds))
	return "ds-status"
}
