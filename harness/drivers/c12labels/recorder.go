package c12labels

import (
	"context"
	"fmt"

	corev1 "k8s.io/api/core/v1"
	"sigs.k8s.io/controller-runtime/pkg/client"
)

// writeRec is one write the code under test sent to the store.
type writeRec struct {
	Verb   string            `json:"verb"`
	Kind   string            `json:"kind"`
	Name   string            `json:"name"`
	Patch  string            `json:"patch,omitempty"`
	Before map[string]string `json:"before,omitempty"` // pod labels before the write
	After  map[string]string `json:"after,omitempty"`  // pod labels after the write
	Err    string            `json:"err,omitempty"`
}

// recorder wraps the store client; reads pass through, every write is logged with the pod's labels before/after.
type recorder struct {
	client.Client
	log []writeRec
}

func copyLabels(m map[string]string) map[string]string {
	out := make(map[string]string, len(m))
	for k, v := range m {
		out[k] = v
	}
	return out
}

func (r *recorder) podLabels(obj client.Object) map[string]string {
	p := &corev1.Pod{}
	if err := r.Client.Get(context.Background(), client.ObjectKeyFromObject(obj), p); err != nil {
		return nil
	}
	return copyLabels(p.Labels)
}

func (r *recorder) record(verb string, obj client.Object, patch string, fn func() error) error {
	rec := writeRec{Verb: verb, Kind: fmt.Sprintf("%T", obj), Name: obj.GetName(), Patch: patch}
	_, isPod := obj.(*corev1.Pod)
	if isPod {
		rec.Before = r.podLabels(obj)
	}
	err := fn()
	if isPod {
		rec.After = r.podLabels(obj)
	}
	if err != nil {
		rec.Err = err.Error()
	}
	r.log = append(r.log, rec)
	return err
}

func (r *recorder) Patch(ctx context.Context, obj client.Object, patch client.Patch, opts ...client.PatchOption) error {
	data, _ := patch.Data(obj)
	return r.record("patch", obj, string(data), func() error { return r.Client.Patch(ctx, obj, patch, opts...) })
}
func (r *recorder) Update(ctx context.Context, obj client.Object, opts ...client.UpdateOption) error {
	return r.record("update", obj, "", func() error { return r.Client.Update(ctx, obj, opts...) })
}
func (r *recorder) Create(ctx context.Context, obj client.Object, opts ...client.CreateOption) error {
	return r.record("create", obj, "", func() error { return r.Client.Create(ctx, obj, opts...) })
}
func (r *recorder) Delete(ctx context.Context, obj client.Object, opts ...client.DeleteOption) error {
	return r.record("delete", obj, "", func() error { return r.Client.Delete(ctx, obj, opts...) })
}
func (r *recorder) DeleteAllOf(ctx context.Context, obj client.Object, opts ...client.DeleteAllOfOption) error {
	return r.record("deleteAllOf", obj, "", func() error { return r.Client.DeleteAllOf(ctx, obj, opts...) })
}
