#!/usr/bin/env python3
"""Prints the markdown table 'seeded change -> which quick checks caught it' from /verif/seeded/*/meta.json."""
import json, glob, os
rows = []
for f in sorted(glob.glob('/verif/seeded/*/meta.json')):
    m = json.load(open(f))
    name = os.path.basename(os.path.dirname(f))
    caught, missed = [], []
    for c, r in sorted(m.get('checks_run_against_it', {}).items()):
        (caught if r['exit'] == 1 and r['violations'] > 0 else missed).append(c)
    what = (m.get('what') or '').split('. ')[0]
    if len(what) > 150:
        what = what[:147] + '...'
    rows.append((name, what.replace('|', '/'), ' '.join(caught) or '—', ' '.join(missed) or ''))
print('| seeded change | what it breaks (first sentence of the author\'s description) | caught by (quick tier) | run, not caught |')
print('|---|---|---|---|')
for r in rows:
    print('| %s | %s | %s | %s |' % r)
