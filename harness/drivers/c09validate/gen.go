package c09validate

// Generators of v1beta1 / v1alpha1 Rollouts as an API server would hand them to admission: everything the
// CRD schema lets through (required lists, header-name pattern, minLength, enum are respected; nothing else).
// `noise` is the per-site chance (percent) of a garbage value, so that both the accepted and the rejected
// half of the input space are covered.

import (
	"fmt"
	"math/rand"
	"sort"

	"github.com/openkruise/rollouts/api/v1alpha1"
	"github.com/openkruise/rollouts/api/v1beta1"
	metav1 "k8s.io/apimachinery/pkg/apis/meta/v1"
	"k8s.io/apimachinery/pkg/runtime"
	"k8s.io/apimachinery/pkg/util/intstr"
	gatewayv1beta1 "sigs.k8s.io/gateway-api/apis/v1beta1"

	"verif/harness/gen"
)

type refT struct{ APIVersion, Kind string }

// every GVK of pkg/util knownWorkloadGVKs
var knownRefs = []refT{
	{"apps/v1", "Deployment"}, {"apps/v1", "Deployment"}, {"apps/v1", "Deployment"},
	{"apps.kruise.io/v1alpha1", "CloneSet"}, {"apps.kruise.io/v1alpha1", "CloneSet"},
	{"apps/v1", "StatefulSet"},
	{"apps.kruise.io/v1beta1", "StatefulSet"},
	{"apps.kruise.io/v1alpha1", "StatefulSet"},
	{"apps.kruise.io/v1alpha1", "DaemonSet"},
	{"apps/v1", "ReplicaSet"},
}

// same group/kind as a known workload under another version string
var altVersionRefs = []refT{
	{"apps/v1beta2", "Deployment"}, {"apps/v1beta1", "Deployment"}, {"apps.kruise.io/v1beta1", "CloneSet"},
	{"apps/v1beta2", "StatefulSet"}, {"apps.kruise.io/v1beta1", "DaemonSet"}, {"apps/v1beta2", "ReplicaSet"},
}

var unknownRefs = []refT{
	{"apps/v1", "DaemonSet"}, {"batch/v1", "Job"}, {"v1", "Pod"}, {"argoproj.io/v1alpha1", "Rollout"},
	{"a/b/c", "Deployment"}, {"", ""}, {"apps/v1", "deployment"}, {"extensions/v1beta1", "Deployment"},
	{"apps/v1", ""}, {"", "Deployment"}, {"apps.kruise.io/v1alpha1", "UnitedDeployment"},
}

var noiseLevels = []int{0, 0, 0, 2, 2, 5, 5, 12, 30}

func genRef(rng *rand.Rand, noise int) (apiVersion, kind, name string) {
	var r refT
	switch {
	case gen.Chance(rng, 3+noise):
		r = unknownRefs[rng.Intn(len(unknownRefs))]
	case gen.Chance(rng, 8):
		r = altVersionRefs[rng.Intn(len(altVersionRefs))]
	default:
		r = knownRefs[rng.Intn(len(knownRefs))]
	}
	name = gen.Pick(rng, "echo", "echo", "web", "w")
	if gen.Chance(rng, noise) {
		name = ""
	}
	return r.APIVersion, r.Kind, name
}

func genMetaFor(rng *rand.Rand) metav1.ObjectMeta {
	m := metav1.ObjectMeta{Name: gen.Pick(rng, "ro-a", "ro-b", "demo"), Namespace: gen.Pick(rng, "default", "default", "ns1"), Generation: int64(1 + rng.Intn(3))}
	if gen.Chance(rng, 30) {
		m.Labels = map[string]string{"team": gen.Pick(rng, "a", "b")}
	}
	if gen.Chance(rng, 25) {
		m.Annotations = map[string]string{"rollouts.kruise.io/rollback-in-batch": gen.Pick(rng, "true", "false", "")}
	}
	return m
}

var garbageReplicas = []func() *intstr.IntOrString{
	func() *intstr.IntOrString { return nil },
	func() *intstr.IntOrString { v := intstr.FromString("abc"); return &v },
	func() *intstr.IntOrString { v := intstr.FromString(""); return &v },
	func() *intstr.IntOrString { v := intstr.FromString("-5%"); return &v },
	func() *intstr.IntOrString { v := intstr.FromString("150%"); return &v },
	func() *intstr.IntOrString { v := intstr.FromString("5.5%"); return &v },
	func() *intstr.IntOrString { v := intstr.FromString("0%"); return &v },
	func() *intstr.IntOrString { v := intstr.FromString("50"); return &v },
	func() *intstr.IntOrString { v := intstr.FromString("%"); return &v },
	func() *intstr.IntOrString { v := intstr.FromInt(0); return &v },
	func() *intstr.IntOrString { v := intstr.FromInt(-3); return &v },
	func() *intstr.IntOrString { v := intstr.FromInt(2147483647); return &v },
}

// genReplicaSeq returns n replicas values; per-type non-decreasing unless unsorted.
func genReplicaSeq(rng *rand.Rand, n, noise int) []*intstr.IntOrString {
	mode := rng.Intn(10) // 0..4 percent, 5..7 int, 8..9 mixed
	sorted := !gen.Chance(rng, 4+2*noise)
	isPct := make([]bool, n)
	var pcts, ints []int
	for i := 0; i < n; i++ {
		switch {
		case mode <= 4:
			isPct[i] = true
		case mode <= 7:
			isPct[i] = false
		default:
			isPct[i] = gen.Chance(rng, 50)
		}
		if isPct[i] {
			pcts = append(pcts, 1+rng.Intn(100))
		} else {
			ints = append(ints, 1+rng.Intn(20))
		}
	}
	if sorted {
		sort.Ints(pcts)
		sort.Ints(ints)
	}
	out := make([]*intstr.IntOrString, n)
	pi, ii := 0, 0
	for i := 0; i < n; i++ {
		var v intstr.IntOrString
		if isPct[i] {
			v = intstr.FromString(fmt.Sprintf("%d%%", pcts[pi]))
			pi++
		} else {
			v = intstr.FromInt(ints[ii])
			ii++
		}
		out[i] = &v
		if gen.Chance(rng, noise) {
			out[i] = garbageReplicas[rng.Intn(len(garbageReplicas))]()
		}
	}
	return out
}

func genHeaders(rng *rand.Rand) []gatewayv1beta1.HTTPHeaderMatch {
	var hs []gatewayv1beta1.HTTPHeaderMatch
	for i, n := 0, rng.Intn(3); i < n; i++ {
		t := gatewayv1beta1.HeaderMatchType(gen.Pick(rng, "Exact", "RegularExpression"))
		hs = append(hs, gatewayv1beta1.HTTPHeaderMatch{Type: &t, Name: gatewayv1beta1.HTTPHeaderName(gen.Pick(rng, "user", "x-canary", "env")), Value: gen.Pick(rng, "a", "b", "^c.*")})
	}
	return hs
}

func genHdrMod(rng *rand.Rand) *gatewayv1beta1.HTTPHeaderFilter {
	if !gen.Chance(rng, 12) {
		return nil
	}
	f := &gatewayv1beta1.HTTPHeaderFilter{}
	for i, n := 0, rng.Intn(3); i < n; i++ {
		f.Set = append(f.Set, gatewayv1beta1.HTTPHeader{Name: gatewayv1beta1.HTTPHeaderName(gen.Pick(rng, "h1", "h2")), Value: "v"})
	}
	if gen.Chance(rng, 30) {
		f.Remove = []string{"r1"}
	}
	return f
}

func genMatchesBeta(rng *rand.Rand) []v1beta1.HttpRouteMatch {
	var ms []v1beta1.HttpRouteMatch
	for i, n := 0, 1+rng.Intn(2); i < n; i++ {
		m := v1beta1.HttpRouteMatch{}
		switch rng.Intn(5) {
		case 0:
			m.Headers = genHeaders(rng)
		case 1:
			t := gatewayv1beta1.QueryParamMatchType(gen.Pick(rng, "Exact", "RegularExpression"))
			m.QueryParams = []gatewayv1beta1.HTTPQueryParamMatch{{Type: &t, Name: "q", Value: gen.Pick(rng, "1", "x")}}
		case 2:
			t := gatewayv1beta1.PathMatchType(gen.Pick(rng, "Exact", "PathPrefix", "RegularExpression"))
			m.Path = &gatewayv1beta1.HTTPPathMatch{Type: &t, Value: gen.Strp(gen.Pick(rng, "/", "/api", "/v2/"))}
		case 3:
			m.Headers = genHeaders(rng)
			t := gatewayv1beta1.PathMatchType("PathPrefix")
			m.Path = &gatewayv1beta1.HTTPPathMatch{Type: &t, Value: gen.Strp("/")}
		case 4: // empty match object
		}
		ms = append(ms, m)
	}
	return ms
}

func genPause(rng *rand.Rand, noise int) *int32 {
	switch {
	case gen.Chance(rng, 55):
		return nil
	case gen.Chance(rng, noise+3):
		return gen.I32p(int32(-1 - rng.Intn(100)))
	default:
		return gen.I32p(int32(rng.Intn(600)))
	}
}

func genTraffic(rng *rand.Rand, noise int) *string {
	if gen.Chance(rng, noise) {
		return gen.Strp(gen.Pick(rng, "20", "abc", "-1%", "101%", "0%", "", "5.5%", "%"))
	}
	return gen.Strp(fmt.Sprintf("%d%%", 1+rng.Intn(100)))
}

func genFailureThreshold(rng *rand.Rand, noise int) *intstr.IntOrString {
	if !gen.Chance(rng, 25) {
		return nil
	}
	if gen.Chance(rng, noise+5) {
		return garbageReplicas[1+rng.Intn(len(garbageReplicas)-1)]()
	}
	var v intstr.IntOrString
	if gen.Chance(rng, 50) {
		v = intstr.FromInt(rng.Intn(5))
	} else {
		v = intstr.FromString(fmt.Sprintf("%d%%", rng.Intn(101)))
	}
	return &v
}

func genPatch(rng *rand.Rand) (map[string]string, map[string]string, bool) {
	if !gen.Chance(rng, 20) {
		return nil, nil, false
	}
	var a, l map[string]string
	if gen.Chance(rng, 60) {
		a = map[string]string{"anno": "v"}
	}
	if gen.Chance(rng, 60) {
		l = map[string]string{"lab": gen.Pick(rng, "v", "")}
	}
	return a, l, true
}

func genRoutingsBeta(rng *rand.Rand, noise int) []v1beta1.TrafficRoutingRef {
	n := 0
	switch {
	case gen.Chance(rng, 45):
		n = 0
	case gen.Chance(rng, 4+noise):
		n = 2 + rng.Intn(2)
	default:
		n = 1
	}
	var out []v1beta1.TrafficRoutingRef
	for i := 0; i < n; i++ {
		r := v1beta1.TrafficRoutingRef{Service: gen.Pick(rng, "svc", "echo"), GracePeriodSeconds: 3}
		if gen.Chance(rng, noise) {
			r.Service = ""
		}
		if gen.Chance(rng, 25) {
			r.GracePeriodSeconds = int32(1 + rng.Intn(30))
		}
		if gen.Chance(rng, noise) {
			r.GracePeriodSeconds = int32(-1 - rng.Intn(5))
		}
		kind := rng.Intn(10)
		if gen.Chance(rng, noise) {
			kind = 10 + rng.Intn(2)
		}
		switch {
		case kind <= 4:
			r.Ingress = &v1beta1.IngressTrafficRouting{Name: gen.Pick(rng, "ing", "ing2"), ClassType: gen.Pick(rng, "", "nginx", "aliyun-alb", "mse")}
			if gen.Chance(rng, noise) {
				r.Ingress.Name = ""
			}
		case kind <= 6:
			r.Gateway = &v1beta1.GatewayTrafficRouting{HTTPRouteName: gen.Strp(gen.Pick(rng, "route", "r2"))}
			if gen.Chance(rng, noise) {
				if gen.Chance(rng, 50) {
					r.Gateway.HTTPRouteName = nil
				} else {
					r.Gateway.HTTPRouteName = gen.Strp("")
				}
			}
		case kind <= 8:
			for j, m := 0, 1+rng.Intn(2); j < m; j++ {
				r.CustomNetworkRefs = append(r.CustomNetworkRefs, v1beta1.ObjectRef{APIVersion: "networking.istio.io/v1alpha3", Kind: gen.Pick(rng, "VirtualService", "DestinationRule"), Name: gen.Pick(rng, "vs", "dr", "")})
			}
		case kind == 9: // several at once
			r.Ingress = &v1beta1.IngressTrafficRouting{Name: "ing"}
			r.Gateway = &v1beta1.GatewayTrafficRouting{HTTPRouteName: gen.Strp("route")}
		case kind == 10: // none
		default:
			r.CustomNetworkRefs = []v1beta1.ObjectRef{{APIVersion: "", Kind: "", Name: ""}}
		}
		out = append(out, r)
	}
	return out
}

func genStepsBeta(rng *rand.Rand, noise int, partitionSafe bool) []v1beta1.CanaryStep {
	n := 1 + rng.Intn(6)
	if gen.Chance(rng, 3+noise) {
		n = 0
	}
	reps := genReplicaSeq(rng, n, noise)
	trafficChance := gen.Pick(rng, "0", "0", "35", "70")
	var steps []v1beta1.CanaryStep
	for i := 0; i < n; i++ {
		s := v1beta1.CanaryStep{Replicas: reps[i]}
		withTraffic := trafficChance != "0" && gen.Chance(rng, map[string]int{"35": 35, "70": 70}[trafficChance])
		if withTraffic && partitionSafe && reps[i] != nil && reps[i].Type == intstr.String && !gen.Chance(rng, 10+noise) {
			// keep most generated objects inside the partition-percent-limit (50%) so that they are not all rejected
			var p int
			if _, err := fmt.Sscanf(reps[i].StrVal, "%d%%", &p); err == nil && p > 50 {
				withTraffic = false
			}
		}
		if withTraffic {
			if gen.Chance(rng, 70) {
				s.Traffic = genTraffic(rng, noise)
			}
			if s.Traffic == nil || gen.Chance(rng, 25) {
				s.Matches = genMatchesBeta(rng)
			}
			s.RequestHeaderModifier = genHdrMod(rng)
		}
		s.Pause.Duration = genPause(rng, noise)
		steps = append(steps, s)
	}
	return steps
}

func genBeta(rng *rand.Rand, noise int) *v1beta1.Rollout {
	ro := &v1beta1.Rollout{ObjectMeta: genMetaFor(rng)}
	ro.Spec.WorkloadRef.APIVersion, ro.Spec.WorkloadRef.Kind, ro.Spec.WorkloadRef.Name = genRef(rng, noise)
	ro.Spec.Disabled = gen.Chance(rng, 10)
	ro.Spec.Strategy.Paused = gen.Chance(rng, 15)
	kind := 0 // canary
	switch {
	case gen.Chance(rng, 2+noise/2):
		kind = 2 // both
	case gen.Chance(rng, 2+noise/2):
		kind = 3 // neither
	case gen.Chance(rng, 30):
		kind = 1
	}
	if kind == 1 && !gen.Chance(rng, 10+noise) {
		// blue-green supports Deployment / CloneSet only; keep most objects inside
		if ro.Spec.WorkloadRef.Kind != "Deployment" && ro.Spec.WorkloadRef.Kind != "CloneSet" {
			ro.Spec.WorkloadRef.APIVersion, ro.Spec.WorkloadRef.Kind = "apps/v1", "Deployment"
		}
	}
	if kind == 0 || kind == 2 {
		c := &v1beta1.CanaryStrategy{}
		c.EnableExtraWorkloadForCanary = gen.Chance(rng, 45)
		c.Steps = genStepsBeta(rng, noise, true)
		c.TrafficRoutings = genRoutingsBeta(rng, noise)
		c.FailureThreshold = genFailureThreshold(rng, noise)
		if a, l, ok := genPatch(rng); ok {
			c.PatchPodTemplateMetadata = &v1beta1.PatchPodTemplateMetadata{Annotations: a, Labels: l}
		}
		if gen.Chance(rng, 12) {
			c.TrafficRoutingRef = gen.Pick(rng, "tr", "tr2")
		}
		c.DisableGenerateCanaryService = gen.Chance(rng, 10)
		ro.Spec.Strategy.Canary = c
	}
	if kind == 1 || kind == 2 {
		b := &v1beta1.BlueGreenStrategy{}
		b.Steps = genStepsBeta(rng, noise, false)
		b.TrafficRoutings = genRoutingsBeta(rng, noise)
		b.FailureThreshold = genFailureThreshold(rng, noise)
		if gen.Chance(rng, 12) {
			b.TrafficRoutingRef = gen.Pick(rng, "tr", "tr2")
		}
		b.DisableGenerateCanaryService = gen.Chance(rng, 10)
		ro.Spec.Strategy.BlueGreen = b
	}
	setTypeMeta(ro)
	return ro
}

// ---- v1alpha1 ---------------------------------------------------------------------------------------

func genRoutingsAlpha(rng *rand.Rand, noise int) []v1alpha1.TrafficRoutingRef {
	var out []v1alpha1.TrafficRoutingRef
	for _, r := range genRoutingsBeta(rng, noise) {
		o := v1alpha1.TrafficRoutingRef{Service: r.Service, GracePeriodSeconds: r.GracePeriodSeconds}
		if r.Ingress != nil {
			o.Ingress = &v1alpha1.IngressTrafficRouting{ClassType: r.Ingress.ClassType, Name: r.Ingress.Name}
		}
		if r.Gateway != nil {
			o.Gateway = &v1alpha1.GatewayTrafficRouting{HTTPRouteName: r.Gateway.HTTPRouteName}
		}
		for _, x := range r.CustomNetworkRefs {
			o.CustomNetworkRefs = append(o.CustomNetworkRefs, v1alpha1.CustomNetworkRef{APIVersion: x.APIVersion, Kind: x.Kind, Name: x.Name})
		}
		out = append(out, o)
	}
	return out
}

func genStepsAlpha(rng *rand.Rand, noise int) []v1alpha1.CanaryStep {
	n := 1 + rng.Intn(6)
	if gen.Chance(rng, 3+noise) {
		n = 0
	}
	reps := genReplicaSeq(rng, n, noise)
	weights := make([]int, n)
	for i := range weights {
		weights[i] = 1 + rng.Intn(100)
	}
	if !gen.Chance(rng, 4+2*noise) {
		sort.Ints(weights)
	}
	shape := rng.Intn(4) // 0 weight only, 1 replicas only, 2 both, 3 per-step random
	var steps []v1alpha1.CanaryStep
	for i := 0; i < n; i++ {
		s := v1alpha1.CanaryStep{}
		sh := shape
		if sh == 3 {
			sh = rng.Intn(3)
		}
		if gen.Chance(rng, noise) {
			sh = 4 // neither
		}
		if sh == 0 || sh == 2 {
			w := int32(weights[i])
			if gen.Chance(rng, noise) {
				switch rng.Intn(4) {
				case 0:
					w = 0
				case 1:
					w = -5
				case 2:
					w = 150
				default:
					w = 101
				}
			}
			if sh == 0 && w > 50 && !gen.Chance(rng, 30+noise) {
				w = w/2 + 1 // weight-only steps above the partition limit are rejected for partition style
			}
			s.Weight = &w
		}
		if sh == 1 || sh == 2 {
			s.Replicas = reps[i]
			if sh == 2 && s.Replicas != nil && s.Replicas.Type == intstr.String && !gen.Chance(rng, 20+noise) {
				var p int
				if _, err := fmt.Sscanf(s.Replicas.StrVal, "%d%%", &p); err == nil && p > 50 {
					s.Weight = nil
				}
			}
		}
		if gen.Chance(rng, 15) {
			for j, m := 0, 1+rng.Intn(2); j < m; j++ {
				s.Matches = append(s.Matches, v1alpha1.HttpRouteMatch{Headers: genHeaders(rng)})
			}
			s.RequestHeaderModifier = genHdrMod(rng)
		}
		s.Pause.Duration = genPause(rng, noise)
		steps = append(steps, s)
	}
	// weight-only sequences: keep them non-decreasing after the halving above
	if !gen.Chance(rng, 4+2*noise) {
		last := int32(0)
		for i := range steps {
			if steps[i].Weight != nil && *steps[i].Weight > 0 && *steps[i].Weight <= 100 {
				if *steps[i].Weight < last {
					*steps[i].Weight = last
				}
				last = *steps[i].Weight
			}
		}
	}
	return steps
}

func genAlpha(rng *rand.Rand, noise int) *v1alpha1.Rollout {
	ro := &v1alpha1.Rollout{ObjectMeta: genMetaFor(rng)}
	if !gen.Chance(rng, 1+noise/2) {
		av, k, n := genRef(rng, noise)
		ro.Spec.ObjectRef.WorkloadRef = &v1alpha1.WorkloadRef{APIVersion: av, Kind: k, Name: n}
	}
	ro.Spec.Disabled = gen.Chance(rng, 10)
	ro.Spec.Strategy.Paused = gen.Chance(rng, 15)
	if gen.Chance(rng, 12) {
		ro.Spec.DeprecatedRolloutID = "r1"
	}
	if gen.Chance(rng, 65) {
		if ro.Annotations == nil {
			ro.Annotations = map[string]string{}
		}
		style := gen.Pick(rng, "partition", "Partition", "PARTITION", "canary", "Canary", "")
		if gen.Chance(rng, 2+noise) {
			style = gen.Pick(rng, "bluegreen", "BlueGreen", "foo", " partition")
		}
		ro.Annotations[v1alpha1.RolloutStyleAnnotation] = style
	}
	if gen.Chance(rng, 12) {
		if ro.Annotations == nil {
			ro.Annotations = map[string]string{}
		}
		ro.Annotations[v1alpha1.TrafficRoutingAnnotation] = gen.Pick(rng, "tr", "tr2", "")
	}
	if !gen.Chance(rng, 2+noise/2) {
		c := &v1alpha1.CanaryStrategy{}
		c.Steps = genStepsAlpha(rng, noise)
		c.TrafficRoutings = genRoutingsAlpha(rng, noise)
		c.FailureThreshold = genFailureThreshold(rng, noise)
		if a, l, ok := genPatch(rng); ok {
			c.PatchPodTemplateMetadata = &v1alpha1.PatchPodTemplateMetadata{Annotations: a, Labels: l}
		}
		c.DisableGenerateCanaryService = gen.Chance(rng, 10)
		ro.Spec.Strategy.Canary = c
	}
	setTypeMeta(ro)
	return ro
}

// GenRollout is the raw generator: a v1beta1 (*v1beta1.Rollout) or v1alpha1 (*v1alpha1.Rollout) Rollout as an
// API server could hand it to admission (schema-valid, otherwise unrestricted). About half of the objects
// pass the real validating handler; filter with Admit.
func GenRollout(rng *rand.Rand) (obj runtime.Object, version string) {
	noise := noiseLevels[rng.Intn(len(noiseLevels))]
	if gen.Chance(rng, 50) {
		return genBeta(rng, noise), VBeta
	}
	return genAlpha(rng, noise), VAlpha
}

// ---- UPDATE: the new object as an edit of the (request-version view of the) stored one ----------------

func nextReplicasAfter(rng *rand.Rand, last *intstr.IntOrString) *intstr.IntOrString {
	var v intstr.IntOrString
	if last == nil || last.Type == intstr.Int {
		base := 1
		if last != nil {
			base = int(last.IntVal)
		}
		v = intstr.FromInt(base + rng.Intn(3))
	} else {
		var p int
		_, _ = fmt.Sscanf(last.StrVal, "%d%%", &p)
		if p < 1 {
			p = 1
		}
		if p > 100 {
			p = 100
		}
		v = intstr.FromString(fmt.Sprintf("%d%%", p+rng.Intn(101-p)))
	}
	return &v
}

var mutationKinds = []string{"meta", "stepCount", "workloadRef", "routing", "style", "stepValues", "fresh", "flags", "routingRef", "stepCount", "workloadRef", "routing", "style"}

func touchMeta(rng *rand.Rand, m *metav1.ObjectMeta) {
	if m.Labels == nil {
		m.Labels = map[string]string{}
	}
	m.Labels["edited"] = gen.Pick(rng, "1", "2")
}

func mutateRef(rng *rand.Rand, av, k, n *string) {
	switch rng.Intn(4) {
	case 0:
		*n = *n + "-2"
	case 1:
		// other kind of the same family (stays admissible for most styles)
		if *k == "Deployment" {
			*av, *k = "apps.kruise.io/v1alpha1", "CloneSet"
		} else {
			*av, *k = "apps/v1", "Deployment"
		}
	case 2:
		// same group/kind/name under another version string
		switch *av {
		case "apps/v1":
			*av = "apps/v1beta2"
		case "apps.kruise.io/v1alpha1":
			*av = "apps.kruise.io/v1beta1"
		default:
			*av = "apps/v1"
		}
	default:
		*av, *k, *n = genRef(rng, 0)
	}
}

// mutateBeta edits o in place and returns the names of the edits applied.
func mutateBeta(rng *rand.Rand, o *v1beta1.Rollout) (*v1beta1.Rollout, []string) {
	var applied []string
	for i, n := 0, 1+rng.Intn(10)/8; i < n; i++ {
		kind := mutationKinds[rng.Intn(len(mutationKinds))]
		var steps *[]v1beta1.CanaryStep
		var trs *[]v1beta1.TrafficRoutingRef
		var trRef *string
		switch {
		case o.Spec.Strategy.BlueGreen != nil:
			steps, trs, trRef = &o.Spec.Strategy.BlueGreen.Steps, &o.Spec.Strategy.BlueGreen.TrafficRoutings, &o.Spec.Strategy.BlueGreen.TrafficRoutingRef
		case o.Spec.Strategy.Canary != nil:
			steps, trs, trRef = &o.Spec.Strategy.Canary.Steps, &o.Spec.Strategy.Canary.TrafficRoutings, &o.Spec.Strategy.Canary.TrafficRoutingRef
		default:
			kind = "fresh"
		}
		switch kind {
		case "meta":
			touchMeta(rng, &o.ObjectMeta)
		case "stepCount":
			if len(*steps) > 1 && gen.Chance(rng, 50) {
				if gen.Chance(rng, 50) {
					*steps = (*steps)[:len(*steps)-1]
				} else {
					*steps = (*steps)[1:]
				}
			} else {
				var last *intstr.IntOrString
				if len(*steps) > 0 {
					last = (*steps)[len(*steps)-1].Replicas
				}
				*steps = append(*steps, v1beta1.CanaryStep{Replicas: nextReplicasAfter(rng, last)})
			}
		case "workloadRef":
			mutateRef(rng, &o.Spec.WorkloadRef.APIVersion, &o.Spec.WorkloadRef.Kind, &o.Spec.WorkloadRef.Name)
		case "routing":
			switch {
			case len(*trs) == 0:
				*trs = []v1beta1.TrafficRoutingRef{{Service: "svc", GracePeriodSeconds: 3, Ingress: &v1beta1.IngressTrafficRouting{Name: "ing"}}}
			case gen.Chance(rng, 25):
				*trs = nil
			case gen.Chance(rng, 33):
				(*trs)[0].Service += "2"
			case gen.Chance(rng, 50):
				(*trs)[0].GracePeriodSeconds += 5
			default:
				(*trs)[0].Ingress, (*trs)[0].CustomNetworkRefs = nil, nil
				(*trs)[0].Gateway = &v1beta1.GatewayTrafficRouting{HTTPRouteName: gen.Strp("route-x")}
			}
		case "style":
			if o.Spec.Strategy.Canary != nil && o.Spec.Strategy.BlueGreen == nil && !gen.Chance(rng, 30) {
				o.Spec.Strategy.Canary.EnableExtraWorkloadForCanary = !o.Spec.Strategy.Canary.EnableExtraWorkloadForCanary
			} else if o.Spec.Strategy.BlueGreen != nil {
				b := o.Spec.Strategy.BlueGreen
				o.Spec.Strategy.BlueGreen = nil
				o.Spec.Strategy.Canary = &v1beta1.CanaryStrategy{Steps: b.Steps, TrafficRoutings: b.TrafficRoutings, FailureThreshold: b.FailureThreshold, EnableExtraWorkloadForCanary: gen.Chance(rng, 50)}
			} else {
				c := o.Spec.Strategy.Canary
				o.Spec.Strategy.Canary = nil
				o.Spec.Strategy.BlueGreen = &v1beta1.BlueGreenStrategy{Steps: c.Steps, TrafficRoutings: c.TrafficRoutings, FailureThreshold: c.FailureThreshold}
			}
		case "stepValues":
			if len(*steps) > 0 {
				j := rng.Intn(len(*steps))
				switch rng.Intn(4) {
				case 0:
					var prev *intstr.IntOrString
					if j > 0 {
						prev = (*steps)[j-1].Replicas
					}
					(*steps)[j].Replicas = nextReplicasAfter(rng, prev)
				case 1:
					(*steps)[j].Pause.Duration = genPause(rng, 5)
				case 2:
					(*steps)[j].Traffic = genTraffic(rng, 5)
				default:
					(*steps)[j].Replicas = garbageReplicas[rng.Intn(len(garbageReplicas))]()
				}
			}
		case "fresh":
			f := genBeta(rng, noiseLevels[rng.Intn(len(noiseLevels))])
			f.Name, f.Namespace, f.ResourceVersion, f.UID = o.Name, o.Namespace, o.ResourceVersion, o.UID
			o = f
		case "flags":
			if gen.Chance(rng, 50) {
				o.Spec.Disabled = !o.Spec.Disabled
			} else {
				o.Spec.Strategy.Paused = !o.Spec.Strategy.Paused
			}
		case "routingRef":
			*trRef = gen.Pick(rng, "tr", "tr2", "tr3", "")
		}
		applied = append(applied, kind)
	}
	return o, applied
}

func mutateAlpha(rng *rand.Rand, o *v1alpha1.Rollout) (*v1alpha1.Rollout, []string) {
	var applied []string
	for i, n := 0, 1+rng.Intn(10)/8; i < n; i++ {
		kind := mutationKinds[rng.Intn(len(mutationKinds))]
		c := o.Spec.Strategy.Canary
		if c == nil && kind != "meta" {
			kind = "fresh"
		}
		if o.Spec.ObjectRef.WorkloadRef == nil && kind == "workloadRef" {
			kind = "fresh"
		}
		switch kind {
		case "meta":
			touchMeta(rng, &o.ObjectMeta)
		case "stepCount":
			if len(c.Steps) > 1 && gen.Chance(rng, 50) {
				if gen.Chance(rng, 50) {
					c.Steps = c.Steps[:len(c.Steps)-1]
				} else {
					c.Steps = c.Steps[1:]
				}
			} else {
				var last *intstr.IntOrString
				if len(c.Steps) > 0 {
					l := c.Steps[len(c.Steps)-1]
					last = l.Replicas
					if last == nil && l.Weight != nil {
						v := intstr.FromString(fmt.Sprintf("%d%%", *l.Weight))
						last = &v
					}
				}
				c.Steps = append(c.Steps, v1alpha1.CanaryStep{Replicas: nextReplicasAfter(rng, last)})
			}
		case "workloadRef":
			w := o.Spec.ObjectRef.WorkloadRef
			mutateRef(rng, &w.APIVersion, &w.Kind, &w.Name)
		case "routing":
			switch {
			case len(c.TrafficRoutings) == 0:
				c.TrafficRoutings = []v1alpha1.TrafficRoutingRef{{Service: "svc", GracePeriodSeconds: 3, Ingress: &v1alpha1.IngressTrafficRouting{Name: "ing"}}}
			case gen.Chance(rng, 25):
				c.TrafficRoutings = nil
			case gen.Chance(rng, 33):
				c.TrafficRoutings[0].Service += "2"
			case gen.Chance(rng, 50):
				c.TrafficRoutings[0].GracePeriodSeconds += 5
			default:
				c.TrafficRoutings[0].Ingress, c.TrafficRoutings[0].CustomNetworkRefs = nil, nil
				c.TrafficRoutings[0].Gateway = &v1alpha1.GatewayTrafficRouting{HTTPRouteName: gen.Strp("route-x")}
			}
		case "style":
			if o.Annotations == nil {
				o.Annotations = map[string]string{}
			}
			cur := o.Annotations[v1alpha1.RolloutStyleAnnotation]
			if cur == "partition" || cur == "Partition" || cur == "PARTITION" {
				o.Annotations[v1alpha1.RolloutStyleAnnotation] = gen.Pick(rng, "canary", "", "Canary")
			} else {
				o.Annotations[v1alpha1.RolloutStyleAnnotation] = gen.Pick(rng, "partition", "Partition")
			}
		case "stepValues":
			if len(c.Steps) > 0 {
				j := rng.Intn(len(c.Steps))
				switch rng.Intn(4) {
				case 0:
					var prev *intstr.IntOrString
					if j > 0 {
						prev = c.Steps[j-1].Replicas
					}
					c.Steps[j].Replicas = nextReplicasAfter(rng, prev)
				case 1:
					c.Steps[j].Pause.Duration = genPause(rng, 5)
				case 2:
					c.Steps[j].Weight = gen.I32p(int32(1 + rng.Intn(100)))
				default:
					c.Steps[j].Replicas = garbageReplicas[rng.Intn(len(garbageReplicas))]()
				}
			}
		case "fresh":
			f := genAlpha(rng, noiseLevels[rng.Intn(len(noiseLevels))])
			f.Name, f.Namespace, f.ResourceVersion, f.UID = o.Name, o.Namespace, o.ResourceVersion, o.UID
			o = f
		case "flags":
			if gen.Chance(rng, 50) {
				o.Spec.Disabled = !o.Spec.Disabled
			} else {
				o.Spec.Strategy.Paused = !o.Spec.Strategy.Paused
			}
		case "routingRef":
			if o.Annotations == nil {
				o.Annotations = map[string]string{}
			}
			o.Annotations[v1alpha1.TrafficRoutingAnnotation] = gen.Pick(rng, "tr", "tr2", "tr3")
		}
		applied = append(applied, kind)
	}
	return o, applied
}

// ---- other Rollouts of the namespace (stored, v1beta1) -----------------------------------------------

func makeOther(rng *rand.Rand, i int, ns string, ref v1beta1.ObjectRef) *v1beta1.Rollout {
	o := &v1beta1.Rollout{ObjectMeta: metav1.ObjectMeta{Name: fmt.Sprintf("other-%d", i), Namespace: ns, Generation: 1}}
	o.Spec.WorkloadRef = ref
	p20, p100 := intstr.FromString("20%"), intstr.FromString("100%")
	steps := []v1beta1.CanaryStep{{Replicas: &p20}, {Replicas: &p100}}
	if (ref.Kind == "Deployment" || ref.Kind == "CloneSet") && gen.Chance(rng, 35) {
		o.Spec.Strategy.BlueGreen = &v1beta1.BlueGreenStrategy{Steps: steps}
	} else {
		o.Spec.Strategy.Canary = &v1beta1.CanaryStrategy{Steps: steps, EnableExtraWorkloadForCanary: gen.Chance(rng, 40)}
	}
	o.Status.Phase = v1beta1.RolloutPhase(gen.Pick(rng, "Healthy", "Healthy", "Progressing", "Initial"))
	switch {
	case gen.Chance(rng, 15):
		o.Spec.Disabled = true
		o.Status.Phase = v1beta1.RolloutPhaseDisabled
	case gen.Chance(rng, 12):
		t := metav1.Unix(1700000000, 0)
		o.DeletionTimestamp = &t
		o.Finalizers = []string{"rollouts.kruise.io/rollout"}
		o.Status.Phase = v1beta1.RolloutPhaseTerminating
	}
	setTypeMeta(o)
	return o
}
