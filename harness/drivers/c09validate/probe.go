package c09validate

// Component-level controller probes on ACCEPTED Rollouts:
//  * the workload kind validation accepted is resolved by the real ControllerFinder (the first thing every
//    reconcile does in calculateRolloutStatus) against a cluster that really contains such a workload;
//  * the real CheckNextBatchIndexWithCorrect leaves a legal nextStepIndex for any patched value.

import (
	"context"
	"fmt"
	"math"

	kruisev1alpha1 "github.com/openkruise/kruise-api/apps/v1alpha1"
	kruisev1beta1 "github.com/openkruise/kruise-api/apps/v1beta1"
	"github.com/openkruise/rollouts/api/v1beta1"
	"github.com/openkruise/rollouts/pkg/util"
	apps "k8s.io/api/apps/v1"
	corev1 "k8s.io/api/core/v1"
	metav1 "k8s.io/apimachinery/pkg/apis/meta/v1"
	"k8s.io/apimachinery/pkg/runtime/schema"
	"k8s.io/apimachinery/pkg/types"
	"sigs.k8s.io/controller-runtime/pkg/client"

	"verif/harness/core"
)

func i32(v int32) *int32 { return &v }

// workloadObjects builds the workload a reference (group, kind, name) names, the way a cluster would hold it
// (API-server defaults applied: spec.replicas set; status observed), plus the ReplicaSet of a Deployment.
func workloadObjects(ref v1beta1.ObjectRef, ns string, progressing bool) []client.Object {
	g, ok := groupOf(ref.APIVersion)
	if !ok || ref.Name == "" {
		return nil
	}
	meta := metav1.ObjectMeta{Name: ref.Name, Namespace: ns, Generation: 2, UID: types.UID("uid-" + ref.Name), Labels: map[string]string{"app": ref.Name}}
	if progressing {
		meta.Annotations = map[string]string{util.InRolloutProgressingAnnotation: `{"rolloutName":"ro"}`}
	}
	sel := &metav1.LabelSelector{MatchLabels: map[string]string{"app": ref.Name}}
	tpl := corev1.PodTemplateSpec{ObjectMeta: metav1.ObjectMeta{Labels: map[string]string{"app": ref.Name}},
		Spec: corev1.PodSpec{Containers: []corev1.Container{{Name: "main", Image: "img:v2"}}}}
	switch g + "/" + ref.Kind {
	case "apps/Deployment":
		d := &apps.Deployment{ObjectMeta: meta, Spec: apps.DeploymentSpec{Replicas: i32(5), Selector: sel, Template: tpl, Paused: progressing},
			Status: apps.DeploymentStatus{ObservedGeneration: 2, Replicas: 5, ReadyReplicas: 5, UpdatedReplicas: 5, AvailableReplicas: 5}}
		oldTpl := *tpl.DeepCopy()
		oldTpl.Spec.Containers[0].Image = "img:v1"
		rs := &apps.ReplicaSet{ObjectMeta: metav1.ObjectMeta{Name: ref.Name + "-abc", Namespace: ns, UID: "uid-rs", Labels: map[string]string{"app": ref.Name, "pod-template-hash": "abc"},
			CreationTimestamp: metav1.Unix(1700000000, 0),
			OwnerReferences:   []metav1.OwnerReference{{APIVersion: "apps/v1", Kind: "Deployment", Name: ref.Name, UID: meta.UID, Controller: boolp(true)}}},
			Spec: apps.ReplicaSetSpec{Replicas: i32(5), Selector: sel, Template: oldTpl}}
		return []client.Object{d, rs}
	case "apps/ReplicaSet":
		return []client.Object{&apps.ReplicaSet{ObjectMeta: meta, Spec: apps.ReplicaSetSpec{Replicas: i32(5), Selector: sel, Template: tpl},
			Status: apps.ReplicaSetStatus{ObservedGeneration: 2, Replicas: 5, ReadyReplicas: 5, AvailableReplicas: 5}}}
	case "apps/StatefulSet":
		return []client.Object{&apps.StatefulSet{ObjectMeta: meta, Spec: apps.StatefulSetSpec{Replicas: i32(5), Selector: sel, Template: tpl},
			Status: apps.StatefulSetStatus{ObservedGeneration: 2, Replicas: 5, ReadyReplicas: 5, UpdatedReplicas: 2, CurrentRevision: ref.Name + "-v1", UpdateRevision: ref.Name + "-v2"}}}
	case "apps.kruise.io/CloneSet":
		return []client.Object{&kruisev1alpha1.CloneSet{ObjectMeta: meta, Spec: kruisev1alpha1.CloneSetSpec{Replicas: i32(5), Selector: sel, Template: tpl},
			Status: kruisev1alpha1.CloneSetStatus{ObservedGeneration: 2, Replicas: 5, ReadyReplicas: 5, UpdatedReplicas: 2, CurrentRevision: ref.Name + "-v1", UpdateRevision: ref.Name + "-v2"}}}
	case "apps.kruise.io/DaemonSet":
		return []client.Object{&kruisev1alpha1.DaemonSet{ObjectMeta: meta, Spec: kruisev1alpha1.DaemonSetSpec{Selector: sel, Template: tpl},
			Status: kruisev1alpha1.DaemonSetStatus{ObservedGeneration: 2, DesiredNumberScheduled: 5, NumberReady: 5, UpdatedNumberScheduled: 2, DaemonSetHash: ref.Name + "-v2"}}}
	case "apps.kruise.io/StatefulSet":
		// served as apps.kruise.io/v1beta1 (the type the finder reads for both the v1beta1 and the old v1alpha1 GVK)
		return []client.Object{&kruisev1beta1.StatefulSet{ObjectMeta: meta, Spec: kruisev1beta1.StatefulSetSpec{Replicas: i32(5), Selector: sel, Template: tpl},
			Status: kruisev1beta1.StatefulSetStatus{ObservedGeneration: 2, Replicas: 5, ReadyReplicas: 5, UpdatedReplicas: 2, CurrentRevision: ref.Name + "-v1", UpdateRevision: ref.Name + "-v2"}}}
	}
	return nil
}

func boolp(b bool) *bool { return &b }

type probeOut struct {
	Ran      bool
	Resolved bool // the finder returned a workload
	Err      string
	Findings []finding
}

// probeFinder runs the real finder (and the workload parsing the controllers do on the fetched object) for an
// accepted, stored (v1beta1) Rollout.
func probeFinder(stored *v1beta1.Rollout, progressing bool) probeOut {
	out := probeOut{}
	if stored.Spec.Strategy.Canary == nil && stored.Spec.Strategy.BlueGreen == nil {
		return out // no style to choose finders by; judged by the steps-nonempty promise
	}
	objs := workloadObjects(stored.Spec.WorkloadRef, stored.Namespace, progressing)
	c := NewClient(objs...)
	g, _ := groupOf(stored.Spec.WorkloadRef.APIVersion)
	kindKey := g + "/" + stored.Spec.WorkloadRef.Kind
	out.Ran = true
	var w *util.Workload
	var err error
	pi := core.Try(func() { w, err = util.NewControllerFinder(c).GetWorkloadForRef(stored) })
	if pi != nil {
		out.Findings = append(out.Findings, finding{FP: "c09v:accepted-kind-crashes-finder:" + kindKey + ":" + pi.Site + ":" + core.NormPanic(pi.Value), Clause: "FP",
			Msg:   fmt.Sprintf("validation accepted workloadRef %s %s, but ControllerFinder.GetWorkloadForRef panics when such a workload exists: %s", stored.Spec.WorkloadRef.APIVersion, stored.Spec.WorkloadRef.Kind, pi.Value),
			Extra: map[string]interface{}{"stack": pi.Stack, "workloadPresent": len(objs) > 0}})
		return out
	}
	if err != nil {
		out.Err = err.Error()
	}
	out.Resolved = w != nil
	// the controllers (batchrelease partition-style control, event handlers) read the fetched object through
	// util.GetEmptyWorkloadObject + util.ParseWorkload / GetMetadata / GetReplicas
	gvk := schema.FromAPIVersionAndKind(stored.Spec.WorkloadRef.APIVersion, stored.Spec.WorkloadRef.Kind)
	pi = core.Try(func() {
		obj := util.GetEmptyWorkloadObject(gvk)
		if obj == nil {
			return
		}
		if e := c.Get(context.TODO(), client.ObjectKey{Namespace: stored.Namespace, Name: stored.Spec.WorkloadRef.Name}, obj); e != nil {
			return
		}
		_ = util.GetMetadata(obj)
		_ = util.GetReplicas(obj)
		_ = util.ParseWorkload(obj)
	})
	if pi != nil {
		out.Findings = append(out.Findings, finding{FP: "c09v:accepted-kind-crashes-parse:" + kindKey + ":" + pi.Site + ":" + core.NormPanic(pi.Value), Clause: "FP",
			Msg:   fmt.Sprintf("validation accepted workloadRef %s %s, but util.GetMetadata/GetReplicas/ParseWorkload panic on the object util.GetEmptyWorkloadObject yields for it: %s", stored.Spec.WorkloadRef.APIVersion, stored.Spec.WorkloadRef.Kind, pi.Value),
			Extra: map[string]interface{}{"stack": pi.Stack}})
	}
	return out
}

// nextIdxCandidates: values a user may patch into status.*.nextStepIndex.
func nextIdxCandidate(sel int, steps int) int32 {
	cands := []int32{math.MaxInt32, math.MinInt32, 0, -1}
	for v := -5; v <= steps+5; v++ {
		cands = append(cands, int32(v))
	}
	if sel < 0 {
		sel = -sel
	}
	return cands[sel%len(cands)]
}

// probeNextIndex: real util.CheckNextBatchIndexWithCorrect on the accepted plan with a patched nextStepIndex.
// Expected (API doc of NextStepIndex + the property statement "corrected"): afterwards the index is a step of
// the plan (1..len) or -1; a legal patched value is left alone.
func probeNextIndex(stored *v1beta1.Rollout, sel int, curSel int) (ran bool, fs []finding) {
	v := viewBeta(stored)
	n := v.StepCount
	if len(v.Blocks) != 1 || n == 0 {
		return false, nil
	}
	if curSel < 0 {
		curSel = -curSel
	}
	cur := int32(1 + curSel%n)
	next := nextIdxCandidate(sel, n)
	ro := stored.DeepCopy()
	cs := v1beta1.CommonStatus{CurrentStepIndex: cur, NextStepIndex: next, CurrentStepState: v1beta1.CanaryStepStatePaused}
	ro.Status.Phase = v1beta1.RolloutPhaseProgressing
	if v.Style == "bluegreen" {
		ro.Status.BlueGreenStatus = &v1beta1.BlueGreenStatus{CommonStatus: cs}
	} else {
		ro.Status.CanaryStatus = &v1beta1.CanaryStatus{CommonStatus: cs}
	}
	pi := core.Try(func() { util.CheckNextBatchIndexWithCorrect(ro) })
	if pi != nil {
		return true, []finding{{FP: "c09v:nextStepIndex:panic:" + pi.Site + ":" + core.NormPanic(pi.Value), Clause: "NX",
			Msg:   fmt.Sprintf("CheckNextBatchIndexWithCorrect panicked for nextStepIndex=%d currentStepIndex=%d steps=%d: %s", next, cur, n, pi.Value),
			Extra: map[string]interface{}{"stack": pi.Stack}}}
	}
	var got int32
	if v.Style == "bluegreen" {
		got = ro.Status.BlueGreenStatus.NextStepIndex
	} else {
		got = ro.Status.CanaryStatus.NextStepIndex
	}
	legal := func(x int32) bool { return x == -1 || (x >= 1 && int(x) <= n) }
	switch {
	case !legal(got):
		fs = append(fs, finding{FP: "c09v:nextStepIndex:not-corrected", Clause: "NX",
			Msg: fmt.Sprintf("CheckNextBatchIndexWithCorrect left nextStepIndex=%d (patched %d, currentStepIndex=%d, %d steps)", got, next, cur, n)})
	case next >= 1 && int(next) <= n && got != next:
		fs = append(fs, finding{FP: "c09v:nextStepIndex:legal-value-changed", Clause: "NX",
			Msg: fmt.Sprintf("CheckNextBatchIndexWithCorrect changed the legal nextStepIndex %d to %d (%d steps)", next, got, n)})
	}
	return true, fs
}
