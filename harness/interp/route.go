// Package interp holds the reference interpreters shared by the monitors: where traffic goes (route), how many pods
// a workload object asks to be on the new revision (exposure), what a step plans (planned). They are written from
// the Kubernetes / Kruise / ingress-controller documentation and never call the repo's helpers.
package interp

import (
	"fmt"
	"sort"
	"strconv"
	"strings"

	"verif/harness/simapi"
)

// Target is one place a gateway resource sends traffic to.
type Target struct {
	Source  string // e.g. "Ingress/echo-ing-canary", "HTTPRoute/echo-route#rule1", "VirtualService/echo-vs#http0"
	Service string
	Share   int  // 0..100 share of the rule's traffic; for match rules 100
	Match   bool // the rule only applies to requests matching a canary condition (header / query / cookie)
	Canary  bool // the rule is a canary construct (canary Ingress, generated rule)
}

// Routes lists every (source, service) pair that receives a positive share of traffic or is the target of a match
// rule, for all Ingress / HTTPRoute / VirtualService objects in ns.
func Routes(v *simapi.View, ns string) []Target {
	var out []Target
	// ---- Ingress (nginx-family canary annotations)
	for _, ing := range v.List("Ingress", ns) {
		annos := simapi.StrMap(ing, "metadata.annotations")
		isCanary, weight, hasWeight, match := false, 0, false, false
		for k, val := range annos {
			switch {
			case strings.HasSuffix(k, "/canary") && val == "true":
				isCanary = true
			case strings.HasSuffix(k, "/canary-weight"):
				if n, err := strconv.Atoi(val); err == nil {
					weight, hasWeight = n, true
				}
			case strings.Contains(k, "/canary-by-header") || strings.Contains(k, "/canary-by-cookie") || strings.Contains(k, "/canary-by-query"):
				match = true
			}
		}
		svcs := ingressBackends(ing)
		src := "Ingress/" + simapi.Name(ing)
		for _, s := range svcs {
			switch {
			case !isCanary:
				out = append(out, Target{Source: src, Service: s, Share: 100})
			default:
				if hasWeight && weight > 0 {
					out = append(out, Target{Source: src, Service: s, Share: weight, Canary: true})
				}
				if match {
					out = append(out, Target{Source: src, Service: s, Share: 100, Match: true, Canary: true})
				}
			}
		}
	}
	// ---- Gateway API HTTPRoute
	for _, rt := range v.List("HTTPRoute", ns) {
		for i, rule := range simapi.List(rt, "spec.rules") {
			refs := simapi.List(rule, "backendRefs")
			total := 0
			for _, ref := range refs {
				total += int(simapi.IntD(ref, "weight", 1))
			}
			hasCond := false
			for _, m := range simapi.List(rule, "matches") {
				if len(simapi.List(m, "headers")) > 0 || len(simapi.List(m, "queryParams")) > 0 {
					hasCond = true
				}
			}
			for _, ref := range refs {
				kind := simapi.Str(ref, "kind")
				if kind != "" && kind != "Service" {
					continue
				}
				wgt := int(simapi.IntD(ref, "weight", 1))
				if wgt <= 0 || total <= 0 {
					continue
				}
				out = append(out, Target{Source: fmt.Sprintf("HTTPRoute/%s#rule%d", simapi.Name(rt), i), Service: simapi.Str(ref, "name"), Share: wgt * 100 / total, Match: hasCond})
			}
		}
	}
	// ---- Istio VirtualService
	for _, vs := range v.List("VirtualService", ns) {
		for i, h := range simapi.List(vs, "spec.http") {
			routes := simapi.List(h, "route")
			total := 0
			for _, r := range routes {
				total += int(simapi.IntD(r, "weight", 0))
			}
			hasCond := len(simapi.List(h, "match")) > 0
			for _, r := range routes {
				wgt := int(simapi.IntD(r, "weight", -1))
				if wgt < 0 {
					if len(routes) == 1 {
						wgt, total = 100, 100
					} else {
						wgt = 0
					}
				}
				if wgt <= 0 {
					continue
				}
				t := total
				if t <= 0 {
					t = 100
				}
				host := simapi.Str(r, "destination.host")
				out = append(out, Target{Source: fmt.Sprintf("VirtualService/%s#http%d", simapi.Name(vs), i), Service: host, Share: wgt * 100 / t, Match: hasCond})
			}
		}
	}
	sort.Slice(out, func(i, j int) bool {
		if out[i].Source != out[j].Source {
			return out[i].Source < out[j].Source
		}
		return out[i].Service < out[j].Service
	})
	return out
}

func ingressBackends(ing simapi.Obj) []string {
	set := map[string]bool{}
	if s := simapi.Str(ing, "spec.defaultBackend.service.name"); s != "" {
		set[s] = true
	}
	for _, r := range simapi.List(ing, "spec.rules") {
		for _, p := range simapi.List(r, "http.paths") {
			if s := simapi.Str(p, "backend.service.name"); s != "" {
				set[s] = true
			}
		}
	}
	var out []string
	for s := range set {
		out = append(out, s)
	}
	sort.Strings(out)
	return out
}

// CanaryRoute summarises how much traffic reaches service canary: the maximum weighted share over all sources and
// whether any match rule targets it.
type CanaryRoute struct {
	Share   int      // -1 = no weighted route to the canary service at all; otherwise max share (0..100)
	Match   bool     // a match rule targets the canary service
	Sources []string // sources with share > 0 or match
	// PerSource shares (weighted, non-match) by source kind, used for exact-value checks per provider
	PerSource map[string]int
}

func RouteTo(v *simapi.View, ns, svc string) CanaryRoute {
	cr := CanaryRoute{Share: -1, PerSource: map[string]int{}}
	for _, t := range Routes(v, ns) {
		if t.Service != svc {
			continue
		}
		if t.Match {
			cr.Match = true
		} else {
			if t.Share > cr.Share {
				cr.Share = t.Share
			}
			kind := t.Source[:strings.Index(t.Source, "/")]
			if t.Share > cr.PerSource[kind] {
				cr.PerSource[kind] = t.Share
			}
		}
		cr.Sources = append(cr.Sources, t.Source)
	}
	return cr
}

// Pinned returns the revision hash a Service selector is pinned to via key ("" if not pinned).
func Pinned(svc simapi.Obj, revisionKeys ...string) string {
	sel := simapi.StrMap(svc, "spec.selector")
	for _, k := range revisionKeys {
		if v := sel[k]; v != "" {
			return v
		}
	}
	return ""
}

var RevisionKeys = []string{"pod-template-hash", "controller-revision-hash"}

// LivePods counts live (not terminating) pods in ns whose labels match all of sel.
func LivePods(v *simapi.View, ns string, sel map[string]string) (total, ready int) {
	for _, p := range v.List("Pod", ns) {
		if simapi.Deleting(p) {
			continue
		}
		labels := simapi.StrMap(p, "metadata.labels")
		ok := true
		for k, val := range sel {
			if labels[k] != val {
				ok = false
				break
			}
		}
		if !ok {
			continue
		}
		total++
		for _, c := range simapi.List(p, "status.conditions") {
			if simapi.Str(c, "type") == "Ready" && simapi.Str(c, "status") == "True" {
				ready++
			}
		}
	}
	return
}
