package main

import (
	"verif/harness/core"
	_ "verif/harness/drivers/c08webhook"
)

func main() { core.Main() }
