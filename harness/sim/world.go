// Package sim is the closed-loop engine (E1): real reconcilers, real webhooks and real watch handlers driven against
// simapi under a seeded scheduler, with fault / crash injection.
package sim

import (
	"context"
	"encoding/json"
	"fmt"
	apimeta "k8s.io/apimachinery/pkg/api/meta"
	"runtime/debug"
	"sort"
	"strings"
	"sync"
	"time"

	kruisev1alpha1 "github.com/openkruise/kruise-api/apps/v1alpha1"
	kruisev1beta1 "github.com/openkruise/kruise-api/apps/v1beta1"
	admregv1 "k8s.io/api/admissionregistration/v1"
	apps "k8s.io/api/apps/v1"
	corev1 "k8s.io/api/core/v1"
	"k8s.io/apimachinery/pkg/apis/meta/v1/unstructured"
	"k8s.io/apimachinery/pkg/runtime"
	"k8s.io/apimachinery/pkg/runtime/schema"
	"k8s.io/apimachinery/pkg/types"
	clientgoscheme "k8s.io/client-go/kubernetes/scheme"
	"k8s.io/client-go/util/workqueue"
	ctrl "sigs.k8s.io/controller-runtime"
	"sigs.k8s.io/controller-runtime/pkg/client"
	"sigs.k8s.io/controller-runtime/pkg/event"
	"sigs.k8s.io/controller-runtime/pkg/handler"
	"sigs.k8s.io/controller-runtime/pkg/reconcile"
	gatewayv1beta1 "sigs.k8s.io/gateway-api/apis/v1beta1"

	rolloutapi "github.com/openkruise/rollouts/api"
	"github.com/openkruise/rollouts/api/v1alpha1"
	"github.com/openkruise/rollouts/api/v1beta1"
	"github.com/openkruise/rollouts/pkg/controller/batchrelease"
	"github.com/openkruise/rollouts/pkg/controller/rollout"
	trctrl "github.com/openkruise/rollouts/pkg/controller/trafficrouting"
	"github.com/openkruise/rollouts/pkg/trafficrouting"
	expectations "github.com/openkruise/rollouts/pkg/util/expectation"
	"github.com/openkruise/rollouts/pkg/util/grace"

	"verif/harness/env"
	"verif/harness/simapi"
)

// NewScheme returns the scheme used by the engine.
func NewScheme() *runtime.Scheme {
	s := runtime.NewScheme()
	_ = clientgoscheme.AddToScheme(s)
	_ = kruisev1alpha1.AddToScheme(s)
	_ = kruisev1beta1.AddToScheme(s)
	_ = rolloutapi.AddToScheme(s)
	_ = gatewayv1beta1.AddToScheme(s)
	_ = admregv1.AddToScheme(s)
	return s
}

type nopRecorder struct{}

func (nopRecorder) Event(object runtime.Object, eventtype, reason, message string) {}
func (nopRecorder) Eventf(object runtime.Object, eventtype, reason, messageFmt string, args ...interface{}) {
}
func (nopRecorder) AnnotatedEventf(object runtime.Object, annotations map[string]string, eventtype, reason, messageFmt string, args ...interface{}) {
}

// Controller is one real reconciler with its work-queue and watch bindings.
type Controller struct {
	Name       string
	Actor      string
	Rec        reconcile.Reconciler
	Client     *simapi.Client
	Ready      []types.NamespacedName             // keys queued by events / requeue / errors
	Timers     map[types.NamespacedName]time.Time // keys with RequeueAfter
	Idle       map[types.NamespacedName]int       // store write count at which the key last reconciled without writing
	IdleRuns   map[types.NamespacedName]int
	Bindings   []binding
	alias      []simapi.AliasEntry
	Reconciles int
	// Wake bookkeeping: why was a key enqueued (event / requeue / error / timer / restart)
	Woken map[string]int
}

type binding struct {
	gk      schema.GroupKind
	handler handler.EventHandler
	// predicate re-stated from the controller's inline predicate.Funcs (trusted); nil = pass all
	update func(oldObj, newObj client.Object) bool
}

func (c *Controller) enqueue(k types.NamespacedName, why string) {
	for _, e := range c.Ready {
		if e == k {
			return
		}
	}
	c.Ready = append(c.Ready, k)
	c.Woken[why]++
}

func (c *Controller) dequeue(k types.NamespacedName) {
	for i, e := range c.Ready {
		if e == k {
			c.Ready = append(c.Ready[:i], c.Ready[i+1:]...)
			return
		}
	}
}

// fakeQueue adapts handler output to the controller queue.
type fakeQueue struct {
	workqueue.RateLimitingInterface
	c *Controller
	w *World
}

func (q *fakeQueue) Add(item interface{}) {
	if r, ok := item.(reconcile.Request); ok {
		q.w.mu.Lock()
		q.c.enqueue(r.NamespacedName, "event")
		q.w.mu.Unlock()
	}
}
func (q *fakeQueue) AddAfter(item interface{}, d time.Duration) { q.Add(item) }
func (q *fakeQueue) AddRateLimited(item interface{})            { q.Add(item) }
func (q *fakeQueue) Forget(item interface{})                    {}
func (q *fakeQueue) Done(item interface{})                      {}

// Outcome of one reconcile.
type Outcome struct {
	Ctrl           string
	Key            types.NamespacedName
	Err            error
	Result         reconcile.Result
	Writes         int
	Crashed        bool   // crash signal (injected)
	Panic          string // real panic in controller code
	PanicSite      string
	PanicStack     string
	AliasMutations []string
	seen           int // store write count when the reconcile started
}

// World is one simulated cluster with the controllers under test.
type World struct {
	Scheme          *runtime.Scheme
	Store           *simapi.Store
	Env             *env.Env
	Ctrls           []*Controller
	pending         []simapi.Event
	RepoDir         string
	rid             int
	Restarts        int
	Panics          []Outcome
	AliasViolations []string
	// FaithfulRequeue: a negative RequeueAfter is dropped, as controller-runtime 0.14 does. Only meaningful when the
	// controllers' default grace periods are > 0 (timed mode): with the defaults forced to 0 for speed, "now + 0s" turns
	// every wait the production code would have into a non-positive delay, which is then honoured as "at once".
	FaithfulRequeue bool
	// ExtraControllers lets other packages plug in more real controllers (advanced deployment controller).
	ExtraControllers []func(w *World) *Controller
	// Trace, if set, receives a line per action.
	Trace   func(string)
	Actions int

	// mu guards the controllers' queue state, rid and the panic / alias lists (reconciles may run on several goroutines
	// in concurrent mode); pendMu guards pending, which is appended to under the store lock by whichever goroutine commits.
	mu       sync.Mutex
	pendMu   sync.Mutex
	concOnce sync.Once
	cs       *concState
	// Runaway is set when the store's growth guard fired: some object keeps growing; the run stops.
	Runaway string
	// OnOutcome, if set, is called (under mu) with the outcome of every reconcile.
	OnOutcome func(*Outcome)
	// Concurrent switches off the per-reconcile bookkeeping that assumes one reconcile at a time (alias tracking).
	Concurrent bool
}

// Options for building a world.
type Options struct {
	RepoDir      string
	GraceSeconds int32
	// FaithfulRequeue: see World.FaithfulRequeue
	FaithfulRequeue bool
	NoAdmission     bool
	UIDPrefix       string
	Concurrent      bool
}

var oldGrace [3]int32

// NewWorld builds store + admission + env + controllers.
func NewWorld(opt Options) (*World, error) {
	scheme := NewScheme()
	st := simapi.NewStore(scheme)
	st.UIDPrefix = opt.UIDPrefix
	w := &World{Scheme: scheme, Store: st, RepoDir: opt.RepoDir, Concurrent: opt.Concurrent, FaithfulRequeue: opt.FaithfulRequeue}
	if !opt.NoAdmission {
		adm, err := simapi.NewAdmission(st, opt.RepoDir)
		if err != nil {
			return nil, err
		}
		st.Admission = adm
		if err := adm.Install(st); err != nil {
			return nil, err
		}
	}
	rollout.VerifSetGracePeriodSeconds(opt.GraceSeconds)
	trafficrouting.VerifSetGracePeriodSeconds(opt.GraceSeconds)
	trctrl.VerifSetGracePeriodSeconds(opt.GraceSeconds)
	w.Env = env.New(st.As("env"))
	st.OnEvent = append(st.OnEvent, func(e simapi.Event) {
		w.pendMu.Lock()
		w.pending = append(w.pending, e)
		w.pendMu.Unlock()
	})
	w.buildControllers()
	return w, nil
}

func (w *World) newController(name, actor string) *Controller {
	c := &Controller{Name: name, Actor: actor, Timers: map[types.NamespacedName]time.Time{}, Idle: map[types.NamespacedName]int{}, IdleRuns: map[types.NamespacedName]int{}, Woken: map[string]int{}}
	c.Client = w.Store.As(actor)
	if !w.Concurrent {
		c.Client.Alias = &c.alias
	}
	return c
}

var workloadGKs = []schema.GroupKind{
	{Group: "apps", Kind: "Deployment"}, {Group: "apps", Kind: "StatefulSet"},
	{Group: "apps.kruise.io", Kind: "CloneSet"}, {Group: "apps.kruise.io", Kind: "DaemonSet"}, {Group: "apps.kruise.io", Kind: "StatefulSet"},
}

func (w *World) buildControllers() {
	w.Ctrls = nil
	rec := nopRecorder{}
	// Rollout controller
	rc := w.newController("rollout", "rollout-ctrl")
	rc.Rec = rollout.NewVerifReconciler(rc.Client, w.Scheme, rec)
	cache := w.Store.As("rollout-ctrl-cache")
	rc.Bindings = append(rc.Bindings, binding{gk: schema.GroupKind{Group: "rollouts.kruise.io", Kind: "Rollout"}, handler: &handler.EnqueueRequestForObject{}})
	rc.Bindings = append(rc.Bindings, binding{gk: schema.GroupKind{Group: "rollouts.kruise.io", Kind: "BatchRelease"}, handler: rollout.VerifBatchReleaseEventHandler(cache)})
	wh := rollout.VerifWorkloadEventHandler(cache, w.Scheme)
	for _, gk := range workloadGKs {
		rc.Bindings = append(rc.Bindings, binding{gk: gk, handler: wh})
	}
	w.Ctrls = append(w.Ctrls, rc)

	// BatchRelease controller
	bc := w.newController("batchrelease", "br-ctrl")
	bc.Rec = batchrelease.NewVerifReconciler(bc.Client, w.Scheme, rec)
	bcache := w.Store.As("br-ctrl-cache")
	bc.Bindings = append(bc.Bindings, binding{gk: schema.GroupKind{Group: "rollouts.kruise.io", Kind: "BatchRelease"}, handler: &handler.EnqueueRequestForObject{},
		update: func(o, n client.Object) bool {
			// re-stated from batchrelease.add (inline predicate.Funcs)
			if o.GetGeneration() != n.GetGeneration() || n.GetDeletionTimestamp() != nil {
				return true
			}
			return !simapi.Equal(nilIfEmpty(o.GetAnnotations()), nilIfEmpty(n.GetAnnotations())) || len(o.GetAnnotations()) != len(n.GetAnnotations())
		}})
	bc.Bindings = append(bc.Bindings, binding{gk: schema.GroupKind{Group: "", Kind: "Pod"}, handler: batchrelease.VerifPodEventHandler(bcache)})
	bwh := batchrelease.VerifWorkloadEventHandler(bcache)
	for _, gk := range workloadGKs {
		bc.Bindings = append(bc.Bindings, binding{gk: gk, handler: bwh})
	}
	w.Ctrls = append(w.Ctrls, bc)

	// TrafficRouting controller
	tc := w.newController("trafficrouting", "tr-ctrl")
	tc.Rec = trctrl.NewVerifReconciler(tc.Client, w.Scheme, rec)
	tc.Bindings = append(tc.Bindings, binding{gk: schema.GroupKind{Group: "rollouts.kruise.io", Kind: "TrafficRouting"}, handler: &handler.EnqueueRequestForObject{}})
	w.Ctrls = append(w.Ctrls, tc)

	for _, f := range append(append([]func(w *World) *Controller{}, ExtraControllerFactories...), w.ExtraControllers...) {
		if c := f(w); c != nil {
			w.Ctrls = append(w.Ctrls, c)
		}
	}
}

func nilIfEmpty(m map[string]string) interface{} {
	if len(m) == 0 {
		return nil
	}
	return m
}

// ExtraControllerFactories are plug-ins (registered from init functions) that add more real controllers to every world.
var ExtraControllerFactories []func(w *World) *Controller

// NewExtraController is used by plug-ins to create a controller shell bound to this world.
func (w *World) NewExtraController(name, actor string) *Controller {
	return w.newController(name, actor)
}

// AddBinding registers a watch binding on a controller (plug-ins).
func (c *Controller) AddBinding(gk schema.GroupKind, h handler.EventHandler, update func(o, n client.Object) bool) {
	c.Bindings = append(c.Bindings, binding{gk: gk, handler: h, update: update})
}

func (w *World) Ctrl(name string) *Controller {
	for _, c := range w.Ctrls {
		if c.Name == name {
			return c
		}
	}
	return nil
}

func (w *World) toClientObject(gvk schema.GroupVersionKind, o simapi.Obj) client.Object {
	if o == nil {
		return nil
	}
	b, _ := json.Marshal(o)
	if w.Scheme.Recognizes(gvk) {
		t, err := w.Scheme.New(gvk)
		if err == nil {
			if err := json.Unmarshal(b, t); err == nil {
				if co, ok := t.(client.Object); ok {
					co.GetObjectKind().SetGroupVersionKind(gvk)
					return co
				}
			}
		}
	}
	u := &unstructured.Unstructured{}
	_ = u.UnmarshalJSON(b)
	return u
}

// DeliverEvents feeds all pending watch events to the real handlers of every controller.
func (w *World) DeliverEvents() int {
	n := 0
	for {
		w.pendMu.Lock()
		if len(w.pending) == 0 {
			w.pendMu.Unlock()
			break
		}
		ev := w.pending[0]
		w.pending = w.pending[1:]
		w.pendMu.Unlock()
		n++
		gk := ev.GVK.GroupKind()
		var oldO, newO client.Object
		for _, c := range w.Ctrls {
			for _, b := range c.Bindings {
				if b.gk != gk {
					continue
				}
				if oldO == nil && ev.Old != nil {
					oldO = w.toClientObject(ev.GVK, ev.Old)
				}
				if newO == nil && ev.New != nil {
					newO = w.toClientObject(ev.GVK, ev.New)
				}
				q := &fakeQueue{c: c, w: w}
				func() {
					defer func() {
						if p := recover(); p != nil {
							w.mu.Lock()
							w.Panics = append(w.Panics, Outcome{Ctrl: c.Name + "/handler", Panic: fmt.Sprint(p), PanicStack: string(debug.Stack())})
							w.mu.Unlock()
						}
					}()
					switch ev.Type {
					case "ADDED":
						b.handler.Create(event.CreateEvent{Object: newO.DeepCopyObject().(client.Object)}, q)
					case "MODIFIED":
						if b.update != nil && !b.update(oldO, newO) {
							return
						}
						b.handler.Update(event.UpdateEvent{ObjectOld: oldO.DeepCopyObject().(client.Object), ObjectNew: newO.DeepCopyObject().(client.Object)}, q)
					case "DELETED":
						b.handler.Delete(event.DeleteEvent{Object: oldO.DeepCopyObject().(client.Object)}, q)
					}
				}()
			}
		}
	}
	return n
}

// Reconcile runs one reconcile of controller c for key k.
func (w *World) Reconcile(c *Controller, k types.NamespacedName) (out Outcome) {
	before := w.beginReconcile(c, k)
	out = w.runReconcile(c, k, before)
	w.finishReconcile(c, k, &out)
	return out
}

func (w *World) beginReconcile(c *Controller, k types.NamespacedName) int {
	w.mu.Lock()
	defer w.mu.Unlock()
	w.rid++
	if !w.Concurrent {
		w.Store.SetRid(c.Actor, w.rid)
		c.alias = c.alias[:0]
	}
	c.dequeue(k)
	delete(c.Timers, k)
	c.Reconciles++
	return w.Store.Writes()
}

// runReconcile calls the real reconciler (no harness lock held).
func (w *World) runReconcile(c *Controller, k types.NamespacedName, before int) (out Outcome) {
	out = Outcome{Ctrl: c.Name, Key: k, seen: before}
	func() {
		defer func() {
			if p := recover(); p != nil {
				if _, ok := p.(simapi.CrashSignal); ok {
					out.Crashed = true
					return
				}
				if rg, ok := p.(simapi.RunawayGrowth); ok {
					w.mu.Lock()
					w.Runaway = rg.Msg
					w.mu.Unlock()
					return
				}
				out.Panic = fmt.Sprint(p)
				out.PanicStack = string(debug.Stack())
				out.PanicSite = panicSite(out.PanicStack)
			}
		}()
		out.Result, out.Err = c.Rec.Reconcile(context.TODO(), ctrl.Request{NamespacedName: k})
	}()
	// in concurrent mode this counts the writes of every actor during the reconcile: > 0 only means "maybe wrote"
	out.Writes = w.Store.Writes() - before
	return out
}

func (w *World) finishReconcile(c *Controller, k types.NamespacedName, out *Outcome) {
	w.mu.Lock()
	defer w.mu.Unlock()
	if w.OnOutcome != nil {
		w.OnOutcome(out)
	}
	if !w.Concurrent {
		w.Store.SetRid(c.Actor, 0)
		// cache-alias monitor: objects obtained from no-deep-copy lists must not have been mutated
		// The recorded addresses are slots of the lists' own Items slices. Re-ordering such a slice (sort.Slice) is
		// harmless - the slice is the caller's - so a slot is judged by the object that sits in it now: its content must
		// be one of the contents handed out for an object of that name.
		handed := map[string]map[string]bool{}
		for _, a := range c.alias {
			k := a.Key.Kind + ":" + a.Key.NS + "/" + a.Key.Name
			if handed[k] == nil {
				handed[k] = map[string]bool{}
			}
			handed[k][a.JSON] = true
		}
		for _, a := range c.alias {
			b, _ := json.Marshal(a.Obj)
			if string(b) == a.JSON {
				continue
			}
			now := a.Key
			if acc, err := apimeta.Accessor(a.Obj); err == nil {
				now.NS, now.Name = acc.GetNamespace(), acc.GetName()
			}
			if handed[now.Kind+":"+now.NS+"/"+now.Name][string(b)] {
				continue // another element of the same list was moved into this slot
			}
			out.AliasMutations = append(out.AliasMutations, a.Key.String())
		}
		if len(out.AliasMutations) > 0 {
			w.AliasViolations = append(w.AliasViolations, fmt.Sprintf("%s reconcile %s mutated shared cache objects %v", c.Name, k, out.AliasMutations))
		}
	}
	if out.Crashed || out.Panic != "" {
		if out.Panic != "" {
			w.Panics = append(w.Panics, *out)
		}
		return
	}
	switch {
	case out.Err != nil:
		c.enqueue(k, "error")
	case out.Result.Requeue:
		c.enqueue(k, "requeue")
	case out.Result.RequeueAfter > 0 || (out.Result.RequeueAfter < 0 && !w.FaithfulRequeue):
		// controller-runtime 0.14 requeues only for RequeueAfter > 0; a negative value is dropped like a zero one
		d := out.Result.RequeueAfter
		if d < 0 {
			d = 0
		}
		c.Timers[k] = time.Now().Add(d)
		c.Woken["timer"]++
	}
	// the state this reconcile looked at; a write that landed after it started re-enables the key
	now := out.seen
	if out.Writes == 0 {
		if c.Idle[k] == now {
			c.IdleRuns[k]++
		} else {
			c.IdleRuns[k] = 1
		}
		c.Idle[k] = now
	} else {
		c.IdleRuns[k] = 0
		c.Idle[k] = -1
	}
}

func panicSite(stack string) string {
	lines := strings.Split(stack, "\n")
	seen := false
	for _, l := range lines {
		if strings.HasPrefix(l, "panic(") {
			seen = true
			continue
		}
		if !seen {
			continue
		}
		if strings.HasPrefix(l, "github.com/openkruise/rollouts/") {
			fn := l
			if i := strings.LastIndex(fn, "("); i > 0 {
				fn = fn[:i]
			}
			return strings.TrimPrefix(fn, "github.com/openkruise/rollouts/")
		}
	}
	return "unknown"
}

// Restart models a controller-manager restart: all in-memory state is lost, reconcilers are rebuilt and the informers
// replay every object as a create event.
func (w *World) Restart() {
	w.Restarts++
	grace.ResetExpectations()
	expectations.ResourceExpectations = expectations.NewResourceExpectations()
	w.pendMu.Lock()
	w.pending = nil
	w.pendMu.Unlock()
	w.mu.Lock()
	w.buildControllers()
	w.mu.Unlock()
	v := w.Store.Snapshot()
	w.pendMu.Lock()
	for _, k := range v.Keys() {
		o := v.GetKey(k)
		gv, _ := schema.ParseGroupVersion(simapi.Str(o, "apiVersion"))
		w.pending = append(w.pending, simapi.Event{Type: "ADDED", Key: k, GVK: gv.WithKind(k.Kind), New: o})
	}
	w.pendMu.Unlock()
	w.DeliverEvents()
}

// ResetProcessGlobals clears process-wide state of the code under test between cases run in one worker.
func ResetProcessGlobals() {
	grace.ResetExpectations()
	expectations.ResourceExpectations = expectations.NewResourceExpectations()
}

// EnabledReconciles lists (controller, key) pairs that may run now. Keys that reconciled without writing since the
// last store change are skipped until the store changes or their timer is due again.
func (w *World) EnabledReconciles(now time.Time) (ready []RecKey, timers []RecKey) {
	w.mu.Lock()
	defer w.mu.Unlock()
	for _, c := range w.Ctrls {
		for _, k := range c.Ready {
			ready = append(ready, RecKey{c, k})
		}
		var ks []types.NamespacedName
		for k := range c.Timers {
			ks = append(ks, k)
		}
		sort.Slice(ks, func(i, j int) bool { return ks[i].String() < ks[j].String() })
		for _, k := range ks {
			inReady := false
			for _, r := range c.Ready {
				if r == k {
					inReady = true
				}
			}
			if inReady {
				continue
			}
			if c.Idle[k] == w.Store.Writes() && c.IdleRuns[k] >= 1 && now.Before(c.Timers[k]) {
				continue // nothing changed since it last did nothing, and its timer is not due
			}
			timers = append(timers, RecKey{c, k})
		}
	}
	return
}

type RecKey struct {
	C *Controller
	K types.NamespacedName
}

// Typed getters used by scenarios and monitors.
func (w *World) GetRollout(ns, name string) *v1beta1.Rollout {
	o := &v1beta1.Rollout{}
	if err := w.Store.As("observer").Get(context.TODO(), types.NamespacedName{Namespace: ns, Name: name}, o); err != nil {
		return nil
	}
	return o
}

var _ = v1alpha1.GroupVersion
var _ = apps.SchemeGroupVersion
var _ = corev1.SchemeGroupVersion
