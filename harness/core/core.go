// Package core is the common runner of the runtime-monitoring harness: case planning, worker
// isolation, aggregation, known-findings matching, evidence and replay files.
package core

import (
	"bufio"
	"crypto/sha1"
	"encoding/hex"
	"encoding/json"
	"fmt"
	"math/rand"
	"os"
	"os/exec"
	"path/filepath"
	"runtime"
	"runtime/debug"
	"sort"
	"strconv"
	"strings"
	"sync"
	"time"
)

// Violation is one refuting observation made by a monitor.
type Violation struct {
	Fingerprint string      `json:"fingerprint"` // stable: <monitor>:<rule>:<normalised site / input class>
	Msg         string      `json:"msg"`
	Detail      interface{} `json:"detail,omitempty"`
}

// CaseResult is what one executed case reports.
type CaseResult struct {
	Idx          int                 `json:"idx"`
	ID           string              `json:"id,omitempty"`
	Sigs         []string            `json:"sigs,omitempty"`     // signatures of non-trivial checked situations (distinct-counted)
	Counters     map[string]int64    `json:"counters,omitempty"` // summed
	Sets         map[string][]string `json:"sets,omitempty"`     // unioned, reported by size (+ a few members)
	Violations   []Violation         `json:"violations,omitempty"`
	Sample       interface{}         `json:"sample,omitempty"`
	Inconclusive string              `json:"inconclusive,omitempty"`
}

func (r *CaseResult) Count(name string, n int64) {
	if r.Counters == nil {
		r.Counters = map[string]int64{}
	}
	r.Counters[name] += n
}
func (r *CaseResult) AddSet(name, member string) {
	if r.Sets == nil {
		r.Sets = map[string][]string{}
	}
	for _, m := range r.Sets[name] {
		if m == member {
			return
		}
	}
	r.Sets[name] = append(r.Sets[name], member)
}
func (r *CaseResult) AddSig(s string) {
	for _, m := range r.Sigs {
		if m == s {
			return
		}
	}
	r.Sigs = append(r.Sigs, s)
}
func (r *CaseResult) Violate(fp, msg string, detail interface{}) {
	for _, v := range r.Violations {
		if v.Fingerprint == fp {
			return
		}
	}
	if len(r.Violations) < 20 {
		r.Violations = append(r.Violations, Violation{Fingerprint: fp, Msg: msg, Detail: detail})
	}
}

// Env is what a case sees.
type Env struct {
	Prop string
	Tier string
	Seed int64
}

// RNG returns the deterministic PRNG of case idx.
func (e *Env) RNG(idx int) *rand.Rand {
	return rand.New(rand.NewSource(e.Seed*1000003 + int64(idx)*7919 + 17))
}
func (e *Env) Thorough() bool { return e.Tier == "thorough" }

// Check describes the check of one property.
type Check struct {
	ID          string
	Level       string // exploration | fault_enumeration
	Rule        string
	Assumptions []string
	// NumCases is a pure function of (tier, seed).
	NumCases func(env *Env) int
	// Setup runs once per worker process.
	Setup func(env *Env) error
	// RunCase executes case idx in a worker.
	RunCase func(env *Env, idx int) *CaseResult
	// Finish may add parent-side results (e.g. cross-case comparisons); optional.
	Finish func(env *Env, agg *Aggregate)
	// ChunkSize: results flushed every ChunkSize cases (1 for expensive cases).
	ChunkSize int
	// Relevant names a counter that must be > 0, otherwise the run is inconclusive.
	Relevant string
	// DeathIsViolation: an unrecoverable worker death counts as a violation of this property.
	DeathIsViolation bool
	// MaxWorkers limits parallelism (0 = default).
	MaxWorkers int
	// Exhaustive is reported in evidence when the check enumerates a finite domain completely.
	Exhaustive func(env *Env) bool
	// WorkerWrap, if set, is used to build the worker command (e.g. to run it under strace or a -race binary).
	WorkerBinary func(env *Env) string
	// WorkerEnv returns extra environment variables for worker processes (tmp is the run's scratch directory).
	WorkerEnv func(env *Env, tmp string) []string
	// CaseTimeout is the wall-clock watchdog per worker (inconclusive when it fires). Default 20 min.
	WorkerTimeout time.Duration
}

var registry = map[string]*Check{}

func Register(c *Check) { registry[c.ID] = c }
func Lookup(id string) *Check {
	return registry[id]
}
func IDs() []string {
	var ids []string
	for k := range registry {
		ids = append(ids, k)
	}
	sort.Strings(ids)
	return ids
}

// Aggregate is the parent-side sum of all case results.
type Aggregate struct {
	Evaluations  int64
	Sigs         map[string]struct{}
	Counters     map[string]int64
	Sets         map[string]map[string]struct{}
	Violations   []Violation
	ViolationIdx map[string]int // fingerprint -> first case idx
	Samples      []interface{}
	Inconclusive []string
	Deaths       []string
	TmpDir       string // scratch directory of the run (worker logs etc.), removed afterwards
}

func newAggregate() *Aggregate {
	return &Aggregate{Sigs: map[string]struct{}{}, Counters: map[string]int64{}, Sets: map[string]map[string]struct{}{}, ViolationIdx: map[string]int{}}
}

func (a *Aggregate) add(r *CaseResult) {
	a.Evaluations++
	for _, s := range r.Sigs {
		a.Sigs[s] = struct{}{}
	}
	for k, v := range r.Counters {
		a.Counters[k] += v
	}
	for k, ms := range r.Sets {
		if a.Sets[k] == nil {
			a.Sets[k] = map[string]struct{}{}
		}
		for _, m := range ms {
			a.Sets[k][m] = struct{}{}
		}
	}
	for _, v := range r.Violations {
		if _, seen := a.ViolationIdx[v.Fingerprint]; !seen {
			a.ViolationIdx[v.Fingerprint] = r.Idx
			a.Violations = append(a.Violations, v)
		}
	}
	if r.Sample != nil && len(a.Samples) < 4 {
		a.Samples = append(a.Samples, r.Sample)
	}
	if r.Inconclusive != "" && len(a.Inconclusive) < 50 {
		a.Inconclusive = append(a.Inconclusive, fmt.Sprintf("case %d: %s", r.Idx, r.Inconclusive))
	}
}

// AddViolation lets Finish hooks report parent-side violations.
func (a *Aggregate) AddViolation(idx int, v Violation) {
	if _, seen := a.ViolationIdx[v.Fingerprint]; !seen {
		a.ViolationIdx[v.Fingerprint] = idx
		a.Violations = append(a.Violations, v)
	}
}

// chunk is what a worker flushes.
type chunk struct {
	Start   *int          `json:"start,omitempty"`
	Results []*CaseResult `json:"results,omitempty"`
	Done    bool          `json:"done,omitempty"`
}

// PanicInfo describes a recovered panic.
type PanicInfo struct {
	Value string
	Stack string
	Site  string // first frame inside github.com/openkruise/rollouts (function name, no line)
}

// Try runs fn and converts a panic into a PanicInfo.
func Try(fn func()) (pi *PanicInfo) {
	defer func() {
		if p := recover(); p != nil {
			st := string(debug.Stack())
			pi = &PanicInfo{Value: fmt.Sprint(p), Stack: st, Site: repoSite(st)}
		}
	}()
	fn()
	return nil
}

func repoSite(stack string) string {
	lines := strings.Split(stack, "\n")
	seenPanic := false
	for _, l := range lines {
		if strings.HasPrefix(l, "panic(") {
			seenPanic = true
			continue
		}
		if !seenPanic {
			continue
		}
		if strings.HasPrefix(l, "github.com/openkruise/rollouts/") || strings.HasPrefix(l, "github.com/yuin/gopher-lua") {
			fn := l
			if i := strings.LastIndex(fn, "("); i > 0 {
				fn = fn[:i]
			}
			fn = strings.TrimPrefix(fn, "github.com/openkruise/rollouts/")
			return fn
		}
	}
	return "unknown"
}

// NormPanic strips numbers/addresses from a panic value so fingerprints are stable.
func NormPanic(v string) string {
	var b strings.Builder
	inNum := false
	for _, r := range v {
		if r >= '0' && r <= '9' {
			if !inNum {
				b.WriteByte('N')
				inNum = true
			}
			continue
		}
		inNum = false
		b.WriteRune(r)
	}
	s := b.String()
	if len(s) > 120 {
		s = s[:120]
	}
	return s
}

// ---------------------------------------------------------------------------------------------

func verifDir() string {
	if d := os.Getenv("VERIF_DIR"); d != "" {
		return d
	}
	return "/verif"
}

// WorkerMain is the entry point of a worker process.
func WorkerMain(args []string) int {
	// args: prop tier seed shard nshards out [only=<i,j,..>] [after=<idx>]
	if len(args) < 6 {
		fmt.Fprintln(os.Stderr, "worker: bad args")
		return 2
	}
	c := Lookup(args[0])
	if c == nil {
		fmt.Fprintln(os.Stderr, "worker: unknown property", args[0])
		return 2
	}
	seed, _ := strconv.ParseInt(args[2], 10, 64)
	shard, _ := strconv.Atoi(args[3])
	nsh, _ := strconv.Atoi(args[4])
	env := &Env{Prop: c.ID, Tier: args[1], Seed: seed}
	var only []int
	after := -1
	for _, a := range args[6:] {
		if strings.HasPrefix(a, "only=") {
			for _, s := range strings.Split(strings.TrimPrefix(a, "only="), ",") {
				i, _ := strconv.Atoi(s)
				only = append(only, i)
			}
		}
		if strings.HasPrefix(a, "after=") {
			after, _ = strconv.Atoi(strings.TrimPrefix(a, "after="))
		}
	}
	f, err := os.OpenFile(args[5], os.O_CREATE|os.O_WRONLY|os.O_APPEND, 0o644)
	if err != nil {
		fmt.Fprintln(os.Stderr, "worker:", err)
		return 2
	}
	defer f.Close()
	w := bufio.NewWriter(f)
	emit := func(ch chunk) {
		b, _ := json.Marshal(ch)
		w.Write(b)
		w.WriteByte('\n')
		w.Flush()
	}
	if c.Setup != nil {
		if err := c.Setup(env); err != nil {
			fmt.Fprintln(os.Stderr, "worker setup:", err)
			return 2
		}
	}
	n := c.NumCases(env)
	var idxs []int
	if only != nil {
		idxs = only
	} else {
		for i := shard; i < n; i += nsh {
			if i > after {
				idxs = append(idxs, i)
			}
		}
	}
	cs := c.ChunkSize
	if cs <= 0 {
		cs = 1
	}
	var pending []*CaseResult
	for _, i := range idxs {
		ii := i
		if cs == 1 || len(pending) == 0 {
			emit(chunk{Start: &ii})
		} else {
			// cheap journal: only the start marker of the chunk is durable; the crashing case is
			// found by re-running the chunk case by case.
		}
		var res *CaseResult
		pi := Try(func() { res = c.RunCase(env, ii) })
		if pi != nil {
			res = &CaseResult{Idx: ii}
			res.Violate("harness-panic:"+pi.Site+":"+NormPanic(pi.Value), "uncaught panic in case: "+pi.Value, pi.Stack)
		}
		if res == nil {
			res = &CaseResult{Idx: ii}
		}
		res.Idx = ii
		pending = append(pending, res)
		if len(pending) >= cs {
			emit(chunk{Results: pending})
			pending = nil
		}
	}
	if len(pending) > 0 {
		emit(chunk{Results: pending})
	}
	emit(chunk{Done: true})
	return 0
}

type workerOutcome struct {
	results   []*CaseResult
	done      bool
	lastStart int
	exitErr   string
	stderr    string
	timedOut  bool
}

func readChunks(path string) (res []*CaseResult, done bool, lastStart int) {
	lastStart = -1
	f, err := os.Open(path)
	if err != nil {
		return
	}
	defer f.Close()
	sc := bufio.NewScanner(f)
	sc.Buffer(make([]byte, 1<<20), 1<<30)
	for sc.Scan() {
		var ch chunk
		if err := json.Unmarshal(sc.Bytes(), &ch); err != nil {
			continue
		}
		if ch.Start != nil {
			lastStart = *ch.Start
		}
		res = append(res, ch.Results...)
		if ch.Done {
			done = true
		}
	}
	return
}

func tailFile(path string, n int) string {
	b, err := os.ReadFile(path)
	if err != nil {
		return ""
	}
	if len(b) > n {
		b = b[len(b)-n:]
	}
	return string(b)
}

func headFile(path string, n int) string {
	b, err := os.ReadFile(path)
	if err != nil {
		return ""
	}
	if len(b) > n {
		b = b[:n]
	}
	return string(b)
}

// Options of a parent run.
type Options struct {
	Tier       string
	Seed       int64
	ReplayIdx  []int // run only these cases
	ReplayFile string
	Workers    int
	KeepTmp    bool
}

// Finding is an entry of known_findings.json.
type Finding struct {
	Property    string `json:"property"`
	State       string `json:"state"` // known | fixed
	Fingerprint string `json:"fingerprint"`
	What        string `json:"what"`
	Commit      string `json:"commit,omitempty"`
}

func loadFindings() []Finding {
	var fs []Finding
	b, err := os.ReadFile(filepath.Join(verifDir(), "known_findings.json"))
	if err != nil {
		return nil
	}
	_ = json.Unmarshal(b, &fs)
	return fs
}

// KnownFingerprints returns the fingerprints of all recorded-but-unrepaired findings (any property). Relational
// checks (C06, C19) use it so that a known defect of another property is not re-reported as their own.
func KnownFingerprints() map[string]bool {
	out := map[string]bool{}
	for _, f := range loadFindings() {
		if f.State == "known" {
			out[f.Fingerprint] = true
		}
	}
	return out
}

// ParentMain runs check id and returns the process exit code.
func ParentMain(id string, opt Options) int {
	c := Lookup(id)
	if c == nil {
		fmt.Fprintln(os.Stderr, "unknown property", id)
		return 2
	}
	start := time.Now()
	env := &Env{Prop: id, Tier: opt.Tier, Seed: opt.Seed}
	n := c.NumCases(env)
	nw := opt.Workers
	if nw <= 0 {
		nw = runtime.NumCPU()
		if nw > 16 {
			nw = 16
		}
	}
	if c.MaxWorkers > 0 && nw > c.MaxWorkers {
		nw = c.MaxWorkers
	}
	if nw > n {
		nw = n
	}
	if nw < 1 {
		nw = 1
	}
	tmp, err := os.MkdirTemp("", "vcheck-"+id+"-")
	if err != nil {
		fmt.Fprintln(os.Stderr, err)
		return 2
	}
	if !opt.KeepTmp {
		defer os.RemoveAll(tmp)
	}
	self, _ := os.Executable()
	if c.WorkerBinary != nil {
		if b := c.WorkerBinary(env); b != "" {
			self = b
		}
	}
	wt := c.WorkerTimeout
	if wt == 0 {
		wt = 25 * time.Minute
		if opt.Tier == "thorough" {
			wt = 3 * time.Hour
		}
	}
	agg := newAggregate()
	agg.TmpDir = tmp
	var mu sync.Mutex

	runWorker := func(tag string, shard, nsh int, extra ...string) workerOutcome {
		out := filepath.Join(tmp, "w-"+tag+".jsonl")
		errf := filepath.Join(tmp, "w-"+tag+".stderr")
		ef, _ := os.Create(errf)
		args := []string{"worker", id, opt.Tier, strconv.FormatInt(opt.Seed, 10), strconv.Itoa(shard), strconv.Itoa(nsh), out}
		args = append(args, extra...)
		cmd := exec.Command(self, args...)
		cmd.Stdout = ef
		cmd.Stderr = ef
		cmd.Env = append(os.Environ(), "VERIF_WORKER=1")
		if c.WorkerEnv != nil {
			cmd.Env = append(cmd.Env, c.WorkerEnv(env, tmp)...)
		}
		var wo workerOutcome
		if err := cmd.Start(); err != nil {
			wo.exitErr = err.Error()
			return wo
		}
		timer := time.AfterFunc(wt, func() {
			wo.timedOut = true
			_ = cmd.Process.Signal(os.Interrupt)
			time.Sleep(200 * time.Millisecond)
			_ = cmd.Process.Kill()
		})
		err := cmd.Wait()
		timer.Stop()
		ef.Close()
		if err != nil {
			wo.exitErr = err.Error()
		}
		wo.results, wo.done, wo.lastStart = readChunks(out)
		wo.stderr = headFile(errf, 6000)
		if len(wo.stderr) >= 6000 {
			wo.stderr += "\n…\n" + tailFile(errf, 3000)
		}
		os.Remove(out)
		return wo
	}

	handleDeath := func(shard int, wo workerOutcome) (crashed int) {
		// returns the case index blamed, or -1
		return wo.lastStart
	}
	_ = handleDeath

	var wg sync.WaitGroup
	runShard := func(shard int) {
		defer wg.Done()
		after := -1
		for attempt := 0; attempt < 50; attempt++ {
			extra := []string{}
			if after >= 0 {
				extra = append(extra, "after="+strconv.Itoa(after))
			}
			wo := runWorker(fmt.Sprintf("s%d-a%d", shard, attempt), shard, nw, extra...)
			mu.Lock()
			for _, r := range wo.results {
				agg.add(r)
			}
			mu.Unlock()
			if wo.done {
				return
			}
			if wo.timedOut {
				mu.Lock()
				agg.Inconclusive = append(agg.Inconclusive, fmt.Sprintf("worker shard %d: watchdog fired (case %d running)", shard, wo.lastStart))
				mu.Unlock()
				return
			}
			// death. Determine which cases of the open chunk were not reported and re-run them singly.
			got := map[int]bool{}
			for _, r := range wo.results {
				got[r.Idx] = true
			}
			cs := c.ChunkSize
			if cs <= 0 {
				cs = 1
			}
			if wo.lastStart < 0 {
				mu.Lock()
				agg.Deaths = append(agg.Deaths, fmt.Sprintf("worker shard %d died before its first case: %s\n%s", shard, wo.exitErr, wo.stderr))
				mu.Unlock()
				return
			}
			var open []int
			for i, k := wo.lastStart, 0; i < n && k < cs; i, k = i+nw, k+1 {
				if !got[i] {
					open = append(open, i)
				}
			}
			lastOpen := wo.lastStart
			for _, i := range open {
				lastOpen = i
				w1 := runWorker(fmt.Sprintf("s%d-one%d", shard, i), shard, nw, "only="+strconv.Itoa(i))
				mu.Lock()
				for _, r := range w1.results {
					agg.add(r)
				}
				if !w1.done && !w1.timedOut {
					// reproduced death attributed to case i
					w2 := runWorker(fmt.Sprintf("s%d-two%d", shard, i), shard, nw, "only="+strconv.Itoa(i))
					if !w2.done {
						line := firstFatalLine(w2.stderr)
						v := Violation{Fingerprint: "worker-death:" + NormPanic(line), Msg: fmt.Sprintf("worker process died (reproduced twice) in case %d: %s", i, line), Detail: w2.stderr}
						if c.DeathIsViolation {
							agg.AddViolation(i, v)
						} else {
							agg.Deaths = append(agg.Deaths, fmt.Sprintf("case %d: %s", i, line))
							agg.AddViolation(i, v)
						}
					} else {
						for _, r := range w2.results {
							agg.add(r)
						}
						agg.Inconclusive = append(agg.Inconclusive, fmt.Sprintf("case %d: worker died once, not reproduced", i))
					}
				} else if w1.timedOut {
					agg.Inconclusive = append(agg.Inconclusive, fmt.Sprintf("case %d: watchdog", i))
				}
				mu.Unlock()
			}
			after = lastOpen
		}
	}

	if len(opt.ReplayIdx) > 0 {
		var parts []string
		for _, i := range opt.ReplayIdx {
			parts = append(parts, strconv.Itoa(i))
		}
		wo := runWorker("replay", 0, 1, "only="+strings.Join(parts, ","))
		for _, r := range wo.results {
			agg.add(r)
		}
		if !wo.done {
			line := firstFatalLine(wo.stderr)
			agg.AddViolation(opt.ReplayIdx[0], Violation{Fingerprint: "worker-death:" + NormPanic(line), Msg: "worker died: " + line, Detail: wo.stderr})
		}
	} else {
		for s := 0; s < nw; s++ {
			wg.Add(1)
			go runShard(s)
		}
		wg.Wait()
	}
	if c.Finish != nil {
		c.Finish(env, agg)
	}

	// verdict
	findings := loadFindings()
	known := map[string]Finding{}
	for _, f := range findings {
		if f.Property == id && f.State == "known" {
			known[f.Fingerprint] = f
		}
	}
	var unknown []Violation
	var knownHit []string
	sort.Slice(agg.Violations, func(i, j int) bool { return agg.Violations[i].Fingerprint < agg.Violations[j].Fingerprint })
	hit := map[string]bool{}
	for _, v := range agg.Violations {
		if _, ok := known[v.Fingerprint]; ok {
			knownHit = append(knownHit, v.Fingerprint)
			hit[v.Fingerprint] = true
			continue
		}
		unknown = append(unknown, v)
	}
	// one line per listed (genuine, unrepaired) finding of this property, whether or not this run happened to drive the
	// history that shows it (several depend on the schedule); a replay of selected cases lists only what it observed
	var fps []string
	for fp := range known {
		fps = append(fps, fp)
	}
	sort.Strings(fps)
	for _, fp := range fps {
		switch {
		case hit[fp]:
			fmt.Printf("KNOWN-FINDING: property=%s %s [%s; observed in this run]\n", id, known[fp].What, fp)
		case len(opt.ReplayIdx) == 0:
			fmt.Printf("KNOWN-FINDING: property=%s %s [%s; listed, not driven by this run's cases]\n", id, known[fp].What, fp)
		}
	}
	exit := 0
	replayDir := filepath.Join(verifDir(), "replays", id)
	for _, v := range unknown {
		_ = os.MkdirAll(replayDir, 0o755)
		h := sha1.Sum([]byte(v.Fingerprint))
		p := filepath.Join(replayDir, hex.EncodeToString(h[:6])+".json")
		rb, _ := json.MarshalIndent(map[string]interface{}{"property": id, "tier": opt.Tier, "seed": opt.Seed, "case": agg.ViolationIdx[v.Fingerprint],
			"fingerprint": v.Fingerprint, "msg": v.Msg, "detail": v.Detail}, "", " ")
		_ = os.WriteFile(p, rb, 0o644)
		fmt.Printf("VIOLATION property=%s replay=%s\n", id, p)
		fmt.Printf("  %s\n  %s\n", v.Fingerprint, trunc(v.Msg, 600))
		exit = 1
	}
	relevantZero := c.Relevant != "" && agg.Counters[c.Relevant] == 0
	if exit == 0 && len(opt.ReplayIdx) == 0 && (relevantZero || len(agg.Inconclusive) > 0 && int64(len(agg.Inconclusive))*5 > agg.Evaluations) {
		fmt.Printf("INCONCLUSIVE property=%s relevant=%s=%d inconclusive_cases=%d\n", id, c.Relevant, agg.Counters[c.Relevant], len(agg.Inconclusive))
		for i, s := range agg.Inconclusive {
			if i < 10 {
				fmt.Println("  ", s)
			}
		}
		exit = 2
	}
	for _, d := range agg.Deaths {
		fmt.Println("WORKER-DEATH:", trunc(d, 2000))
	}

	// evidence
	if len(opt.ReplayIdx) == 0 {
		cov := map[string]interface{}{
			"evaluations":         agg.Evaluations,
			"distinct_nontrivial": len(agg.Sigs),
			"rule":                c.Rule,
			"samples":             agg.Samples,
			"counters":            agg.Counters,
			"planned_cases":       n,
			"workers":             nw,
		}
		if len(agg.Samples) == 0 {
			cov["samples"] = []interface{}{}
		}
		sets := map[string]interface{}{}
		for k, m := range agg.Sets {
			var ms []string
			for x := range m {
				ms = append(ms, x)
			}
			sort.Strings(ms)
			ent := map[string]interface{}{"distinct": len(ms)}
			if len(ms) > 40 {
				ent["first_40"] = ms[:40]
			} else {
				ent["members"] = ms
			}
			sets[k] = ent
		}
		cov["observed_sets"] = sets
		if c.Exhaustive != nil {
			cov["exhaustive"] = c.Exhaustive(env)
		}
		cov["known_findings_hit"] = knownHit
		cov["inconclusive_cases"] = len(agg.Inconclusive)
		if len(agg.Inconclusive) > 0 {
			k := len(agg.Inconclusive)
			if k > 5 {
				k = 5
			}
			cov["inconclusive_examples"] = agg.Inconclusive[:k]
		}
		var vs []string
		for _, v := range unknown {
			vs = append(vs, v.Fingerprint)
		}
		cov["violation_fingerprints"] = vs
		ev := map[string]interface{}{
			"property_id": id,
			"tier":        opt.Tier,
			"seed":        opt.Seed,
			"level":       c.Level,
			"coverage":    cov,
			"assumptions": c.Assumptions,
			"wall_s":      float64(int(time.Since(start).Seconds()*100)) / 100,
			"violations":  len(unknown),
		}
		_ = os.MkdirAll(filepath.Join(verifDir(), "evidence"), 0o755)
		eb, _ := json.MarshalIndent(ev, "", " ")
		if err := os.WriteFile(filepath.Join(verifDir(), "evidence", id+".json"), append(eb, '\n'), 0o644); err != nil {
			fmt.Fprintln(os.Stderr, "evidence:", err)
		}
	}
	fmt.Printf("%s tier=%s seed=%d cases=%d evaluated=%d distinct=%d violations=%d known=%d inconclusive=%d wall=%.1fs\n",
		id, opt.Tier, opt.Seed, n, agg.Evaluations, len(agg.Sigs), len(unknown), len(knownHit), len(agg.Inconclusive), time.Since(start).Seconds())
	var ks []string
	for k := range agg.Counters {
		ks = append(ks, k)
	}
	sort.Strings(ks)
	for _, k := range ks {
		fmt.Printf("  %-40s %d\n", k, agg.Counters[k])
	}
	return exit
}

func trunc(s string, n int) string {
	if len(s) > n {
		return s[:n] + "…"
	}
	return s
}

func firstFatalLine(stderr string) string {
	for _, l := range strings.Split(stderr, "\n") {
		if strings.HasPrefix(l, "fatal error:") || strings.HasPrefix(l, "panic:") || strings.HasPrefix(l, "runtime:") || strings.Contains(l, "SIGSEGV") {
			return strings.TrimSpace(l)
		}
	}
	ls := strings.Split(strings.TrimSpace(stderr), "\n")
	if len(ls) > 0 {
		return strings.TrimSpace(ls[0])
	}
	return "no output"
}
