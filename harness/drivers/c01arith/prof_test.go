package c01arith

import (
	"testing"
	"verif/harness/core"
)

func TestProf(t *testing.T) {
	env := &core.Env{Prop: "C01A", Tier: "quick", Seed: 1}
	for _, c := range []int{8, 13, 14} {
		r := RunCase(env, c)
		t.Log(c, r.Counters["evaluations"], len(r.Violations))
	}
}
