package main

import (
	"verif/harness/core"
	_ "verif/harness/drivers/c09validate"
)

func main() { core.Main() }
