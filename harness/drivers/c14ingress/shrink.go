package c14ingress

import (
	netv1 "k8s.io/api/networking/v1"
)

const maxShrinkProbes = 150

// shrink greedily applies input reductions while holds() stays true.
func shrink(sc *scenario, holds func(*scenario) bool) *scenario {
	cur := sc.clone()
	probes := 0
	for {
		progressed := false
		for _, red := range reductions(cur) {
			if probes >= maxShrinkProbes {
				return cur
			}
			cand := red()
			if cand == nil {
				continue
			}
			probes++
			if holds(cand) {
				cur = cand
				progressed = true
				break
			}
		}
		if !progressed {
			return cur
		}
	}
}

// reductions lists candidate one-step simplifications of cur (each returns a new scenario or nil).
func reductions(cur *scenario) []func() *scenario {
	var out []func() *scenario
	add := func(f func(c *scenario) bool) {
		out = append(out, func() *scenario {
			c := cur.clone()
			if !f(c) {
				return nil
			}
			return c
		})
	}
	// steps: drop one
	for i := range cur.Steps {
		i := i
		if len(cur.Steps) > 1 {
			add(func(c *scenario) bool { c.Steps = append(c.Steps[:i:i], c.Steps[i+1:]...); return true })
		}
	}
	if cur.Bystander != nil {
		add(func(c *scenario) bool { c.Bystander = nil; return true })
	}
	ing := cur.Stable
	for i := range ing.Spec.Rules {
		i := i
		if len(ing.Spec.Rules) > 1 {
			add(func(c *scenario) bool {
				c.Stable.Spec.Rules = append(c.Stable.Spec.Rules[:i:i], c.Stable.Spec.Rules[i+1:]...)
				return true
			})
		}
	}
	for i := range ing.Spec.Rules {
		i := i
		if ing.Spec.Rules[i].HTTP == nil {
			add(func(c *scenario) bool {
				c.Stable.Spec.Rules[i].HTTP = &netv1.HTTPIngressRuleValue{Paths: []netv1.HTTPIngressPath{{Path: "/", PathType: &ptPrefix,
					Backend: netv1.IngressBackend{Service: &netv1.IngressServiceBackend{Name: otherSvc, Port: netv1.ServiceBackendPort{Number: 80}}}}}}
				return true
			})
			continue
		}
		for j := range ing.Spec.Rules[i].HTTP.Paths {
			j := j
			if len(ing.Spec.Rules[i].HTTP.Paths) > 1 {
				add(func(c *scenario) bool {
					ps := c.Stable.Spec.Rules[i].HTTP.Paths
					c.Stable.Spec.Rules[i].HTTP.Paths = append(ps[:j:j], ps[j+1:]...)
					return true
				})
			}
			if ing.Spec.Rules[i].HTTP.Paths[j].Backend.Service == nil {
				add(func(c *scenario) bool {
					c.Stable.Spec.Rules[i].HTTP.Paths[j].Backend = netv1.IngressBackend{Service: &netv1.IngressServiceBackend{Name: otherSvc, Port: netv1.ServiceBackendPort{Number: 80}}}
					return true
				})
			}
		}
		if ing.Spec.Rules[i].Host != "a.example.com" {
			add(func(c *scenario) bool { c.Stable.Spec.Rules[i].Host = "a.example.com"; return true })
		}
		if ing.Spec.Rules[i].HTTP != nil {
			// canonical path: "/" Prefix -> stable Service :80
			for j := range ing.Spec.Rules[i].HTTP.Paths {
				j := j
				p := ing.Spec.Rules[i].HTTP.Paths[j]
				if b := p.Backend.Service; b != nil && (b.Name != cur.StableSvc || b.Port.Number != 80 || p.Path != "/" || p.PathType == nil || *p.PathType != ptPrefix) {
					add(func(c *scenario) bool {
						c.Stable.Spec.Rules[i].HTTP.Paths[j] = netv1.HTTPIngressPath{Path: "/", PathType: &ptPrefix,
							Backend: netv1.IngressBackend{Service: &netv1.IngressServiceBackend{Name: c.StableSvc, Port: netv1.ServiceBackendPort{Number: 80}}}}
						return true
					})
				}
			}
		}
	}
	if ing.Spec.DefaultBackend != nil {
		add(func(c *scenario) bool { c.Stable.Spec.DefaultBackend = nil; return len(c.Stable.Spec.Rules) > 0 })
	}
	if ing.Spec.TLS != nil {
		add(func(c *scenario) bool { c.Stable.Spec.TLS = nil; return true })
	}
	if ing.Spec.IngressClassName != nil {
		add(func(c *scenario) bool { c.Stable.Spec.IngressClassName = nil; return true })
	}
	if ing.Labels != nil {
		add(func(c *scenario) bool { c.Stable.Labels = nil; return true })
	}
	if len(sameAnnos(ing.Annotations, neutralAnnos)) > 0 {
		add(func(c *scenario) bool { c.Stable.Annotations = map[string]string{"team": "a"}; return true })
		if len(ing.Annotations) > 1 {
			for _, k := range sortedKeys(ing.Annotations) {
				k := k
				add(func(c *scenario) bool { delete(c.Stable.Annotations, k); return true })
			}
		}
	}
	// steps: simplify
	for i := range cur.Steps {
		i := i
		s := &cur.Steps[i]
		rest := len(s.Matches) > 0 || s.RequestHeaderModifier != nil
		if s.Traffic != nil && rest {
			add(func(c *scenario) bool { c.Steps[i].Traffic = nil; return true })
		}
		if s.RequestHeaderModifier != nil && (s.Traffic != nil || len(s.Matches) > 0) {
			add(func(c *scenario) bool { c.Steps[i].RequestHeaderModifier = nil; return true })
		}
		if f := s.RequestHeaderModifier; f != nil && (len(f.Add) > 0 || len(f.Remove) > 0 || len(f.Set) > 1) {
			add(func(c *scenario) bool {
				f := c.Steps[i].RequestHeaderModifier
				f.Add, f.Remove, f.Set = nil, nil, f.Set[:1]
				return true
			})
		}
		for m := range s.Matches {
			m := m
			if len(s.Matches) > 1 || s.Traffic != nil || s.RequestHeaderModifier != nil {
				add(func(c *scenario) bool {
					ms := c.Steps[i].Matches
					c.Steps[i].Matches = append(ms[:m:m], ms[m+1:]...)
					if len(c.Steps[i].Matches) == 0 {
						c.Steps[i].Matches = nil
					}
					return true
				})
			}
			if len(s.Matches[m].Headers) > 0 && len(s.Matches[m].QueryParams) > 0 {
				add(func(c *scenario) bool { c.Steps[i].Matches[m].QueryParams = nil; return true })
				add(func(c *scenario) bool { c.Steps[i].Matches[m].Headers = nil; return true })
			}
			if len(s.Matches[m].Headers) > 1 {
				add(func(c *scenario) bool { c.Steps[i].Matches[m].Headers = c.Steps[i].Matches[m].Headers[:1]; return true })
			}
			if len(s.Matches[m].QueryParams) > 1 {
				add(func(c *scenario) bool {
					c.Steps[i].Matches[m].QueryParams = c.Steps[i].Matches[m].QueryParams[:1]
					return true
				})
			}
		}
	}
	return out
}
