package c01arith

// The small world a control runs in: a controller-runtime fake client holding the workload (as the admission webhook and the
// control's own real Initialize leave it), a write-recording interposer in front of it, a synthetic pod source for the two
// workload kinds whose ready count the control derives from pods, and the "workload controller" that does exactly what the
// knob asks (environment, never judged).

import (
	"context"
	"encoding/json"
	"fmt"
	"math"

	kruisev1alpha1 "github.com/openkruise/kruise-api/apps/v1alpha1"
	kruisev1beta1 "github.com/openkruise/kruise-api/apps/v1beta1"
	rolloutapi "github.com/openkruise/rollouts/api"
	"github.com/openkruise/rollouts/api/v1beta1"
	batchcontext "github.com/openkruise/rollouts/pkg/controller/batchrelease/context"
	"github.com/openkruise/rollouts/pkg/controller/batchrelease/control"
	"github.com/openkruise/rollouts/pkg/controller/batchrelease/control/bluegreenstyle"
	bgcloneset "github.com/openkruise/rollouts/pkg/controller/batchrelease/control/bluegreenstyle/cloneset"
	bgdeployment "github.com/openkruise/rollouts/pkg/controller/batchrelease/control/bluegreenstyle/deployment"
	"github.com/openkruise/rollouts/pkg/controller/batchrelease/control/canarystyle"
	canarydeployment "github.com/openkruise/rollouts/pkg/controller/batchrelease/control/canarystyle/deployment"
	"github.com/openkruise/rollouts/pkg/controller/batchrelease/control/partitionstyle"
	pscloneset "github.com/openkruise/rollouts/pkg/controller/batchrelease/control/partitionstyle/cloneset"
	psdaemonset "github.com/openkruise/rollouts/pkg/controller/batchrelease/control/partitionstyle/daemonset"
	psdeployment "github.com/openkruise/rollouts/pkg/controller/batchrelease/control/partitionstyle/deployment"
	psstatefulset "github.com/openkruise/rollouts/pkg/controller/batchrelease/control/partitionstyle/statefulset"
	expectations "github.com/openkruise/rollouts/pkg/util/expectation"
	apps "k8s.io/api/apps/v1"
	corev1 "k8s.io/api/core/v1"
	metav1 "k8s.io/apimachinery/pkg/apis/meta/v1"
	"k8s.io/apimachinery/pkg/runtime"
	"k8s.io/apimachinery/pkg/runtime/schema"
	"k8s.io/apimachinery/pkg/types"
	"k8s.io/apimachinery/pkg/util/intstr"
	clientgoscheme "k8s.io/client-go/kubernetes/scheme"
	"k8s.io/client-go/tools/record"
	"k8s.io/utils/pointer"
	"sigs.k8s.io/controller-runtime/pkg/client"
	"sigs.k8s.io/controller-runtime/pkg/client/fake"
)

const (
	tPSCloneSet = iota
	tPSStatefulSet
	tPSAdvStatefulSet
	tPSDaemonSet
	tPSDeployment
	tCanaryDeployment
	tBGCloneSet
	tBGDeployment
	numTargets
)

var targetNames = [numTargets]string{"ps-cloneset", "ps-statefulset", "ps-statefulset-unordered", "ps-daemonset", "ps-deployment",
	"canary-deployment", "bg-cloneset", "bg-deployment"}

// rollback-in-batches (no-need-update pods) is read by these controls only
func supportsRollback(t int) bool {
	return t == tPSCloneSet || t == tPSStatefulSet || t == tPSAdvStatefulSet || t == tPSDaemonSet
}

const (
	ns        = "default"
	wname     = "w"
	wUID      = types.UID("uid-w")
	brUID     = types.UID("uid-br")
	updateRev = "rev-v2"
	stableRev = "rev-v1"
)

var scheme = runtime.NewScheme()

func init() {
	_ = clientgoscheme.AddToScheme(scheme)
	_ = kruisev1alpha1.AddToScheme(scheme)
	_ = kruisev1beta1.AddToScheme(scheme)
	_ = rolloutapi.AddToScheme(scheme)
}

var selector = map[string]string{"app": "demo"}

func podTemplate(image string) corev1.PodTemplateSpec {
	return corev1.PodTemplateSpec{
		ObjectMeta: metav1.ObjectMeta{Labels: map[string]string{"app": "demo"}},
		Spec:       corev1.PodSpec{Containers: []corev1.Container{{Name: "main", Image: image}}},
	}
}

func wmeta() metav1.ObjectMeta {
	return metav1.ObjectMeta{Name: wname, Namespace: ns, UID: wUID, Generation: 1, Labels: map[string]string{"app": "demo"}, Annotations: map[string]string{}}
}

func pctp(s string) *intstr.IntOrString { v := intstr.FromString(s); return &v }

func mkDeployment(r int) *apps.Deployment {
	return &apps.Deployment{
		TypeMeta:   metav1.TypeMeta{APIVersion: "apps/v1", Kind: "Deployment"},
		ObjectMeta: wmeta(),
		Spec: apps.DeploymentSpec{
			Replicas: pointer.Int32(int32(r)),
			Selector: &metav1.LabelSelector{MatchLabels: selector},
			Template: podTemplate("demo:v2"),
			Paused:   true, // the workload webhook pauses a Deployment whose template changed under a Rollout
			Strategy: apps.DeploymentStrategy{Type: apps.RollingUpdateDeploymentStrategyType,
				RollingUpdate: &apps.RollingUpdateDeployment{MaxSurge: pctp("25%"), MaxUnavailable: pctp("25%")}},
			ProgressDeadlineSeconds: pointer.Int32(600),
			RevisionHistoryLimit:    pointer.Int32(10),
		},
		Status: apps.DeploymentStatus{Replicas: int32(r), ReadyReplicas: int32(r), AvailableReplicas: int32(r), UpdatedReplicas: 0, ObservedGeneration: 1},
	}
}

func mkRS(name string, tmpl corev1.PodTemplateSpec, hash string, replicas int, created int64) *apps.ReplicaSet {
	tmpl.Labels = map[string]string{"app": "demo", apps.DefaultDeploymentUniqueLabelKey: hash}
	return &apps.ReplicaSet{
		TypeMeta: metav1.TypeMeta{APIVersion: "apps/v1", Kind: "ReplicaSet"},
		ObjectMeta: metav1.ObjectMeta{Name: name, Namespace: ns, UID: types.UID("uid-" + name), Generation: 1, CreationTimestamp: metav1.Unix(created, 0),
			Labels: map[string]string{"app": "demo", apps.DefaultDeploymentUniqueLabelKey: hash},
			OwnerReferences: []metav1.OwnerReference{{APIVersion: "apps/v1", Kind: "Deployment", Name: wname, UID: wUID,
				Controller: pointer.Bool(true), BlockOwnerDeletion: pointer.Bool(true)}}},
		Spec: apps.ReplicaSetSpec{Replicas: pointer.Int32(int32(replicas)),
			Selector: &metav1.LabelSelector{MatchLabels: map[string]string{"app": "demo", apps.DefaultDeploymentUniqueLabelKey: hash}}, Template: tmpl},
		Status: apps.ReplicaSetStatus{Replicas: int32(replicas), ReadyReplicas: int32(replicas), AvailableReplicas: int32(replicas), ObservedGeneration: 1},
	}
}

func mkCloneSet(r int) *kruisev1alpha1.CloneSet {
	return &kruisev1alpha1.CloneSet{
		TypeMeta:   metav1.TypeMeta{APIVersion: "apps.kruise.io/v1alpha1", Kind: "CloneSet"},
		ObjectMeta: wmeta(),
		Spec: kruisev1alpha1.CloneSetSpec{
			Replicas: pointer.Int32(int32(r)),
			Selector: &metav1.LabelSelector{MatchLabels: selector},
			Template: podTemplate("demo:v2"),
			// the workload webhook holds a changed CloneSet back with partition 100%
			UpdateStrategy: kruisev1alpha1.CloneSetUpdateStrategy{Partition: pctp("100%"), MaxUnavailable: pctp("20%")},
		},
		Status: kruisev1alpha1.CloneSetStatus{Replicas: int32(r), ReadyReplicas: int32(r), AvailableReplicas: int32(r), UpdatedReplicas: 0, UpdatedReadyReplicas: 0,
			UpdateRevision: updateRev, CurrentRevision: stableRev, ObservedGeneration: 1},
	}
}

// preObjects: the workload as it looks when the BatchRelease starts (template changed, held back by the webhook).
func preObjects(t, r int) []client.Object {
	switch t {
	case tPSCloneSet, tBGCloneSet:
		return []client.Object{mkCloneSet(r)}
	case tPSStatefulSet:
		return []client.Object{&apps.StatefulSet{
			TypeMeta:   metav1.TypeMeta{APIVersion: "apps/v1", Kind: "StatefulSet"},
			ObjectMeta: wmeta(),
			Spec: apps.StatefulSetSpec{Replicas: pointer.Int32(int32(r)), Selector: &metav1.LabelSelector{MatchLabels: selector}, Template: podTemplate("demo:v2"), ServiceName: "w",
				UpdateStrategy: apps.StatefulSetUpdateStrategy{Type: apps.RollingUpdateStatefulSetStrategyType,
					RollingUpdate: &apps.RollingUpdateStatefulSetStrategy{Partition: pointer.Int32(math.MaxInt16)}}},
			Status: apps.StatefulSetStatus{Replicas: int32(r), ReadyReplicas: int32(r), AvailableReplicas: int32(r), UpdatedReplicas: 0,
				UpdateRevision: updateRev, CurrentRevision: stableRev, ObservedGeneration: 1},
		}}
	case tPSAdvStatefulSet:
		return []client.Object{&kruisev1beta1.StatefulSet{
			TypeMeta:   metav1.TypeMeta{APIVersion: "apps.kruise.io/v1beta1", Kind: "StatefulSet"},
			ObjectMeta: wmeta(),
			Spec: kruisev1beta1.StatefulSetSpec{Replicas: pointer.Int32(int32(r)), Selector: &metav1.LabelSelector{MatchLabels: selector}, Template: podTemplate("demo:v2"), ServiceName: "w",
				PodManagementPolicy: apps.ParallelPodManagement,
				UpdateStrategy: kruisev1beta1.StatefulSetUpdateStrategy{Type: apps.RollingUpdateStatefulSetStrategyType,
					RollingUpdate: &kruisev1beta1.RollingUpdateStatefulSetStrategy{Partition: pointer.Int32(math.MaxInt16), UnorderedUpdate: &kruisev1beta1.UnorderedUpdateStrategy{}}}},
			Status: kruisev1beta1.StatefulSetStatus{Replicas: int32(r), ReadyReplicas: int32(r), AvailableReplicas: int32(r), UpdatedReplicas: 0,
				UpdateRevision: updateRev, CurrentRevision: stableRev, ObservedGeneration: 1},
		}}
	case tPSDaemonSet:
		return []client.Object{&kruisev1alpha1.DaemonSet{
			TypeMeta:   metav1.TypeMeta{APIVersion: "apps.kruise.io/v1alpha1", Kind: "DaemonSet"},
			ObjectMeta: wmeta(),
			Spec: kruisev1alpha1.DaemonSetSpec{Selector: &metav1.LabelSelector{MatchLabels: selector}, Template: podTemplate("demo:v2"),
				UpdateStrategy: kruisev1alpha1.DaemonSetUpdateStrategy{Type: kruisev1alpha1.RollingUpdateDaemonSetStrategyType,
					RollingUpdate: &kruisev1alpha1.RollingUpdateDaemonSet{Partition: pointer.Int32(math.MaxInt16), MaxUnavailable: pctp("10%")}}},
			Status: kruisev1alpha1.DaemonSetStatus{DesiredNumberScheduled: int32(r), CurrentNumberScheduled: int32(r), NumberReady: int32(r), NumberAvailable: int32(r),
				UpdatedNumberScheduled: 0, DaemonSetHash: updateRev, ObservedGeneration: 1},
		}}
	case tPSDeployment, tCanaryDeployment:
		return []client.Object{mkDeployment(r)}
	case tBGDeployment:
		d := mkDeployment(r)
		return []client.Object{d, mkRS("w-old", podTemplate("demo:v1"), "old", r, 1700000000), mkRS("w-new", podTemplate("demo:v2"), "new", 0, 1700000100)}
	}
	panic("unknown target")
}

func workloadRef(t int) v1beta1.ObjectRef {
	switch t {
	case tPSCloneSet, tBGCloneSet:
		return v1beta1.ObjectRef{APIVersion: "apps.kruise.io/v1alpha1", Kind: "CloneSet", Name: wname}
	case tPSStatefulSet:
		return v1beta1.ObjectRef{APIVersion: "apps/v1", Kind: "StatefulSet", Name: wname}
	case tPSAdvStatefulSet:
		return v1beta1.ObjectRef{APIVersion: "apps.kruise.io/v1beta1", Kind: "StatefulSet", Name: wname}
	case tPSDaemonSet:
		return v1beta1.ObjectRef{APIVersion: "apps.kruise.io/v1alpha1", Kind: "DaemonSet", Name: wname}
	}
	return v1beta1.ObjectRef{APIVersion: "apps/v1", Kind: "Deployment", Name: wname}
}

func mkRelease(t int, plan []intstr.IntOrString, cur int, nn *int32) *v1beta1.BatchRelease {
	br := &v1beta1.BatchRelease{
		TypeMeta:   metav1.TypeMeta{APIVersion: "rollouts.kruise.io/v1beta1", Kind: "BatchRelease"},
		ObjectMeta: metav1.ObjectMeta{Name: "br", Namespace: ns, UID: brUID, Generation: 1},
	}
	br.Spec.WorkloadRef = workloadRef(t)
	for _, s := range plan {
		br.Spec.ReleasePlan.Batches = append(br.Spec.ReleasePlan.Batches, v1beta1.ReleaseBatch{CanaryReplicas: s})
	}
	br.Spec.ReleasePlan.BatchPartition = pointer.Int32(int32(cur))
	switch t {
	case tCanaryDeployment:
		br.Spec.ReleasePlan.RollingStyle = v1beta1.CanaryRollingStyle
		br.Spec.ReleasePlan.EnableExtraWorkloadForCanary = true
	case tBGCloneSet, tBGDeployment:
		br.Spec.ReleasePlan.RollingStyle = v1beta1.BlueGreenRollingStyle
	default:
		br.Spec.ReleasePlan.RollingStyle = v1beta1.PartitionRollingStyle
	}
	br.Status.Phase = v1beta1.RolloutPhaseProgressing
	br.Status.UpdateRevision, br.Status.StableRevision = updateRev, stableRev
	br.Status.CanaryStatus.CurrentBatch = int32(cur)
	br.Status.CanaryStatus.CurrentBatchState = v1beta1.UpgradingBatchState
	if nn != nil {
		br.Annotations = map[string]string{v1beta1.RollbackInBatchAnnotation: "true"}
		br.Status.CanaryStatus.NoNeedUpdateReplicas = pointer.Int32(*nn)
	}
	return br
}

var wkey = types.NamespacedName{Namespace: ns, Name: wname}

func refGVK(t int) schema.GroupVersionKind {
	ref := workloadRef(t)
	return schema.FromAPIVersionAndKind(ref.APIVersion, ref.Kind)
}

// mkPlane builds the control plane exactly as Executor.getReleaseController does (which is unexported).
func mkPlane(t int, cli client.Client, br *v1beta1.BatchRelease) control.Interface {
	st := br.Status.DeepCopy()
	rec := &record.FakeRecorder{}
	gvk := refGVK(t)
	switch t {
	case tPSCloneSet:
		return partitionstyle.NewControlPlane(pscloneset.NewController, cli, rec, br, st, wkey, gvk)
	case tPSStatefulSet, tPSAdvStatefulSet:
		return partitionstyle.NewControlPlane(psstatefulset.NewController, cli, rec, br, st, wkey, gvk)
	case tPSDaemonSet:
		return partitionstyle.NewControlPlane(psdaemonset.NewController, cli, rec, br, st, wkey, gvk)
	case tPSDeployment:
		return partitionstyle.NewControlPlane(psdeployment.NewController, cli, rec, br, st, wkey, gvk)
	case tCanaryDeployment:
		return canarystyle.NewControlPlane(canarydeployment.NewController, cli, rec, br, st, wkey)
	case tBGCloneSet:
		return bluegreenstyle.NewControlPlane(bgcloneset.NewController, cli, rec, br, st, wkey, gvk)
	case tBGDeployment:
		return bluegreenstyle.NewControlPlane(bgdeployment.NewController, cli, rec, br, st, wkey, gvk)
	}
	panic("unknown target")
}

// realContext asks the real control for its batch context (diagnostics for violation details only).
func realContext(t int, cli client.Client, br *v1beta1.BatchRelease) (*batchcontext.BatchContext, error) {
	gvk := refGVK(t)
	var ps partitionstyle.Interface
	switch t {
	case tPSCloneSet:
		ps = pscloneset.NewController(cli, wkey, gvk)
	case tPSStatefulSet, tPSAdvStatefulSet:
		ps = psstatefulset.NewController(cli, wkey, gvk)
	case tPSDaemonSet:
		ps = psdaemonset.NewController(cli, wkey, gvk)
	case tPSDeployment:
		ps = psdeployment.NewController(cli, wkey, gvk)
	case tCanaryDeployment:
		c := canarydeployment.NewController(cli, wkey)
		if _, err := c.BuildStableController(); err != nil {
			return nil, err
		}
		if _, err := c.BuildCanaryController(br); err != nil {
			return nil, err
		}
		return c.CalculateBatchContext(br)
	case tBGCloneSet, tBGDeployment:
		var bg bluegreenstyle.Interface
		if t == tBGCloneSet {
			bg = bgcloneset.NewController(cli, wkey, gvk)
		} else {
			bg = bgdeployment.NewController(cli, wkey, gvk)
		}
		c, err := bg.BuildController()
		if err != nil {
			return nil, err
		}
		return c.CalculateBatchContext(br)
	}
	c, err := ps.BuildController()
	if err != nil {
		return nil, err
	}
	return c.CalculateBatchContext(br)
}

// ---- write-recording interposer ------------------------------------------------------------------

type writeRec struct {
	Verb string `json:"verb"`
	Obj  string `json:"obj"`
	Body string `json:"body,omitempty"`
}

type recClient struct {
	client.Client
	writes  []writeRec
	nwrites int // monotone count of writes (writes is reset per judged call)
	// synthetic pods served to List(PodList): n updated+ready pods owned by the workload (nil = real store)
	podN int
	pods bool
}

func objName(o client.Object) string { return fmt.Sprintf("%T/%s", o, o.GetName()) }

func (c *recClient) Create(ctx context.Context, obj client.Object, opts ...client.CreateOption) error {
	c.nwrites++
	c.writes = append(c.writes, writeRec{Verb: "create", Obj: objName(obj)})
	return c.Client.Create(ctx, obj, opts...)
}
func (c *recClient) Update(ctx context.Context, obj client.Object, opts ...client.UpdateOption) error {
	c.nwrites++
	c.writes = append(c.writes, writeRec{Verb: "update", Obj: objName(obj)})
	return c.Client.Update(ctx, obj, opts...)
}
func (c *recClient) Delete(ctx context.Context, obj client.Object, opts ...client.DeleteOption) error {
	c.nwrites++
	c.writes = append(c.writes, writeRec{Verb: "delete", Obj: objName(obj)})
	return c.Client.Delete(ctx, obj, opts...)
}
func (c *recClient) DeleteAllOf(ctx context.Context, obj client.Object, opts ...client.DeleteAllOfOption) error {
	c.nwrites++
	c.writes = append(c.writes, writeRec{Verb: "deleteAllOf", Obj: objName(obj)})
	return c.Client.DeleteAllOf(ctx, obj, opts...)
}
func (c *recClient) Patch(ctx context.Context, obj client.Object, patch client.Patch, opts ...client.PatchOption) error {
	data, _ := patch.Data(obj)
	c.nwrites++
	c.writes = append(c.writes, writeRec{Verb: "patch:" + string(patch.Type()), Obj: objName(obj), Body: string(data)})
	return c.Client.Patch(ctx, obj, patch, opts...)
}
func (c *recClient) Status() client.SubResourceWriter {
	return &recStatus{c: c, w: c.Client.Status()}
}

type recStatus struct {
	c *recClient
	w client.SubResourceWriter
}

func (s *recStatus) Create(ctx context.Context, obj client.Object, sub client.Object, opts ...client.SubResourceCreateOption) error {
	s.c.nwrites++
	s.c.writes = append(s.c.writes, writeRec{Verb: "status-create", Obj: objName(obj)})
	return s.w.Create(ctx, obj, sub, opts...)
}
func (s *recStatus) Update(ctx context.Context, obj client.Object, opts ...client.SubResourceUpdateOption) error {
	s.c.nwrites++
	s.c.writes = append(s.c.writes, writeRec{Verb: "status-update", Obj: objName(obj)})
	return s.w.Update(ctx, obj, opts...)
}
func (s *recStatus) Patch(ctx context.Context, obj client.Object, patch client.Patch, opts ...client.SubResourcePatchOption) error {
	data, _ := patch.Data(obj)
	s.c.nwrites++
	s.c.writes = append(s.c.writes, writeRec{Verb: "status-patch", Obj: objName(obj), Body: string(data)})
	return s.w.Patch(ctx, obj, patch, opts...)
}

// synthetic pods: updated (label controller-revision-hash = update revision), ready, running, owned by the workload.
var podPool []corev1.Pod

func podsUpTo(n int) []corev1.Pod {
	for len(podPool) < n {
		i := len(podPool)
		podPool = append(podPool, corev1.Pod{
			TypeMeta: metav1.TypeMeta{APIVersion: "v1", Kind: "Pod"},
			ObjectMeta: metav1.ObjectMeta{Name: fmt.Sprintf("w-%d", i), Namespace: ns, UID: types.UID(fmt.Sprintf("uid-pod-%d", i)),
				Labels:          map[string]string{"app": "demo", apps.ControllerRevisionHashLabelKey: updateRev},
				OwnerReferences: []metav1.OwnerReference{{APIVersion: "apps/v1", Kind: "StatefulSet", Name: wname, UID: wUID, Controller: pointer.Bool(true)}}},
			Status: corev1.PodStatus{Phase: corev1.PodRunning, Conditions: []corev1.PodCondition{{Type: corev1.PodReady, Status: corev1.ConditionTrue}}},
		})
	}
	return podPool[:n:n]
}

func (c *recClient) List(ctx context.Context, list client.ObjectList, opts ...client.ListOption) error {
	if pl, ok := list.(*corev1.PodList); ok && c.pods {
		// the control only reads these pods (rollout-id is empty, so nothing is patched); old-revision pods are omitted
		pl.Items = podsUpTo(c.podN)
		return nil
	}
	return c.Client.List(ctx, list, opts...)
}

// ---- world ---------------------------------------------------------------------------------------

const startRV = "999" // what the fake tracker gives objects added without a resourceVersion

type world struct {
	t, r int
	base client.Client
	cli  *recClient
	// typed copy of the object that carries the knob (the workload; for canary style the canary Deployment), refreshed from
	// the store after every call that wrote something
	knob     client.Object
	rsNew    *apps.ReplicaSet // blue-green Deployment: the new ReplicaSet whose status the control reads
	syncedAt int              // recClient.nwrites at the last refresh
	level    int              // updated count the workload status currently reports (-1 = unknown)
}

func knobKey(t int) types.NamespacedName {
	if t == tCanaryDeployment {
		return types.NamespacedName{Namespace: ns, Name: "w-canary"}
	}
	return wkey
}

func emptyKnob(t int) client.Object {
	switch t {
	case tPSCloneSet, tBGCloneSet:
		return &kruisev1alpha1.CloneSet{}
	case tPSStatefulSet:
		return &apps.StatefulSet{}
	case tPSAdvStatefulSet:
		return &kruisev1beta1.StatefulSet{}
	case tPSDaemonSet:
		return &kruisev1alpha1.DaemonSet{}
	}
	return &apps.Deployment{}
}

// newWorld builds a store from objs (the snapshot real Initialize left); level0 = updated count their status reports.
func newWorld(t, r int, objs []client.Object) *world {
	cp := make([]client.Object, len(objs))
	w := &world{t: t, r: r, level: 0}
	for i, o := range objs {
		cp[i] = o.DeepCopyObject().(client.Object)
		if cp[i].GetResourceVersion() == "" {
			cp[i].SetResourceVersion(startRV)
		}
		if cp[i].GetName() == knobKey(t).Name {
			if _, isRS := cp[i].(*apps.ReplicaSet); !isRS {
				w.knob = cp[i].DeepCopyObject().(client.Object)
			}
		}
		if rs, ok := cp[i].(*apps.ReplicaSet); ok && rs.Name == "w-new" {
			w.rsNew = rs.DeepCopy()
		}
	}
	w.base = fake.NewClientBuilder().WithScheme(scheme).WithObjects(cp...).Build()
	w.cli = &recClient{Client: w.base, pods: t == tPSStatefulSet || t == tPSAdvStatefulSet || t == tPSDaemonSet}
	return w
}

func (w *world) refresh() error {
	if w.knob != nil && w.syncedAt == w.cli.nwrites {
		return nil
	}
	o := emptyKnob(w.t)
	if err := w.base.Get(context.TODO(), knobKey(w.t), o); err != nil {
		return err
	}
	w.knob = o
	w.syncedAt = w.cli.nwrites
	return nil
}

// initialised runs the REAL Initialize of the control plane on the pre-release objects and returns the resulting objects.
func initialised(t, r int) ([]client.Object, error) {
	w := newWorld(t, r, preObjects(t, r))
	br := mkRelease(t, []intstr.IntOrString{intstr.FromString("100%")}, 0, nil)
	var err error
	for i := 0; i < 3; i++ {
		err = mkPlane(t, w.cli, br).Initialize()
		if err == nil {
			break
		}
	}
	if t == tCanaryDeployment {
		// Create() always answers "created ..., waiting informer synced" and registers a create-expectation that only a
		// watch event clears; the canary object is in the store, which is all this driver needs.
		expectations.ResourceExpectations.DeleteExpectations(client.ObjectKeyFromObject(br).String())
	}
	if err != nil {
		return nil, fmt.Errorf("real Initialize failed: %v", err)
	}
	var out []client.Object
	ctx := context.TODO()
	switch t {
	case tPSDeployment, tCanaryDeployment, tBGDeployment:
		dl := &apps.DeploymentList{}
		if err := w.base.List(ctx, dl, client.InNamespace(ns)); err != nil {
			return nil, err
		}
		nCanary := 0
		for i := range dl.Items {
			d := dl.Items[i].DeepCopy()
			if d.Name != wname {
				// the canary Deployment: give it a deterministic name and what the API server / deployment controller would add
				d.Name, d.GenerateName = "w-canary", ""
				d.UID = "uid-w-canary"
				d.Generation = 1
				d.CreationTimestamp = metav1.Unix(1700000200, 0)
				d.Status.ObservedGeneration = 1
				nCanary++
			}
			out = append(out, d)
		}
		if t == tCanaryDeployment && nCanary != 1 {
			return nil, fmt.Errorf("real Initialize left %d canary deployments", nCanary)
		}
		if t == tBGDeployment {
			rl := &apps.ReplicaSetList{}
			if err := w.base.List(ctx, rl, client.InNamespace(ns)); err != nil {
				return nil, err
			}
			for i := range rl.Items {
				out = append(out, rl.Items[i].DeepCopy())
			}
		}
	default:
		o := emptyKnob(t)
		if err := w.base.Get(ctx, wkey, o); err != nil {
			return nil, err
		}
		out = append(out, o)
	}
	for _, o := range out {
		o.SetResourceVersion(startRV)
	}
	return out, nil
}

// knobState describes the update setting for violation details.
type knobState struct {
	Exposure int    `json:"exposure"`
	Knob     string `json:"knob"`
	Replicas int    `json:"replicas"`
}

func ios(p *intstr.IntOrString) string {
	if p == nil {
		return "nil"
	}
	return p.String()
}

// read returns exposure(obj) by my interpreter plus a printable knob.
func (w *world) read() (knobState, error) {
	if err := w.refresh(); err != nil {
		return knobState{}, err
	}
	switch o := w.knob.(type) {
	case *kruisev1alpha1.CloneSet:
		us := o.Spec.UpdateStrategy
		k := fmt.Sprintf("paused=%v partition=%s maxSurge=%s", us.Paused, ios(us.Partition), ios(us.MaxSurge))
		if w.t == tPSCloneSet {
			return knobState{exposurePSCloneSet(o), k, i32(o.Spec.Replicas, 1)}, nil
		}
		return knobState{exposureBGCloneSet(o), k, i32(o.Spec.Replicas, 1)}, nil
	case *apps.StatefulSet:
		k := "partition=nil"
		if ru := o.Spec.UpdateStrategy.RollingUpdate; ru != nil && ru.Partition != nil {
			k = fmt.Sprintf("partition=%d", *ru.Partition)
		}
		return knobState{exposureStatefulSet(o), k, i32(o.Spec.Replicas, 1)}, nil
	case *kruisev1beta1.StatefulSet:
		k := "partition=nil"
		if ru := o.Spec.UpdateStrategy.RollingUpdate; ru != nil && ru.Partition != nil {
			k = fmt.Sprintf("partition=%d paused=%v", *ru.Partition, ru.Paused)
		}
		return knobState{exposureAdvStatefulSet(o), k, i32(o.Spec.Replicas, 1)}, nil
	case *kruisev1alpha1.DaemonSet:
		k := "rollingUpdate=nil"
		if ru := o.Spec.UpdateStrategy.RollingUpdate; ru != nil {
			k = fmt.Sprintf("partition=%d", i32(ru.Partition, 0))
		}
		return knobState{exposureDaemonSet(o), k, int(o.Status.DesiredNumberScheduled)}, nil
	case *apps.Deployment:
		switch w.t {
		case tPSDeployment:
			return knobState{exposurePSDeployment(o), "strategy=" + o.Annotations[annoDeployStrategy], i32(o.Spec.Replicas, 1)}, nil
		case tBGDeployment:
			k := fmt.Sprintf("paused=%v type=%s", o.Spec.Paused, o.Spec.Strategy.Type)
			if ru := o.Spec.Strategy.RollingUpdate; ru != nil {
				k += fmt.Sprintf(" maxSurge=%s maxUnavailable=%s", ios(ru.MaxSurge), ios(ru.MaxUnavailable))
			}
			return knobState{exposureBGDeployment(o), k, i32(o.Spec.Replicas, 1)}, nil
		case tCanaryDeployment:
			return knobState{exposureCanaryDeployment(o), fmt.Sprintf("canary.spec.replicas=%d", i32(o.Spec.Replicas, 1)), w.r}, nil
		}
	}
	return knobState{}, fmt.Errorf("unknown knob object %T", w.knob)
}

// updatedCount: how many pods the workload reports on the update revision once its controller has done exactly what the
// knob asks, given nn pods that already were on it before the release (rollback-in-batches), else exposure itself.
func (w *world) updatedCount(exposure int, nn *int32) int {
	if nn == nil || *nn <= 0 {
		return exposure
	}
	n := int(*nn)
	switch w.t {
	case tPSStatefulSet:
		// ordered update: ordinals >= partition are updated; the no-need-update pods are the lowest ordinals (what the
		// rollback of an ordered update leaves behind)
		partition := w.r - exposure
		return exposure + clamp(n, 0, partition)
	default:
		// unordered: `partition` pods stay old, the rest (which includes the no-need-update ones) is on the update revision
		if n > exposure {
			return n
		}
		return exposure
	}
}

// settle plays the workload controller: status (and pods / ReplicaSet / extra-status annotation) say that `updated` pods run the
// update revision and all of them are ready. Environment write: goes to the store directly, not through the recorder.
func (w *world) settle(updated int) error {
	if err := w.refresh(); err != nil {
		return err
	}
	if w.level == updated {
		return nil
	}
	ctx := context.TODO()
	u := int32(updated)
	switch o := w.knob.(type) {
	case *kruisev1alpha1.CloneSet:
		o.Status.UpdatedReplicas, o.Status.UpdatedReadyReplicas, o.Status.ObservedGeneration = u, u, o.Generation
		if w.t == tBGCloneSet {
			o.Status.Replicas, o.Status.ReadyReplicas, o.Status.AvailableReplicas = int32(w.r)+u, int32(w.r)+u, int32(w.r)
		}
	case *apps.StatefulSet:
		o.Status.UpdatedReplicas, o.Status.ObservedGeneration = u, o.Generation
		w.cli.podN = updated
	case *kruisev1beta1.StatefulSet:
		o.Status.UpdatedReplicas, o.Status.ObservedGeneration = u, o.Generation
		w.cli.podN = updated
	case *kruisev1alpha1.DaemonSet:
		o.Status.UpdatedNumberScheduled, o.Status.ObservedGeneration = u, o.Generation
		w.cli.podN = updated
	case *apps.Deployment:
		switch w.t {
		case tPSDeployment:
			o.Status.UpdatedReplicas, o.Status.ObservedGeneration = u, o.Generation
			b, _ := json.Marshal(map[string]int32{"updatedReadyReplicas": u, "expectedUpdatedReplicas": u})
			o.Annotations[annoDeployExtraStatus] = string(b)
		case tBGDeployment:
			o.Status.UpdatedReplicas, o.Status.ObservedGeneration = u, o.Generation
			o.Status.Replicas, o.Status.ReadyReplicas = int32(w.r)+u, int32(w.r)+u
			if w.rsNew == nil {
				return fmt.Errorf("new ReplicaSet missing")
			}
			w.rsNew.Spec.Replicas = pointer.Int32(u)
			w.rsNew.Status.Replicas, w.rsNew.Status.ReadyReplicas, w.rsNew.Status.AvailableReplicas = u, u, 0
			if err := w.base.Update(ctx, w.rsNew); err != nil {
				return err
			}
		case tCanaryDeployment:
			o.Status.Replicas, o.Status.UpdatedReplicas, o.Status.ReadyReplicas, o.Status.AvailableReplicas = u, u, u, u
			o.Status.ObservedGeneration = o.Generation
		}
	default:
		return fmt.Errorf("unknown knob object %T", w.knob)
	}
	if err := w.base.Update(ctx, w.knob); err != nil {
		return err
	}
	w.level = updated
	return nil
}
