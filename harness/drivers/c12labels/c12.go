package c12labels

// C12 — pod batch labels identify exactly the pods of each batch.
//
// Monitor: the real labelpatch.NewLabelPatcher(...).PatchPodBatchLabel runs against a controller-runtime fake
// client holding generated pods (and, for Deployments, their ReplicaSets), behind a write-recording interposer.
// The BatchContext is built the way the controls build it. The pass is applied three times, pods re-listed from
// the store each time. The oracle (plan arithmetic, revision truth, label classes) is written here from the
// property statement; nothing of the patcher / control helpers is called to judge.

import (
	"context"
	"fmt"
	"io"
	"strings"
	"sync"

	"github.com/openkruise/rollouts/api/v1beta1"
	batchcontext "github.com/openkruise/rollouts/pkg/controller/batchrelease/context"
	"github.com/openkruise/rollouts/pkg/controller/batchrelease/labelpatch"
	"github.com/openkruise/rollouts/pkg/util"
	appsv1 "k8s.io/api/apps/v1"
	corev1 "k8s.io/api/core/v1"
	metav1 "k8s.io/apimachinery/pkg/apis/meta/v1"
	"k8s.io/apimachinery/pkg/runtime"
	"k8s.io/apimachinery/pkg/types"
	"k8s.io/apimachinery/pkg/util/intstr"
	"k8s.io/klog/v2"
	"sigs.k8s.io/controller-runtime/pkg/client"
	"sigs.k8s.io/controller-runtime/pkg/client/fake"

	"verif/harness/core"
	"verif/harness/gen"
)

// c12ReadyGate switches the secondary check on the readiness gate (context.IsBatchReady / batchLabelSatisfied):
// a batch must not be reported label-satisfied on the strength of pods whose batch-id names no batch.
const c12ReadyGate = true

var c12Scheme = runtime.NewScheme()

func init() {
	_ = corev1.AddToScheme(c12Scheme)
	_ = appsv1.AddToScheme(c12Scheme)
	core.Register(&core.Check{
		ID:    "C12",
		Level: "exploration",
		Rule: "cases are pod sets of 2-30 pods (update / stable / foreign revision carried as pod-template-hash of a ReplicaSet, controller-revision-hash=<name>-<hash>, " +
			"short pod-template-hash=<hash> or both; ReplicaSet-, CloneSet- and StatefulSet-owned; terminating; not ready; pre-labelled with this / another / an empty rollout-id and " +
			"batch-id in {1..n, 0, negative, n+1, 99, non-numeric, empty, absent}), plans of 1-5 batches (int / percent / mixed, non-decreasing and arbitrary, over-100% and over-replicas values), " +
			"replicas 1-30, currentBatch 0..n-1, rollout-id set (4% empty), optionally the rollback filter; the real PatchPodBatchLabel is run three times against a fake store behind a " +
			"write recorder. A case is non-trivial when a pass ran with a rollout-id on at least one live update-revision pod; distinct = distinct (owner, #batches, garbage, stale, terminating, currentBatch position, plan shape).",
		Assumptions: []string{
			"'live pods of the new revision' / 'number of pods carrying (rollout-id, batch i)' are read over pods that are not terminating and are of the update revision (ground truth of the generator): terminating pods are replaced and stable-revision pods carrying the pair are not part of batch i, so correct code may label replacements next to them",
			"planned(i) = canaryReplicas of batch i (percent rounded up) clamped to [0, replicas]; increment(i) = max(0, planned(i) - planned(i-1)); bound (b): count_after(i) <= max(count_before(i), increment(i))",
			"'already labelled for this release' = rollout-id equals the release's and batch-id is exactly the decimal form of 1..n; such pods must keep both labels. Pods with this rollout-id and a batch-id that names no batch may be left alone or repaired (not judged), but a repair counts as an addition to the batch written",
			"'not counted towards a batch they do not belong to' is judged by outcome: with need(i) = max(0, increment(i) - #live update-revision pods correctly labelled (this rollout-id, i)) for the batches 1..currentBatch+1 and candidates = live update-revision pods not carrying this rollout-id, the pass must newly label at least min(candidates, sum need(i)) pods (any distribution over batches, order-insensitive); fewer means some budget was consumed by a pod that does not belong to the batch. This is also what the readiness gate needs (labelled >= planned). Not applied when the rollback filter legitimately withholds no-need-update pods",
			"batch-id strings such as \"01\" or \"+1\" (numeric but not canonical) are not generated: the statement does not say which batch they belong to",
			"only batch labels (rollout-id, rollout-batch-id) are judged; the controller-revision-hash the patcher adds to ReplicaSet-owned pods of any revision is bookkeeping, except that passes 2 and 3 must not write it again either",
			"a revision label in long form (<name>-<hash>) against a short update revision is not generated (does not occur: Deployment revisions are short on both sides, CloneSet/StatefulSet revisions long on the workload side); distinct revisions have equal-length hashes, except that in a quarter of the Deployment cases the old ReplicaSet's pod-template-hash is \"6\" + <update revision> (the update revision is a proper suffix of an old pod's hash; the opposite direction - a pod hash that is a proper suffix of the update revision - is accepted by the unchanged code and not generated)",
			"secondary (readiness gate, switchable by c12ReadyGate): after pass 1 the context is rebuilt from the store (updated / updated-ready counts = the live update-revision pods of the case) and the real IsBatchReady is asked; it may report ready only if at least planned(currentBatch) live pods (any revision) carry this rollout-id with a batch-id 1..n",
		},
		NumCases: func(env *core.Env) int {
			if env.Thorough() {
				return 500000
			}
			return 20000
		},
		Setup: func(env *core.Env) error {
			klog.LogToStderr(false)
			klog.SetOutput(io.Discard)
			return nil
		},
		ChunkSize: 200,
		Relevant:  "passes",
		RunCase:   c12Case,
	})
}

// ---- one case ---------------------------------------------------------------------------------------------

var (
	shrunkMu sync.Mutex
	shrunk   = map[string]int{}
)

func c12Case(env *core.Env, idx int) *core.CaseResult {
	rng := env.RNG(idx)
	res := &core.CaseResult{}
	spec := genCase(rng)
	out := execute(spec)
	for k, v := range out.counters {
		res.Count(k, v)
	}
	if out.harness != "" {
		res.Inconclusive = out.harness
	}
	if out.relevant {
		res.AddSig(caseSig(spec))
	}
	for _, v := range out.viols {
		detail := gen.NF{"input": spec, "observed": v.detail}
		shrunkMu.Lock()
		n := shrunk[v.fp]
		shrunk[v.fp]++
		shrunkMu.Unlock()
		if n < 1 { // once per fingerprint and worker process (always when a single case is replayed)
			min := shrink(spec, v.fp)
			mo := execute(min)
			for _, mv := range mo.viols {
				if mv.fp == v.fp {
					detail["minimal_input"] = min
					detail["minimal_observed"] = mv.detail
					detail["minimal_msg"] = mv.msg
				}
			}
		}
		res.Violate(v.fp, v.msg, detail)
	}
	if idx < 8 {
		res.Sample = gen.NF{"input": spec, "increments": increments(spec), "writes_pass1": out.pass1Writes}
	}
	return res
}

func caseSig(s caseSpec) string {
	g, st, term := 0, 0, 0
	for _, p := range s.Pods {
		switch labelClass(p.RID, p.BID, s.RolloutID, len(s.Batches)) {
		case lcGarbage, lcOrphanID:
			g = 1
		case lcStale:
			st = 1
		}
		if p.Terminating {
			term = 1
		}
	}
	pos := "mid"
	switch {
	case len(s.Batches) == 1:
		pos = "only"
	case s.CurrentBatch == 0:
		pos = "first"
	case s.CurrentBatch == len(s.Batches)-1:
		pos = "last"
	}
	shape := "int"
	np := 0
	for _, b := range s.Batches {
		if b.Pct {
			np++
		}
	}
	if np == len(s.Batches) {
		shape = "pct"
	} else if np > 0 {
		shape = "mixed"
	}
	m := "mono"
	if !monotone(s) {
		m = "arb"
	}
	rid := "rid"
	if s.RolloutID == "" {
		rid = "norid"
	}
	f := ""
	if s.Filter {
		f = ":filter"
	}
	return fmt.Sprintf("%s:nb=%d:g=%d:s=%d:term=%d:cb=%s:%s:%s:%s%s", s.Owner, len(s.Batches), g, st, term, pos, shape, m, rid, f)
}

// ---- execution ----------------------------------------------------------------------------------------------

type viol struct {
	fp, msg string
	detail  interface{}
}

type outcome struct {
	viols       []viol
	counters    map[string]int64
	relevant    bool
	harness     string
	pass1Writes []writeRec
}

func (o *outcome) violate(fp, msg string, detail interface{}) {
	for _, v := range o.viols {
		if v.fp == fp {
			return
		}
	}
	o.viols = append(o.viols, viol{fp, msg, detail})
}

// revision strings: equal-length hashes, so no revision is a strict suffix of another one
var (
	revHash = map[string]string{"new": "6f8b7d5c9", "old": "5d4c8b7f6", "foreign": "7c9d6b5f4"}
	kcmHash = map[string]string{"new": "84f6d8c7b", "old": "77c5b9d6f", "foreign": "69b8d7c5d"} // pod-template-hash as kube-controller-manager would compute it
	images  = map[string]string{"new": "app:v2", "old": "app:v1", "foreign": "app:v0"}
)

func rsTemplate(rev string, withPTH bool) corev1.PodTemplateSpec {
	t := corev1.PodTemplateSpec{
		ObjectMeta: metav1.ObjectMeta{Labels: map[string]string{"app": c12Workload}},
		Spec:       corev1.PodSpec{Containers: []corev1.Container{{Name: "main", Image: images[rev], Ports: []corev1.ContainerPort{{ContainerPort: 80}}}}},
	}
	if withPTH {
		t.Labels[appsv1.DefaultDeploymentUniqueLabelKey] = kcmHash[rev]
	}
	return t
}

const (
	lblRID = v1beta1.RolloutIDLabel
	lblBID = v1beta1.RolloutBatchIDLabel
)

func lab(m map[string]string, k string) string {
	if v, ok := m[k]; ok {
		return "=" + v
	}
	return "<absent>"
}

func batchLabelsChanged(a, b map[string]string) bool {
	return lab(a, lblRID) != lab(b, lblRID) || lab(a, lblBID) != lab(b, lblBID)
}

func sameLabels(a, b map[string]string) bool {
	if len(a) != len(b) {
		return false
	}
	for k, v := range a {
		if w, ok := b[k]; !ok || w != v {
			return false
		}
	}
	return true
}

func strpOf(m map[string]string, k string) *string {
	if v, ok := m[k]; ok {
		return &v
	}
	return nil
}

func execute(s caseSpec) *outcome { return executeK(s, kcmHash) }

// executeK: kcm = pod-template-hash of the ReplicaSets by revision (see caseSpec.SuffixOld).
func executeK(s caseSpec, kcm map[string]string) *outcome {
	o := &outcome{counters: map[string]int64{}}
	n := len(s.Batches)
	truth := map[string]podSpec{}
	var objs []client.Object

	// ---- objects as the API server would hold them
	updateRevision := c12Workload + "-" + revHash["new"]
	rsUID := map[string]types.UID{}
	if s.Owner == "Deployment" {
		for _, rev := range []string{"new", "old", "foreign"} {
			rs := &appsv1.ReplicaSet{ObjectMeta: metav1.ObjectMeta{Namespace: c12NS, Name: c12Workload + "-" + kcm[rev], UID: types.UID("uid-rs-" + rev),
				Labels: map[string]string{"app": c12Workload, appsv1.DefaultDeploymentUniqueLabelKey: kcm[rev]}}}
			rs.Spec.Selector = &metav1.LabelSelector{MatchLabels: map[string]string{"app": c12Workload, appsv1.DefaultDeploymentUniqueLabelKey: kcm[rev]}}
			rs.Spec.Template = rsTemplate(rev, true)
			rs.Spec.Template.Labels[appsv1.DefaultDeploymentUniqueLabelKey] = kcm[rev]
			rsUID[rev] = rs.UID
			objs = append(objs, rs)
		}
	}
	isTrue := true
	for _, p := range s.Pods {
		truth[p.Name] = p
		pod := &corev1.Pod{ObjectMeta: metav1.ObjectMeta{Namespace: c12NS, Name: p.Name, UID: types.UID("uid-" + p.Name), Labels: map[string]string{"app": c12Workload}}}
		pod.Spec.Containers = []corev1.Container{{Name: "main", Image: images[p.Rev]}}
		full := c12Workload + "-" + revHash[p.Rev]
		switch s.Owner {
		case "Deployment":
			pod.OwnerReferences = []metav1.OwnerReference{{APIVersion: "apps/v1", Kind: "ReplicaSet", Name: c12Workload + "-" + kcm[p.Rev], UID: rsUID[p.Rev], Controller: &isTrue, BlockOwnerDeletion: &isTrue}}
			pod.Labels[appsv1.DefaultDeploymentUniqueLabelKey] = kcm[p.Rev]
		case "CloneSet":
			pod.OwnerReferences = []metav1.OwnerReference{{APIVersion: "apps.kruise.io/v1alpha1", Kind: "CloneSet", Name: c12Workload, UID: "uid-cloneset", Controller: &isTrue, BlockOwnerDeletion: &isTrue}}
		default:
			pod.OwnerReferences = []metav1.OwnerReference{{APIVersion: "apps/v1", Kind: "StatefulSet", Name: c12Workload, UID: "uid-sts", Controller: &isTrue, BlockOwnerDeletion: &isTrue}}
		}
		if strings.Contains(p.Form, "crh") && s.Owner != "Deployment" {
			pod.Labels[appsv1.ControllerRevisionHashLabelKey] = full
		}
		if strings.Contains(p.Form, "pth") && s.Owner != "Deployment" {
			pod.Labels[appsv1.DefaultDeploymentUniqueLabelKey] = revHash[p.Rev]
		}
		if p.RID != nil {
			pod.Labels[lblRID] = *p.RID
		}
		if p.BID != nil {
			pod.Labels[lblBID] = *p.BID
		}
		if p.NoNeedUpdate {
			pod.Labels[util.NoNeedUpdatePodLabel] = s.RolloutID
		}
		if p.Terminating {
			ts := metav1.Unix(1700000000, 0)
			pod.DeletionTimestamp = &ts
			pod.Finalizers = []string{"verif/hold"}
		}
		st := corev1.ConditionTrue
		if p.NotReady {
			st = corev1.ConditionFalse
		}
		pod.Status.Phase = corev1.PodRunning
		pod.Status.Conditions = []corev1.PodCondition{{Type: corev1.PodReady, Status: st}}
		objs = append(objs, pod)
	}
	inner := fake.NewClientBuilder().WithScheme(c12Scheme).WithObjects(objs...).Build()

	if s.Owner == "Deployment" {
		// status.updateRevision of a Deployment release = hash of the Deployment's template (no pod-template-hash label) as the controller reads it from the store
		rs := &appsv1.ReplicaSet{}
		if err := inner.Get(context.Background(), types.NamespacedName{Namespace: c12NS, Name: c12Workload + "-" + kcm["new"]}, rs); err != nil {
			o.harness = "cannot read back ReplicaSet: " + err.Error()
			return o
		}
		tmpl := rs.Spec.Template.DeepCopy()
		delete(tmpl.Labels, appsv1.DefaultDeploymentUniqueLabelKey)
		updateRevision = util.ComputeHash(tmpl, nil)
		if s.SuffixOld && kcm["old"] == kcmHash["old"] {
			k2 := map[string]string{"new": kcm["new"], "foreign": kcm["foreign"], "old": "6" + updateRevision}
			return executeK(s, k2)
		}
		// pods that were already given a controller-revision-hash by an earlier pass carry the hash of their own ReplicaSet
		for _, p := range s.Pods {
			if p.Form != "rs+crh" {
				continue
			}
			h := updateRevision
			if p.Rev != "new" {
				t := rsTemplate(p.Rev, false)
				rs2 := &appsv1.ReplicaSet{}
				if err := inner.Get(context.Background(), types.NamespacedName{Namespace: c12NS, Name: c12Workload + "-" + kcm[p.Rev]}, rs2); err == nil {
					t = *rs2.Spec.Template.DeepCopy()
					delete(t.Labels, appsv1.DefaultDeploymentUniqueLabelKey)
				}
				h = util.ComputeHash(&t, nil)
			}
			pod := &corev1.Pod{}
			if err := inner.Get(context.Background(), types.NamespacedName{Namespace: c12NS, Name: p.Name}, pod); err != nil {
				o.harness = "cannot read back pod: " + err.Error()
				return o
			}
			pod.Labels[appsv1.ControllerRevisionHashLabelKey] = h
			if err := inner.Update(context.Background(), pod); err != nil {
				o.harness = "cannot prepare pod: " + err.Error()
				return o
			}
		}
	}

	var batches []v1beta1.ReleaseBatch
	for _, b := range s.Batches {
		if b.Pct {
			batches = append(batches, v1beta1.ReleaseBatch{CanaryReplicas: intstr.FromString(fmt.Sprintf("%d%%", b.V))})
		} else {
			batches = append(batches, v1beta1.ReleaseBatch{CanaryReplicas: intstr.FromInt(b.V)})
		}
	}
	inc := increments(s)
	plannedCur := plannedTotal(s.Batches[s.CurrentBatch], s.Replicas)

	rec := &recorder{Client: inner}
	patcher := labelpatch.NewLabelPatcher(rec, klog.ObjectRef{Namespace: c12NS, Name: "release"}, batches)

	list := func() ([]*corev1.Pod, map[string]map[string]string) {
		pl := &corev1.PodList{}
		if err := inner.List(context.Background(), pl, client.InNamespace(c12NS)); err != nil {
			o.harness = "list failed: " + err.Error()
			return nil, nil
		}
		pods := make([]*corev1.Pod, 0, len(pl.Items))
		snap := map[string]map[string]string{}
		for i := range pl.Items {
			pods = append(pods, &pl.Items[i])
			snap[pl.Items[i].Name] = copyLabels(pl.Items[i].Labels)
		}
		return pods, snap
	}

	buildCtx := func(pods []*corev1.Pod) *batchcontext.BatchContext {
		updated, updatedReady := int32(0), int32(0)
		for _, p := range s.Pods {
			if p.Rev == "new" && !p.Terminating {
				updated++
				if !p.NotReady {
					updatedReady++
				}
			}
		}
		planned := int32(plannedCur)
		desired := planned
		var noNeed *int32
		if s.Filter {
			nn := int32(s.NoNeed)
			noNeed = &nn
			if nn > 0 && int(nn) <= s.Replicas {
				// rollback in batches: only the pods that really need it are rolled (same arithmetic as the controls, written here as input construction)
				dn := int32(plannedTotal(s.Batches[s.CurrentBatch], s.Replicas-int(nn)))
				stable := int32(s.Replicas) - nn - dn
				desired = int32(s.Replicas) - stable
			}
		}
		ctx := &batchcontext.BatchContext{
			RolloutID:              s.RolloutID,
			CurrentBatch:           int32(s.CurrentBatch),
			UpdateRevision:         updateRevision,
			Replicas:               int32(s.Replicas),
			UpdatedReplicas:        updated,
			UpdatedReadyReplicas:   updatedReady,
			NoNeedUpdatedReplicas:  noNeed,
			PlannedUpdatedReplicas: planned,
			DesiredUpdatedReplicas: desired,
			CurrentPartition:       intstr.FromInt(s.Replicas),
			DesiredPartition:       intstr.FromInt(s.Replicas - int(desired)),
			Pods:                   pods,
		}
		if s.Filter {
			ctx.FilterFunc = labelpatch.FilterPodsForUnorderedUpdate
		}
		return ctx
	}

	// count of live update-revision pods carrying exactly (rid, i), i = 1..n
	countPairs := func(snap map[string]map[string]string) []int {
		c := make([]int, n+1)
		for name, l := range snap {
			t := truth[name]
			if t.Rev != "new" || t.Terminating || s.RolloutID == "" {
				continue
			}
			if labelClass(strpOf(l, lblRID), strpOf(l, lblBID), s.RolloutID, n) == lcThis {
				i, _ := validBID(l[lblBID], n)
				c[i]++
			}
		}
		return c
	}

	input := func() gen.NF {
		return gen.NF{"updateRevision": updateRevision, "increments": inc, "plannedCurrentBatch": plannedCur}
	}

	nextPods, nextSnap := list() // the store is re-listed after every pass; that listing is what the next pass is given
	if o.harness != "" {
		return o
	}
	for pass := 1; pass <= 3; pass++ {
		pods, before := nextPods, nextSnap
		ctx := buildCtx(pods)
		rec.log = nil
		var err error
		pi := core.Try(func() { err = patcher.PatchPodBatchLabel(ctx) })
		nextPods, nextSnap = list()
		if o.harness != "" {
			return o
		}
		after := nextSnap
		log := rec.log
		if pass == 1 {
			o.pass1Writes = log
		}
		o.counters["passes"]++
		o.counters["pods_seen"] += int64(len(pods))

		// (f) tolerated: no panic
		if pi != nil {
			o.counters["panics"]++
			pv := core.NormPanic(pi.Value)
			if strings.Contains(pi.Value, "index out of range") {
				pv = "index-out-of-range"
			}
			o.violate("c12:panic:"+pi.Site+":"+pv, fmt.Sprintf("PatchPodBatchLabel panicked in pass %d: %s", pass, pi.Value),
				gen.NF{"pass": pass, "panic": pi.Value, "site": pi.Site, "stack": trimStack(pi.Stack), "context": input()})
			return o
		}
		// (e) tolerated: no error blocking the legal pods (every ReplicaSet exists, the store never fails)
		if err != nil {
			o.violate("c12:error:pass-returned-error", fmt.Sprintf("PatchPodBatchLabel returned an error in pass %d: %v", pass, err), gen.NF{"pass": pass, "error": err.Error(), "writes": log, "context": input()})
			return o
		}

		// interposer completeness: every change in the store is in the log
		logged := map[string]bool{}
		for _, w := range log {
			logged[w.Name] = true
		}
		for name, l := range after {
			if !sameLabels(before[name], l) && !logged[name] {
				o.harness = "store changed without a recorded write: pod " + name
				return o
			}
		}
		if len(after) != len(before) {
			o.violate("c12:write:pod-created-or-deleted", "the labelling pass created or deleted pods", gen.NF{"pass": pass, "writes": log})
		}

		effective, labelWrites := 0, 0
		for _, w := range log {
			if w.Verb != "patch" || w.Kind != "*v1.Pod" {
				o.violate("c12:write:unexpected-verb-or-kind", fmt.Sprintf("unexpected write %s %s %s", w.Verb, w.Kind, w.Name), gen.NF{"pass": pass, "write": w})
				effective++
				continue
			}
			if sameLabels(w.Before, w.After) {
				o.counters["noop_writes"]++
				continue
			}
			effective++
			if !batchLabelsChanged(w.Before, w.After) {
				o.counters["revision_hash_writes"]++
				continue
			}
			labelWrites++
			o.counters["label_writes"]++
			t := truth[w.Name]
			d := gen.NF{"pass": pass, "pod": t, "write": w, "context": input()}
			// (a) only live pods of the update revision, only when a rollout-id is set
			if s.RolloutID == "" {
				o.violate("c12:labelled:rollout-id-empty", "batch labels written although the release has no rollout-id: pod "+w.Name, d)
			}
			if t.Terminating {
				o.violate("c12:labelled:terminating-pod", "batch labels written to a terminating pod: "+w.Name, d)
			}
			if t.Rev != "new" {
				o.violate("c12:labelled:not-update-revision", fmt.Sprintf("batch labels written to a pod of the %s revision: %s", t.Rev, w.Name), d)
			}
			// what was written must name this release and one of its batches
			if s.RolloutID != "" && labelClass(strpOf(w.After, lblRID), strpOf(w.After, lblBID), s.RolloutID, n) != lcThis {
				o.violate("c12:labelled:malformed-value", fmt.Sprintf("pod %s labelled (%s, %s): not (this rollout-id, batch 1..%d)", w.Name, lab(w.After, lblRID), lab(w.After, lblBID), n), d)
			}
			// (c) never relabel a pod already labelled for this release
			if s.RolloutID != "" && labelClass(strpOf(w.Before, lblRID), strpOf(w.Before, lblBID), s.RolloutID, n) == lcThis {
				o.violate("c12:relabelled:already-labelled-pod", fmt.Sprintf("pod %s carried (%s, %s) and was rewritten to (%s, %s)", w.Name, lab(w.Before, lblRID), lab(w.Before, lblBID), lab(w.After, lblRID), lab(w.After, lblBID)), d)
			}
		}
		// (c) on the store as well (whatever the write path)
		if s.RolloutID != "" {
			for name, l := range before {
				if labelClass(strpOf(l, lblRID), strpOf(l, lblBID), s.RolloutID, n) == lcThis && batchLabelsChanged(l, after[name]) {
					o.violate("c12:relabelled:already-labelled-pod", fmt.Sprintf("pod %s carried (%s, %s), afterwards (%s, %s)", name, lab(l, lblRID), lab(l, lblBID), lab(after[name], lblRID), lab(after[name], lblBID)),
						gen.NF{"pass": pass, "pod": truth[name], "writes": log, "context": input()})
				}
			}
		}

		if pass > 1 {
			// (d) repeating the pass changes nothing
			o.counters["idempotent_passes_checked"]++
			if labelWrites > 0 {
				o.violate("c12:idempotence:batch-labels-written-again", fmt.Sprintf("pass %d wrote batch labels to %d pods", pass, labelWrites), gen.NF{"pass": pass, "writes": log, "context": input()})
			} else if effective > 0 {
				o.violate("c12:idempotence:other-labels-written-again", fmt.Sprintf("pass %d made %d effective writes", pass, effective), gen.NF{"pass": pass, "writes": log, "context": input()})
			}
			continue
		}

		// ---- pass 1 only: counts
		garbage, candidates, noNeedLabelled, liveNew := 0, 0, 0, 0
		for _, p := range s.Pods {
			lc := labelClass(p.RID, p.BID, s.RolloutID, n)
			if lc == lcGarbage || lc == lcOrphanID || lc == lcStale {
				garbage++
			}
			if p.Rev == "new" && !p.Terminating {
				liveNew++
				if lc != lcThis && lc != lcGarbage {
					candidates++
				}
			}
			if p.NoNeedUpdate {
				noNeedLabelled++
			}
		}
		o.counters["garbage_pods_seen"] += int64(garbage)
		if s.RolloutID == "" {
			o.counters["cases_without_rollout_id"]++
			continue
		}
		if liveNew > 0 {
			o.relevant = true
		}
		pre, post := countPairs(before), countPairs(after)
		// (b) labelling never pushes #(rid, i) above increment(i)
		for i := 1; i <= n; i++ {
			limit := inc[i-1]
			if pre[i] > limit {
				limit = pre[i]
			}
			o.counters["batch_bounds_checked"]++
			if post[i] > limit {
				cls := "started-batch"
				if i > s.CurrentBatch+1 {
					cls = "future-batch"
				}
				o.violate("c12:over-labelled:"+cls, fmt.Sprintf("batch %d: %d live update-revision pods carry (%s, %d) after the pass, before %d, the plan adds %d", i, post[i], s.RolloutID, i, pre[i], inc[i-1]),
					gen.NF{"batch": i, "before": pre[i], "after": post[i], "increment": inc[i-1], "writes": log, "context": input()})
			}
		}
		// (e) budget is not consumed by pods that do not belong to the batch
		if noNeedLabelled == 0 {
			need := 0
			for i := 1; i <= s.CurrentBatch+1; i++ {
				if d := inc[i-1] - pre[i]; d > 0 {
					need += d
				}
			}
			added := 0
			for i := 1; i <= n; i++ {
				if d := post[i] - pre[i]; d > 0 {
					added += d
				}
			}
			expect := need
			if candidates < expect {
				expect = candidates
			}
			o.counters["fill_checked"]++
			if expect > 0 {
				o.counters["fill_checked_nonzero"]++
			}
			if added < expect {
				cls := "no-garbage"
				if garbage > 0 {
					cls = "garbage-or-stale-present"
				}
				o.violate("c12:under-labelled:"+cls, fmt.Sprintf("%d pods newly labelled; the batches 1..%d still lack %d pods and %d unlabelled live update-revision pods exist", added, s.CurrentBatch+1, need, candidates),
					gen.NF{"added": added, "need": need, "candidates": candidates, "before": pre, "after": post, "writes": log, "context": input()})
			}
		}
		// secondary: the readiness gate must not be satisfied by pods whose batch-id names no batch
		if c12ReadyGate && plannedCur > 0 {
			snap2 := nextSnap
			rctx := buildCtx(nextPods)
			var rerr error
			if rpi := core.Try(func() { rerr = rctx.IsBatchReady() }); rpi != nil {
				o.violate("c12:panic:"+rpi.Site+":"+core.NormPanic(rpi.Value), "IsBatchReady panicked: "+rpi.Value, gen.NF{"stack": trimStack(rpi.Stack)})
			} else {
				o.counters["ready_gate_checked"]++
				proper := 0
				for name, l := range snap2 {
					if !truth[name].Terminating && labelClass(strpOf(l, lblRID), strpOf(l, lblBID), s.RolloutID, n) == lcThis {
						proper++
					}
				}
				if rerr == nil && proper < plannedCur {
					o.counters["ready_gate_ready_on_garbage"]++
					o.violate("c12:ready-gate:garbage-batch-id-counted", fmt.Sprintf("IsBatchReady reports ready: planned %d, but only %d live pods carry (%s, batch 1..%d); the rest of the count are pods whose batch-id names no batch", plannedCur, proper, s.RolloutID, n),
						gen.NF{"planned": plannedCur, "properlyLabelled": proper, "labels": snap2, "context": input()})
				}
			}
		}
	}
	return o
}

func trimStack(st string) string {
	lines := strings.Split(st, "\n")
	var keep []string
	for i, l := range lines {
		if strings.Contains(l, "openkruise/rollouts") {
			keep = append(keep, strings.TrimSpace(l))
			if i+1 < len(lines) {
				keep = append(keep, strings.TrimSpace(lines[i+1]))
			}
		}
	}
	if len(keep) > 12 {
		keep = keep[:12]
	}
	return strings.Join(keep, "\n")
}
