package c16lua

// Child mode: every Lua script of this check runs in a short-lived child process (a re-exec of the
// current binary, diverted in init() before core.Main) so that a script that never returns, kills the
// process (fatal error, os.exit) or eats memory can be killed / observed from outside.
//
// Protocol: the job (list of items) is a JSON file named by $C16LUA_JOB; events are written as JSON lines
// to fd 3 (stdout is /dev/null because Lua `print` writes there). The child runs ONE script at a time and
// measures getrusage(RUSAGE_SELF) around the call; GOMAXPROCS=1, so CPU time <= wall time of the call and
// "CPU > bound" implies "wall > bound" even on an idle machine, never the other way round.

import (
	"bufio"
	"encoding/json"
	"fmt"
	"os"
	"runtime"
	"strconv"
	"strings"
	"syscall"
	"time"

	lua "github.com/yuin/gopher-lua"
	"k8s.io/apimachinery/pkg/apis/meta/v1/unstructured"

	customNetworkProvider "github.com/openkruise/rollouts/pkg/trafficrouting/network/customNetworkProvider"
	"github.com/openkruise/rollouts/pkg/util/luamanager"

	"verif/harness/core"
)

const (
	envChild = "C16LUA_CHILD"
	envJob   = "C16LUA_JOB"
)

// item is one script execution request.
type item struct {
	Cat     string          `json:"cat"`               // category (for sigs / fingerprints)
	Name    string          `json:"name"`              // stable name inside the category
	Script  string          `json:"script"`            // Lua source
	Input   json.RawMessage `json:"input,omitempty"`   // obj.Object as JSON (integers without '.', floats with)
	Flavour string          `json:"flavour,omitempty"` // ingress | custom | raw : how the caller unmarshals the encoded table
}

type job struct {
	Items   []item `json:"items"`
	Markers bool   `json:"markers"` // bracket each script with marker syscalls (strace mode)
	Base    int    `json:"base"`    // marker number of Items[0]
}

// itemResult is what the caller-equivalent sequence produced.
type itemResult struct {
	Kind     string `json:"kind"`            // table | error | panic   (parent adds: death | killed-cpu | killed-wall | nochild)
	Stage    string `json:"stage,omitempty"` // run | type | encode | unmarshal : where the error arose
	Err      string `json:"err,omitempty"`
	RetType  string `json:"ret_type,omitempty"`
	JSON     string `json:"json,omitempty"` // encoded table (capped)
	JSONLen  int    `json:"json_len,omitempty"`
	Panic    string `json:"panic,omitempty"`
	Site     string `json:"site,omitempty"`
	Stack    string `json:"stack,omitempty"`
	CPUms    int64  `json:"cpu_ms"`
	WallMs   int64  `json:"wall_ms"`
	RunCPUms int64  `json:"run_cpu_ms"` // CPU of RunLuaScript alone (rest = Encode + Unmarshal)
	RSS0KB   int64  `json:"rss0_kb"`
	RSS1KB   int64  `json:"rss1_kb"` // ru_maxrss after the call
	Stderr   string `json:"stderr,omitempty"`
	ExitErr  string `json:"exit_err,omitempty"`
}

type childEvent struct {
	Hello *int        `json:"hello,omitempty"`
	Start *int        `json:"start,omitempty"`
	CPUms int64       `json:"cpu_ms,omitempty"`
	Done  *itemResult `json:"done,omitempty"`
	Idx   int         `json:"idx,omitempty"`
	Bye   bool        `json:"bye,omitempty"`
	// Recycle: the child leaves voluntarily after an expensive script (so that anything the call may have left
	// running is not billed to the next script); the parent continues with a fresh child.
	Recycle bool `json:"recycle,omitempty"`
}

func selfCPUms() (cpu int64, maxrssKB int64) {
	var ru syscall.Rusage
	_ = syscall.Getrusage(syscall.RUSAGE_SELF, &ru)
	return (ru.Utime.Sec+ru.Stime.Sec)*1000 + int64(ru.Utime.Usec+ru.Stime.Usec)/1000, ru.Maxrss
}

func capStr(s string, n int) string {
	if len(s) > n {
		return s[:n] + fmt.Sprintf("…(+%d bytes)", len(s)-n)
	}
	return s
}

func childMain() {
	runtime.GOMAXPROCS(1)
	b, err := os.ReadFile(os.Getenv(envJob))
	if err != nil {
		fmt.Fprintln(os.Stderr, "c16 child: job:", err)
		os.Exit(97)
	}
	var j job
	if err := json.Unmarshal(b, &j); err != nil {
		fmt.Fprintln(os.Stderr, "c16 child: job:", err)
		os.Exit(97)
	}
	out := os.NewFile(3, "c16-proto")
	if out == nil {
		fmt.Fprintln(os.Stderr, "c16 child: fd 3 missing")
		os.Exit(97)
	}
	w := bufio.NewWriter(out)
	emit := func(ev childEvent) {
		eb, _ := json.Marshal(ev)
		w.Write(eb)
		w.WriteByte('\n')
		w.Flush()
	}
	pid := os.Getpid()
	emit(childEvent{Hello: &pid})
	// orphan guard: leave when the parent is gone
	ppid := os.Getppid()
	go func() {
		for {
			time.Sleep(500 * time.Millisecond)
			if os.Getppid() != ppid {
				os.Exit(98)
			}
		}
	}()
	for i, it := range j.Items {
		runtime.GC()
		ii := i
		cpu, _ := selfCPUms()
		emit(childEvent{Start: &ii, CPUms: cpu})
		if j.Markers {
			marker("begin", j.Base+i)
		}
		r := runOne(it)
		if j.Markers {
			marker("end", j.Base+i)
		}
		emit(childEvent{Done: &r, Idx: i})
		if r.CPUms > 800 && i < len(j.Items)-1 {
			emit(childEvent{Recycle: true})
			return
		}
	}
	emit(childEvent{Bye: true})
}

// marker performs a recognisable openat of a non-existent path.
func marker(kind string, n int) {
	fd, err := syscall.Open(fmt.Sprintf("/verif-marker-%s-%d", kind, n), syscall.O_RDONLY, 0)
	if err == nil {
		syscall.Close(fd)
	}
}

// decodeInput rebuilds obj.Object with the Go types runtime.DefaultUnstructuredConverter.ToUnstructured
// produces (int64 for integer literals, float64 otherwise).
func decodeInput(raw json.RawMessage) map[string]interface{} {
	if len(raw) == 0 {
		return map[string]interface{}{}
	}
	dec := json.NewDecoder(strings.NewReader(string(raw)))
	dec.UseNumber()
	var v interface{}
	if err := dec.Decode(&v); err != nil {
		return map[string]interface{}{}
	}
	m, _ := fixNumbers(v).(map[string]interface{})
	if m == nil {
		m = map[string]interface{}{}
	}
	return m
}

func fixNumbers(v interface{}) interface{} {
	switch t := v.(type) {
	case json.Number:
		s := string(t)
		if !strings.ContainsAny(s, ".eE") {
			if i, err := strconv.ParseInt(s, 10, 64); err == nil {
				return i
			}
		}
		f, _ := strconv.ParseFloat(s, 64)
		return f
	case []interface{}:
		for i := range t {
			t[i] = fixNumbers(t[i])
		}
		return t
	case map[string]interface{}:
		for k := range t {
			t[k] = fixNumbers(t[k])
		}
		return t
	}
	return v
}

func runOne(it item) itemResult {
	input := decodeInput(it.Input)
	var r itemResult
	cpu0, rss0 := selfCPUms()
	t0 := time.Now()
	pi := core.Try(func() { r = callAsCaller(input, it.Script, it.Flavour) })
	cpu1, rss1 := selfCPUms()
	if pi != nil {
		r = itemResult{Kind: "panic", Panic: capStr(pi.Value, 2000), Site: pi.Site, Stack: capStr(pi.Stack, 6000), RunCPUms: r.RunCPUms}
	}
	r.CPUms, r.WallMs, r.RSS0KB, r.RSS1KB = cpu1-cpu0, time.Since(t0).Milliseconds(), rss0, rss1
	return r
}

// callAsCaller is the sequence of ingress.executeLuaForCanary / customNetworkProvider.executeLuaForCanary:
// RunLuaScript, l.Get(-1), type test, luamanager.Encode, json.Unmarshal into the caller's Go type.
func callAsCaller(obj map[string]interface{}, script, flavour string) (r itemResult) {
	m := &luamanager.LuaManager{}
	c0, _ := selfCPUms()
	l, err := m.RunLuaScript(&unstructured.Unstructured{Object: obj}, script)
	c1, _ := selfCPUms()
	r.RunCPUms = c1 - c0
	if err != nil {
		r.Kind, r.Stage, r.Err = "error", "run", capStr(err.Error(), 3000)
		return
	}
	returnValue := l.Get(-1)
	r.RetType = returnValue.Type().String()
	if returnValue.Type() != lua.LTTable {
		r.Kind, r.Stage, r.Err = "error", "type", fmt.Sprintf("expect table output from Lua script, not %s", returnValue.Type().String())
		return
	}
	jsonBytes, err := luamanager.Encode(returnValue)
	if err != nil {
		r.Kind, r.Stage, r.Err = "error", "encode", capStr(err.Error(), 3000)
		return
	}
	switch flavour {
	case "ingress":
		newAnnotations := map[string]string{}
		err = json.Unmarshal(jsonBytes, &newAnnotations)
	case "custom":
		var d customNetworkProvider.Data
		err = json.Unmarshal(jsonBytes, &d)
	default:
		var v interface{}
		err = json.Unmarshal(jsonBytes, &v)
	}
	r.JSONLen = len(jsonBytes)
	r.JSON = capStr(string(jsonBytes), 1<<20)
	if err != nil {
		r.Kind, r.Stage, r.Err = "error", "unmarshal", capStr(err.Error(), 3000)
		return
	}
	r.Kind = "table"
	return
}
