// Package monitor holds the online monitors of the closed-loop engine. Every monitor is subscribed to the committed
// write stream of simapi (with the snapshot after the write) and judges only what the property states.
package monitor

import (
	"fmt"
	"sort"
	"strings"

	"verif/harness/interp"
	"verif/harness/sim"
	"verif/harness/simapi"
)

// Violation found by a monitor.
type Violation struct {
	Prop        string      `json:"prop"`
	Fingerprint string      `json:"fingerprint"`
	Msg         string      `json:"msg"`
	WriteSeq    int         `json:"writeSeq"`
	Detail      interface{} `json:"detail,omitempty"`
}

// Set is the collection of monitors attached to one run.
type Set struct {
	R          *sim.Run
	S          *sim.Scenario
	Violations []Violation
	Counters   map[string]int64
	Sets       map[string]map[string]bool
	tail       []string // last writes, for witnesses
	prev       *simapi.View

	ns, stable, canary string

	// shared derived state, updated on every write
	ro                    simapi.Obj // Rollout after the write (nil if gone)
	phase                 string
	reason                string // Progressing condition reason
	step                  int
	state                 string
	epoch                 int
	stableImg             string
	targetImg             string
	bgTarget              string // image the current BatchRelease was created for
	c11StaleReady         int
	brCreatedSinceRelease bool
	// SyncPoints: configuration projection at the first write that persists (step k, StepPaused), as long as the user has
	// done nothing but release / approve (C06 compares them between runs)
	SyncPoints map[string]map[string]interface{}
	brAtExit   string
	// trOrigRoutes: the route interpretation of the namespace before the TrafficRouting custom resource started routing
	trOrigRoutes string
	// origRoutes: the route interpretation of the namespace when the user started the (first) release
	origRoutes string
	// publishedDuringCleanup: the user published another revision while the cleanup of a completed release was running
	publishedDuringCleanup bool // state of the BatchRelease when the user's last exit action was written: none | deleting | live
	// restartedAfterFullUpdate: the user reverted / superseded the release when no pod of the stable revision was left
	restartedAfterFullUpdate bool

	st01 c01state
	st02 c02state
	st03 c03state
	st10 c10state
}

func Attach(r *sim.Run) *Set {
	s := &Set{R: r, S: r.S, Counters: map[string]int64{}, Sets: map[string]map[string]bool{}}
	s.ns, s.stable = r.S.NS, r.S.SvcName()
	s.canary = s.stable + "-canary"
	if r.S.NoCanarySvc || r.S.TRCR {
		s.canary = s.stable
	}
	s.stableImg, s.targetImg = "img:v1", "img:v1"
	s.st02.init()
	s.st03.exitReplicas = map[int]int{}
	r.W.Store.OnWrite = append(r.W.Store.OnWrite, s.onWrite)
	return s
}

// AttachTenant attaches the monitors of one rollout that shares the cluster with others: only writes in the tenant's
// namespace are delivered (the monitors read everything else through namespaced queries on the snapshot).
func AttachTenant(r *sim.Run) *Set {
	s := &Set{R: r, S: r.S, Counters: map[string]int64{}, Sets: map[string]map[string]bool{}}
	s.ns, s.stable = r.S.NS, r.S.SvcName()
	s.canary = s.stable + "-canary"
	if r.S.NoCanarySvc || r.S.TRCR {
		s.canary = s.stable
	}
	s.stableImg, s.targetImg = "img:v1", "img:v1"
	s.st02.init()
	s.st03.exitReplicas = map[int]int{}
	r.W.Store.OnWrite = append(r.W.Store.OnWrite, func(w *simapi.Write, v *simapi.View) {
		if w.Key.NS == s.ns {
			s.onWrite(w, v)
		}
	})
	return s
}

// Tail returns the last writes the monitor saw (witness material).
func (s *Set) Tail() []string { return append([]string{}, s.tail...) }

func (s *Set) count(k string, n int64) { s.Counters[k] += n }
func (s *Set) addSet(set, member string) {
	if s.Sets[set] == nil {
		s.Sets[set] = map[string]bool{}
	}
	s.Sets[set][member] = true
}

func (s *Set) violate(prop, fp, msg string, w *simapi.Write, detail interface{}) {
	for _, v := range s.Violations {
		if v.Fingerprint == fp {
			return
		}
	}
	d := map[string]interface{}{"scenario": s.S, "lastWrites": append([]string{}, s.tail...), "faults": s.R.InjectedFaults, "userActions": s.R.UserActions}
	if detail != nil {
		d["info"] = detail
	}
	seq := 0
	if w != nil {
		seq = w.Seq
	}
	s.Violations = append(s.Violations, Violation{Prop: prop, Fingerprint: fp, Msg: msg, WriteSeq: seq, Detail: d})
}

func condReason(ro simapi.Obj, typ string) (reason, status string) {
	for _, c := range simapi.List(ro, "status.conditions") {
		if simapi.Str(c, "type") == typ {
			return simapi.Str(c, "reason"), simapi.Str(c, "status")
		}
	}
	return "", ""
}

func subStatus(ro simapi.Obj) simapi.Obj {
	if m := simapi.Map(ro, "status.canaryStatus"); m != nil {
		return m
	}
	return simapi.Map(ro, "status.blueGreenStatus")
}

func isController(actor string) bool { return strings.HasSuffix(actor, "-ctrl") }

func (s *Set) rolloutSteps() []interface{} {
	if s.ro == nil {
		return nil
	}
	if l := simapi.List(s.ro, "spec.strategy.canary.steps"); l != nil {
		return l
	}
	return simapi.List(s.ro, "spec.strategy.blueGreen.steps")
}

// podsByImage counts live pods of the workload's app by container image.
func (s *Set) podsByImage(v *simapi.View) (total map[string]int, ready map[string]int) {
	total, ready = map[string]int{}, map[string]int{}
	for _, p := range v.List("Pod", s.ns) {
		if simapi.Deleting(p) || simapi.Label(p, "app") != s.S.Name {
			continue
		}
		img := ""
		if cs := simapi.List(p, "spec.containers"); len(cs) > 0 {
			img = simapi.Str(cs[0], "image")
		}
		total[img]++
		for _, c := range simapi.List(p, "status.conditions") {
			if simapi.Str(c, "type") == "Ready" && simapi.Str(c, "status") == "True" {
				ready[img]++
			}
		}
	}
	return
}

// podsByImageOwned is podsByImage restricted to pods of the workload itself (pods of canary Deployments excluded).
func (s *Set) podsByImageOwned(v *simapi.View) (total map[string]int, ready map[string]int) {
	canaryRS := map[string]bool{}
	canaryDeployUID := map[string]bool{}
	for _, d := range v.List("Deployment", s.ns) {
		if simapi.Label(d, "rollouts.kruise.io/canary-deployment") != "" {
			canaryDeployUID[simapi.UID(d)] = true
		}
	}
	for _, rs := range v.List("ReplicaSet", s.ns) {
		if canaryDeployUID[simapi.ControllerOwnerUID(rs)] {
			canaryRS[simapi.UID(rs)] = true
		}
	}
	total, ready = map[string]int{}, map[string]int{}
	for _, p := range v.List("Pod", s.ns) {
		if simapi.Deleting(p) || simapi.Label(p, "app") != s.S.Name || canaryRS[simapi.ControllerOwnerUID(p)] {
			continue
		}
		img := ""
		if cs := simapi.List(p, "spec.containers"); len(cs) > 0 {
			img = simapi.Str(cs[0], "image")
		}
		total[img]++
		for _, c := range simapi.List(p, "status.conditions") {
			if simapi.Str(c, "type") == "Ready" && simapi.Str(c, "status") == "True" {
				ready[img]++
			}
		}
	}
	return
}

func workloadImage(wl simapi.Obj) string {
	if cs := simapi.List(wl, "spec.template.spec.containers"); len(cs) > 0 {
		return simapi.Str(cs[0], "image")
	}
	return ""
}

func (s *Set) onWrite(w *simapi.Write, v *simapi.View) {
	line := sim.Summarize(w)
	if len(line) > 420 {
		line = line[:420] + "…"
	}
	if w.Key.Kind != "Pod" {
		s.tail = append(s.tail, line)
		if len(s.tail) > 60 {
			s.tail = s.tail[len(s.tail)-60:]
		}
	}
	// derived state
	s.ro = v.GetKey(simapi.Key{Group: "rollouts.kruise.io", Kind: "Rollout", NS: s.ns, Name: s.S.RolloutName()})
	s.phase, s.reason, s.step, s.state = "", "", 0, ""
	if s.ro != nil {
		s.phase = simapi.Str(s.ro, "status.phase")
		s.reason, _ = condReason(s.ro, "Progressing")
		if ss := subStatus(s.ro); ss != nil {
			s.step = int(simapi.IntD(ss, "currentStepIndex", 0))
			s.state = simapi.Str(ss, "currentStepState")
		}
	}
	if wl := v.GetKey(s.S.WorkloadKey()); wl != nil {
		if s.reason == "Completed" && w.Key.Kind == "Rollout" {
			if _, succ := condReason(s.ro, "Succeeded"); succ == "True" {
				s.stableImg = workloadImage(wl)
			}
		}
		if w.Key == s.S.WorkloadKey() && w.Actor == "user" {
			if img := workloadImage(wl); img != s.targetImg {
				s.targetImg = img
				if s.origRoutes == "" && s.prev != nil {
					s.origRoutes = jsonStr(interp.Routes(s.prev, s.ns))
				}
			}
		}
	}
	if w.Key.Kind == "BatchRelease" && w.Before == nil {
		s.brCreatedSinceRelease = true
		if wl := v.GetKey(s.S.WorkloadKey()); wl != nil {
			s.bgTarget = workloadImage(wl)
		}
	}
	if w.Actor == "user" && w.Key == s.S.WorkloadKey() && w.Before != nil && w.After != nil && workloadImage(w.Before) != workloadImage(w.After) {
		s.brCreatedSinceRelease = false
		if s.prev != nil {
			if pro := s.prev.GetKey(simapi.Key{Group: "rollouts.kruise.io", Kind: "Rollout", NS: s.ns, Name: s.S.RolloutName()}); pro != nil {
				if reason, _ := condReason(pro, "Progressing"); (reason == "Finalising" || reason == "Cancelling") && simapi.Str(pro, "status.phase") == "Progressing" {
					s.publishedDuringCleanup = true
				}
			}
		}
	}
	if w.Actor == "user" {
		isExit := false
		switch {
		case w.Key.Kind == "Rollout" && w.Before != nil && w.After != nil && !simapi.Deleting(w.Before) && simapi.Deleting(w.After):
			isExit = true
		case w.Key.Kind == "Rollout" && w.Before != nil && w.After != nil && !simapi.Bool(w.Before, "spec.disabled") && simapi.Bool(w.After, "spec.disabled"):
			isExit = true
		case w.Key == s.S.WorkloadKey() && w.Before != nil && w.After != nil && workloadImage(w.Before) != workloadImage(w.After) && workloadImage(w.After) == s.stableImg:
			isExit = true
		}
		if isExit {
			s.brAtExit = "none"
			if br := v.GetKey(simapi.Key{Group: "rollouts.kruise.io", Kind: "BatchRelease", NS: s.ns, Name: s.S.RolloutName()}); br != nil {
				s.brAtExit = "live"
				if simapi.Deleting(br) {
					s.brAtExit = "deleting"
				}
			}
		}
	}
	s.count("writes_seen", 1)
	if w.Key.Kind != "Pod" {
		s.addSet("actor_kind_verb", w.Actor+"/"+w.Key.Kind+"/"+w.Verb)
	}
	if w.Key.Kind == "Rollout" && w.After != nil && s.state == "StepPaused" && s.reason == "InRolling" {
		quiet := true
		for _, a := range s.R.UserActions {
			a = strings.TrimSpace(a)
			if a != "approve" && !strings.HasPrefix(a, "release") && a != "noop" && !strings.HasPrefix(a, "->") {
				quiet = false
			}
		}
		key := fmt.Sprintf("step%d/StepPaused", s.step)
		if _, seen := s.SyncPoints[key]; quiet && !seen {
			if s.SyncPoints == nil {
				s.SyncPoints = map[string]map[string]interface{}{}
			}
			s.SyncPoints[key] = s.ConfigProjection(v)
		}
	}
	s.c04(w, v)
	s.c03(w, v)
	s.c01(w, v)
	s.c02(w, v)
	s.c10(w, v)
	s.c11(w, v)
	s.c18(w, v)
	s.prev = v
}

// Finish runs the end-of-run oracles (C05, C07, C09) and returns all violations.
func (s *Set) Finish() []Violation {
	s.c09()
	s.c18Final()
	s.c07()
	s.c05()
	sort.Slice(s.Violations, func(i, j int) bool { return s.Violations[i].Fingerprint < s.Violations[j].Fingerprint })
	return s.Violations
}

// ---- C04: no request is ever routed into a void ---------------------------------------------------------

func (s *Set) c04(w *simapi.Write, v *simapi.View) {
	if w.Actor == "user" && w.Key == s.S.WorkloadKey() && w.Before != nil && w.After != nil && workloadImage(w.Before) != workloadImage(w.After) && s.phase == "Progressing" {
		// the user reverts / supersedes the release: remember whether every pod had already been updated by then (the
		// Rollout then takes the abandoned revision for the stable one when it restarts at step 1)
		if tot, _ := s.podsByImage(v); tot[s.stableImg] == 0 && len(tot) > 0 {
			s.restartedAfterFullUpdate = true
		}
	}
	if !s.S.HasTraffic() {
		return
	}
	s.count("c04_snapshots_evaluated", 1)
	routes := interp.Routes(v, s.ns)
	canarySvc := v.Get("Service", s.ns, s.canary)
	stableSvc := v.Get("Service", s.ns, s.stable)
	tot, _ := s.podsByImage(v)
	if s.canary != s.stable {
		for _, t := range routes {
			if t.Service != s.canary || (t.Share <= 0 && !t.Match) {
				continue
			}
			s.count("c04_canary_route_checks", 1)
			kind := t.Source[:strings.Index(t.Source, "/")]
			if canarySvc == nil {
				s.violate("C04", "c04:route-to-missing-canary-service:"+kind, fmt.Sprintf("%s sends traffic (share=%d match=%v) to Service %s which does not exist", t.Source, t.Share, t.Match, s.canary), w, t)
				continue
			}
			pin := interp.Pinned(canarySvc, interp.RevisionKeys...)
			if pin == "" {
				s.violate("C04", "c04:canary-service-not-pinned:"+kind, fmt.Sprintf("%s sends traffic to canary Service %s whose selector does not pin a revision: %v", t.Source, s.canary, simapi.StrMap(canarySvc, "spec.selector")), w, t)
				continue
			}
			// every live pod selected by the canary Service must be a new-revision pod, and there must be one
			sel := simapi.StrMap(canarySvc, "spec.selector")
			n, old := 0, 0
			for _, p := range v.List("Pod", s.ns) {
				if simapi.Deleting(p) {
					continue
				}
				labels := simapi.StrMap(p, "metadata.labels")
				match := true
				for k, val := range sel {
					if labels[k] != val {
						match = false
					}
				}
				if !match {
					continue
				}
				n++
				if cs := simapi.List(p, "spec.containers"); len(cs) > 0 && simapi.Str(cs[0], "image") == s.stableImg && s.stableImg != s.targetImg {
					old++
				}
			}
			if old > 0 {
				s.violate("C04", "c04:canary-service-selects-stable-pods:"+kind, fmt.Sprintf("canary Service %s receives traffic from %s but selects %d stable-revision pods", s.canary, t.Source, old), w, t)
			}
			if n == 0 {
				// recorded only: the statement asks that the canary Service exists and selects the new revision, not that
				// pods are left (a user scale-down can remove them)
				s.count("c04_obs_canary_route_without_pods", 1)
			}
		}
	}
	// V2: stable Service pinned to a revision while it still receives traffic => pods of that revision exist
	if stableSvc != nil {
		if pin := interp.Pinned(stableSvc, interp.RevisionKeys...); pin != "" {
			receives := false
			for _, t := range routes {
				if t.Service == s.stable && t.Share > 0 && !t.Canary {
					receives = true
				}
			}
			if receives {
				s.count("c04_pinned_stable_checks", 1)
				n, _ := interp.LivePods(v, s.ns, simapi.StrMap(stableSvc, "spec.selector"))
				if n == 0 && len(tot) > 0 {
					how := "forward"
					restarted := false
					for _, a := range s.R.UserActions {
						if a == "rollback" || a == "v3" {
							restarted = true
						}
					}
					if s.publishedDuringCleanup {
						how = "revision-published-during-cleanup"
					}
					if restarted && s.isRealPartitionStyle() && (tot[s.stableImg] == 0 || s.restartedAfterFullUpdate) {
						// the user reverted / superseded a partition-style release after every pod had been updated: no pod of
						// the stable revision is left, the Rollout restarts at step 1 and pins the stable Service to it
						how = "release-restarted-after-every-pod-was-updated"
					}
					for _, a := range s.R.UserActions {
						if strings.HasPrefix(a, "jump:") {
							how = "after-step-jump"
						}
						if strings.HasPrefix(a, "scale:") {
							how = "after-user-scale"
						}
					}
					if how == "after-user-scale" {
						// which pods a workload controller removes on a user's scale-down is the environment's choice
						s.count("c04_obs_pinned_stable_without_pods_after_user_scale", 1)
						return
					}
					s.violate("C04", "c04:stable-service-pinned-to-revision-without-pods:"+how, fmt.Sprintf("stable Service %s is pinned to revision %s and receives traffic, but no live pod of that revision exists (pods by image: %v)", s.stable, pin, tot), w, nil)
				}
			}
		}
	}
}
