package main

import (
	"verif/harness/core"
	_ "verif/harness/drivers/c12labels"
)

func main() { core.Main() }
