package c09validate

// Independent oracle of the structural promises, written from the property statement. Nothing here calls
// a helper of the code under test: own replicas parser, own style / step / routing extraction, own
// workload identity.

import (
	"encoding/json"
	"fmt"
	"reflect"
	"strings"

	"github.com/openkruise/rollouts/api/v1alpha1"
	"github.com/openkruise/rollouts/api/v1beta1"
	"k8s.io/apimachinery/pkg/util/intstr"
)

type stepVal struct {
	Class string // int | pct | nil | malformed
	Val   int
	Raw   string
}

func parseReplicas(v *intstr.IntOrString) stepVal {
	if v == nil {
		return stepVal{Class: "nil", Raw: "<nil>"}
	}
	if v.Type == intstr.Int {
		return stepVal{Class: "int", Val: int(v.IntVal), Raw: fmt.Sprint(v.IntVal)}
	}
	s := v.StrVal
	raw := fmt.Sprintf("%q", s)
	if !strings.HasSuffix(s, "%") {
		return stepVal{Class: "malformed", Raw: raw}
	}
	d := strings.TrimSuffix(s, "%")
	neg := false
	if strings.HasPrefix(d, "-") {
		neg, d = true, d[1:]
	} else if strings.HasPrefix(d, "+") {
		d = d[1:]
	}
	if d == "" || len(d) > 9 {
		return stepVal{Class: "malformed", Raw: raw}
	}
	n := 0
	for _, r := range d {
		if r < '0' || r > '9' {
			return stepVal{Class: "malformed", Raw: raw}
		}
		n = n*10 + int(r-'0')
	}
	if neg {
		n = -n
	}
	return stepVal{Class: "pct", Val: n, Raw: raw}
}

type block struct {
	Kind  string // canary | bluegreen
	Steps []stepVal
}

// roView is the oracle's reading of one Rollout.
type roView struct {
	Name, Namespace   string
	Disabled          bool
	Deleting          bool
	HasRef            bool
	Ref               [3]string // apiVersion, kind, name
	Blocks            []block
	Style             string // canary | partition | bluegreen | none
	StepCount         int
	Routings          string // canonical JSON of the trafficRoutings list ("null" when empty)
	TrafficRoutingRef string
}

func canonList(v interface{}) string {
	rv := reflect.ValueOf(v)
	if rv.Kind() == reflect.Slice && rv.Len() == 0 {
		return "null"
	}
	b, _ := json.Marshal(v)
	return string(b)
}

func viewBeta(o *v1beta1.Rollout) roView {
	v := roView{Name: o.Name, Namespace: o.Namespace, Disabled: o.Spec.Disabled, Deleting: o.DeletionTimestamp != nil, HasRef: true,
		Ref: [3]string{o.Spec.WorkloadRef.APIVersion, o.Spec.WorkloadRef.Kind, o.Spec.WorkloadRef.Name}, Style: "none", Routings: "null"}
	if c := o.Spec.Strategy.Canary; c != nil {
		b := block{Kind: "canary"}
		for i := range c.Steps {
			b.Steps = append(b.Steps, parseReplicas(c.Steps[i].Replicas))
		}
		v.Blocks = append(v.Blocks, b)
		// effective style: an extra canary workload exists for Deployments only
		v.Style = "partition"
		if c.EnableExtraWorkloadForCanary && isDeploymentRef(v.Ref) {
			v.Style = "canary"
		}
		v.StepCount, v.Routings, v.TrafficRoutingRef = len(c.Steps), canonList(c.TrafficRoutings), c.TrafficRoutingRef
	}
	if g := o.Spec.Strategy.BlueGreen; g != nil {
		b := block{Kind: "bluegreen"}
		for i := range g.Steps {
			b.Steps = append(b.Steps, parseReplicas(g.Steps[i].Replicas))
		}
		v.Blocks = append(v.Blocks, b)
		// a blue-green block decides the style when present
		v.Style = "bluegreen"
		v.StepCount, v.Routings, v.TrafficRoutingRef = len(g.Steps), canonList(g.TrafficRoutings), g.TrafficRoutingRef
	}
	return v
}

func viewAlpha(o *v1alpha1.Rollout) roView {
	v := roView{Name: o.Name, Namespace: o.Namespace, Disabled: o.Spec.Disabled, Deleting: o.DeletionTimestamp != nil, Style: "none", Routings: "null"}
	if w := o.Spec.ObjectRef.WorkloadRef; w != nil {
		v.HasRef = true
		v.Ref = [3]string{w.APIVersion, w.Kind, w.Name}
	}
	if c := o.Spec.Strategy.Canary; c != nil {
		b := block{Kind: "canary"}
		for i := range c.Steps {
			s := &c.Steps[i]
			switch {
			case s.Replicas != nil:
				b.Steps = append(b.Steps, parseReplicas(s.Replicas))
			case s.Weight != nil:
				// a weight-only step means "that percentage of the pods"
				b.Steps = append(b.Steps, stepVal{Class: "pct", Val: int(*s.Weight), Raw: fmt.Sprintf("weight:%d", *s.Weight)})
			default:
				b.Steps = append(b.Steps, stepVal{Class: "nil", Raw: "<nil>"})
			}
		}
		v.Blocks = append(v.Blocks, b)
		v.Style = "partition"
		if !strings.EqualFold(o.Annotations[v1alpha1.RolloutStyleAnnotation], "partition") && v.HasRef && isDeploymentRef(v.Ref) {
			v.Style = "canary"
		}
		v.StepCount, v.Routings, v.TrafficRoutingRef = len(c.Steps), canonList(c.TrafficRoutings), o.Annotations[v1alpha1.TrafficRoutingAnnotation]
	}
	return v
}

func isDeploymentRef(ref [3]string) bool {
	g, ok := groupOf(ref[0])
	return ok && g == "apps" && ref[1] == "Deployment"
}

func viewOf(obj interface{}) roView {
	switch o := obj.(type) {
	case *v1beta1.Rollout:
		return viewBeta(o)
	case *v1alpha1.Rollout:
		return viewAlpha(o)
	}
	return roView{}
}

func (v roView) strategyKind() string {
	switch len(v.Blocks) {
	case 0:
		return "none"
	case 1:
		return v.Blocks[0].Kind
	}
	return "both"
}

// groupOf: own reading of an apiVersion string: "group/version" or "version" (core group).
func groupOf(apiVersion string) (string, bool) {
	parts := strings.Split(apiVersion, "/")
	switch len(parts) {
	case 1:
		return "", parts[0] != ""
	case 2:
		return parts[0], parts[0] != "" && parts[1] != ""
	}
	return "", false
}

// sameWorkload: two references name the same workload object when group, kind and name agree (an API
// version is a representation of the object, not part of its identity).
func sameWorkload(a, b [3]string) (same bool, exact bool) {
	ga, oka := groupOf(a[0])
	gb, okb := groupOf(b[0])
	if !oka || !okb || a[1] == "" || a[2] == "" {
		return false, false
	}
	if ga == gb && a[1] == b[1] && a[2] == b[2] {
		return true, a[0] == b[0]
	}
	return false, false
}

type finding struct {
	FP     string
	Msg    string
	Extra  interface{}
	Clause string
}

// checkShape judges the per-object promises (non-empty steps, usable replicas, non-decreasing) of an
// accepted object and reports which clauses were checked non-vacuously.
func checkShape(version string, v roView) (fs []finding, clauses map[string]bool, obs map[string]int) {
	clauses, obs = map[string]bool{}, map[string]int{}
	clauses["NE"] = true
	if len(v.Blocks) == 0 {
		fs = append(fs, finding{FP: "c09v:promise:steps-nonempty:" + version + ":no-strategy", Clause: "NE",
			Msg: "accepted Rollout has neither a canary nor a blue-green block, hence no steps"})
		return
	}
	for _, b := range v.Blocks {
		if len(b.Steps) == 0 {
			fs = append(fs, finding{FP: "c09v:promise:steps-nonempty:" + version + ":" + b.Kind, Clause: "NE",
				Msg: "accepted Rollout has an empty " + b.Kind + " step list"})
			continue
		}
		clauses["RP"] = true
		for i, s := range b.Steps {
			bad := ""
			switch {
			case s.Class == "nil":
				bad = "nil"
			case s.Class == "malformed":
				bad = "malformed"
			case s.Val < 0 || (s.Class == "pct" && s.Val > 100):
				bad = "out-of-range"
			}
			if bad != "" {
				fs = append(fs, finding{FP: "c09v:promise:step-replicas:" + version + ":" + bad, Clause: "RP",
					Msg: fmt.Sprintf("accepted Rollout: %s step %d has no usable replicas value (%s)", b.Kind, i, s.Raw)})
			}
		}
		for i := 1; i < len(b.Steps); i++ {
			p, c := b.Steps[i-1], b.Steps[i]
			okp, okc := p.Class == "int" || p.Class == "pct", c.Class == "int" || c.Class == "pct"
			if !okp || !okc {
				continue
			}
			if p.Class != c.Class {
				obs["obs_O3_mixed_adjacent_pairs_not_judged"]++
				continue
			}
			clauses["ND"] = true
			if c.Val < p.Val {
				fs = append(fs, finding{FP: "c09v:promise:steps-nondecreasing:" + version + ":" + c.Class, Clause: "ND",
					Msg: fmt.Sprintf("accepted Rollout: %s step %d (%s) is smaller than step %d (%s)", b.Kind, i, c.Raw, i-1, p.Raw)})
			}
		}
		// O3: a decrease between non-adjacent steps of the same type hidden behind a step of the other type
		last := map[string]int{}
		seen := map[string]bool{}
		o3 := false
		for i, s := range b.Steps {
			if s.Class != "int" && s.Class != "pct" {
				continue
			}
			if seen[s.Class] && s.Val < last[s.Class] && i > 0 && b.Steps[i-1].Class != s.Class {
				o3 = true
			}
			seen[s.Class], last[s.Class] = true, s.Val
		}
		if o3 {
			obs["obs_O3_nonadjacent_decrease_accepted"]++
		}
	}
	return
}

// checkOnePerWorkload: after an accepted CREATE/UPDATE of an enabled Rollout no other enabled, non-deleting
// Rollout of the namespace may reference the same workload.
func checkOnePerWorkload(version string, nv roView, others []*v1beta1.Rollout) (fs []finding, candidates int) {
	if nv.Disabled || nv.Deleting || !nv.HasRef {
		return nil, 0
	}
	for _, o := range others {
		ov := viewBeta(o)
		if ov.Namespace != nv.Namespace || ov.Name == nv.Name || ov.Disabled || ov.Deleting {
			continue
		}
		candidates++
		same, exact := sameWorkload(nv.Ref, ov.Ref)
		if !same {
			continue
		}
		class := "same-ref"
		switch {
		case version == VAlpha && ov.Style == "bluegreen":
			class = "other-hidden-in-v1alpha1-view"
		case !exact:
			class = "apiVersion-differs"
		}
		fs = append(fs, finding{FP: "c09v:promise:one-rollout-per-workload:" + version + ":" + class, Clause: "OW",
			Msg: fmt.Sprintf("accepted %s Rollout %s/%s references %v while enabled Rollout %s (%s) references %v: two Rollouts on one workload",
				version, nv.Namespace, nv.Name, nv.Ref, ov.Name, ov.Style, ov.Ref)})
	}
	return
}

// checkImmutable: an accepted UPDATE while the stored object is Progressing / Terminating leaves workload
// reference, traffic routings, style and step count unchanged.
func checkImmutable(version string, phase string, ov, nv roView) (fs []finding, changed []string) {
	if ov.HasRef != nv.HasRef || ov.Ref != nv.Ref {
		changed = append(changed, "workloadRef")
	}
	if ov.Routings != nv.Routings {
		changed = append(changed, "trafficRoutings")
	}
	// the effective style depends on the workload kind: a style change that comes with a changed reference is
	// attributed to the reference
	if ov.Style != nv.Style && ov.Ref == nv.Ref {
		changed = append(changed, "style")
	}
	if ov.StepCount != nv.StepCount {
		changed = append(changed, "stepCount")
	}
	if len(changed) > 0 && version == VAlpha && len(ov.Blocks) == 0 {
		// the stored object is a blue-green Rollout: its v1alpha1 representation carries neither spec nor status
		fs = append(fs, finding{FP: "c09v:promise:immutable-while-progressing:" + version + ":stored-bluegreen-hidden-in-v1alpha1-view", Clause: "IM",
			Msg: fmt.Sprintf("v1alpha1 UPDATE accepted while the stored (blue-green) Rollout is %s although %s changed", phase, strings.Join(changed, ", "))})
		return
	}
	for _, c := range changed {
		fs = append(fs, finding{FP: "c09v:promise:immutable-while-progressing:" + version + ":" + c, Clause: "IM",
			Msg: fmt.Sprintf("UPDATE accepted while the stored Rollout is %s although %s changed", phase, c)})
	}
	return
}
