package c16lua

// (d) value round trip: Go value -> decodeValue (inside RunLuaScript) -> Lua -> identity script -> Encode ->
// json.Unmarshal, compared with an oracle written here from the property statement.

import (
	"encoding/json"
	"fmt"
	"math"
	"math/rand"
	"strconv"
	"strings"

	"verif/harness/core"
)

// ---- generator ------------------------------------------------------------------------------------

func genKey(rng *rand.Rand) string {
	return []string{"a", "b", "name", "weight", "", "1", "2", "a.b", "x/y", "ключ", "日本", "k with space", "__index", "nil", "true", "10", "-1", "1.5", "A", "z"}[rng.Intn(20)]
}

func genString(rng *rand.Rand) string {
	switch rng.Intn(12) {
	case 0:
		return ""
	case 1:
		return "héllo ✓ 日本語 😀"
	case 2:
		return "quote\" back\\slash / <tag> & 'x'"
	case 3:
		return "line1\nline2\ttab\r"
	case 4:
		return "123"
	case 5:
		return "1e5"
	case 6:
		return "null"
	case 7:
		return "true"
	case 8:
		return strings.Repeat("long-", 1+rng.Intn(200))
	case 9:
		return "\u0000nul\u0001\u001f"
	case 10:
		return "  \ufeff\ufffd"
	default:
		b := make([]byte, 1+rng.Intn(8))
		for i := range b {
			b[i] = byte('a' + rng.Intn(26))
		}
		return string(b)
	}
}

func genNumber(rng *rand.Rand) interface{} {
	switch rng.Intn(14) {
	case 0:
		return int64(0)
	case 1:
		return int64(rng.Intn(200) - 100)
	case 2:
		return int64(1) << 53
	case 3:
		return -(int64(1) << 53)
	case 4:
		return int64(1)<<53 - 1
	case 5:
		return int64(rng.Int63n(1 << 53))
	case 6:
		return int64(math.MaxInt32) + int64(rng.Intn(3)) - 1
	case 7:
		return 0.5
	case 8:
		return -1.25e-7
	case 9:
		return 1e21
	case 10:
		return 3.141592653589793
	case 11:
		return rng.NormFloat64() * 1e6
	case 12:
		return 1.7976931348623157e308
	default:
		return 5e-324
	}
}

func genValue(rng *rand.Rand, depth int) interface{} {
	r := rng.Intn(100)
	if depth <= 0 && r >= 70 {
		r = rng.Intn(70)
	}
	switch {
	case r < 5:
		return nil
	case r < 15:
		return rng.Intn(2) == 0
	case r < 40:
		return genNumber(rng)
	case r < 70:
		return genString(rng)
	case r < 85:
		n := rng.Intn(5)
		l := make([]interface{}, 0, n)
		for i := 0; i < n; i++ {
			l = append(l, genValue(rng, depth-1))
		}
		return l
	default:
		n := rng.Intn(5)
		m := map[string]interface{}{}
		for i := 0; i < n; i++ {
			m[genKey(rng)] = genValue(rng, depth-1)
		}
		return m
	}
}

// inputJSON writes v so that integers have no '.', floats always have '.' or an exponent (the child rebuilds
// int64 / float64 from that, like ToUnstructured would hand them over).
func inputJSON(v interface{}) string {
	switch t := v.(type) {
	case nil:
		return "null"
	case bool:
		if t {
			return "true"
		}
		return "false"
	case int64:
		return strconv.FormatInt(t, 10)
	case float64:
		s := strconv.FormatFloat(t, 'g', -1, 64)
		if !strings.ContainsAny(s, ".e") {
			s += ".0"
		}
		return s
	case string:
		b, _ := json.Marshal(t)
		return string(b)
	case []interface{}:
		parts := make([]string, len(t))
		for i, e := range t {
			parts[i] = inputJSON(e)
		}
		return "[" + strings.Join(parts, ",") + "]"
	case map[string]interface{}:
		var parts []string
		for k, e := range t {
			kb, _ := json.Marshal(k)
			parts = append(parts, string(kb)+":"+inputJSON(e))
		}
		return "{" + strings.Join(parts, ",") + "}"
	}
	panic("c16: inputJSON: unexpected type")
}

// ---- oracle -----------------------------------------------------------------------------------------

type rtStats struct{ nullInList, nullInMap, emptyCollapsed, emptyDropped int }

// effEmpty: values Lua cannot tell apart from "nothing there": nil, and containers all of whose members are
// effEmpty (an empty table encodes as null, and a null cannot be stored in a table, so after a second
// conversion such a member is gone).
func effEmpty(v interface{}) bool {
	switch t := v.(type) {
	case nil:
		return true
	case []interface{}:
		for _, e := range t {
			if !effEmpty(e) {
				return false
			}
		}
		return true
	case map[string]interface{}:
		for _, e := range t {
			if !effEmpty(e) {
				return false
			}
		}
		return true
	}
	return false
}

func effLen(v interface{}) int {
	if effEmpty(v) {
		return 0
	}
	return 1
}

// rtDiff returns "" when out is what in must become, else a class of difference (stable, no paths) and the path.
// Tolerated (and counted): an effEmpty value shows up as null / empty, or — as member of a list or map — is absent.
func rtDiff(path string, in, out interface{}, st *rtStats) (class, where string) {
	if effEmpty(in) {
		if in != nil {
			st.emptyCollapsed++
		}
		if !effEmpty(out) {
			return "empty-became-" + kindOf(out), path
		}
		return "", ""
	}
	switch t := in.(type) {
	case bool:
		if o, ok := out.(bool); !ok || o != t {
			return "bool-changed", path
		}
	case int64:
		if o, ok := out.(float64); !ok || o != float64(t) {
			return "number-changed", path
		}
	case float64:
		if o, ok := out.(float64); !ok || o != t {
			return "number-changed", path
		}
	case string:
		if o, ok := out.(string); !ok || o != t {
			return "string-changed", path
		}
	case []interface{}:
		o, ok := out.([]interface{})
		if !ok {
			return "list-became-" + kindOf(out), path
		}
		j := 0
		for i, e := range t {
			if effEmpty(e) {
				if j < len(o) && effEmpty(o[j]) {
					j++ // kept as null / empty
				} else if e == nil {
					st.nullInList++ // a nil cannot be stored in a Lua table (null is outside the property's quantifier): tolerated, counted
				} else {
					st.emptyDropped++
				}
				continue
			}
			if j >= len(o) {
				return "list-length-changed", path
			}
			if c, w := rtDiff(fmt.Sprintf("%s[%d]", path, i), e, o[j], st); c != "" {
				return c, w
			}
			j++
		}
		if j != len(o) {
			return "list-length-changed", path
		}
	case map[string]interface{}:
		o, ok := out.(map[string]interface{})
		if !ok {
			return "map-became-" + kindOf(out), path
		}
		for k, e := range t {
			ov, present := o[k]
			if effEmpty(e) {
				if present && !effEmpty(ov) {
					return "empty-became-" + kindOf(ov), path + "." + k
				}
				if !present {
					if e == nil {
						st.nullInMap++ // key with nil value == absent key in Lua
					} else {
						st.emptyDropped++
					}
				}
				continue
			}
			if !present {
				return "key-dropped", path + "." + k
			}
			if c, w := rtDiff(path+"."+k, e, ov, st); c != "" {
				return c, w
			}
		}
		for k := range o {
			if _, present := t[k]; !present {
				return "key-added", path + "." + k
			}
		}
	}
	return "", ""
}

func kindOf(v interface{}) string {
	switch v.(type) {
	case nil:
		return "null"
	case bool:
		return "bool"
	case float64:
		return "number"
	case string:
		return "string"
	case []interface{}:
		return "list"
	case map[string]interface{}:
		return "map"
	}
	return "other"
}

// ---- case ---------------------------------------------------------------------------------------------

type rtVariant struct {
	name, script, flavour string
	wrap                  func(v interface{}) string // obj.Object as JSON
	unwrap                func(out interface{}) (interface{}, bool)
}

var rtVariants = []rtVariant{
	{"return-obj", `return obj`, "raw",
		func(v interface{}) string { return `{"v":` + inputJSON(v) + `}` },
		func(out interface{}) (interface{}, bool) { return field(out, "v") }},
	{"copy-pairs", `local r = {} for k, v in pairs(obj) do r[k] = v end return r`, "raw",
		func(v interface{}) string { return `{"v":` + inputJSON(v) + `}` },
		func(out interface{}) (interface{}, bool) { return field(out, "v") }},
	{"deep-copy", `local function cp(x) if type(x) ~= "table" then return x end local r = {} for k, v in pairs(x) do r[k] = cp(v) end return r end return cp(obj)`, "raw",
		func(v interface{}) string { return `{"v":` + inputJSON(v) + `}` },
		func(out interface{}) (interface{}, bool) { return field(out, "v") }},
	{"lua-json-roundtrip", `local s, e = json.encode(obj) if s == nil then error(e) end return json.decode(s)`, "raw",
		func(v interface{}) string { return `{"v":` + inputJSON(v) + `}` },
		func(out interface{}) (interface{}, bool) { return field(out, "v") }},
	// the custom provider's shape: obj.data.spec in, Data.Spec out
	{"custom-data", `return obj.data`, "custom",
		func(v interface{}) string {
			return `{"data":{"spec":` + inputJSON(v) + `,"labels":{"app":"demo"},"annotations":{"a":"b"}},"canaryWeight":20,"stableWeight":80,"canaryService":"c","stableService":"s"}`
		},
		func(out interface{}) (interface{}, bool) { return field(out, "spec") }},
}

func field(out interface{}, k string) (interface{}, bool) {
	m, ok := out.(map[string]interface{})
	if !ok {
		return nil, out == nil
	}
	return m[k], true
}

const rtPerCase = 50

func runRoundTripCase(env *core.Env, idx int, res *core.CaseResult) {
	rng := env.RNG(idx)
	var items []item
	var vals []interface{}
	var vars []rtVariant
	for i := 0; i < rtPerCase; i++ {
		v := genValue(rng, 1+rng.Intn(4))
		vr := rtVariants[rng.Intn(len(rtVariants))]
		vals, vars = append(vals, v), append(vars, vr)
		items = append(items, item{Cat: "roundtrip", Name: vr.name, Script: vr.script, Input: json.RawMessage(vr.wrap(v)), Flavour: vr.flavour})
	}
	out := runItems(items, runOpt{})
	for i, r := range out.Results {
		v, vr := vals[i], vars[i]
		judgeCommon(res, items[i], r, "", false)
		if r.Kind != "table" && r.Kind != "error" {
			continue
		}
		st := &rtStats{}
		empty := v == nil || effLen(v) == 0
		if r.Kind == "error" {
			// an all-empty object turns into nil / an empty table on the way: "expect table output … not nil" is the
			// documented collapse, nothing else is
			if empty && (vr.name == "lua-json-roundtrip" || vr.name == "custom-data") {
				res.Count("roundtrips_compared", 1)
				res.Count("roundtrip_empty_collapses", 1)
				continue
			}
			res.Violate("c16:roundtrip:identity-script-failed:"+vr.name+":"+r.Stage, "an identity script failed on a plain JSON value: "+capStr(r.Err, 300),
				map[string]interface{}{"input": json.RawMessage(vr.wrap(v)), "script": vr.script, "error": r.Err})
			continue
		}
		var outv interface{}
		if r.JSONLen != len(r.JSON) || json.Unmarshal([]byte(r.JSON), &outv) != nil {
			res.Inconclusive = "round trip result truncated"
			continue
		}
		got, ok := vr.unwrap(outv)
		if !ok {
			res.Violate("c16:roundtrip:wrapper-lost:"+vr.name, "the object handed to the script did not come back as an object", map[string]interface{}{"input": json.RawMessage(vr.wrap(v)), "output": json.RawMessage(r.JSON)})
			continue
		}
		res.Count("roundtrips_compared", 1)
		class, where := rtDiff("v", v, got, st)
		res.Count("roundtrip_null_in_list_dropped", int64(st.nullInList))
		res.Count("roundtrip_null_in_map_dropped", int64(st.nullInMap))
		res.Count("roundtrip_empty_collapses", int64(st.emptyCollapsed))
		res.Count("roundtrip_empty_members_dropped", int64(st.emptyDropped))
		if class != "" {
			res.Violate("c16:roundtrip:"+class, fmt.Sprintf("value changed meaning on the way through Lua (%s at %s)", class, where),
				map[string]interface{}{"variant": vr.name, "script": vr.script, "input": json.RawMessage(vr.wrap(v)), "output": json.RawMessage(r.JSON), "at": where})
		}
		res.AddSig(fmt.Sprintf("roundtrip:%s:%s:nulls=%v:empties=%v", vr.name, kindOf(normKind(v)), st.nullInList+st.nullInMap > 0, st.emptyCollapsed > 0))
	}
	if idx%7 == 0 && len(vals) > 0 {
		res.Sample = map[string]interface{}{"kind": "roundtrip", "variant": vars[0].name, "input": json.RawMessage(vars[0].wrap(vals[0])), "output": capStr(out.Results[0].JSON, 400)}
	}
}

func normKind(v interface{}) interface{} {
	if i, ok := v.(int64); ok {
		return float64(i)
	}
	return v
}
