// Package c09validate is the ADMISSION half of property C09 "No API-reachable object state can crash the
// controllers" (development ID C09V): generated v1beta1 / v1alpha1 Rollouts are sent as real admission
// requests to the real validating handler; the oracle (oracle.go) judges no-panic for every request, the
// structural promises on every accepted object, and (probe.go) that what validation accepts is inside the
// domain of the controller-side workload finder and of the nextStepIndex correction.
package c09validate

import (
	"encoding/json"
	"fmt"
	"math/rand"
	"sort"
	"strings"

	"github.com/openkruise/rollouts/api/v1alpha1"
	"github.com/openkruise/rollouts/api/v1beta1"
	metav1 "k8s.io/apimachinery/pkg/apis/meta/v1"
	"k8s.io/apimachinery/pkg/runtime"
	"sigs.k8s.io/controller-runtime/pkg/client"

	"verif/harness/core"
	"verif/harness/gen"
)

func init() {
	core.Register(&core.Check{
		ID:    "C09V",
		Level: "exploration",
		Rule: "each case is one admission scenario drawn from a seeded structural generator: a v1beta1 or v1alpha1 Rollout (every optional block nil/present; canary / blue-green / both / neither; " +
			"0..6 steps; replicas ints, percents, garbage strings, negative, nil; traffic strings, weights, matches, pause durations incl. negative; 0..3 trafficRoutings of every provider shape; " +
			"workloadRef to every known workload GVK, to the same group/kind under other versions and to unknown kinds; style annotation / enableExtraWorkloadForCanary combos) sent as a real CREATE, " +
			"or as a real UPDATE (an edit of step count / workloadRef / routings / style / step values / flags, or a fresh object) against a stored, previously admitted object in phase " +
			"Initial/Healthy/Progressing/Terminating/Disabled/Disabling, over a fake client that also holds 0..2 other Rollouts (same workload, same workload under another apiVersion, different, disabled, deleting, other namespace). " +
			"The store is kept in the storage version (v1beta1); v1alpha1 requests see it through the real conversion, as the API server presents it. " +
			"Non-trivial = the request reached the handler; distinct = (version, operation, stored phase, verdict, strategy kind, #steps, promise clauses checked non-vacuously).",
		Assumptions: []string{
			"a panic inside the validating handler counts as a crash of an API path (net/http recovers it per connection, the request fails with failurePolicy=Fail)",
			"usable replicas (what the controllers need: they dereference step.Replicas of the stored v1beta1 object and scale it, ignoring parse errors): non-nil and an integer >= 0 or an integer percentage within 0..100; a v1alpha1 weight-only step counts as that percentage",
			"non-decreasing is judged among comparable ADJACENT steps only (int vs int, percent vs percent); mixed adjacent pairs cannot be compared without the replica count and are recorded as observation O3, not judged",
			"one Rollout per workload: an accepted CREATE/UPDATE of an enabled Rollout must not leave another enabled, non-deleting Rollout of the namespace referencing the same workload; a workload is identified by (group, kind, name) - the version of the reference is a representation, and the controllers/webhooks resolve references by group and kind",
			"immutability is judged when the stored object is Progressing or Terminating (reading of DESIGN.md C09); compared are the workloadRef strings, the trafficRoutings list (nil == empty), the EFFECTIVE style (blue-green / canary with an extra Deployment / partition) and the step count; a change of trafficRoutingRef is only counted as an observation",
			"stored old objects are objects the real handler admitted on CREATE; other Rollouts in the store are well-formed two-step plans",
			"finder probe: the cluster holds the referenced workload with API-server defaults (spec.replicas set) and an observed status; only panics are judged, errors and not-found are legitimate",
			"nextStepIndex is probed at component level only (real util.CheckNextBatchIndexWithCorrect with currentStepIndex in 1..steps); the reconcile-level use of the corrected value belongs to the cluster simulation of C09",
		},
		NumCases:  NumCases,
		ChunkSize: 500,
		Relevant:  "requests",
		RunCase:   RunCase,
	})
}

// NumCases is a pure function of the tier.
func NumCases(env *core.Env) int {
	if env.Thorough() {
		return 1000000
	}
	return 30000
}

// scenario is one fully determined admission situation (replayable, shrinkable).
type scenario struct {
	Version string            `json:"version"`          // API version of the request
	Op      string            `json:"op"`               // CREATE | UPDATE
	New     json.RawMessage   `json:"new"`              // request object (request version)
	Old     json.RawMessage   `json:"old,omitempty"`    // stored object (v1beta1, with status.phase) for UPDATE
	Others  []json.RawMessage `json:"others,omitempty"` // other stored Rollouts (v1beta1)
	Edits   []string          `json:"edits,omitempty"`  // how New was derived from Old (information only)
	// probe parameters
	WorkloadProgressing bool `json:"workloadProgressing"`
	NextSel             int  `json:"nextSel"`
	CurSel              int  `json:"curSel"`
}

type evalOut struct {
	Reached    bool // the request reached the handler
	Skip       string
	Allowed    bool
	Message    string
	Panic      *core.PanicInfo
	Findings   []finding
	Clauses    map[string]bool
	Counters   map[string]int64
	Phase      string
	Strategy   string
	Steps      int
	RefKind    string
	FinderKind string
}

func (o *evalOut) count(k string, n int64) {
	if o.Counters == nil {
		o.Counters = map[string]int64{}
	}
	o.Counters[k] += n
}

func decodeTyped(version string, raw json.RawMessage) (runtime.Object, error) {
	if version == VAlpha {
		o := &v1alpha1.Rollout{}
		if err := json.Unmarshal(raw, o); err != nil {
			return nil, err
		}
		setTypeMeta(o)
		return o, nil
	}
	o := &v1beta1.Rollout{}
	if err := json.Unmarshal(raw, o); err != nil {
		return nil, err
	}
	setTypeMeta(o)
	return o, nil
}

// evaluate runs one scenario against the real code and judges it.
func evaluate(s *scenario) *evalOut {
	out := &evalOut{Clauses: map[string]bool{}}
	newObj, err := decodeTyped(s.Version, s.New)
	if err != nil {
		out.Skip = "new: " + err.Error()
		return out
	}
	var oldStored *v1beta1.Rollout
	var others []*v1beta1.Rollout
	if s.Op == "UPDATE" {
		o, err := decodeTyped(VBeta, s.Old)
		if err != nil {
			out.Skip = "old: " + err.Error()
			return out
		}
		oldStored = o.(*v1beta1.Rollout)
		out.Phase = string(oldStored.Status.Phase)
	}
	for _, r := range s.Others {
		o, err := decodeTyped(VBeta, r)
		if err != nil {
			out.Skip = "other: " + err.Error()
			return out
		}
		others = append(others, o.(*v1beta1.Rollout))
	}
	// what the handler's client can read: every stored object in the storage version and, as the API server
	// serves it, its v1alpha1 representation (the fake client keeps the two versions as separate resources)
	var storeObjs []client.Object
	var oldReq runtime.Object
	stored := append([]*v1beta1.Rollout{}, others...)
	if oldStored != nil {
		stored = append(stored, oldStored)
	}
	for _, b := range stored {
		storeObjs = append(storeObjs, b.DeepCopy())
		if b == oldStored && s.Version == VBeta {
			oldReq = b.DeepCopy()
		}
		a, pi, err := alphaView(b)
		if pi != nil || err != nil {
			out.Skip = "conversion of a stored object failed (C20's domain)"
			out.count("skipped_conversion_failed", 1)
			return out
		}
		storeObjs = append(storeObjs, a)
		if b == oldStored && s.Version == VAlpha {
			oldReq = a.DeepCopyObject()
		}
	}
	c := NewClient(storeObjs...)
	resp, pi, err := admit(c, s.Op, oldReq, newObj)
	if err != nil {
		out.Skip = "request: " + err.Error()
		return out
	}
	out.Reached = true
	out.count("requests", 1)
	out.count("requests_"+s.Version+"_"+s.Op, 1)
	nv := viewOf(newObj)
	out.Strategy, out.Steps = nv.strategyKind(), nv.StepCount
	if nv.HasRef {
		g, _ := groupOf(nv.Ref[0])
		out.RefKind = g + "/" + nv.Ref[1]
	}
	if pi != nil {
		out.Panic = pi
		out.count("panics", 1)
		out.Findings = append(out.Findings, finding{FP: "c09v:handler-panic:" + pi.Site + ":" + core.NormPanic(pi.Value), Clause: "PANIC",
			Msg:   fmt.Sprintf("validating handler panicked on a %s %s request: %s", s.Version, s.Op, pi.Value),
			Extra: map[string]interface{}{"stack": pi.Stack}})
		return out
	}
	out.Allowed = resp.Allowed
	if resp.Result != nil {
		out.Message = resp.Result.Message
	}
	// which rejections had a promise-relevant reason present (evidence that the promise was exercised)
	var ov roView
	progressing := false
	if oldStored != nil {
		ov = viewOf(oldReq)
		progressing = out.Phase == "Progressing" || out.Phase == "Terminating"
	}
	if !out.Allowed {
		out.count("rejected", 1)
		if progressing {
			if _, changed := checkImmutable(s.Version, out.Phase, ov, nv); len(changed) > 0 {
				for _, ch := range changed {
					out.count("rejected_with_change_while_progressing_"+ch, 1)
				}
			}
		}
		if fs, _ := checkOnePerWorkload(s.Version, nv, others); len(fs) > 0 {
			out.count("rejected_with_same_workload_rollout_present", 1)
		}
		return out
	}
	out.count("accepted", 1)
	out.count("accepted_"+s.Version+"_"+s.Op, 1)

	// (2) structural promises on the accepted object
	fs, clauses, obs := checkShape(s.Version, nv)
	out.Findings = append(out.Findings, fs...)
	for k := range clauses {
		out.Clauses[k] = true
		out.count("promise_checks_"+clauseName[k], 1)
	}
	for k, n := range obs {
		out.count(k, int64(n))
	}
	ofs, cands := checkOnePerWorkload(s.Version, nv, others)
	out.Findings = append(out.Findings, ofs...)
	if cands > 0 {
		out.Clauses["OW"] = true
		out.count("promise_checks_one_per_workload", 1)
	}
	if progressing {
		ifs, _ := checkImmutable(s.Version, out.Phase, ov, nv)
		out.Findings = append(out.Findings, ifs...)
		out.Clauses["IM"] = true
		out.count("promise_checks_immutable_while_progressing", 1)
		if ov.TrafficRoutingRef != nv.TrafficRoutingRef {
			out.count("obs_trafficRoutingRef_changed_while_progressing_accepted", 1)
		}
	}

	// (3) controller-side probes on the stored form of the accepted object
	storedNew, cpi, cerr := toStored(newObj)
	if cpi != nil || cerr != nil {
		out.count("skipped_conversion_failed", 1)
		return out
	}
	po := probeFinder(storedNew, s.WorkloadProgressing)
	if po.Ran {
		out.count("finder_probes", 1)
		out.FinderKind = out.RefKind
		if po.Resolved {
			out.count("finder_probes_workload_resolved", 1)
		}
		if po.Err != "" {
			out.count("finder_probes_error_returned", 1)
		}
		out.Findings = append(out.Findings, po.Findings...)
	}
	if ran, nfs := probeNextIndex(storedNew, s.NextSel, s.CurSel); ran {
		out.count("nextidx_probes", 1)
		out.Findings = append(out.Findings, nfs...)
	}
	return out
}

var clauseName = map[string]string{"NE": "steps_nonempty", "RP": "step_replicas", "ND": "nondecreasing", "OW": "one_per_workload", "IM": "immutable_while_progressing"}

// ---- scenario generation -----------------------------------------------------------------------------

func rawOf(v interface{}) json.RawMessage { b, _ := json.Marshal(v); return b }

// admittedOld generates a stored object: something the real handler admits on CREATE into an empty namespace.
func admittedOld(rng *rand.Rand) *v1beta1.Rollout {
	for try := 0; try < 8; try++ {
		var obj runtime.Object
		noise := []int{0, 0, 2, 5}[rng.Intn(4)]
		if gen.Chance(rng, 55) {
			obj = genBeta(rng, noise)
		} else {
			obj = genAlpha(rng, noise)
		}
		if ok, pi := Admit(NewClient(), "CREATE", nil, obj); !ok || pi != nil {
			continue
		}
		b, pi, err := toStored(obj)
		if pi != nil || err != nil {
			continue
		}
		b.ResourceVersion = "7"
		b.UID = "uid-old"
		return b
	}
	return nil
}

func genScenario(rng *rand.Rand) (*scenario, string) {
	s := &scenario{WorkloadProgressing: gen.Chance(rng, 50), NextSel: rng.Intn(1 << 20), CurSel: rng.Intn(1 << 20)}
	s.Version = VBeta
	if gen.Chance(rng, 50) {
		s.Version = VAlpha
	}
	s.Op = "CREATE"
	var newObj runtime.Object
	var oldStored *v1beta1.Rollout
	if gen.Chance(rng, 55) {
		if oldStored = admittedOld(rng); oldStored != nil {
			s.Op = "UPDATE"
		}
	}
	var oldRef *v1beta1.ObjectRef
	if s.Op == "UPDATE" {
		oldStored.Status.Phase = v1beta1.RolloutPhase(gen.Pick(rng, "Progressing", "Progressing", "Progressing", "Progressing", "Terminating", "Terminating", "Healthy", "Healthy", "Initial", "Disabled", "Disabling", ""))
		if oldStored.Status.Phase == v1beta1.RolloutPhaseTerminating {
			t := metav1.Unix(1700000000, 0)
			oldStored.DeletionTimestamp = &t
			oldStored.Finalizers = []string{"rollouts.kruise.io/rollout"}
		}
		r := oldStored.Spec.WorkloadRef
		oldRef = &r
		if s.Version == VBeta {
			newObj, s.Edits = mutateBeta(rng, oldStored.DeepCopy())
		} else {
			a, pi, err := alphaView(oldStored)
			if pi != nil || err != nil {
				return nil, "conversion of the stored object failed"
			}
			newObj, s.Edits = mutateAlpha(rng, a)
		}
		s.Old = rawOf(oldStored)
	} else {
		noise := noiseLevels[rng.Intn(len(noiseLevels))]
		if s.Version == VBeta {
			newObj = genBeta(rng, noise)
		} else {
			newObj = genAlpha(rng, noise)
		}
	}
	setTypeMeta(newObj)
	s.New = rawOf(newObj)
	// other Rollouts of the store
	nv := viewOf(newObj)
	newRef := v1beta1.ObjectRef{APIVersion: nv.Ref[0], Kind: nv.Ref[1], Name: nv.Ref[2]}
	refChanged := oldRef == nil || *oldRef != newRef
	for i, n := 0, []int{0, 0, 1, 1, 1, 2}[rng.Intn(6)]; i < n; i++ {
		ref := newRef
		rel := rng.Intn(10)
		if !refChanged || !nv.HasRef {
			// an UPDATE that keeps its reference lives next to Rollouts of other workloads (a store with two
			// Rollouts on one workload is what the promise excludes)
			rel = 9
		}
		switch {
		case rel <= 3: // same reference
		case rel <= 5: // same workload, other version string
			switch ref.APIVersion {
			case "apps/v1":
				ref.APIVersion = "apps/v1beta2"
			case "apps.kruise.io/v1alpha1":
				ref.APIVersion = "apps.kruise.io/v1beta1"
			case "apps.kruise.io/v1beta1":
				ref.APIVersion = "apps.kruise.io/v1alpha1"
			default:
				ref.APIVersion = "apps/v1"
			}
		case rel == 6: // same kind, other name
			ref.Name += "-other"
		default:
			ref = v1beta1.ObjectRef{APIVersion: "apps/v1", Kind: "Deployment", Name: "unrelated"}
		}
		ns := nv.Namespace
		if gen.Chance(rng, 10) {
			ns = "elsewhere"
		}
		s.Others = append(s.Others, rawOf(makeOther(rng, i, ns, ref)))
	}
	return s, ""
}

// ---- shrinking ---------------------------------------------------------------------------------------

var protectedKeys = map[string]bool{"name": true, "value": true, "apiVersion": true, "kind": true, "namespace": true, "service": true, "type": true}

func hasFP(o *evalOut, fp string) bool {
	for _, f := range o.Findings {
		if f.FP == fp {
			return true
		}
	}
	return false
}

type pathElem struct {
	key string
	idx int
}

func listPaths(v interface{}, prefix []pathElem, out *[][]pathElem) {
	switch t := v.(type) {
	case map[string]interface{}:
		keys := make([]string, 0, len(t))
		for k := range t {
			keys = append(keys, k)
		}
		sort.Strings(keys)
		for _, k := range keys {
			p := append(append([]pathElem{}, prefix...), pathElem{key: k, idx: -1})
			if !protectedKeys[k] {
				*out = append(*out, p)
			}
			listPaths(t[k], p, out)
		}
	case []interface{}:
		for i := range t {
			p := append(append([]pathElem{}, prefix...), pathElem{idx: i})
			*out = append(*out, p)
			listPaths(t[i], p, out)
		}
	}
}

func deleteAt(v interface{}, p []pathElem) (interface{}, bool) {
	if len(p) == 0 {
		return v, false
	}
	e := p[0]
	switch t := v.(type) {
	case map[string]interface{}:
		if e.idx >= 0 {
			return v, false
		}
		child, ok := t[e.key]
		if !ok {
			return v, false
		}
		if len(p) == 1 {
			delete(t, e.key)
			return t, true
		}
		nc, ok := deleteAt(child, p[1:])
		t[e.key] = nc
		return t, ok
	case []interface{}:
		if e.idx < 0 || e.idx >= len(t) {
			return v, false
		}
		if len(p) == 1 {
			return append(append([]interface{}{}, t[:e.idx]...), t[e.idx+1:]...), true
		}
		nc, ok := deleteAt(t[e.idx], p[1:])
		t[e.idx] = nc
		return t, ok
	}
	return v, false
}

// shrinkDoc greedily deletes optional keys / list elements of one JSON document while keep() holds.
func shrinkDoc(version string, doc json.RawMessage, budget *int, keep func(json.RawMessage) bool) json.RawMessage {
	cur := doc
	for changed := true; changed && *budget > 0; {
		changed = false
		var tree interface{}
		if json.Unmarshal(cur, &tree) != nil {
			return cur
		}
		var paths [][]pathElem
		listPaths(tree, nil, &paths)
		// larger subtrees first
		sort.SliceStable(paths, func(i, j int) bool { return len(paths[i]) < len(paths[j]) })
		for _, p := range paths {
			if *budget <= 0 {
				break
			}
			if len(p) == 1 && (p[0].key == "metadata" || p[0].key == "spec") {
				continue
			}
			var t2 interface{}
			_ = json.Unmarshal(cur, &t2)
			t3, ok := deleteAt(t2, p)
			if !ok {
				continue
			}
			cand, _ := json.Marshal(t3)
			// through the typed form, as an API object
			typed, err := decodeTyped(version, cand)
			if err != nil {
				continue
			}
			cand = rawOf(typed)
			if string(cand) == string(cur) {
				continue
			}
			*budget--
			if keep(cand) {
				cur = cand
				changed = true
				break
			}
		}
	}
	return cur
}

func shrink(s *scenario, fp string) *scenario {
	budget := 600
	cur := *s
	test := func(c *scenario) bool {
		o := evaluate(c)
		return hasFP(o, fp)
	}
	// others
	for i := 0; i < len(cur.Others); {
		c := cur
		c.Others = append(append([]json.RawMessage{}, cur.Others[:i]...), cur.Others[i+1:]...)
		if test(&c) {
			cur = c
		} else {
			i++
		}
	}
	cur.New = shrinkDoc(cur.Version, cur.New, &budget, func(d json.RawMessage) bool { c := cur; c.New = d; return test(&c) })
	if cur.Op == "UPDATE" {
		cur.Old = shrinkDoc(VBeta, cur.Old, &budget, func(d json.RawMessage) bool {
			// the stored object must remain something admission lets in
			o, err := decodeTyped(VBeta, d)
			if err != nil {
				return false
			}
			if ok, _ := Admit(NewClient(), "CREATE", nil, o); !ok {
				return false
			}
			c := cur
			c.Old = d
			return test(&c)
		})
		cur.New = shrinkDoc(cur.Version, cur.New, &budget, func(d json.RawMessage) bool { c := cur; c.New = d; return test(&c) })
	}
	for i := range cur.Others {
		i := i
		cur.Others[i] = shrinkDoc(VBeta, cur.Others[i], &budget, func(d json.RawMessage) bool {
			// other stored objects must remain something admission lets in
			if o, err := decodeTyped(VBeta, d); err != nil {
				return false
			} else if ok, _ := Admit(NewClient(), "CREATE", nil, o); !ok {
				return false
			}
			c := cur
			c.Others = append([]json.RawMessage{}, cur.Others...)
			c.Others[i] = d
			return test(&c)
		})
	}
	return &cur
}

// ---- the case ----------------------------------------------------------------------------------------

// shrunk: fingerprints this worker process has already minimised once (minimisation costs some hundred
// evaluations; the verdict of a case does not depend on it, only the size of the reported input).
var shrunk = map[string]bool{}

// RunCase executes admission scenario idx.
func RunCase(env *core.Env, idx int) *core.CaseResult {
	rng := env.RNG(idx)
	res := &core.CaseResult{}
	s, skip := genScenario(rng)
	if s == nil {
		res.Count("skipped_"+strings.ReplaceAll(skip, " ", "_"), 1)
		return res
	}
	out := evaluate(s)
	for k, v := range out.Counters {
		res.Count(k, v)
	}
	if !out.Reached {
		res.Count("skipped_not_reached", 1)
		return res
	}
	verdict := "rej"
	switch {
	case out.Panic != nil:
		verdict = "panic"
	case out.Allowed:
		verdict = "acc"
	}
	phase := out.Phase
	if s.Op == "CREATE" {
		phase = "-"
	} else if phase == "" {
		phase = "unset"
	}
	var cl []string
	for _, k := range []string{"NE", "RP", "ND", "OW", "IM"} {
		if out.Clauses[k] {
			cl = append(cl, k)
		}
	}
	res.AddSig(fmt.Sprintf("%s:%s:%s:%s:%s:s%d:%s", s.Version, s.Op, phase, verdict, out.Strategy, out.Steps, strings.Join(cl, "+")))
	if out.RefKind != "" {
		res.AddSet("workload_kinds_"+verdict, out.RefKind)
	}
	if out.FinderKind != "" {
		res.AddSet("finder_probed_kinds", out.FinderKind)
	}
	for _, e := range s.Edits {
		res.AddSet("update_edits", e)
	}
	seen := map[string]bool{}
	for _, f := range out.Findings {
		if seen[f.FP] {
			continue
		}
		seen[f.FP] = true
		if shrunk[f.FP] {
			// this worker process already minimised an input of this class
			res.Violate(f.FP, f.Msg, gen.NF{"original": s, "extra": f.Extra, "handler_message": out.Message})
			continue
		}
		shrunk[f.FP] = true
		min := shrink(s, f.FP)
		mo := evaluate(min)
		msg := f.Msg
		for _, mf := range mo.Findings {
			if mf.FP == f.FP {
				msg = mf.Msg
				break
			}
		}
		res.Violate(f.FP, msg, gen.NF{"minimal": min, "minimal_verdict": verdictOf(mo), "original": s, "extra": f.Extra, "handler_message": out.Message})
	}
	if idx < 8 {
		res.Sample = gen.NF{"scenario": s, "allowed": out.Allowed, "message": out.Message}
	}
	return res
}

func verdictOf(o *evalOut) string {
	switch {
	case o.Panic != nil:
		return "panic: " + o.Panic.Value
	case o.Allowed:
		return "accepted"
	}
	return "rejected: " + o.Message
}
