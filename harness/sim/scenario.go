package sim

import (
	"context"
	"encoding/json"
	"fmt"
	"math/rand"
	"strings"

	kruisev1alpha1 "github.com/openkruise/kruise-api/apps/v1alpha1"
	apps "k8s.io/api/apps/v1"
	corev1 "k8s.io/api/core/v1"
	netv1 "k8s.io/api/networking/v1"
	metav1 "k8s.io/apimachinery/pkg/apis/meta/v1"
	"k8s.io/apimachinery/pkg/apis/meta/v1/unstructured"
	"k8s.io/apimachinery/pkg/types"
	"k8s.io/apimachinery/pkg/util/intstr"
	utilpointer "k8s.io/utils/pointer"
	"sigs.k8s.io/controller-runtime/pkg/client"
	gatewayv1beta1 "sigs.k8s.io/gateway-api/apis/v1beta1"

	"github.com/openkruise/rollouts/api/v1alpha1"
	"github.com/openkruise/rollouts/api/v1beta1"

	"verif/harness/simapi"
)

// Step of a scenario plan.
type Step struct {
	Replicas string `json:"replicas"`          // "3" or "30%"
	Traffic  int    `json:"traffic,omitempty"` // -1 = none
	Match    string `json:"match,omitempty"`   // "", "header", "query", "header+query"
	Pause    int    `json:"pause"`             // -1 = manual approval, >=0 seconds
}

// Injected event of a scenario.
type Injected struct {
	AtStep  int    `json:"atStep"`  // 1-based step index
	AtState string `json:"atState"` // sub-state at which the event fires (first time it is persisted)
	Action  string `json:"action"`  // rollback | v3 | delete | disable | scale:<n> | pause | unpause | jump:<n> | plan:<spec> | rolloutid | restart
	// AtFinalising, if set, makes the event fire when the Rollout persists this finalising task ("*" = any unfinished one)
	// instead of at (AtStep, AtState): a second user action arriving while a cleanup sequence is in flight.
	AtFinalising string `json:"atFinalising,omitempty"`
	// AtBRState, if set, additionally requires the BatchRelease to be at batch AtStep-1 in this batch state (Upgrading |
	// Verifying | Ready): events aimed at the hand-over between the two controllers.
	AtBRState string `json:"atBRState,omitempty"`
	// Immediate: the action is performed at the very instant the trigger state is observed (before any other actor
	// moves); otherwise it is queued and competes with the controllers for the next scheduler slots.
	Immediate bool `json:"immediate,omitempty"`
	fired     bool
}

// Scenario is a complete, seed-determined description of one closed-loop run.
type Scenario struct {
	Kind      string `json:"kind"`     // deployment | cloneset
	Style     string `json:"style"`    // canary | partition | bluegreen
	Provider  string `json:"provider"` // none | ingress:<class> | gateway | custom | ingress+gateway
	Replicas  int32  `json:"replicas"`
	Steps     []Step `json:"steps"`
	RolloutID bool   `json:"rolloutID,omitempty"`
	// TRCR: traffic is not configured in the Rollout but in a TrafficRouting custom resource (<name>-tr, weight TRWeight)
	// that the Rollout refers to by annotation; the TrafficRouting controller applies it while the Rollout progresses.
	TRCR     bool `json:"trafficRoutingCR,omitempty"`
	TRWeight int  `json:"trWeight,omitempty"`
	// HPA: the user runs a HorizontalPodAutoscaler (min = max = replicas, so it never scales) on the workload; blue-green
	// releases park it on a non-existent target and must bring it back.
	HPA bool `json:"hpa,omitempty"`
	// PartitionLimit is the operator flag --partition-percent-limit (0 = its default, 50): the largest replicas
	// percentage of a partition-style step that may also configure traffic.
	PartitionLimit int `json:"partitionLimit,omitempty"`
	// RollbackInBatch sets the rollouts.kruise.io/rollback-in-batch annotation: a rollback walks the plan again
	// instead of cancelling (CloneSet without traffic routing only).
	RollbackInBatch bool `json:"rollbackInBatch,omitempty"`
	// FailureThreshold is the strategy's failureThreshold ("20%", "1"; "" = unset); UnreadyEvery > 0 makes every
	// UnreadyEvery-th pod created with the released image never become ready (degraded release).
	FailureThreshold string     `json:"failureThreshold,omitempty"`
	UnreadyEvery     int        `json:"unreadyEvery,omitempty"`
	NoCanarySvc      bool       `json:"disableGenerateCanaryService,omitempty"`
	// LeftoverCanarySvc: a Service <service>-canary already exists before the release (left behind by an earlier release
	// whose Rollout was removed without cleanup): it selects the pods of a revision that no longer exists. The step
	// that routes traffic must re-point it at the released revision before any request is sent to it.
	LeftoverCanarySvc bool `json:"leftoverCanaryService,omitempty"`
	Events           []Injected `json:"events,omitempty"`
	Pre              []string   `json:"pre,omitempty"` // user actions performed after setup, before the release
	Profile          string     `json:"profile"`       // uniform | ctrl-eager | env-eager | user-eager
	Seed             int64      `json:"seed"`
	ApproveLag       int        `json:"approveLag"` // actions to wait before approving a paused step
	MaxSurge         string     `json:"maxSurge,omitempty"`
	MaxUnavail       string     `json:"maxUnavailable,omitempty"`
	NS               string     `json:"ns"`
	Name             string     `json:"name"` // workload name; rollout = name+"-ro", service = name+"-svc"
	Grace            int32      `json:"grace"`
	// SpecGraceZero: the traffic routing entry says gracePeriodSeconds: 0 explicitly ("no need to wait", which the
	// code promises to respect) while the controllers' built-in waits keep Grace seconds.
	SpecGraceZero bool `json:"specGraceZero,omitempty"`
}

func (s *Scenario) String() string {
	b, _ := json.Marshal(s)
	return string(b)
}

// Sig is the scenario-family signature used for distinct counting.
func (s *Scenario) Sig() string {
	var ev []string
	for _, e := range s.Events {
		a := e.Action
		if i := strings.Index(a, ":"); i > 0 {
			a = a[:i]
		}
		at := fmt.Sprintf("%d/%s", e.AtStep, e.AtState)
		if e.AtFinalising != "" {
			at = "fin:" + e.AtFinalising
		}
		if e.AtBRState != "" {
			at += "/br:" + e.AtBRState
		}
		if e.Immediate {
			at += "!"
		}
		ev = append(ev, fmt.Sprintf("%s@%s", a, at))
	}
	shape := ""
	for _, st := range s.Steps {
		c := "i"
		if strings.HasSuffix(st.Replicas, "%") {
			c = "p"
		}
		if st.Traffic >= 0 {
			c += "t"
		}
		if st.Match != "" {
			c += "m"
		}
		if st.Pause >= 0 {
			c += "d"
		}
		shape += c + "."
	}
	if len(s.Pre) > 0 {
		ev = append(ev, "pre:"+strings.Join(s.Pre, "+"))
	}
	if s.RollbackInBatch {
		ev = append(ev, "rollback-in-batch")
	}
	if s.SpecGraceZero {
		ev = append(ev, fmt.Sprintf("spec-grace-0/default-grace-%d", s.Grace))
	}
	if s.FailureThreshold != "" {
		ev = append(ev, fmt.Sprintf("failure-threshold=%s/unready-every=%d", s.FailureThreshold, s.UnreadyEvery))
	}
	if s.PartitionLimit > 0 {
		ev = append(ev, fmt.Sprintf("partition-limit=%d", s.PartitionLimit))
	}
	if s.HPA {
		ev = append(ev, "hpa")
	}
	if s.TRCR {
		ev = append(ev, "trafficrouting-cr")
	}
	return fmt.Sprintf("%s/%s/%s/%s/%s", s.Kind, s.Style, s.Provider, shape, strings.Join(ev, ","))
}

func (s *Scenario) RolloutName() string { return s.Name + "-ro" }
func (s *Scenario) SvcName() string     { return s.Name + "-svc" }
func (s *Scenario) IngName() string     { return s.Name + "-ing" }
func (s *Scenario) RouteName() string   { return s.Name + "-route" }
func (s *Scenario) VSName() string      { return s.Name + "-vs" }
func (s *Scenario) TRName() string      { return s.Name + "-tr" }
func (s *Scenario) HasTraffic() bool    { return s.Provider != "none" && s.Provider != "" }

func ios(v string) *intstr.IntOrString {
	x := intstr.Parse(v)
	return &x
}

func podTemplate(app, version string) corev1.PodTemplateSpec {
	return corev1.PodTemplateSpec{ObjectMeta: metav1.ObjectMeta{Labels: map[string]string{"app": app}},
		Spec: corev1.PodSpec{Containers: []corev1.Container{{Name: "main", Image: "img:" + version}}}}
}

// BuildRollout builds the Rollout object of the scenario.
func (s *Scenario) BuildRollout() *v1beta1.Rollout {
	ro := &v1beta1.Rollout{ObjectMeta: metav1.ObjectMeta{Name: s.RolloutName(), Namespace: s.NS}}
	switch s.Kind {
	case "deployment":
		ro.Spec.WorkloadRef = v1beta1.ObjectRef{APIVersion: "apps/v1", Kind: "Deployment", Name: s.Name}
	case "cloneset":
		ro.Spec.WorkloadRef = v1beta1.ObjectRef{APIVersion: "apps.kruise.io/v1alpha1", Kind: "CloneSet", Name: s.Name}
	case "statefulset":
		ro.Spec.WorkloadRef = v1beta1.ObjectRef{APIVersion: "apps/v1", Kind: "StatefulSet", Name: s.Name}
	case "advstatefulset":
		ro.Spec.WorkloadRef = v1beta1.ObjectRef{APIVersion: "apps.kruise.io/v1beta1", Kind: "StatefulSet", Name: s.Name}
	case "daemonset":
		ro.Spec.WorkloadRef = v1beta1.ObjectRef{APIVersion: "apps.kruise.io/v1alpha1", Kind: "DaemonSet", Name: s.Name}
	}
	ro.Spec.Strategy = s.BuildStrategy(s.Steps)
	if s.RollbackInBatch {
		ro.Annotations = map[string]string{"rollouts.kruise.io/rollback-in-batch": "true"}
	}
	if s.TRCR {
		if ro.Annotations == nil {
			ro.Annotations = map[string]string{}
		}
		ro.Annotations["rollouts.kruise.io/trafficrouting"] = s.TRName()
	}
	return ro
}

func (s *Scenario) BuildSteps(steps []Step) []v1beta1.CanaryStep {
	var out []v1beta1.CanaryStep
	for _, st := range steps {
		cs := v1beta1.CanaryStep{Replicas: ios(st.Replicas)}
		if s.HasTraffic() {
			if st.Traffic >= 0 {
				cs.Traffic = utilpointer.String(fmt.Sprintf("%d%%", st.Traffic))
			}
			exact := gatewayv1beta1.HeaderMatchExact
			qexact := gatewayv1beta1.QueryParamMatchExact
			switch st.Match {
			case "header":
				cs.Matches = []v1beta1.HttpRouteMatch{{Headers: []gatewayv1beta1.HTTPHeaderMatch{{Type: &exact, Name: "user-agent", Value: "pc"}}}}
			case "query":
				cs.Matches = []v1beta1.HttpRouteMatch{{QueryParams: []gatewayv1beta1.HTTPQueryParamMatch{{Type: &qexact, Name: "user", Value: "beta"}}}}
			case "header+query":
				cs.Matches = []v1beta1.HttpRouteMatch{{Headers: []gatewayv1beta1.HTTPHeaderMatch{{Type: &exact, Name: "user-agent", Value: "pc"}}},
					{QueryParams: []gatewayv1beta1.HTTPQueryParamMatch{{Type: &qexact, Name: "user", Value: "beta"}}}}
			}
		}
		if st.Pause >= 0 {
			cs.Pause.Duration = utilpointer.Int32(int32(st.Pause))
		}
		out = append(out, cs)
	}
	return out
}

func (s *Scenario) trafficRefs() []v1beta1.TrafficRoutingRef {
	if !s.HasTraffic() || s.TRCR {
		return nil
	}
	return s.trafficRefsRaw()
}

func (s *Scenario) trafficRefsRaw() []v1beta1.TrafficRoutingRef {
	ref := v1beta1.TrafficRoutingRef{Service: s.SvcName(), GracePeriodSeconds: s.Grace}
	if s.SpecGraceZero {
		ref.GracePeriodSeconds = 0
	}
	for _, p := range strings.Split(s.Provider, "+") {
		switch {
		case strings.HasPrefix(p, "ingress"):
			class := strings.TrimPrefix(strings.TrimPrefix(p, "ingress"), ":")
			ref.Ingress = &v1beta1.IngressTrafficRouting{Name: s.IngName(), ClassType: class}
		case p == "gateway":
			ref.Gateway = &v1beta1.GatewayTrafficRouting{HTTPRouteName: utilpointer.String(s.RouteName())}
		case p == "custom":
			ref.CustomNetworkRefs = []v1beta1.ObjectRef{{APIVersion: "networking.istio.io/v1alpha3", Kind: "VirtualService", Name: s.VSName()}}
		}
	}
	return []v1beta1.TrafficRoutingRef{ref}
}

func (s *Scenario) BuildStrategy(steps []Step) v1beta1.RolloutStrategy {
	st := v1beta1.RolloutStrategy{}
	if s.Style == "bluegreen" {
		st.BlueGreen = &v1beta1.BlueGreenStrategy{Steps: s.BuildSteps(steps), TrafficRoutings: s.trafficRefs(), DisableGenerateCanaryService: s.NoCanarySvc}
		if s.FailureThreshold != "" {
			st.BlueGreen.FailureThreshold = ios(s.FailureThreshold)
		}
		return st
	}
	st.Canary = &v1beta1.CanaryStrategy{Steps: s.BuildSteps(steps), TrafficRoutings: s.trafficRefs(), DisableGenerateCanaryService: s.NoCanarySvc,
		EnableExtraWorkloadForCanary: s.Style == "canary"}
	if s.FailureThreshold != "" {
		st.Canary.FailureThreshold = ios(s.FailureThreshold)
	}
	return st
}

// Install creates the user's objects: workload, Service, network objects, Rollout.
func (s *Scenario) Install(w *World) error {
	user := w.Store.As("user")
	c := context.TODO()
	labels := map[string]string{"app": s.Name}
	sel := &metav1.LabelSelector{MatchLabels: labels}
	switch s.Kind {
	case "deployment":
		d := &apps.Deployment{ObjectMeta: metav1.ObjectMeta{Name: s.Name, Namespace: s.NS, Labels: map[string]string{"app": s.Name}},
			Spec: apps.DeploymentSpec{Replicas: utilpointer.Int32(s.Replicas), Selector: sel, Template: podTemplate(s.Name, "v1"),
				Strategy: apps.DeploymentStrategy{Type: apps.RollingUpdateDeploymentStrategyType, RollingUpdate: &apps.RollingUpdateDeployment{
					MaxSurge: ios(defStr(s.MaxSurge, "25%")), MaxUnavailable: ios(defStr(s.MaxUnavail, "25%"))}},
				ProgressDeadlineSeconds: utilpointer.Int32(600), RevisionHistoryLimit: utilpointer.Int32(10)}}
		if err := user.Create(c, d); err != nil {
			return err
		}
	case "cloneset":
		cs := &kruisev1alpha1.CloneSet{ObjectMeta: metav1.ObjectMeta{Name: s.Name, Namespace: s.NS, Labels: map[string]string{"app": s.Name}},
			Spec: kruisev1alpha1.CloneSetSpec{Replicas: utilpointer.Int32(s.Replicas), Selector: sel, Template: podTemplate(s.Name, "v1"),
				UpdateStrategy: kruisev1alpha1.CloneSetUpdateStrategy{Type: kruisev1alpha1.RecreateCloneSetUpdateStrategyType,
					MaxUnavailable: ios(defStr(s.MaxUnavail, "20%")), MaxSurge: ios(defStr(s.MaxSurge, "0"))}}}
		if err := user.Create(c, cs); err != nil {
			return err
		}
	default:
		if err := s.installOtherWorkload(w); err != nil {
			return err
		}
	}
	if s.HPA {
		ref := map[string]interface{}{"apiVersion": "apps/v1", "kind": "Deployment", "name": s.Name}
		if s.Kind == "cloneset" {
			ref["apiVersion"], ref["kind"] = "apps.kruise.io/v1alpha1", "CloneSet"
		}
		hpa := &unstructured.Unstructured{Object: map[string]interface{}{
			"apiVersion": "autoscaling/v2", "kind": "HorizontalPodAutoscaler",
			"metadata": map[string]interface{}{"name": s.Name + "-hpa", "namespace": s.NS},
			"spec":     map[string]interface{}{"scaleTargetRef": ref, "minReplicas": int64(s.Replicas), "maxReplicas": int64(s.Replicas)},
		}}
		if err := user.Create(c, hpa); err != nil {
			return err
		}
	}
	svc := &corev1.Service{ObjectMeta: metav1.ObjectMeta{Name: s.SvcName(), Namespace: s.NS},
		Spec: corev1.ServiceSpec{Selector: map[string]string{"app": s.Name}, Ports: []corev1.ServicePort{{Port: 80}}}}
	if err := user.Create(c, svc); err != nil {
		return err
	}
	if s.LeftoverCanarySvc {
		old := &corev1.Service{ObjectMeta: metav1.ObjectMeta{Name: s.SvcName() + "-canary", Namespace: s.NS},
			Spec: corev1.ServiceSpec{Selector: map[string]string{"app": s.Name, apps.DefaultDeploymentUniqueLabelKey: "5f6d7c8b9"}, Ports: []corev1.ServicePort{{Port: 80}}}}
		if err := user.Create(c, old); err != nil {
			return err
		}
	}
	for _, p := range strings.Split(s.Provider, "+") {
		switch {
		case strings.HasPrefix(p, "ingress"):
			class := strings.TrimPrefix(strings.TrimPrefix(p, "ingress"), ":")
			pt := netv1.PathTypePrefix
			annos := map[string]string{"owner": "user"}
			if class != "" {
				annos["kubernetes.io/ingress.class"] = class
			}
			ing := &netv1.Ingress{ObjectMeta: metav1.ObjectMeta{Name: s.IngName(), Namespace: s.NS, Annotations: annos},
				Spec: netv1.IngressSpec{Rules: []netv1.IngressRule{{Host: "a.example.com", IngressRuleValue: netv1.IngressRuleValue{HTTP: &netv1.HTTPIngressRuleValue{Paths: []netv1.HTTPIngressPath{
					{Path: "/", PathType: &pt, Backend: netv1.IngressBackend{Service: &netv1.IngressServiceBackend{Name: s.SvcName(), Port: netv1.ServiceBackendPort{Number: 80}}}},
					{Path: "/other", PathType: &pt, Backend: netv1.IngressBackend{Service: &netv1.IngressServiceBackend{Name: "other-svc", Port: netv1.ServiceBackendPort{Number: 80}}}},
				}}}}}}}
			if err := user.Create(c, ing); err != nil {
				return err
			}
		case p == "gateway":
			kind := gatewayv1beta1.Kind("Service")
			group := gatewayv1beta1.Group("")
			port := gatewayv1beta1.PortNumber(80)
			one := int32(1)
			pp := gatewayv1beta1.PathMatchPathPrefix
			mk := func(name string) gatewayv1beta1.HTTPBackendRef {
				return gatewayv1beta1.HTTPBackendRef{BackendRef: gatewayv1beta1.BackendRef{BackendObjectReference: gatewayv1beta1.BackendObjectReference{Group: &group, Kind: &kind, Name: gatewayv1beta1.ObjectName(name), Port: &port}, Weight: &one}}
			}
			rt := &gatewayv1beta1.HTTPRoute{ObjectMeta: metav1.ObjectMeta{Name: s.RouteName(), Namespace: s.NS},
				Spec: gatewayv1beta1.HTTPRouteSpec{Rules: []gatewayv1beta1.HTTPRouteRule{
					{Matches: []gatewayv1beta1.HTTPRouteMatch{{Path: &gatewayv1beta1.HTTPPathMatch{Type: &pp, Value: utilpointer.String("/")}}}, BackendRefs: []gatewayv1beta1.HTTPBackendRef{mk(s.SvcName())}},
					{Matches: []gatewayv1beta1.HTTPRouteMatch{{Path: &gatewayv1beta1.HTTPPathMatch{Type: &pp, Value: utilpointer.String("/other")}}}, BackendRefs: []gatewayv1beta1.HTTPBackendRef{mk("other-svc")}},
				}}}
			if err := user.Create(c, rt); err != nil {
				return err
			}
		case p == "custom":
			vs := &unstructured.Unstructured{Object: map[string]interface{}{
				"apiVersion": "networking.istio.io/v1alpha3", "kind": "VirtualService",
				"metadata": map[string]interface{}{"name": s.VSName(), "namespace": s.NS, "labels": map[string]interface{}{"owner": "user"}},
				"spec": map[string]interface{}{"hosts": []interface{}{"*"}, "gateways": []interface{}{"gw"},
					"http": []interface{}{
						map[string]interface{}{"route": []interface{}{map[string]interface{}{"destination": map[string]interface{}{"host": s.SvcName()}}}},
					}},
			}}
			if err := user.Create(c, vs); err != nil {
				return err
			}
		}
	}
	if s.TRCR {
		tr := &v1alpha1.TrafficRouting{ObjectMeta: metav1.ObjectMeta{Name: s.TRName(), Namespace: s.NS}}
		for _, ref := range s.trafficRefsRaw() {
			a := v1alpha1.TrafficRoutingRef{Service: ref.Service, GracePeriodSeconds: ref.GracePeriodSeconds}
			if ref.Ingress != nil {
				a.Ingress = &v1alpha1.IngressTrafficRouting{Name: ref.Ingress.Name, ClassType: ref.Ingress.ClassType}
			}
			if ref.Gateway != nil {
				a.Gateway = &v1alpha1.GatewayTrafficRouting{HTTPRouteName: ref.Gateway.HTTPRouteName}
			}
			for _, cr := range ref.CustomNetworkRefs {
				a.CustomNetworkRefs = append(a.CustomNetworkRefs, v1alpha1.CustomNetworkRef{APIVersion: cr.APIVersion, Kind: cr.Kind, Name: cr.Name})
			}
			tr.Spec.ObjectRef = append(tr.Spec.ObjectRef, a)
		}
		w := int32(s.TRWeight)
		tr.Spec.Strategy.Weight = &w
		if err := user.Create(c, tr); err != nil {
			return err
		}
	}
	return user.Create(c, s.BuildRollout())
}

func defStr(v, d string) string {
	if v == "" {
		return d
	}
	return v
}

// WorkloadKey returns the store key of the workload.
func (s *Scenario) WorkloadKey() simapi.Key {
	switch s.Kind {
	case "deployment":
		return simapi.Key{Group: "apps", Kind: "Deployment", NS: s.NS, Name: s.Name}
	case "cloneset":
		return simapi.Key{Group: "apps.kruise.io", Kind: "CloneSet", NS: s.NS, Name: s.Name}
	case "statefulset":
		return simapi.Key{Group: "apps", Kind: "StatefulSet", NS: s.NS, Name: s.Name}
	case "advstatefulset":
		return simapi.Key{Group: "apps.kruise.io", Kind: "StatefulSet", NS: s.NS, Name: s.Name}
	case "daemonset":
		return simapi.Key{Group: "apps.kruise.io", Kind: "DaemonSet", NS: s.NS, Name: s.Name}
	}
	return simapi.Key{}
}

func (s *Scenario) workloadObject() client.Object {
	switch s.Kind {
	case "deployment":
		return &apps.Deployment{}
	case "cloneset":
		return &kruisev1alpha1.CloneSet{}
	}
	return s.otherWorkloadObject()
}

// SetTemplate is the user's release action: change the pod template image (and rollout-id label when used).
func (s *Scenario) SetTemplate(w *World, version string) error {
	user := w.Store.As("user")
	c := context.TODO()
	obj := s.workloadObject()
	if err := user.Get(c, types.NamespacedName{Namespace: s.NS, Name: s.Name}, obj); err != nil {
		return err
	}
	switch o := obj.(type) {
	case *apps.Deployment:
		o.Spec.Template.Spec.Containers[0].Image = "img:" + version
	case *kruisev1alpha1.CloneSet:
		o.Spec.Template.Spec.Containers[0].Image = "img:" + version
	default:
		s.setOtherTemplate(obj, version)
	}
	if s.RolloutID {
		l := obj.GetLabels()
		if l == nil {
			l = map[string]string{}
		}
		l[v1beta1.RolloutIDLabel] = "rid-" + version
		obj.SetLabels(l)
	}
	return user.Update(c, obj)
}

// Scale is the user's scale action.
func (s *Scenario) Scale(w *World, n int32) error {
	if s.Kind == "daemonset" {
		return nil // a DaemonSet has no replica count; the node set is fixed in the modelled cluster
	}
	user := w.Store.As("user")
	body := fmt.Sprintf(`{"spec":{"replicas":%d}}`, n)
	obj := s.workloadObject()
	obj.SetNamespace(s.NS)
	obj.SetName(s.Name)
	return user.Patch(context.TODO(), obj, client.RawPatch(types.MergePatchType, []byte(body)))
}

// GenScenario draws a scenario from the seed. family restricts what is drawn ("" = anything built so far).
func GenScenario(rng *rand.Rand, family string) *Scenario {
	s := &Scenario{NS: "default", Name: "echo", Seed: rng.Int63(), Grace: 0}
	kinds := []string{"deployment/canary", "deployment/bluegreen", "cloneset/partition", "cloneset/bluegreen", "deployment/partition"}
	ks := kinds[rng.Intn(len(kinds))]
	if family != "" {
		ks = family
	}
	parts := strings.Split(ks, "/")
	s.Kind, s.Style = parts[0], parts[1]
	s.Replicas = int32(2 + rng.Intn(9))
	provs := []string{"none", "ingress:nginx", "ingress:nginx", "gateway", "custom", "ingress:nginx+gateway", "ingress:higress", "ingress:aliyun-alb"}
	s.Provider = provs[rng.Intn(len(provs))]
	if s.Kind == "daemonset" && rng.Intn(8) != 0 {
		// an Advanced DaemonSet has no stable revision in its status, and a release with traffic routing waits for one
		// for ever (known finding); most DaemonSet scenarios therefore release without traffic routing
		s.Provider = "none"
	}
	s.Profile = []string{"uniform", "ctrl-eager", "env-eager", "uniform"}[rng.Intn(4)]
	s.RolloutID = rng.Intn(3) == 0
	s.HPA = s.Style == "bluegreen" && rng.Intn(2) == 0
	s.ApproveLag = rng.Intn(6)
	n := 1 + rng.Intn(4)
	percent := rng.Intn(2) == 0
	if s.Style == "partition" && s.Kind == "deployment" {
		// validation forbids percent replicas with traffic for partition-style deployments only in some forms; keep both
	}
	last := 0
	for i := 0; i < n; i++ {
		st := Step{Traffic: -1, Pause: -1}
		var v int
		if percent {
			v = last + 1 + rng.Intn(100-last-(n-1-i))
			if i == n-1 && rng.Intn(2) == 0 {
				v = 100
			}
			if v > 100 {
				v = 100
			}
			st.Replicas = fmt.Sprintf("%d%%", v)
			last = v
			if last >= 100 {
				last = 99
			}
		} else {
			max := int(s.Replicas)
			v = last + 1 + rng.Intn(max)
			if v > max {
				v = max
			}
			if v < last {
				v = last
			}
			st.Replicas = fmt.Sprintf("%d", v)
			last = v
		}
		if s.HasTraffic() {
			switch rng.Intn(4) {
			case 0:
				st.Traffic = []int{0, 5, 20, 50, 80, 100}[rng.Intn(6)]
			case 1:
				st.Traffic = 10 + rng.Intn(80)
			case 2:
				st.Match = "header"
				if strings.Contains(s.Provider, "gateway") || s.Provider == "custom" {
					st.Match = []string{"header", "query", "header+query"}[rng.Intn(3)]
				}
			}
		}
		switch rng.Intn(4) {
		case 0:
			st.Pause = 0
		}
		s.Steps = append(s.Steps, st)
	}
	// keep the plan inside what the validating webhook accepts
	realPartition := !(s.Style == "bluegreen" || (s.Kind == "deployment" && s.Style == "canary"))
	limit := 50
	if realPartition && s.HasTraffic() && rng.Intn(4) == 0 {
		s.PartitionLimit = 100
		limit = 100
	}
	for i := range s.Steps {
		st := &s.Steps[i]
		if s.Style != "bluegreen" && st.Traffic == 0 {
			st.Traffic = 5
		}
		if realPartition && strings.HasSuffix(st.Replicas, "%") && (st.Traffic >= 0 || st.Match != "") {
			var p int
			fmt.Sscanf(st.Replicas, "%d%%", &p)
			if p > limit {
				st.Traffic, st.Match = -1, ""
			}
		}
	}
	return s
}
