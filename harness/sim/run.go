package sim

import (
	"context"
	"fmt"
	corev1 "k8s.io/api/core/v1"
	"math/rand"
	"strconv"
	"strings"
	"time"

	apierrors "k8s.io/apimachinery/pkg/api/errors"
	"k8s.io/apimachinery/pkg/runtime/schema"
	"k8s.io/apimachinery/pkg/types"
	"k8s.io/apimachinery/pkg/util/intstr"
	"sigs.k8s.io/controller-runtime/pkg/client"

	"github.com/openkruise/rollouts/api/v1alpha1"
	"github.com/openkruise/rollouts/api/v1beta1"
	"github.com/openkruise/rollouts/pkg/util"
	"github.com/openkruise/rollouts/pkg/webhook/rollout/validating"

	"verif/harness/simapi"
)

// FaultPlan injects faults into controller actors, counted from the start of the release (after setup).
type FaultPlan struct {
	CrashAfterWrite int `json:"crashAfterWrite,omitempty"` // k-th controller write after release start (1-based); 0 = none
	FailCall        int `json:"failCall,omitempty"`        // k-th controller call after release start (1-based); 0 = none
	FailWriteCall   int `json:"failWriteCall,omitempty"`   // k-th controller write call (create/update/patch/delete, incl. no-ops) after release start; 0 = none
	FailCommit      int `json:"failCommit,omitempty"`      // the k-th controller write that would change the store (no-ops not counted) fails instead / loses its response; 0 = none
	// counted from the first exit action of the user (delete / disable / rollback / v3 / delete-workload / delete-tr):
	FailCallAfterExit   int `json:"failCallAfterExit,omitempty"`   // the k-th controller call (reads included) of the teardown fails
	CrashAfterExitWrite int `json:"crashAfterExitWrite,omitempty"` // the controller crashes right after its k-th write of the teardown
	// FailSiteAfterExit "actor verb Kind" (e.g. "br-ctrl get CloneSet"): the FailSiteNth-th call of that shape after the exit fails
	FailSiteAfterExit string `json:"failSiteAfterExit,omitempty"`
	FailSiteNth       int    `json:"failSiteNth,omitempty"`
	FailKind          string `json:"failKind,omitempty"` // error | timeout | conflict | lost
	Random            int    `json:"random,omitempty"`   // number of additional random faults
	RandomCrash       int    `json:"randomCrash,omitempty"`
}

func (f *FaultPlan) Empty() bool {
	return f == nil || (f.CrashAfterWrite == 0 && f.FailCall == 0 && f.FailWriteCall == 0 && f.FailCommit == 0 && f.Random == 0 && f.RandomCrash == 0 && f.FailCallAfterExit == 0 && f.CrashAfterExitWrite == 0 && f.FailSiteAfterExit == "")
}

func isControllerActor(a string) bool {
	return strings.HasSuffix(a, "-ctrl")
}

// Run is one execution of a scenario.
type Run struct {
	S       *Scenario
	W       *World
	Rng     *rand.Rand
	Faults  *FaultPlan
	Budget  int
	Actions int

	ridSeq         int
	mode           string // release | rolledback | deleted | disabled
	target         string // version the workload should converge to
	released       bool
	pausedSeenAt   int
	userQueue      []string
	ctrlWrites     int
	ctrlCalls      int
	ctrlWriteCalls int
	ctrlCommits    int
	exitSeen       bool
	exitCalls      int
	exitWrites     int
	exitSiteHits   int
	brTearing      bool
	armed          bool
	randFaultAt    map[int]string
	randCrashAt    map[int]bool
	InjectedFaults []string
	CrashesDone    int
	TimedWaits     int
	Trace          []string
	KeepTrace      bool
	// RecordCallClasses makes the run remember, for every controller call since the release started, its class
	// "<actor> <verb> <kind> @ <rollout phase/reason/cleanup task> | <batchrelease phase>" (C06 samples one read fault per class).
	RecordCallClasses bool
	CallClasses       []string
	phaseTag          string
	// BeforeUser, if set, runs before every user action (the concurrent scheduler lets reconciles in flight finish).
	BeforeUser func()

	// results
	Terminal    bool
	Quiescent   bool
	StopReason  string
	UserActions []string
	envIdleAt   int
	gcIdleAt    int
	EventsFired int
}

// NewRun builds the world of one scenario. It resets the process-wide helpers of the code under test (one run
// per process at a time); NewSharedRun does not, for runs that share one process concurrently.
func NewRun(s *Scenario, repoDir string, faults *FaultPlan) (*Run, error) {
	ResetProcessGlobals()
	return newRun(s, repoDir, faults, "")
}

// NewSharedRun builds a run meant to execute concurrently with others in the same process: process-wide helpers
// are left alone and object uids carry a prefix so that they are unique across the concurrent worlds.
func NewSharedRun(s *Scenario, repoDir, uidPrefix string) (*Run, error) {
	return newRun(s, repoDir, nil, uidPrefix)
}

func newRun(s *Scenario, repoDir string, faults *FaultPlan, uidPrefix string) (*Run, error) {
	validating.PartitionReplicasLimitWithTraffic = 50
	if s.PartitionLimit > 0 {
		validating.PartitionReplicasLimitWithTraffic = s.PartitionLimit
	}
	w, err := NewWorld(Options{RepoDir: repoDir, GraceSeconds: s.Grace, UIDPrefix: uidPrefix, FaithfulRequeue: s.Grace > 0 && s.SpecGraceZero})
	if err != nil {
		return nil, err
	}
	if s.UnreadyEvery > 0 {
		n := 0
		w.Env.NeverReady = func(p *corev1.Pod) bool {
			if len(p.Spec.Containers) == 0 || p.Spec.Containers[0].Image == "img:v1" {
				return false
			}
			n++
			return n%s.UnreadyEvery == 0
		}
	}
	r := &Run{S: s, W: w, Rng: rand.New(rand.NewSource(s.Seed)), Faults: faults, mode: "release", target: "v1", envIdleAt: -1, gcIdleAt: -1}
	r.Budget = 60 * (len(s.Steps) + 5) * (int(s.Replicas) + 6)
	if s.UnreadyEvery > 0 {
		// a degraded release may legitimately never finish: what matters is what is reported on the way
		r.Budget /= 4
	}
	return r, nil
}

func (r *Run) trace(f string, a ...interface{}) {
	if r.KeepTrace {
		r.Trace = append(r.Trace, fmt.Sprintf("%5d ", r.Actions)+fmt.Sprintf(f, a...))
	}
}

// CtrlWrites / CtrlCalls count controller writes / calls since the release started (fault coordinates).
func (r *Run) CtrlWrites() int { return r.ctrlWrites }
func (r *Run) CtrlCalls() int  { return r.ctrlCalls }

// CtrlWriteCalls counts the controllers' write calls (incl. no-op writes) since the release started.
func (r *Run) CtrlWriteCalls() int { return r.ctrlWriteCalls }

// Mode is the expectation the run ends with: release | rolledback | rollback-batches | deleted | disabled | bg-superseded.
func (r *Run) Mode() string { return r.mode }

// Rollout returns the current Rollout (nil if gone).
func (r *Run) Rollout() *v1beta1.Rollout { return r.W.GetRollout(r.S.NS, r.S.RolloutName()) }

func (r *Run) installHooks() {
	st := r.W.Store
	st.OnCall = func(c *simapi.Call) error {
		if !r.armed || !isControllerActor(c.Actor) {
			return nil
		}
		r.ctrlCalls++
		if r.RecordCallClasses {
			r.CallClasses = append(r.CallClasses, c.Actor+" "+c.Verb+" "+c.Key.Kind+" @ "+r.phaseTag)
		}
		isWrite := c.Verb != "get" && c.Verb != "list"
		if isWrite {
			r.ctrlWriteCalls++
		}
		kind := ""
		if r.Faults != nil && r.Faults.FailCall == r.ctrlCalls {
			kind = r.Faults.FailKind
		}
		if r.Faults != nil && isWrite && r.Faults.FailWriteCall == r.ctrlWriteCalls {
			kind = r.Faults.FailKind
		}
		if r.exitSeen {
			r.exitCalls++
			if r.Faults != nil && r.Faults.FailCallAfterExit == r.exitCalls {
				kind = r.Faults.FailKind
			}
			// (the BatchRelease controller's part of a teardown is its Finalizing phase / the deletion of its object: its
			// call shapes are counted from there, so that a small n reaches the calls inside Finalize)
			if r.Faults != nil && r.Faults.FailSiteAfterExit != "" && r.Faults.FailSiteAfterExit == c.Actor+" "+c.Verb+" "+c.Key.Kind && (c.Actor != "br-ctrl" || r.brTearingDown()) {
				r.exitSiteHits++
				if r.exitSiteHits == r.Faults.FailSiteNth {
					kind = r.Faults.FailKind
				}
			}
		}
		if k, ok := r.randFaultAt[r.ctrlCalls]; ok {
			kind = k
		}
		if kind == "" {
			return nil
		}
		switch kind {
		case "conflict":
			if !isWrite || c.Verb == "create" || c.Verb == "delete" {
				kind = "error"
			}
		case "lost":
			if !isWrite {
				kind = "timeout"
			}
		}
		r.InjectedFaults = append(r.InjectedFaults, fmt.Sprintf("%s@call%d:%s %s %s", kind, r.ctrlCalls, c.Actor, c.Verb, c.Key))
		gr := schema.GroupResource{Group: c.GVK.Group, Resource: strings.ToLower(c.GVK.Kind) + "s"}
		switch kind {
		case "error":
			return apierrors.NewInternalError(fmt.Errorf("injected fault"))
		case "timeout":
			return apierrors.NewTimeoutError("injected timeout", 1)
		case "conflict":
			return apierrors.NewConflict(gr, c.Key.Name, fmt.Errorf("injected conflict"))
		case "lost":
			c.LoseResponse = true
			return nil
		}
		return nil
	}
	st.OnWrite = append(st.OnWrite, func(w *simapi.Write, v *simapi.View) {
		if w.Key.Kind == "BatchRelease" && w.Key.NS == r.S.NS && w.Key.Name == r.S.RolloutName() {
			br := w.After
			r.brTearing = br != nil && (simapi.Deleting(br) || simapi.Str(br, "status.phase") == "Finalizing" || simapi.Path(br, "spec.releasePlan.batchPartition") == nil)
		}
		if !r.RecordCallClasses || (w.Key.Kind != "Rollout" && w.Key.Kind != "BatchRelease") {
			return
		}
		ro := v.Get("Rollout", r.S.NS, r.S.RolloutName())
		br := v.Get("BatchRelease", r.S.NS, r.S.RolloutName())
		tag := "gone"
		if ro != nil {
			reason := ""
			for _, c := range simapi.List(ro, "status.conditions") {
				if simapi.Str(c, "type") == "Progressing" {
					reason = simapi.Str(c, "reason")
				}
			}
			fin := simapi.Str(ro, "status.canaryStatus.finalisingStep") + simapi.Str(ro, "status.blueGreenStatus.finalisingStep")
			state := simapi.Str(ro, "status.canaryStatus.currentStepState") + simapi.Str(ro, "status.blueGreenStatus.currentStepState")
			tag = simapi.Str(ro, "status.phase") + "/" + reason + "/" + state + "/" + fin
		}
		if br != nil {
			tag += " | " + simapi.Str(br, "status.phase") + "/" + simapi.Str(br, "status.canaryStatus.batchState")
			if simapi.Deleting(br) {
				tag += "/deleting"
			}
		}
		r.phaseTag = tag
	})
	st.BeforeCommit = func(c *simapi.Call) (error, bool) {
		if !r.armed || !isControllerActor(c.Actor) {
			return nil, false
		}
		r.ctrlCommits++
		if r.Faults == nil || r.Faults.FailCommit != r.ctrlCommits {
			return nil, false
		}
		kind := r.Faults.FailKind
		if kind == "conflict" && (c.Verb == "create" || c.Verb == "delete") {
			kind = "error"
		}
		r.InjectedFaults = append(r.InjectedFaults, fmt.Sprintf("%s@commit%d:%s %s %s", kind, r.ctrlCommits, c.Actor, c.Verb, c.Key))
		gr := schema.GroupResource{Group: c.GVK.Group, Resource: strings.ToLower(c.GVK.Kind) + "s"}
		switch kind {
		case "lost":
			return nil, true
		case "conflict":
			return apierrors.NewConflict(gr, c.Key.Name, fmt.Errorf("injected")), false
		case "timeout":
			return apierrors.NewTimeoutError("injected", 1), false
		}
		return apierrors.NewInternalError(fmt.Errorf("injected fault")), false
	}
	st.AfterCommit = func(w *simapi.Write) {
		if !r.armed || !isControllerActor(w.Actor) {
			return
		}
		r.ctrlWrites++
		if r.exitSeen {
			r.exitWrites++
		}
		if (r.Faults != nil && r.Faults.CrashAfterWrite == r.ctrlWrites) || r.randCrashAt[r.ctrlWrites] || (r.exitSeen && r.Faults != nil && r.Faults.CrashAfterExitWrite == r.exitWrites) {
			r.InjectedFaults = append(r.InjectedFaults, fmt.Sprintf("crash@write%d:%s %s %s", r.ctrlWrites, w.Actor, w.Verb, w.Key))
			panic(simapi.CrashSignal{AfterWrite: w.Seq})
		}
	}
}

func (r *Run) weights() (ready, timer, envw, gc, user int) {
	switch r.S.Profile {
	case "ctrl-eager":
		return 30, 4, 3, 2, 5
	case "env-eager":
		return 3, 1, 30, 5, 5
	case "user-eager":
		return 8, 2, 8, 3, 30
	}
	return 10, 2, 10, 3, 5
}

// step performs one scheduler action; returns false when nothing is enabled.
func (r *Run) step() bool {
	w := r.W
	w.DeliverEvents()
	r.checkTriggers()
	now := time.Now()
	ready, timers := w.EnabledReconciles(now)
	wr, wt, we, wg, wu := r.weights()
	type opt struct {
		kind string
		w    int
		rk   RecKey
	}
	var opts []opt
	for _, k := range ready {
		opts = append(opts, opt{"rec", wr, k})
	}
	for _, k := range timers {
		opts = append(opts, opt{"rec", wt, k})
	}
	if r.envIdleAt != w.Store.Writes() {
		opts = append(opts, opt{kind: "env", w: we})
	}
	if r.gcIdleAt != w.Store.Writes() {
		opts = append(opts, opt{kind: "gc", w: wg})
	}
	if len(r.userQueue) > 0 {
		opts = append(opts, opt{kind: "user", w: wu})
	}
	if len(opts) == 0 {
		return false
	}
	total := 0
	for _, o := range opts {
		total += o.w
	}
	x := r.Rng.Intn(total)
	var ch opt
	for _, o := range opts {
		if x < o.w {
			ch = o
			break
		}
		x -= o.w
	}
	r.Actions++
	w.Actions = r.Actions
	switch ch.kind {
	case "rec":
		out := w.Reconcile(ch.rk.C, ch.rk.K)
		r.trace("reconcile %s %s writes=%d err=%v res=%v crashed=%v panic=%s", out.Ctrl, out.Key, out.Writes, out.Err, out.Result, out.Crashed, out.Panic)
		if out.Crashed || out.Panic != "" {
			r.CrashesDone++
			w.Restart()
			r.trace("RESTART")
		}
	case "env":
		a := w.Env.Step(r.Rng.Intn(12))
		if a == "" {
			r.envIdleAt = w.Store.Writes()
		}
		r.trace("env %s", a)
	case "gc":
		if !w.Store.GCStep() {
			r.gcIdleAt = w.Store.Writes()
		}
		r.trace("gc")
	case "user":
		a := r.userQueue[0]
		r.userQueue = r.userQueue[1:]
		r.doUser(a)
	}
	return true
}

// settle runs until nothing is enabled (bounded); used for setup.
func (r *Run) settle(max int) {
	for i := 0; i < max; i++ {
		if !r.step() {
			if !r.waitTimers() {
				return
			}
		}
	}
}

func (r *Run) brTearingDown() bool { return r.brTearing }

// waitTimers sleeps until the nearest pending timer is due (bounded); false if there is none worth waiting for.
func (r *Run) waitTimers() bool {
	if r.TimedWaits >= 40 {
		// a run that is still sleeping on timers after forty of them is not going anywhere (a healthy
		// timed run needs a handful): stop, the caller sees "not terminal"
		return false
	}
	var nearest time.Time
	found := false
	for _, c := range r.W.Ctrls {
		for k, t := range c.Timers {
			if c.IdleRuns[k] >= 3 {
				continue // fired three times without the world changing: treat as waiting on something external
			}
			if !found || t.Before(nearest) {
				nearest, found = t, true
			}
		}
	}
	if !found {
		return false
	}
	d := time.Until(nearest)
	if d > 2500*time.Millisecond {
		d = 2500 * time.Millisecond
	}
	if d > 0 {
		time.Sleep(d + time.Millisecond)
	}
	r.TimedWaits++
	// make the due timers eligible again
	for _, c := range r.W.Ctrls {
		for k, t := range c.Timers {
			if !time.Now().Before(t) {
				c.Idle[k] = -1
			}
		}
	}
	return true
}

func (r *Run) subStatus(ro *v1beta1.Rollout) *v1beta1.CommonStatus {
	if ro == nil {
		return nil
	}
	return ro.Status.GetSubStatus()
}

func (r *Run) checkTriggers() {
	ro := r.Rollout()
	if ro == nil {
		return
	}
	ss := r.subStatus(ro)
	if ss == nil || !r.released {
		return
	}
	cond := util.GetRolloutCondition(ro.Status, v1beta1.RolloutConditionProgressing)
	inRolling := ro.Status.Phase == v1beta1.RolloutPhaseProgressing && cond != nil && (cond.Reason == "InRolling" || cond.Reason == "Paused")
	for i := range r.S.Events {
		e := &r.S.Events[i]
		if e.fired {
			continue
		}
		hit := false
		if e.AtFinalising != "" {
			fs := string(ss.FinalisingStep)
			hit = ro.Status.Phase == v1beta1.RolloutPhaseProgressing && fs != "" && fs != string(v1beta1.FinalisingStepTypeEnd) && (e.AtFinalising == "*" || e.AtFinalising == fs)
		} else {
			hit = inRolling && int(ss.CurrentStepIndex) == e.AtStep && string(ss.CurrentStepState) == e.AtState
			if hit && e.AtBRState != "" {
				br := r.W.Store.Snapshot().Get("BatchRelease", r.S.NS, r.S.RolloutName())
				hit = br != nil && simapi.Str(br, "status.canaryStatus.batchState") == e.AtBRState && int(simapi.IntD(br, "status.canaryStatus.currentBatch", -1)) == e.AtStep-1
			}
		}
		if hit {
			e.fired = true
			r.EventsFired++
			if e.Immediate {
				r.doUser(e.Action)
			} else {
				r.userQueue = append(r.userQueue, e.Action)
			}
		}
	}
	// approval
	if inRolling && cond.Reason == "InRolling" && ss.CurrentStepState == v1beta1.CanaryStepStatePaused && r.approving() {
		idx := int(ss.CurrentStepIndex)
		if idx >= 1 && idx <= len(ro.Spec.Strategy.GetSteps()) && ro.Spec.Strategy.GetSteps()[idx-1].Pause.Duration == nil {
			if r.pausedSeenAt < 0 {
				r.pausedSeenAt = r.Actions
			}
			queued := false
			for _, a := range r.userQueue {
				if a == "approve" {
					queued = true
				}
			}
			if !queued && r.Actions-r.pausedSeenAt >= r.S.ApproveLag {
				r.userQueue = append(r.userQueue, "approve")
			}
		}
	} else {
		r.pausedSeenAt = -1
	}
}

// approving: the user grants approvals whenever the Rollout waits for one, unless they have taken the Rollout out of the
// game. (A revert that arrives before any pod was updated is handled by the controller as one more release - of the old
// revision - which asks for approvals like any other.)
func (r *Run) approving() bool {
	return r.mode != "deleted" && r.mode != "disabled" && r.mode != "bg-superseded" && r.mode != "workload-deleted"
}

func (r *Run) doUser(a string) {
	if r.BeforeUser != nil {
		r.BeforeUser()
	}
	s, w := r.S, r.W
	user := w.Store.As("user")
	c := context.TODO()
	r.UserActions = append(r.UserActions, a)
	r.trace("USER %s", a)
	key := types.NamespacedName{Namespace: s.NS, Name: s.RolloutName()}
	name, arg := a, ""
	if i := strings.Index(a, ":"); i > 0 {
		name, arg = a[:i], a[i+1:]
	}
	switch name {
	case "delete", "disable", "rollback", "v3", "delete-workload", "delete-tr":
		r.exitSeen = true
	}
	var err error
	switch name {
	case "approve":
		ro := &v1beta1.Rollout{}
		if err = user.Get(c, key, ro); err != nil {
			break
		}
		ss := ro.Status.GetSubStatus()
		if ss == nil || ss.CurrentStepState != v1beta1.CanaryStepStatePaused {
			break
		}
		field := "canaryStatus"
		if ro.Spec.Strategy.IsBlueGreenRelease() {
			field = "blueGreenStatus"
		}
		body := fmt.Sprintf(`{"status":{"%s":{"currentStepState":"StepReady"}}}`, field)
		err = user.Status().Patch(c, ro, client.RawPatch(types.MergePatchType, []byte(body)))
	case "jump":
		ro := &v1beta1.Rollout{}
		if err = user.Get(c, key, ro); err != nil {
			break
		}
		field := "canaryStatus"
		if ro.Spec.Strategy.IsBlueGreenRelease() {
			field = "blueGreenStatus"
		}
		body := fmt.Sprintf(`{"status":{"%s":{"nextStepIndex":%s}}}`, field, arg)
		err = user.Status().Patch(c, ro, client.RawPatch(types.MergePatchType, []byte(body)))
	case "rollback":
		err = s.SetTemplate(w, "v1")
		r.target = "v1"
		if r.mode != "deleted" && r.mode != "disabled" {
			r.mode = "rolledback"
			if s.RollbackInBatch && s.Kind == "cloneset" && !s.HasTraffic() {
				// the plan is walked again towards the old revision: approvals are needed as in a release
				r.mode = "rollback-batches"
			}
		}
	case "v3":
		rolling := false
		if ro := r.Rollout(); ro != nil {
			cond := util.GetRolloutCondition(ro.Status, v1beta1.RolloutConditionProgressing)
			rolling = ro.Status.Phase == v1beta1.RolloutPhaseProgressing && cond != nil && (cond.Reason == "InRolling" || cond.Reason == "Paused")
		}
		err = s.SetTemplate(w, "v3")
		if s.Style != "bluegreen" || !rolling {
			// (published while a blue-green release is being cleaned up, v3 is simply the next release)
			r.target = "v3"
		} else if r.mode == "release" {
			// a blue-green release in progress refuses supersession and waits for the user to roll back
			r.mode = "bg-superseded"
		}
	case "delete":
		ro := &v1beta1.Rollout{}
		if err = user.Get(c, key, ro); err != nil {
			break
		}
		err = user.Delete(c, ro)
		if err == nil {
			r.mode = "deleted"
		}
	case "disable":
		ro := &v1beta1.Rollout{}
		ro.Namespace, ro.Name = s.NS, s.RolloutName()
		err = user.Patch(c, ro, client.RawPatch(types.MergePatchType, []byte(`{"spec":{"disabled":true}}`)))
		if err == nil && r.mode != "deleted" {
			r.mode = "disabled"
		}
	case "scale":
		n, _ := strconv.Atoi(arg)
		err = s.Scale(w, int32(n))
	case "scale0then":
		// the user scales the workload to zero and, a little later, back up: the release continues on a workload whose
		// status still says "no pods" while its spec asks for some
		err = s.Scale(w, 0)
		r.userQueue = append(r.userQueue, "noop", "scale:"+arg)
	case "pause", "unpause":
		ro := &v1beta1.Rollout{}
		ro.Namespace, ro.Name = s.NS, s.RolloutName()
		err = user.Patch(c, ro, client.RawPatch(types.MergePatchType, []byte(fmt.Sprintf(`{"spec":{"strategy":{"paused":%v}}}`, name == "pause"))))
		if name == "pause" {
			// the scenario un-pauses later
			r.userQueue = append(r.userQueue, "noop", "noop", "noop", "unpause")
		}
	case "rolloutid":
		// the user re-labels the release (same template, new rollout-id): the BatchRelease restarts from batch 0
		obj := s.workloadObject()
		obj.SetNamespace(s.NS)
		obj.SetName(s.Name)
		r.ridSeq++
		body := fmt.Sprintf(`{"metadata":{"labels":{"rollouts.kruise.io/rollout-id":"rid-%s-%d"}}}`, strings.TrimPrefix(r.target, "v"), r.ridSeq)
		err = user.Patch(c, obj, client.RawPatch(types.MergePatchType, []byte(body)))
	case "delete-workload":
		// the user deletes the workload itself in the middle of the release (its pods and ReplicaSets go with it)
		obj := s.workloadObject()
		if err = user.Get(c, types.NamespacedName{Namespace: s.NS, Name: s.Name}, obj); err != nil {
			break
		}
		err = user.Delete(c, obj)
		if err == nil && r.mode != "deleted" && r.mode != "disabled" {
			r.mode = "workload-deleted"
		}
	case "delete-tr":
		tr := &v1alpha1.TrafficRouting{}
		if err = user.Get(c, types.NamespacedName{Namespace: s.NS, Name: s.TRName()}, tr); err == nil {
			err = user.Delete(c, tr)
		}
	case "restart":
		w.Restart()
	case "noop":
	case "plan-drop-last", "plan-add-step", "plan-bump", "plan-raise":
		ro := &v1beta1.Rollout{}
		if err = user.Get(c, key, ro); err != nil {
			break
		}
		var steps *[]v1beta1.CanaryStep
		if ro.Spec.Strategy.BlueGreen != nil {
			steps = &ro.Spec.Strategy.BlueGreen.Steps
		} else if ro.Spec.Strategy.Canary != nil {
			steps = &ro.Spec.Strategy.Canary.Steps
		}
		if steps == nil {
			break
		}
		switch name {
		case "plan-drop-last":
			if len(*steps) >= 2 {
				*steps = (*steps)[:len(*steps)-1]
			}
		case "plan-add-step":
			last := (*steps)[len(*steps)-1]
			ns := v1beta1.CanaryStep{Replicas: last.Replicas}
			*steps = append(*steps, ns)
		case "plan-bump":
			// change the pause of the first step and the traffic of the last one: a plan edit that keeps the step count
			d := int32(0)
			(*steps)[0].Pause.Duration = &d
		case "plan-raise":
			// mid-release edit: the current step (and the later ones, to keep the plan non-decreasing) asks for more pods
			k := 0
			if ss := ro.Status.GetSubStatus(); ss != nil && ss.CurrentStepIndex >= 1 {
				k = int(ss.CurrentStepIndex) - 1
			}
			if k >= len(*steps) {
				break
			}
			raise := func(v *intstr.IntOrString) *intstr.IntOrString {
				if v == nil {
					return v
				}
				if v.Type == intstr.String {
					var p int
					fmt.Sscanf(v.StrVal, "%d%%", &p)
					p += 25
					if p > 100 {
						p = 100
					}
					n := intstr.FromString(fmt.Sprintf("%d%%", p))
					return &n
				}
				n := intstr.FromInt(v.IntValue() + 2)
				return &n
			}
			nv := raise((*steps)[k].Replicas)
			(*steps)[k].Replicas = nv
			for j := k + 1; j < len(*steps); j++ {
				a, _ := intstr.GetScaledValueFromIntOrPercent((*steps)[j].Replicas, 1000, true)
				b, _ := intstr.GetScaledValueFromIntOrPercent(nv, 1000, true)
				if (*steps)[j].Replicas != nil && nv != nil && (*steps)[j].Replicas.Type == nv.Type && a < b {
					(*steps)[j].Replicas = nv
				}
			}
		}
		err = user.Update(c, ro)
	}
	if err != nil {
		r.trace("USER %s failed: %v", a, err)
		r.UserActions = append(r.UserActions, "  -> error: "+err.Error())
	}
}

// Terminal reports whether the rollout reached the terminal state expected for the current mode.
func (r *Run) terminalNow() bool {
	ro := r.Rollout()
	switch r.mode {
	case "deleted":
		return ro == nil
	case "disabled":
		return ro != nil && ro.Status.Phase == v1beta1.RolloutPhaseDisabled
	case "workload-deleted":
		// the Rollout resets itself to Initial ("Workload Not Found") and waits for a workload of that name
		return ro != nil && ro.Status.Phase == v1beta1.RolloutPhaseInitial
	case "bg-superseded":
		if ro == nil {
			return false
		}
		if strings.Contains(ro.Status.Message, "please rollback first") {
			return true
		}
	}
	if ro == nil || ro.Status.Phase != v1beta1.RolloutPhaseHealthy {
		return false
	}
	cond := util.GetRolloutCondition(ro.Status, v1beta1.RolloutConditionProgressing)
	if cond == nil || cond.Reason != "Completed" {
		return false
	}
	// the workload must not be waiting for another release
	wl := r.W.Store.Snapshot().GetKey(r.S.WorkloadKey())
	if wl == nil || simapi.HasAnno(wl, util.InRolloutProgressingAnnotation) {
		return false
	}
	return true
}

// Execute runs the whole scenario: setup, release, events, until terminal + quiescent or budget exhausted.
func (r *Run) Execute() {
	r.installHooks()
	if err := r.S.Install(r.W); err != nil {
		r.StopReason = "install: " + err.Error()
		return
	}
	r.pausedSeenAt = -1
	r.settle(3000)
	ro := r.Rollout()
	if ro == nil || ro.Status.Phase != v1beta1.RolloutPhaseHealthy {
		r.StopReason = "setup did not reach Healthy"
		return
	}
	// user actions before the release (plan edits while Healthy, deletion of an idle Rollout, ...)
	for _, a := range r.S.Pre {
		r.doUser(a)
		r.settle(1500)
	}
	if r.mode == "deleted" || r.mode == "disabled" {
		r.released = true
		for i := 0; i < 400 && r.step(); i++ {
		}
		r.Terminal = r.terminalNow()
		r.Quiescent = true
		r.StopReason = "ended before any release"
		return
	}
	// release
	r.setupFaults()
	r.armed = true
	r.released = true
	r.target = "v2"
	r.userQueue = append(r.userQueue, "release")
	if err := r.S.SetTemplate(r.W, "v2"); err != nil {
		r.StopReason = "release: " + err.Error()
		return
	}
	r.userQueue = r.userQueue[:0]
	r.UserActions = append(r.UserActions, "release:v2")
	startActions := r.Actions
	refusedAt := -1
	for r.Actions-startActions < r.Budget {
		if r.W.Runaway != "" {
			r.StopReason = "runaway object growth: " + r.W.Runaway
			return
		}
		if r.mode == "bg-superseded" && r.terminalNow() {
			// refused supersession: the BatchRelease keeps retrying with errors (rate limited in production), so the
			// cluster never goes quiet; watch a little longer and stop
			if refusedAt < 0 {
				refusedAt = r.Actions
			}
			if r.Actions-refusedAt > 150 {
				r.Terminal, r.Quiescent = true, false
				r.StopReason = "blue-green supersession refused"
				return
			}
		}
		if !r.step() {
			if r.pausedSeenAt >= 0 && len(r.userQueue) == 0 && r.approving() {
				// the cluster is quiet and waits for the user's approval: grant it now
				r.userQueue = append(r.userQueue, "approve")
				continue
			}
			if r.terminalNow() && len(r.userQueue) == 0 {
				r.Terminal, r.Quiescent = true, true
				r.StopReason = "terminal+quiescent"
				return
			}
			if !r.waitTimers() {
				r.StopReason = "stalled: nothing enabled, not terminal"
				r.Quiescent = true
				return
			}
		}
	}
	r.Terminal = r.terminalNow()
	r.StopReason = "budget exhausted"
}

func (r *Run) setupFaults() {
	r.randFaultAt = map[int]string{}
	r.randCrashAt = map[int]bool{}
	if r.Faults == nil {
		return
	}
	kinds := []string{"error", "timeout", "conflict", "lost"}
	for i := 0; i < r.Faults.Random; i++ {
		r.randFaultAt[1+r.Rng.Intn(2500)] = kinds[r.Rng.Intn(len(kinds))]
	}
	for i := 0; i < r.Faults.RandomCrash; i++ {
		r.randCrashAt[1+r.Rng.Intn(150)] = true
	}
}
