package c14ingress

import (
	"fmt"
	"math/rand"
	"sort"
	"strings"

	"github.com/openkruise/rollouts/api/v1beta1"
	corev1 "k8s.io/api/core/v1"
	netv1 "k8s.io/api/networking/v1"
	metav1 "k8s.io/apimachinery/pkg/apis/meta/v1"
	gatewayv1beta1 "sigs.k8s.io/gateway-api/apis/v1beta1"

	"verif/harness/gen"
)

// scenario is one generated case: a stable Ingress as stored, a class, and a sequence of steps.
type scenario struct {
	Class     string                           `json:"class"`     // script that is selected
	ClassType string                           `json:"classType"` // as written in IngressTrafficRouting.ClassType ("" selects nginx)
	StableSvc string                           `json:"stableService"`
	CanarySvc string                           `json:"canaryService"`
	Stable    *netv1.Ingress                   `json:"stableIngress"`
	Bystander *netv1.Ingress                   `json:"otherIngress,omitempty"`
	Steps     []v1beta1.TrafficRoutingStrategy `json:"steps"`
}

func (sc *scenario) clone() *scenario {
	out := *sc
	out.Stable = sc.Stable.DeepCopy()
	if sc.Bystander != nil {
		out.Bystander = sc.Bystander.DeepCopy()
	}
	out.Steps = nil
	for i := range sc.Steps {
		out.Steps = append(out.Steps, *sc.Steps[i].DeepCopy())
	}
	return &out
}

var classes = []string{"nginx", "aliyun-alb", "higress", "mse"}

// annotation prefix under which the class script keeps its canary keys
func classPrefix(class string) string {
	if class == "aliyun-alb" {
		return "alb.ingress.kubernetes.io/"
	}
	return "nginx.ingress.kubernetes.io/"
}

const otherSvc = "other-svc"

func genBackend(rng *rand.Rand, kind string, stableSvc string) netv1.IngressBackend {
	switch kind {
	case "resource":
		return netv1.IngressBackend{Resource: &corev1.TypedLocalObjectReference{APIGroup: gen.Strp("k8s.example.com"), Kind: "StorageBucket", Name: "static-assets"}}
	case "stable":
		return netv1.IngressBackend{Service: &netv1.IngressServiceBackend{Name: stableSvc, Port: genPort(rng)}}
	}
	return netv1.IngressBackend{Service: &netv1.IngressServiceBackend{Name: gen.Pick(rng, otherSvc, "api", stableSvc+"-v2"), Port: genPort(rng)}}
}

func genPort(rng *rand.Rand) netv1.ServiceBackendPort {
	if gen.Chance(rng, 70) {
		return netv1.ServiceBackendPort{Number: []int32{80, 8080, 443}[rng.Intn(3)]}
	}
	return netv1.ServiceBackendPort{Name: gen.Pick(rng, "http", "web")}
}

func genAnnotations(rng *rand.Rand, class string) (map[string]string, string) {
	foreign := func(m map[string]string) {
		for i, n := 0, 1+rng.Intn(3); i < n; i++ {
			switch rng.Intn(6) {
			case 0:
				m["team"] = gen.Pick(rng, "a", "payments")
			case 1:
				m["kubernetes.io/ingress.class"] = gen.Pick(rng, "nginx", "alb", "mse", "higress")
			case 2:
				m[classPrefix(class)+"rewrite-target"] = "/"
			case 3:
				m["alb.ingress.kubernetes.io/listen-ports"] = `[{"HTTP":80}]`
			case 4:
				m["mse.ingress.kubernetes.io/service-subset"] = gen.Pick(rng, "", "base")
			case 5:
				m["example.com/owner"] = "x"
			}
		}
	}
	switch rng.Intn(10) {
	case 0, 1:
		return nil, "nil"
	case 2:
		return map[string]string{}, "empty"
	case 3, 4, 5, 6:
		m := map[string]string{}
		foreign(m)
		return m, "foreign"
	}
	m := map[string]string{}
	foreign(m)
	p := classPrefix(class)
	for i, n := 0, 1+rng.Intn(3); i < n; i++ {
		switch rng.Intn(9) {
		case 0:
			m[p+"canary"] = gen.Pick(rng, "true", "false")
		case 1:
			m[p+"canary-weight"] = gen.Pick(rng, "50", "0", "100")
		case 2:
			m[p+"canary-by-header"] = "old-header"
		case 3:
			m[p+"canary-by-header-value"] = "old"
		case 4:
			m[p+"canary-by-header-pattern"] = "^old$"
		case 5:
			m[p+"canary-by-cookie"] = "old-cookie"
		case 6:
			m[gen.Pick(rng, "nginx", "mse")+".ingress.kubernetes.io/canary-by-query"] = "oldq"
		case 7:
			m["mse.ingress.kubernetes.io/request-header-control-update"] = "x-old v"
		case 8:
			m["alb.ingress.kubernetes.io/order"] = "5"
		}
	}
	return m, "canary-looking"
}

var (
	ptPrefix = netv1.PathTypePrefix
	ptExact  = netv1.PathTypeExact
	ptImpl   = netv1.PathTypeImplementationSpecific
)

func genPathType(rng *rand.Rand) *netv1.PathType {
	switch rng.Intn(3) {
	case 0:
		return &ptPrefix
	case 1:
		return &ptExact
	}
	return &ptImpl
}

// genScenario draws a scenario. Feature gates (rule without http / resource backend) are decided per case so
// that most cases do not contain them.
func genScenario(rng *rand.Rand) (*scenario, []string) {
	sc := &scenario{}
	sc.Class = classes[rng.Intn(len(classes))]
	sc.ClassType = sc.Class
	if sc.Class == "nginx" && gen.Chance(rng, 25) {
		sc.ClassType = ""
	}
	sc.StableSvc = gen.Pick(rng, "echoserver", "web")
	sc.CanarySvc = sc.StableSvc + "-canary"
	var feats []string

	name := gen.Pick(rng, "echoserver", "web-ing", "a-b")
	ns := gen.Pick(rng, "default", "ns1")
	ing := &netv1.Ingress{TypeMeta: metav1.TypeMeta{APIVersion: "networking.k8s.io/v1", Kind: "Ingress"},
		ObjectMeta: metav1.ObjectMeta{Name: name, Namespace: ns, UID: "11111111-2222-3333-4444-555555555555", Generation: int64(1 + rng.Intn(3))}}
	var akind string
	ing.Annotations, akind = genAnnotations(rng, sc.Class)
	feats = append(feats, "annotations="+akind)
	if gen.Chance(rng, 40) {
		ing.Labels = map[string]string{"app": sc.StableSvc}
	}
	if gen.Chance(rng, 50) {
		ing.Spec.IngressClassName = gen.Strp(gen.Pick(rng, "nginx", "alb", "mse", "higress"))
	}
	if gen.Chance(rng, 20) {
		ing.Spec.TLS = []netv1.IngressTLS{{Hosts: []string{"a.example.com"}, SecretName: "tls-a"}}
		feats = append(feats, "tls")
	}
	allowNoHTTP := gen.Chance(rng, 14)
	allowResource := gen.Chance(rng, 14)
	switch r := rng.Intn(100); {
	case r < 60:
	case r < 80:
		ing.Spec.DefaultBackend = &netv1.IngressBackend{}
		*ing.Spec.DefaultBackend = genBackend(rng, "other", sc.StableSvc)
		feats = append(feats, "defaultBackend=other")
	case r < 92:
		ing.Spec.DefaultBackend = &netv1.IngressBackend{}
		*ing.Spec.DefaultBackend = genBackend(rng, "stable", sc.StableSvc)
		feats = append(feats, "defaultBackend=stable")
	default:
		if allowResource {
			ing.Spec.DefaultBackend = &netv1.IngressBackend{}
			*ing.Spec.DefaultBackend = genBackend(rng, "resource", sc.StableSvc)
			feats = append(feats, "defaultBackend=resource")
		}
	}
	hosts := []string{"a.example.com", "b.example.com", "*.c.example.com", ""}
	rng.Shuffle(len(hosts), func(i, j int) { hosts[i], hosts[j] = hosts[j], hosts[i] })
	nrules := 1 + rng.Intn(3)
	forceStable := gen.Chance(rng, 92)
	nStable, nOther, nRes, nNoHTTP := 0, 0, 0, 0
	for i := 0; i < nrules; i++ {
		rule := netv1.IngressRule{Host: hosts[i]}
		if allowNoHTTP && gen.Chance(rng, 45) {
			nNoHTTP++
			ing.Spec.Rules = append(ing.Spec.Rules, rule)
			continue
		}
		rule.HTTP = &netv1.HTTPIngressRuleValue{}
		for j, np := 0, 1+rng.Intn(4); j < np; j++ {
			kind := "stable"
			switch r := rng.Intn(100); {
			case r < 50:
			case r < 85:
				kind = "other"
			default:
				if allowResource {
					kind = "resource"
				} else {
					kind = "other"
				}
			}
			if forceStable && nStable == 0 && j == 0 {
				kind = "stable"
			}
			switch kind {
			case "stable":
				nStable++
			case "other":
				nOther++
			case "resource":
				nRes++
			}
			rule.HTTP.Paths = append(rule.HTTP.Paths, netv1.HTTPIngressPath{Path: gen.Pick(rng, "/", "/api", "/v2/x", "/static", "/api/v1"),
				PathType: genPathType(rng), Backend: genBackend(rng, kind, sc.StableSvc)})
		}
		ing.Spec.Rules = append(ing.Spec.Rules, rule)
	}
	feats = append(feats, fmt.Sprintf("rules=%d", nrules))
	if nStable == 0 {
		feats = append(feats, "no-stable-path")
	}
	if nOther > 0 {
		feats = append(feats, "other-service-paths")
	}
	if nRes > 0 {
		feats = append(feats, "resource-backend-paths")
	}
	if nNoHTTP > 0 {
		feats = append(feats, "rule-without-http")
	}
	sc.Stable = ing

	if gen.Chance(rng, 30) {
		by := &netv1.Ingress{TypeMeta: ing.TypeMeta, ObjectMeta: metav1.ObjectMeta{Name: gen.Pick(rng, "unrelated", name+"-canary-2", name+"-internal"), Namespace: ns,
			Annotations: map[string]string{classPrefix(sc.Class) + "canary": "true", classPrefix(sc.Class) + "canary-weight": "7"}}}
		by.Spec.Rules = []netv1.IngressRule{{Host: "a.example.com", IngressRuleValue: netv1.IngressRuleValue{HTTP: &netv1.HTTPIngressRuleValue{
			Paths: []netv1.HTTPIngressPath{{Path: "/", PathType: &ptPrefix, Backend: genBackend(rng, "stable", sc.StableSvc)}}}}}}
		sc.Bystander = by
		feats = append(feats, "other-ingress-in-namespace")
	}

	nsteps := 1 + rng.Intn(5)
	for i := 0; i < nsteps; i++ {
		sc.Steps = append(sc.Steps, genStep(rng, sc.Class))
	}
	if gen.Chance(rng, 40) {
		// what RouteAllTrafficToNewVersion applies before finalising
		sc.Steps = append(sc.Steps, v1beta1.TrafficRoutingStrategy{Traffic: gen.Strp("100%")})
	}
	return sc, feats
}

func genWeight(rng *rand.Rand) *string {
	switch r := rng.Intn(100); {
	case r < 8:
		return gen.Strp("0%")
	case r < 16:
		return gen.Strp("100%")
	}
	return gen.Strp(fmt.Sprintf("%d%%", 1+rng.Intn(99)))
}

func genHeaders(rng *rand.Rand, n int) []gatewayv1beta1.HTTPHeaderMatch {
	names := []string{"user-agent", "x-canary", "canary-by-cookie", "region"}
	rng.Shuffle(len(names), func(i, j int) { names[i], names[j] = names[j], names[i] })
	var hs []gatewayv1beta1.HTTPHeaderMatch
	for i := 0; i < n; i++ {
		// type is defaulted to Exact by the CRD, so it is never nil in a stored object
		t := gatewayv1beta1.HeaderMatchExact
		v := gen.Pick(rng, "a", "true", "pc", "user-1")
		if gen.Chance(rng, 40) {
			t = gatewayv1beta1.HeaderMatchRegularExpression
			v = gen.Pick(rng, "^v.*$", "(a|b)", ".*demo.*")
		}
		hs = append(hs, gatewayv1beta1.HTTPHeaderMatch{Name: gatewayv1beta1.HTTPHeaderName(names[i]), Type: &t, Value: v})
	}
	return hs
}

func genQueries(rng *rand.Rand, n int) []gatewayv1beta1.HTTPQueryParamMatch {
	names := []string{"ver", "q", "user"}
	rng.Shuffle(len(names), func(i, j int) { names[i], names[j] = names[j], names[i] })
	var qs []gatewayv1beta1.HTTPQueryParamMatch
	for i := 0; i < n; i++ {
		t := gatewayv1beta1.QueryParamMatchExact
		v := gen.Pick(rng, "2", "beta", "x")
		if gen.Chance(rng, 40) {
			t = gatewayv1beta1.QueryParamMatchRegularExpression
			v = gen.Pick(rng, "^b.*", "[0-9]+")
		}
		qs = append(qs, gatewayv1beta1.HTTPQueryParamMatch{Name: gatewayv1beta1.HTTPHeaderName(names[i]), Type: &t, Value: v})
	}
	return qs
}

// genStep draws one strategy using only what the class script supports:
//
//	nginx       header / cookie matches (a match without headers is skipped by the script)
//	aliyun-alb  header / cookie matches (every match carries >= 1 header)
//	higress     header / cookie matches (every match carries >= 1 header)
//	mse         header / cookie matches, query-param matches, requestHeaderModifier.set
func genStep(rng *rand.Rand, class string) v1beta1.TrafficRoutingStrategy {
	s := v1beta1.TrafficRoutingStrategy{}
	mode := ""
	switch r := rng.Intn(100); {
	case r < 40:
		mode = "w"
	case r < 75:
		mode = "m"
	default:
		mode = "wm"
	}
	if strings.Contains(mode, "w") {
		s.Traffic = genWeight(rng)
	}
	if strings.Contains(mode, "m") {
		for i, n := 0, 1+rng.Intn(2); i < n; i++ {
			m := v1beta1.HttpRouteMatch{}
			switch class {
			case "mse":
				switch rng.Intn(3) {
				case 0:
					m.Headers = genHeaders(rng, 1+rng.Intn(2))
				case 1:
					m.QueryParams = genQueries(rng, 1+rng.Intn(2))
				default:
					m.Headers = genHeaders(rng, 1+rng.Intn(2))
					m.QueryParams = genQueries(rng, 1+rng.Intn(2))
				}
			case "nginx":
				m.Headers = genHeaders(rng, rng.Intn(3)) // 0 headers: tolerated and ignored by nginx.lua
				if len(m.Headers) == 0 && gen.Chance(rng, 70) {
					m.Headers = genHeaders(rng, 1)
				}
			default:
				m.Headers = genHeaders(rng, 1+rng.Intn(2))
			}
			s.Matches = append(s.Matches, m)
		}
	}
	if class == "mse" && gen.Chance(rng, 35) {
		f := &gatewayv1beta1.HTTPHeaderFilter{}
		names := []string{"x-env", "x-ver"}
		for i, n := 0, 1+rng.Intn(2); i < n; i++ {
			f.Set = append(f.Set, gatewayv1beta1.HTTPHeader{Name: gatewayv1beta1.HTTPHeaderName(names[i]), Value: gen.Pick(rng, "gray", "v2")})
		}
		if gen.Chance(rng, 20) {
			f.Add = []gatewayv1beta1.HTTPHeader{{Name: "x-add", Value: "1"}}
		}
		if gen.Chance(rng, 20) {
			f.Remove = []string{"x-rm"}
		}
		s.RequestHeaderModifier = f
	}
	return s
}

// stepKind is a short description of what a strategy carries (for signatures and observed sets).
func stepKind(s *v1beta1.TrafficRoutingStrategy) string {
	var k []string
	if s.Traffic != nil {
		switch *s.Traffic {
		case "0%":
			k = append(k, "w0")
		case "100%":
			k = append(k, "w100")
		default:
			k = append(k, "w")
		}
	}
	hdr, cookie, re, qry, emptyMatch := false, false, false, false, false
	for _, m := range s.Matches {
		if len(m.Headers) == 0 && len(m.QueryParams) == 0 {
			emptyMatch = true
		}
		for _, h := range m.Headers {
			if h.Name == "canary-by-cookie" {
				cookie = true
			} else {
				hdr = true
			}
			if h.Type != nil && *h.Type == gatewayv1beta1.HeaderMatchRegularExpression {
				re = true
			}
		}
		if len(m.QueryParams) > 0 {
			qry = true
		}
	}
	if hdr {
		k = append(k, "hdr")
	}
	if cookie {
		k = append(k, "cookie")
	}
	if re {
		k = append(k, "regex")
	}
	if qry {
		k = append(k, "query")
	}
	if emptyMatch {
		k = append(k, "emptymatch")
	}
	if len(s.Matches) > 1 {
		k = append(k, "multi")
	}
	if s.RequestHeaderModifier != nil {
		k = append(k, "hdrmod")
	}
	if len(k) == 0 {
		return "none"
	}
	return strings.Join(k, "+")
}

func sortedKeys(m map[string]string) []string {
	var ks []string
	for k := range m {
		ks = append(ks, k)
	}
	sort.Strings(ks)
	return ks
}
