package c16lua

// (c2) syscall log: escape probes + fast hostile scripts run in a child under strace; each script is bracketed
// by marker openat()s of non-existent paths; the windows of benign scripts give the baseline of what the Go
// runtime itself opens lazily (only that is subtracted).

import (
	"bufio"
	"fmt"
	"os"
	"regexp"
	"strconv"
	"strings"

	"verif/harness/core"
)

type sysEvent struct {
	Call string
	Arg  string // first path-like argument ("" if none)
	Line string
}

var (
	reSys    = regexp.MustCompile(`^\d+\s+(\w+)\((.*)$`)
	reMarker = regexp.MustCompile(`/verif-marker-(begin|end)-(\d+)`)
	rePath   = regexp.MustCompile(`"((?:[^"\\]|\\.)*)"`)
)

// parseTrace splits strace output into windows keyed by marker number.
func parseTrace(files []string) (windows map[int][]sysEvent, markersSeen int, err error) {
	windows = map[int][]sysEvent{}
	for _, f := range files {
		fh, e := os.Open(f)
		if e != nil {
			return nil, 0, e
		}
		sc := bufio.NewScanner(fh)
		sc.Buffer(make([]byte, 1<<20), 16<<20)
		cur := -1
		for sc.Scan() {
			line := sc.Text()
			m := reSys.FindStringSubmatch(line)
			if m == nil {
				continue // signals, exits, "<... resumed>" continuations
			}
			call, rest := m[1], m[2]
			if mm := reMarker.FindStringSubmatch(rest); mm != nil {
				n, _ := strconv.Atoi(mm[2])
				markersSeen++
				if mm[1] == "begin" {
					cur = n
					if _, ok := windows[n]; !ok {
						windows[n] = nil
					}
				} else {
					cur = -1
				}
				continue
			}
			if cur < 0 {
				continue
			}
			ev := sysEvent{Call: call, Line: line}
			if pm := rePath.FindStringSubmatch(rest); pm != nil {
				ev.Arg = pm[1]
			}
			windows[cur] = append(windows[cur], ev)
		}
		fh.Close()
	}
	return windows, markersSeen, nil
}

func straceUsable() bool {
	st, err := os.Stat(straceBin)
	return err == nil && !st.IsDir()
}

func runStraceCase(env *core.Env, res *core.CaseResult) {
	if !straceUsable() {
		res.Count("strace_unavailable", 1)
		res.Inconclusive = "strace not installed: syscall-log monitor (c2) not run"
		return
	}
	s, err := makeSentinels("strace")
	if err != nil {
		res.Inconclusive = "cannot create sentinel files: " + err.Error()
		return
	}
	defer s.cleanup()
	dir, err := os.MkdirTemp("", "c16trace-")
	if err != nil {
		res.Inconclusive = err.Error()
		return
	}
	defer os.RemoveAll(dir)

	benign := []string{
		`local a = obj.annotations or {} a["x"] = obj.weight return a`,
		`local t = {} for i = 1, 1000 do t[#t + 1] = tostring(i) end return {n = tostring(#t), s = table.concat(t, ","):sub(1, 10), j = json.encode({1, 2})}`,
		`local ok, e = pcall(error, "x") return {e = tostring(e), m = tostring(math.floor(2.5)), f = string.format("%5.1f", 1.25)}`,
	}
	var items []item
	type meta struct {
		kind string // benign | probe | hostile | generated
		tag  string
		fp   string
		src  string
	}
	var metas []meta
	for i, b := range benign {
		items = append(items, item{Cat: "benign", Name: fmt.Sprint(i), Script: b, Input: ingressInputJSON(), Flavour: "ingress"})
		metas = append(metas, meta{"benign", fmt.Sprint(i), "", b})
	}
	ps := escapeProbes()
	for _, p := range ps {
		if p.Tag == "stdin-read" {
			continue
		}
		sc := s.fill(p.Script)
		items = append(items, item{Cat: "escape-probe", Name: p.Tag, Script: sc, Input: ingressInputJSON(), Flavour: "raw"})
		metas = append(metas, meta{"probe", p.Tag, p.FP, sc})
	}
	// fast hostile scripts and a few generated programs: nothing of them may reach the OS either
	for _, u := range hostileUnits(false) {
		switch u.Cat {
		case "recursion", "errors", "returns", "bad-args", "env-tamper":
			for _, it := range u.Items {
				if it.Name == "print-flood" || it.Name == "collectgarbage-1000" || it.Name == "deep-bounded-100000" {
					continue // thousands of untraced syscalls / GC cycles: slow under ptrace, nothing to see
				}
				items = append(items, it)
				metas = append(metas, meta{"hostile", u.Cat, "", it.Script})
			}
		}
	}
	rng := env.RNG(1)
	for i := 0; i < 25; i++ {
		g := genProgram(rng, false)
		items = append(items, item{Cat: "generated", Name: "g", Script: g.Src, Input: ingressInputJSON(), Flavour: "ingress"})
		metas = append(metas, meta{"generated", "generated", "", g.Src})
	}
	// a closing benign window
	items = append(items, item{Cat: "benign", Name: "last", Script: benign[0], Input: ingressInputJSON(), Flavour: "ingress"})
	metas = append(metas, meta{"benign", "last", "", benign[0]})

	out := runItems(items, runOpt{Markers: true, StraceDir: dir})
	windows, markers, err := parseTrace(out.Traces)
	if err != nil || markers == 0 {
		res.Count("strace_unavailable", 1)
		first := ""
		if len(out.Results) > 0 {
			first = out.Results[0].Kind + " " + capStr(out.Results[0].Err+out.Results[0].Stderr, 300)
		}
		res.Inconclusive = fmt.Sprintf("strace produced no usable log (err=%v, markers=%d, first child result: %s): syscall-log monitor (c2) not run", err, markers, first)
		return
	}
	// baseline = everything seen in benign windows
	baseline := map[string]bool{}
	for i, m := range metas {
		if m.kind == "benign" {
			for _, ev := range windows[i] {
				baseline[ev.Call+" "+ev.Arg] = true
			}
		}
	}
	res.Count("strace_baseline_entries", int64(len(baseline)))
	for i, m := range metas {
		evs, ok := windows[i]
		r := out.Results[i]
		res.Count("scripts_run", 1)
		if !ok {
			// the script's window never opened (child restarted before it): nothing observed
			res.Count("strace_windows_missing", 1)
			continue
		}
		res.Count("strace_windows_checked", 1)
		if m.kind == "benign" {
			continue
		}
		var seen []string
		for _, ev := range evs {
			if baseline[ev.Call+" "+ev.Arg] {
				continue
			}
			seen = append(seen, ev.Line)
		}
		res.Count("syscalls_seen", int64(len(seen)))
		res.AddSig("strace:" + m.kind + ":" + m.tag + ":" + boolStr(len(seen) > 0, "syscalls", "quiet"))
		if r.Kind == "panic" {
			res.Count("panics", 1)
			res.Violate("c16:panic:"+r.Site+":"+core.NormPanic(r.Panic), "script panicked: "+r.Panic, map[string]interface{}{"script": m.src, "stack": r.Stack})
		}
		if len(seen) == 0 {
			continue
		}
		call := strings.SplitN(strings.TrimSpace(seen[0][strings.Index(seen[0], " ")+1:]), "(", 2)[0]
		fp := m.fp
		if fp == "" {
			fp = "c16:syscall:" + call + ":" + m.tag
		}
		touched := ""
		for _, l := range seen {
			if strings.Contains(l, s.Dir) {
				touched = " (the sentinel directory was touched)"
			}
		}
		if len(seen) > 12 {
			seen = seen[:12]
		}
		res.Violate(fp, fmt.Sprintf("syscall log: the script made the controller process issue %s%s", call, touched),
			map[string]interface{}{"window": m.kind + ":" + m.tag, "script": m.src, "syscalls_between_markers": seen, "result_kind": r.Kind, "result": capStr(r.JSON, 300), "error": capStr(r.Err, 300)})
	}
	if _, err := os.Stat(s.X); err == nil {
		res.Violate("c16:escape:file-created", "a script created a file on the controller's filesystem", map[string]interface{}{"file": s.X})
	}
}
