package c13gateway

// The oracle: an HTTPRoute interpretation and the checks of property C13, written from the property
// statement and the Gateway API field documentation. Nothing here calls into pkg/trafficrouting.

import (
	"encoding/json"
	"fmt"
	"regexp"
	"sort"
	"strings"
	"sync"

	"github.com/openkruise/rollouts/api/v1beta1"
	gw "sigs.k8s.io/gateway-api/apis/v1beta1"

	"verif/harness/core"
	"verif/harness/gen"
)

// js is the canonical JSON of a typed value; an empty list / map is the same as an absent one.
func js(v interface{}) string {
	b, _ := json.Marshal(v)
	if s := string(b); s != "[]" && s != "{}" {
		return s
	}
	return "null"
}

// ---- which Service does a backendRef denote ----------------------------------------------------------

// refIsService: the ref denotes the core Service <name> of the route's own namespace
// (group defaults to "", kind to Service, namespace to the route's namespace).
func refIsService(ref *gw.HTTPBackendRef, name string) bool {
	if ref.Group != nil && *ref.Group != "" {
		return false
	}
	if ref.Kind != nil && *ref.Kind != "Service" {
		return false
	}
	if ref.Namespace != nil && string(*ref.Namespace) != nsName {
		return false
	}
	return string(ref.Name) == name
}

func ruleRefs(rule *gw.HTTPRouteRule, name string) bool {
	for i := range rule.BackendRefs {
		if refIsService(&rule.BackendRefs[i], name) {
			return true
		}
	}
	return false
}

// lookalike classifies why something that is not the stable Service could be mistaken for it.
func lookalike(refs []gw.HTTPBackendRef) string {
	for i := range refs {
		r := &refs[i]
		if string(r.Name) != stableSvc || refIsService(r, stableSvc) {
			continue
		}
		switch {
		case r.Kind != nil && *r.Kind != "Service":
			return "same-name-other-kind"
		case r.Group != nil && *r.Group != "":
			return "same-name-other-group"
		default:
			return "same-name-other-namespace"
		}
	}
	return "plain"
}

// One input class, one fingerprint: a backendRef that carries the stable Service's name but denotes something
// else (another namespace / API group) and is nevertheless handled as the stable Service, whatever the phase.
const lookalikeFP = "c13:foreign-ref-with-stable-name-treated-as-stable"

func untargetedFP(fp string, refs []gw.HTTPBackendRef) string {
	if c := lookalike(refs); c == "same-name-other-namespace" || c == "same-name-other-group" {
		return lookalikeFP
	}
	return fp
}

// align matches orig against got as subsequences (earliest match, order preserved).
// It returns for every orig index the matched got index (or -1) and the unmatched got indices.
func align(orig, got []string) (match []int, extra []int) {
	match = make([]int, len(orig))
	used := make([]bool, len(got))
	j := 0
	for i := range orig {
		match[i] = -1
		for k := j; k < len(got); k++ {
			if got[k] == orig[i] {
				match[i], used[k], j = k, true, k+1
				break
			}
		}
	}
	for k := range got {
		if !used[k] {
			extra = append(extra, k)
		}
	}
	return
}

func weightOf(ref *gw.HTTPBackendRef) int32 {
	if ref.Weight == nil {
		return 1 // CRD default
	}
	return *ref.Weight
}

// ---- request-level interpretation --------------------------------------------------------------------

type request struct {
	Path    string            `json:"path"`
	Method  string            `json:"method"`
	Headers map[string]string `json:"headers,omitempty"`
	Query   map[string]string `json:"query,omitempty"`
}

type cond struct {
	name  string
	exact bool
	val   string
	re    *regexp.Regexp
}

type cmatch struct {
	hasPath bool
	ptype   string
	pval    string
	pre     *regexp.Regexp
	headers []cond
	query   []cond
	method  string
}

var (
	reMu    sync.Mutex
	reCache = map[string]*regexp.Regexp{}
)

// full-string regular expression match; an expression that does not compile matches nothing
func compileRe(s string) *regexp.Regexp {
	reMu.Lock()
	defer reMu.Unlock()
	if r, ok := reCache[s]; ok {
		return r
	}
	r, err := regexp.Compile("^(?:" + s + ")$")
	if err != nil {
		r = nil
	}
	reCache[s] = r
	return r
}

func mkCond(name, typ, val string, lower bool) cond {
	if lower {
		name = strings.ToLower(name) // header names are case-insensitive
	}
	c := cond{name: name, val: val, exact: typ != "RegularExpression"}
	if !c.exact {
		c.re = compileRe(val)
	}
	return c
}

func compileMatch(path *gw.HTTPPathMatch, hs []gw.HTTPHeaderMatch, qs []gw.HTTPQueryParamMatch, method *gw.HTTPMethod) *cmatch {
	m := &cmatch{}
	if path != nil {
		m.hasPath = true
		m.ptype, m.pval = "PathPrefix", "/"
		if path.Type != nil {
			m.ptype = string(*path.Type)
		}
		if path.Value != nil {
			m.pval = *path.Value
		}
		if m.ptype == "RegularExpression" {
			m.pre = compileRe(m.pval)
		}
	}
	for _, h := range hs {
		t := "Exact"
		if h.Type != nil {
			t = string(*h.Type)
		}
		m.headers = append(m.headers, mkCond(string(h.Name), t, h.Value, true))
	}
	for _, q := range qs {
		t := "Exact"
		if q.Type != nil {
			t = string(*q.Type)
		}
		m.query = append(m.query, mkCond(string(q.Name), t, q.Value, false))
	}
	if method != nil {
		m.method = string(*method)
	}
	return m
}

func condHolds(c *cond, vals map[string]string) bool {
	v, ok := vals[c.name]
	if !ok {
		return false
	}
	if c.exact {
		return v == c.val
	}
	return c.re != nil && c.re.MatchString(v)
}

// a match holds iff ALL of its conditions hold
func (m *cmatch) accepts(q *request) bool {
	if m.hasPath {
		switch m.ptype {
		case "Exact":
			if q.Path != m.pval {
				return false
			}
		case "RegularExpression":
			if m.pre == nil || !m.pre.MatchString(q.Path) {
				return false
			}
		default: // PathPrefix: element-wise prefix
			p := strings.TrimSuffix(m.pval, "/")
			if !(p == "" || q.Path == p || strings.HasPrefix(q.Path, p+"/")) {
				return false
			}
		}
	}
	for i := range m.headers {
		if !condHolds(&m.headers[i], q.Headers) {
			return false
		}
	}
	for i := range m.query {
		if !condHolds(&m.query[i], q.Query) {
			return false
		}
	}
	if m.method != "" && m.method != q.Method {
		return false
	}
	return true
}

type crule struct{ matches []*cmatch }

func compileRule(r *gw.HTTPRouteRule) *crule {
	c := &crule{}
	for i := range r.Matches {
		m := &r.Matches[i]
		c.matches = append(c.matches, compileMatch(m.Path, m.Headers, m.QueryParams, m.Method))
	}
	return c
}

// a rule accepts a request iff ANY of its matches holds; a rule without matches accepts every request
// ("If no matches are specified, the default is a prefix path match on "/"")
func (r *crule) accepts(q *request) bool {
	if len(r.matches) == 0 {
		return true
	}
	for _, m := range r.matches {
		if m.accepts(q) {
			return true
		}
	}
	return false
}

// alphabet builds the synthetic requests: paths x methods x (value per mentioned header) x (value per mentioned query param).
func alphabet(route *gw.HTTPRoute, steps []step) []request {
	hset, qset := map[string]bool{}, map[string]bool{}
	methods := []string{"GET"}
	addH := func(hs []gw.HTTPHeaderMatch) {
		for _, h := range hs {
			hset[strings.ToLower(string(h.Name))] = true
		}
	}
	addQ := func(qs []gw.HTTPQueryParamMatch) {
		for _, q := range qs {
			qset[string(q.Name)] = true
		}
	}
	for _, r := range route.Spec.Rules {
		for _, m := range r.Matches {
			addH(m.Headers)
			addQ(m.QueryParams)
			if m.Method != nil && len(methods) == 1 {
				methods = append(methods, "POST")
			}
		}
	}
	for _, s := range steps {
		for _, m := range s.Strategy.Matches {
			addH(m.Headers)
			addQ(m.QueryParams)
		}
	}
	var hn, qn []string
	for k := range hset {
		hn = append(hn, k)
	}
	for k := range qset {
		qn = append(qn, k)
	}
	sort.Strings(hn)
	sort.Strings(qn)
	vals := []string{"", "a", "b", "zz"} // "" = absent
	if len(hn)+len(qn) >= 4 {
		vals = []string{"", "a", "b"}
	}
	paths := []string{"/", "/web", "/web/a", "/webx", "/store", "/api", "/other"}
	// enumerate assignments
	names := len(hn) + len(qn)
	total := 1
	for i := 0; i < names; i++ {
		total *= len(vals)
	}
	var out []request
	for a := 0; a < total; a++ {
		h, q := map[string]string{}, map[string]string{}
		x := a
		for i := 0; i < names; i++ {
			v := vals[x%len(vals)]
			x /= len(vals)
			if v == "" {
				continue
			}
			if i < len(hn) {
				h[hn[i]] = v
			} else {
				q[qn[i-len(hn)]] = v
			}
		}
		for _, p := range paths {
			for _, me := range methods {
				out = append(out, request{Path: p, Method: me, Headers: h, Query: q})
			}
		}
	}
	return out
}

// ---- scenario context ---------------------------------------------------------------------------------

type scenario struct {
	route *gw.HTTPRoute
	steps []step
	reqs  []request
	res   *core.CaseResult
}

func (sc *scenario) detail(extra gen.NF) gen.NF {
	d := gen.NF{"route": json.RawMessage(js(sc.route)), "steps": json.RawMessage(js(sc.steps)),
		"provider": gen.NF{"namespace": nsName, "httpRoute": routeName, "stableService": stableSvc, "canaryService": canarySvc}}
	for k, v := range extra {
		d[k] = v
	}
	return d
}

// ---- (a) weight step ---------------------------------------------------------------------------------

func (sc *scenario) checkWeight(got []gw.HTTPRouteRule, w int32, history string) {
	orig := sc.route.Spec.Rules
	res := sc.res
	res.Count("weight_steps_checked", 1)
	bad := func(fp, msg string, i int) {
		if fp != lookalikeFP {
			fp = "c13:weight:" + fp
		}
		res.Violate(fp, msg, sc.detail(gen.NF{"history": history, "weight": w, "ruleIndex": i, "observedRules": json.RawMessage(js(got))}))
	}
	if len(got) != len(orig) {
		bad("rule-count", fmt.Sprintf("weight step %d%%: route has %d rules, the user wrote %d", w, len(got), len(orig)), -1)
		return
	}
	for i := range orig {
		o, g := &orig[i], &got[i]
		if !ruleRefs(o, stableSvc) {
			res.Count("rules_not_targeting_stable_checked", 1)
			if js(o) != js(g) {
				bad(untargetedFP("untargeted-rule-altered", o.BackendRefs), fmt.Sprintf("weight step %d%%: rule %d does not reference the stable Service but was altered (%s)", w, i, gen.FirstDiff("", o, g)), i)
			}
			continue
		}
		res.Count("rules_targeting_stable_checked", 1)
		if js(o.Matches) != js(g.Matches) || js(o.Filters) != js(g.Filters) {
			bad("rule-conditions-altered", fmt.Sprintf("weight step %d%%: matches/filters of rule %d changed", w, i), i)
		}
		var rest []gw.HTTPBackendRef
		ncanary := 0
		for j := range g.BackendRefs {
			ref := &g.BackendRefs[j]
			if refIsService(ref, canarySvc) {
				ncanary++
				if weightOf(ref) != w {
					bad("canary-weight", fmt.Sprintf("weight step %d%%: rule %d gives the canary Service weight %d", w, i, weightOf(ref)), i)
				}
				continue
			}
			rest = append(rest, *ref)
		}
		if ncanary != 1 {
			bad("canary-ref-count", fmt.Sprintf("weight step %d%%: rule %d has %d canary backendRefs, want 1", w, i, ncanary), i)
		}
		if len(rest) != len(o.BackendRefs) {
			bad("other-ref-count", fmt.Sprintf("weight step %d%%: rule %d has %d non-canary backendRefs, the user wrote %d", w, i, len(rest), len(o.BackendRefs)), i)
			continue
		}
		for j := range o.BackendRefs {
			or, gr := o.BackendRefs[j], rest[j]
			if refIsService(&or, stableSvc) {
				if weightOf(&gr) != 100-w {
					bad("stable-weight", fmt.Sprintf("weight step %d%%: rule %d gives the stable Service weight %d, want %d", w, i, weightOf(&gr), 100-w), i)
				}
				or.Weight, gr.Weight = nil, nil
				if js(or) != js(gr) {
					bad("stable-ref-altered", fmt.Sprintf("weight step %d%%: rule %d: stable backendRef changed beyond its weight (%s)", w, i, gen.FirstDiff("", or, gr)), i)
				}
				continue
			}
			res.Count("other_backendrefs_checked", 1)
			if js(or) != js(gr) {
				bad(untargetedFP("other-ref-altered", []gw.HTTPBackendRef{or}), fmt.Sprintf("weight step %d%%: rule %d: backendRef %d is not the stable Service but was altered (%s)", w, i, j, gen.FirstDiff("", or, gr)), i)
			}
		}
	}
}

// ---- (b) match step ----------------------------------------------------------------------------------

func compileUser(ms []v1beta1.HttpRouteMatch) (path, nonPath []*cmatch) {
	for i := range ms {
		m := &ms[i]
		c := compileMatch(m.Path, m.Headers, m.QueryParams, nil)
		if m.Path != nil {
			path = append(path, c)
		} else {
			nonPath = append(nonPath, c)
		}
	}
	return
}

func anyAccepts(ms []*cmatch, q *request) bool {
	for _, m := range ms {
		if m.accepts(q) {
			return true
		}
	}
	return false
}

func (sc *scenario) checkMatch(got []gw.HTTPRouteRule, user []v1beta1.HttpRouteMatch, history string) {
	orig := sc.route.Spec.Rules
	res := sc.res
	res.Count("match_steps_checked", 1)
	cls := stepClass(user)
	bad := func(fp, msg string, extra gen.NF) {
		d := gen.NF{"history": history, "stepMatches": json.RawMessage(js(user)), "observedRules": json.RawMessage(js(got))}
		for k, v := range extra {
			d[k] = v
		}
		if fp != lookalikeFP {
			fp = "c13:match:" + fp
		}
		res.Violate(fp, msg, sc.detail(d))
	}
	// original rules kept, in order, byte-identical; everything else is a generated rule
	var ojs, gjs []string
	for i := range orig {
		ojs = append(ojs, js(orig[i]))
	}
	for i := range got {
		gjs = append(gjs, js(got[i]))
	}
	matched, extra := align(ojs, gjs)
	for i, k := range matched {
		res.Count("original_rules_kept_checked", 1)
		if k < 0 {
			bad("original-rule-not-kept", fmt.Sprintf("match step: user rule %d is not in the route any more (removed or altered)", i), gen.NF{"ruleIndex": i})
		}
	}
	var generated []gw.HTTPRouteRule
	for _, k := range extra {
		g := got[k]
		if ruleRefs(&g, canarySvc) {
			generated = append(generated, g)
			continue
		}
		fp := "generated-rule-without-canary-backend"
		for j := range g.BackendRefs {
			if string(g.BackendRefs[j].Name) == canarySvc { // derived from a ref that only looks like the stable Service
				fp = lookalikeFP
			}
		}
		bad(fp, fmt.Sprintf("match step: rule %d was not written by the user and does not target the canary Service", k), gen.NF{"generatedRule": json.RawMessage(js(g))})
	}
	// request-level check of every generated rule
	upath, unon := compileUser(user)
	var cands []*crule
	var candIdx []int
	for i := range orig {
		if ruleRefs(&orig[i], stableSvc) {
			cands = append(cands, compileRule(&orig[i]))
			candIdx = append(candIdx, i)
		}
	}
	nreq := len(sc.reqs)
	P, N := make([]bool, nreq), make([]bool, nreq)
	for qi := range sc.reqs {
		P[qi] = anyAccepts(upath, &sc.reqs[qi])
		N[qi] = anyAccepts(unon, &sc.reqs[qi])
	}
	C := make([][]bool, len(cands))
	for k, c := range cands {
		C[k] = make([]bool, nreq)
		for qi := range sc.reqs {
			C[k][qi] = c.accepts(&sc.reqs[qi])
		}
	}
	covered := make([]bool, nreq)
	for gi := range generated {
		g := &generated[gi]
		res.Count("canary_rules_checked", 1)
		if ruleRefs(g, stableSvc) {
			bad("canary-rule-targets-stable", "match step: a generated canary rule also sends traffic to the stable Service", gen.NF{"generatedRule": json.RawMessage(js(g))})
		}
		if len(g.Matches) > 8 {
			res.Count("obs_generated_rule_exceeds_crd_maxItems_8_matches", 1)
		}
		for _, m := range g.Matches {
			seen := map[string]bool{}
			for _, h := range m.Headers {
				n := strings.ToLower(string(h.Name))
				if seen["h:"+n] {
					res.Count("obs_generated_match_repeats_a_header_name", 1)
				}
				seen["h:"+n] = true
			}
			for _, q := range m.QueryParams {
				if seen["q:"+string(q.Name)] {
					res.Count("obs_generated_match_repeats_a_query_name", 1)
				}
				seen["q:"+string(q.Name)] = true
			}
		}
		cg := compileRule(g)
		A := make([]bool, nreq)
		nacc := 0
		for qi := range sc.reqs {
			A[qi] = cg.accepts(&sc.reqs[qi])
			if A[qi] {
				nacc++
				covered[qi] = true
			}
		}
		res.Count("requests_evaluated", int64(nreq))
		res.Count("requests_accepted_by_canary_rules", int64(nacc))
		// is there an original rule this one can have been derived from?
		bestK, bestBad, bestWitness := -1, nreq+1, -1
		try := func(k int) {
			nb, wit := 0, -1
			for qi := 0; qi < nreq; qi++ {
				if !A[qi] {
					continue
				}
				ok := P[qi] || (N[qi] && k >= 0 && C[k][qi])
				if !ok {
					nb++
					if wit < 0 {
						wit = qi
					}
				}
			}
			if nb < bestBad {
				bestK, bestBad, bestWitness = k, nb, wit
			}
		}
		if len(cands) == 0 {
			try(-1)
		}
		for k := range cands {
			try(k)
		}
		if bestBad > 0 {
			q := sc.reqs[bestWitness]
			fp := "canary-accepts-foreign-request:" + cls
			if len(g.Matches) == 0 {
				fp = "canary-rule-without-matches"
			}
			derived := -1
			if bestK >= 0 {
				derived = candIdx[bestK]
			}
			why := "no match of the step accepts it"
			if N[bestWitness] {
				why = "a header/query match of the step accepts it, but the original rule does not"
			}
			bad(fp, fmt.Sprintf("match step (%s): a generated canary rule accepts %s %s headers=%v query=%v: %s (%d of %d requests wrongly accepted)", cls, q.Method, q.Path, q.Headers, q.Query, why, bestBad, nacc),
				gen.NF{"generatedRule": json.RawMessage(js(g)), "derivedFromUserRule": derived, "witnessRequest": q})
		}
	}
	// observation only (the property is one-directional): requests the step selects that no canary rule accepts
	if len(cands) > 0 {
		gap := false
		for qi := 0; qi < nreq && !gap; qi++ {
			if covered[qi] {
				continue
			}
			if P[qi] {
				gap = true
			}
			for k := range cands {
				if N[qi] && C[k][qi] {
					gap = true
				}
			}
		}
		if gap {
			res.Count("obs_match_steps_with_selected_request_not_accepted_by_any_canary_rule", 1)
		}
	}
}

// ---- (c) finalise ------------------------------------------------------------------------------------

// a rule modulo the weight of its stable backendRef
func modStableWeight(r gw.HTTPRouteRule) string {
	c := r.DeepCopy()
	for i := range c.BackendRefs {
		if refIsService(&c.BackendRefs[i], stableSvc) {
			c.BackendRefs[i].Weight = nil
		}
	}
	return js(c)
}

// what makes an observed rule recognisable as (an altered form of) a user rule
func ruleIdentity(r *gw.HTTPRouteRule) string {
	return js(r.Matches) + "|" + js(r.Filters)
}

func userRuleClass(r *gw.HTTPRouteRule) string {
	switch {
	case len(r.BackendRefs) == 0:
		return "backendless"
	case ruleRefs(r, stableSvc):
		return "targets-stable"
	}
	return "foreign:" + lookalike(r.BackendRefs)
}

func (sc *scenario) checkFinalise(got []gw.HTTPRouteRule, history string) {
	orig := sc.route.Spec.Rules
	res := sc.res
	res.Count("finalise_checked", 1)
	bad := func(fp, msg string) {
		if fp != lookalikeFP {
			fp = "c13:finalise:" + fp
		}
		res.Violate(fp, msg, sc.detail(gen.NF{"history": history, "observedRules": json.RawMessage(js(got))}))
	}
	for i := range got {
		if ruleRefs(&got[i], canarySvc) {
			bad("canary-ref-left", fmt.Sprintf("after Finalise rule %d still references the canary Service", i))
		}
	}
	var ojs, gjs []string
	for i := range orig {
		ojs = append(ojs, modStableWeight(orig[i]))
	}
	for i := range got {
		// a left-over canary ref is reported above, once; the rule is then compared without it
		g := got[i].DeepCopy()
		var refs []gw.HTTPBackendRef
		for j := range g.BackendRefs {
			if !refIsService(&g.BackendRefs[j], canarySvc) {
				refs = append(refs, g.BackendRefs[j])
			}
		}
		g.BackendRefs = refs
		gjs = append(gjs, modStableWeight(*g))
	}
	matched, extra := align(ojs, gjs)
	// an unmatched user rule and an unmatched observed rule with the same matches and filters: the user rule was altered
	usedExtra := map[int]bool{}
	for i, k := range matched {
		res.Count("user_rules_restored_checked", 1)
		if k >= 0 {
			continue
		}
		pair := -1
		for _, e := range extra {
			if !usedExtra[e] && ruleIdentity(&got[e]) == ruleIdentity(&orig[i]) {
				pair = e
				break
			}
		}
		cls := userRuleClass(&orig[i])
		if pair >= 0 {
			usedExtra[pair] = true
			var x, y interface{}
			_ = json.Unmarshal([]byte(ojs[i]), &x)
			_ = json.Unmarshal([]byte(gjs[pair]), &y)
			fp := "user-rule-altered:" + gen.FirstDiff("", x, y)
			if strings.HasPrefix(cls, "foreign:same-name-other-namespace") || strings.HasPrefix(cls, "foreign:same-name-other-group") {
				fp = lookalikeFP
			}
			bad(fp, fmt.Sprintf("after Finalise user rule %d (%s) differs from what the user wrote (modulo the stable weight): %s", i, cls, gen.FirstDiff("", x, y)))
			continue
		}
		bad("user-rule-removed:"+cls, fmt.Sprintf("after Finalise user rule %d (%s) is gone", i, cls))
	}
	for _, e := range extra {
		if !usedExtra[e] && !ruleRefs(&got[e], canarySvc) {
			bad("generated-rule-left", fmt.Sprintf("after Finalise rule %d, which the user did not write, remains", e))
		}
	}
}

// ---- frame on everything that is not spec.rules -----------------------------------------------------------

func outsideRules(r *gw.HTTPRoute) string {
	return js(gen.NF{"labels": r.Labels, "annotations": r.Annotations, "finalizers": r.Finalizers, "owners": r.OwnerReferences,
		"parentRefs": r.Spec.ParentRefs, "hostnames": r.Spec.Hostnames, "name": r.Name, "namespace": r.Namespace})
}

func (sc *scenario) checkFrame(cur *gw.HTTPRoute, history string) {
	sc.res.Count("frame_checked", 1)
	if a, b := outsideRules(sc.route), outsideRules(cur); a != b {
		var x, y interface{}
		_ = json.Unmarshal([]byte(a), &x)
		_ = json.Unmarshal([]byte(b), &y)
		sc.res.Violate("c13:frame:outside-rules-altered:"+gen.FirstDiff("", x, y), "the provider changed a part of the HTTPRoute other than spec.rules",
			sc.detail(gen.NF{"history": history, "before": json.RawMessage(a), "after": json.RawMessage(b)}))
	}
}
