// Package advplug plugs the real advanced deployment controller (pkg/controller/deployment) into every simulated world,
// which makes partition-style Deployments (rolled by that controller through ReplicaSets instead of by the native
// Deployment controller) available to the closed-loop scenarios.
package advplug

import (
	"context"

	apps "k8s.io/api/apps/v1"
	apierrors "k8s.io/apimachinery/pkg/api/errors"
	"k8s.io/apimachinery/pkg/runtime/schema"
	"k8s.io/apimachinery/pkg/types"
	"k8s.io/client-go/util/workqueue"
	"sigs.k8s.io/controller-runtime/pkg/client"
	"sigs.k8s.io/controller-runtime/pkg/event"
	"sigs.k8s.io/controller-runtime/pkg/handler"
	"sigs.k8s.io/controller-runtime/pkg/reconcile"

	"verif/harness/drivers/c17advdeploy"
	"verif/harness/drivers/e1"
	"verif/harness/sim"
)

// ownerHandler enqueues the controller-owner Deployment of a ReplicaSet (what EnqueueRequestForOwner{IsController: true,
// OwnerType: Deployment} does in the real controller).
type ownerHandler struct{}

func (ownerHandler) enqueue(o client.Object, q workqueue.RateLimitingInterface) {
	if o == nil {
		return
	}
	for _, ref := range o.GetOwnerReferences() {
		if ref.Controller != nil && *ref.Controller && ref.Kind == "Deployment" {
			q.Add(reconcile.Request{NamespacedName: types.NamespacedName{Namespace: o.GetNamespace(), Name: ref.Name}})
		}
	}
}
func (h ownerHandler) Create(e event.CreateEvent, q workqueue.RateLimitingInterface) {
	h.enqueue(e.Object, q)
}
func (h ownerHandler) Update(e event.UpdateEvent, q workqueue.RateLimitingInterface) {
	h.enqueue(e.ObjectOld, q)
	h.enqueue(e.ObjectNew, q)
}
func (h ownerHandler) Delete(e event.DeleteEvent, q workqueue.RateLimitingInterface) {
	h.enqueue(e.Object, q)
}
func (h ownerHandler) Generic(e event.GenericEvent, q workqueue.RateLimitingInterface) {
	h.enqueue(e.Object, q)
}

func init() {
	sim.ExtraControllerFactories = append(sim.ExtraControllerFactories, func(w *sim.World) *sim.Controller {
		c := w.NewExtraController("advdeploy", "adv-deploy-ctrl")
		// the controller refuses to work when the operator's MutatingWebhookConfiguration is missing
		if err := w.Store.As("installer").Create(context.TODO(), c17advdeploy.ProtectionWebhookConfig()); err != nil && !apierrors.IsAlreadyExists(err) {
			panic("advplug: " + err.Error())
		}
		rec, refresh := c17advdeploy.NewRealReconciler(c.Client)
		c.Rec = reconcile.Func(func(ctx context.Context, req reconcile.Request) (reconcile.Result, error) {
			if err := refresh(); err != nil { // plays the informer
				return reconcile.Result{}, err
			}
			return rec.Reconcile(ctx, req)
		})
		// re-stated from pkg/controller/deployment/controller.go:add (inline predicate, trusted)
		c.AddBinding(schema.GroupKind{Group: "apps", Kind: "Deployment"}, &handler.EnqueueRequestForObject{}, func(o, n client.Object) bool {
			od, ok1 := o.(*apps.Deployment)
			nd, ok2 := n.(*apps.Deployment)
			if !ok1 || !ok2 {
				return true
			}
			// deploymentutil.IsUnderRolloutControl
			if nd.Annotations["batchrelease.rollouts.kruise.io/control-info"] == "" || nd.Spec.Strategy.Type != apps.RecreateDeploymentStrategyType || !nd.Spec.Paused {
				return false
			}
			if od.Generation != nd.Generation || nd.DeletionTimestamp != nil {
				return true
			}
			if len(od.Annotations) != len(nd.Annotations) {
				return true
			}
			for k, v := range od.Annotations {
				if nd.Annotations[k] != v {
					return true
				}
			}
			return false
		})
		c.AddBinding(schema.GroupKind{Group: "apps", Kind: "ReplicaSet"}, ownerHandler{}, nil)
		return c
	})
	e1.ExtraFamilies = append(e1.ExtraFamilies, "deployment/partition")
}
