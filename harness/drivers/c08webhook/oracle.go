package c08webhook

// The decision table of C08, written from the property statement (properties.jsonl) — it never calls a
// helper of the code under test. Inputs are the raw JSON objects and the generator's description of the
// Rollouts / ReplicaSets in the namespace.

import (
	"encoding/json"
	"fmt"
	"math"
	"reflect"
	"sort"
	"strconv"
	"strings"
)

const (
	clsUnchanged    = "unchanged"
	clsHeld         = "held"
	clsRepaused     = "repaused"
	clsUndetermined = "undetermined"
)

type expectation struct {
	Class     string   `json:"class"`
	Reason    string   `json:"reason"`
	Names     []string `json:"rolloutNames,omitempty"` // held: the active referencing Rollouts; undetermined: every referencing Rollout
	InProgDep bool     `json:"deploymentInProgress,omitempty"`
	Style     string   `json:"style,omitempty"`
	O1        string   `json:"o1,omitempty"`
	Shape     string   `json:"-"`
}

// ---- JSON helpers --------------------------------------------------------------------------------

func strMap(o obj, path ...string) map[string]string {
	m := sub(o, path...)
	out := map[string]string{}
	for k, v := range m {
		if s, ok := v.(string); ok {
			out[k] = s
		}
	}
	return out
}

func numAt(o obj, path ...string) (float64, bool) {
	if len(path) == 0 {
		return 0, false
	}
	m := sub(o, path[:len(path)-1]...)
	if m == nil {
		return 0, false
	}
	f, ok := m[path[len(path)-1]].(float64)
	return f, ok
}

func strAt(o obj, path ...string) string {
	m := sub(o, path[:len(path)-1]...)
	if m == nil {
		return ""
	}
	s, _ := m[path[len(path)-1]].(string)
	return s
}

// prune drops null / empty-map / empty-list members: for Kubernetes objects they mean the same as absence.
func prune(v interface{}) interface{} {
	switch t := v.(type) {
	case obj:
		o := obj{}
		for k, x := range t {
			if p := prune(x); p != nil {
				o[k] = p
			}
		}
		if len(o) == 0 {
			return nil
		}
		return o
	case []interface{}:
		if len(t) == 0 {
			return nil
		}
		o := make([]interface{}, len(t))
		for i, x := range t {
			o[i] = prune(x)
		}
		return o
	}
	return v
}

func normTemplate(o obj) interface{} {
	t := sub(o, "spec", "template")
	if t == nil {
		return nil
	}
	c := cp(t).(obj)
	if l := sub(c, "metadata", "labels"); l != nil {
		delete(l, keyHash)
	}
	return prune(c)
}

func esc(s string) string {
	return strings.ReplaceAll(strings.ReplaceAll(s, "~", "~0"), "/", "~1")
}

// diffPaths lists the JSON-pointer paths of the leaves that differ; absent == null == {} == [].
func diffPaths(path string, a, b interface{}, out *[]string) {
	a, b = prune(a), prune(b)
	if reflect.DeepEqual(a, b) {
		return
	}
	am, aIsMap := a.(obj)
	bm, bIsMap := b.(obj)
	if (aIsMap || a == nil) && (bIsMap || b == nil) {
		keys := map[string]bool{}
		for k := range am {
			keys[k] = true
		}
		for k := range bm {
			keys[k] = true
		}
		ks := make([]string, 0, len(keys))
		for k := range keys {
			ks = append(ks, k)
		}
		sort.Strings(ks)
		for _, k := range ks {
			diffPaths(path+"/"+esc(k), am[k], bm[k], out)
		}
		return
	}
	as, aIsS := a.([]interface{})
	bs, bIsS := b.([]interface{})
	if aIsS && bIsS && len(as) == len(bs) {
		for i := range as {
			diffPaths(path+"/"+strconv.Itoa(i), as[i], bs[i], out)
		}
		return
	}
	*out = append(*out, path)
}

func parseMark(s string) string {
	if s == "" {
		return ""
	}
	var m struct {
		RolloutName string `json:"rolloutName"`
	}
	if json.Unmarshal([]byte(s), &m) != nil {
		return ""
	}
	return m.RolloutName
}

// ---- facts ---------------------------------------------------------------------------------------

func isSelected(k kindInfo, o obj) bool {
	l := strMap(o, "metadata", "labels")
	if _, has := l[keySelector]; !has {
		return false
	}
	if k.Kind == "Deployment" && l[keyControlPlane] == "controller-manager" {
		return false
	}
	return true
}

// releaseChange under one reading of "rollout-id" (from = "annotations" | "labels").
// undet: the rollout-id was removed and the template did not change — the statement does not say which clause applies.
func releaseChange(oldO, newO obj, from string, tmplChanged bool) (rel, undet bool) {
	oldID := strMap(oldO, "metadata", from)[keyRolloutID]
	newID := strMap(newO, "metadata", from)[keyRolloutID]
	if newID != "" {
		return newID != oldID, false
	}
	if tmplChanged {
		return true, false
	}
	return false, oldID != ""
}

func specReplicas(o obj) float64 { // Kubernetes default: 1
	if r, ok := numAt(o, "spec", "replicas"); ok {
		return r
	}
	return 1
}

type roFacts struct {
	referencing []string // every Rollout in the namespace whose workloadRef names this workload (group, kind, name)
	active      []string
	activeTR    int
	trOf        map[string]bool
	unclear     string // non-empty: some referencing Rollout's activeness is not determined by the statement
	emptyStrat  int
	shape       string
}

func rolloutFacts(in *caseIn) roFacts {
	var f roFacts
	var shape []string
	for _, r := range in.Rollouts {
		grp := r.APIVersion
		if i := strings.Index(grp, "/"); i >= 0 {
			grp = grp[:i]
		} else {
			grp = ""
		}
		if r.NS != wlNS || r.Kind != in.K.Kind || r.RefName != wlName || grp != in.K.Group {
			shape = append(shape, "other")
			continue
		}
		f.referencing = append(f.referencing, r.Name)
		tag := r.Strategy
		if r.TR {
			tag += "+tr"
		}
		disabledDone := r.Disabled && r.Phase == "Disabled"
		switch {
		case r.Deleting:
			shape = append(shape, "ref:deleting")
		case disabledDone:
			shape = append(shape, "ref:disabled")
		case r.Disabled != (r.Phase == "Disabled"):
			f.unclear = "disabled-in-transition"
			shape = append(shape, "ref:dis-transition:"+tag)
		// (a reference that names another version of the workload's API group is a reference like any other: the Rollout
		// controller's finder resolves workloadRef by group, kind and name, so such a Rollout does drive the workload and
		// the webhook has to hold the workload for it)
		case r.Strategy == "empty":
			f.emptyStrat++
			shape = append(shape, "ref:empty-strategy")
		default:
			f.active = append(f.active, r.Name)
			if r.TR {
				f.activeTR++
				if f.trOf == nil {
					f.trOf = map[string]bool{}
				}
				f.trOf[r.Name] = true
			}
			shape = append(shape, "ref:active:"+tag+":"+phaseTag(r.Phase))
		}
	}
	sort.Strings(shape)
	f.shape = fmt.Sprintf("n%d[%s]", len(in.Rollouts), strings.Join(shape, ","))
	return f
}

func phaseTag(p string) string {
	if p == "" {
		return "nophase"
	}
	return p
}

// activeRSCount: owned, non-deleting ReplicaSets that are asked to run pods (spec) / that are asked to or still do (pods).
func activeRSCount(in *caseIn) (bySpec, byPods int) {
	for _, rs := range in.RSs {
		if !rs.Owned || rs.Deleting {
			continue
		}
		if rs.Replicas > 0 {
			bySpec++
		}
		if rs.Replicas > 0 || rs.StatusReplicas > 0 {
			byPods++
		}
	}
	return
}

// revisionFacts answers "does the workload run a single revision?".
// hard: not determined at all; trUnclear: the observable facts disagree (matters only under traffic routing).
func revisionFacts(in *caseIn) (multi bool, hard, trUnclear string) {
	switch in.K.Kind {
	case "Deployment":
		bySpec, byPods := activeRSCount(in)
		if bySpec == 0 {
			return false, "deployment-without-active-replicaset", ""
		}
		multi = bySpec > 1
		if (bySpec == 1) != (byPods == 1) {
			trUnclear = "replicaset-scaled-to-zero-still-has-pods"
		}
	case "DaemonSet":
		d, _ := numAt(in.New, "status", "desiredNumberScheduled")
		u, _ := numAt(in.New, "status", "updatedNumberScheduled")
		multi = d != u
	default:
		r, _ := numAt(in.New, "status", "replicas")
		u, _ := numAt(in.New, "status", "updatedReplicas")
		multi = r != u
		cur, upd := strAt(in.New, "status", "currentRevision"), strAt(in.New, "status", "updateRevision")
		if cur != "" && upd != "" && (cur != upd) != multi {
			trUnclear = "status-pod-counts-and-revisions-disagree"
		}
	}
	return
}

func contains(xs []string, s string) bool {
	for _, x := range xs {
		if x == s {
			return true
		}
	}
	return false
}

// undefaulted names the part of the object that the owning API machinery (built-in defaulting for apps/v1, Kruise's
// defaulting webhook — which runs before the rollout webhook — for apps.kruise.io) would have filled in before the
// rollout webhook sees it. "" = the object has the shape a real API server hands over.
func undefaulted(k kindInfo, o obj) string {
	var why []string
	spec := sub(o, "spec")
	if k.Kind != "DaemonSet" {
		if _, ok := spec["replicas"]; !ok {
			why = append(why, "spec.replicas absent")
		}
	}
	block := "updateStrategy"
	if k.Kind == "Deployment" {
		block = "strategy"
	}
	st := sub(spec, block)
	t, _ := st["type"].(string)
	switch {
	case st == nil:
		why = append(why, "spec."+block+" absent")
	case t == "":
		why = append(why, "spec."+block+".type absent")
	case t == "RollingUpdate" && k.Kind != "CloneSet":
		if _, ok := st["rollingUpdate"].(obj); !ok {
			why = append(why, "spec."+block+".rollingUpdate absent with type RollingUpdate")
		}
	}
	return strings.Join(why, " + ")
}

// ---- the decision table --------------------------------------------------------------------------

func decide(in *caseIn) *expectation {
	f := rolloutFacts(in)
	e := &expectation{Shape: f.shape}
	undet := func(why string) *expectation {
		e.Class, e.Reason, e.Names = clsUndetermined, why, f.referencing
		return e
	}
	unchanged := func(why string) *expectation { e.Class, e.Reason = clsUnchanged, why; return e }

	newAnno := strMap(in.New, "metadata", "annotations")
	tmplChanged := !reflect.DeepEqual(normTemplate(in.Old), normTemplate(in.New))
	relA, relAUndet := releaseChange(in.Old, in.New, "annotations", tmplChanged)
	relL, _ := releaseChange(in.Old, in.New, "labels", tmplChanged)
	oldLab, newLab := strMap(in.Old, "metadata", "labels")[keyRolloutID], strMap(in.New, "metadata", "labels")[keyRolloutID]

	// row 0: the API server calls the webhook when old OR new carries the selector label; the statement only
	// speaks about "a workload selected by the webhook" — removal of the label in this very update is not determined.
	if !isSelected(in.K, in.New) {
		return undet("selector-label-removed")
	}
	// observation O1: a rollout-id carried as a label, where the label reading disagrees with the annotation reading.
	if (oldLab != "" || newLab != "") && relL != relA {
		lc := "unchanged"
		switch {
		case oldLab == "":
			lc = "set"
		case newLab == "":
			lc = "removed"
		case oldLab != newLab:
			lc = "changed"
		}
		e.O1 = fmt.Sprintf("label-rollout-id %s, template changed=%v, annotation reading says release=%v, label reading says release=%v", lc, tmplChanged, relA, relL)
		return undet("o1-label-rollout-id")
	}

	// rows 1-3: a Deployment that is in the middle of a release (carries the in-progress mark)
	if in.K.Kind == "Deployment" && newAnno[keyInProgress] != "" {
		e.InProgDep = true
		var st struct {
			RollingStyle string `json:"rollingStyle"`
		}
		_ = json.Unmarshal([]byte(newAnno[keyDepStrategy]), &st)
		switch {
		case strings.EqualFold(st.RollingStyle, "partition"):
			e.Style = "partition"
		case newAnno[keyOrigStrategy] != "":
			e.Style = "bluegreen"
		default:
			e.Style = "canary"
		}
		mark := parseMark(newAnno[keyInProgress])
		markActive := f.unclear == "" && contains(f.active, mark)
		// a NEW release change on top of the running release: is the statement's first sentence determined?
		holdUndet := ""
		if relA && markActive {
			multi, hard, trU := revisionFacts(in)
			switch {
			case specReplicas(in.New) == 0:
				holdUndet = "zero-replicas"
			case hard != "":
				holdUndet = hard
			case f.trOf[mark] && (multi || trU != ""):
				holdUndet = "traffic-routing-multi-revision"
			}
		}
		if e.Style == "bluegreen" {
			// the un-pause clause names canary- and partition-style only
			switch {
			case relAUndet:
				return undet("bluegreen-in-progress-release-change")
			case !relA:
				return unchanged("bluegreen-in-progress-no-release-change")
			case !markActive:
				return undet("in-progress-mark-without-active-rollout")
			case holdUndet != "":
				return undet("bluegreen-in-progress-release-change:" + holdUndet)
			}
			e.Class, e.Reason, e.Names = clsHeld, "in-progress-bluegreen-release-change", []string{mark}
			return e
		}
		if !markActive {
			// "in the middle of a release" vs "without a matching active Rollout … admitted unchanged": conflict
			return undet("in-progress-mark-without-active-rollout")
		}
		if e.Style == "partition" && relA && holdUndet == "" {
			// the hold of a partition-style release is `paused` inside the deployment-strategy annotation (spec.paused is always true there)
			e.Class, e.Reason, e.Names = clsHeld, "in-progress-partition-release-change", []string{mark}
			return e
		}
		paused, _ := sub(in.New, "spec")["paused"].(bool)
		if !paused {
			e.Class, e.Reason = clsRepaused, e.Style
			return e
		}
		return unchanged("in-progress-already-paused")
	}

	// row 4: not a release change
	if relAUndet {
		return undet("rollout-id-removed-template-unchanged")
	}
	if !relA {
		return unchanged("no-release-change")
	}
	// row 5: no active Rollout references the workload
	if f.unclear != "" {
		return undet("rollout-" + f.unclear)
	}
	if len(f.active) == 0 {
		return unchanged("no-active-rollout")
	}
	if f.emptyStrat > 0 {
		return undet("active-and-empty-strategy-rollouts")
	}
	// row 6: running replicas
	switch in.K.Kind {
	case "DaemonSet":
		if d, ok := numAt(in.New, "status", "desiredNumberScheduled"); !ok || d == 0 {
			return undet("daemonset-nothing-scheduled")
		}
	default:
		if specReplicas(in.New) == 0 {
			// no running replicas: the statement does not oblige a hold and does not forbid one
			return undet("zero-replicas")
		}
	}
	if in.K.Kind == "DaemonSet" || in.K.Kind == "StatefulSet" {
		if strAt(in.New, "spec", "updateStrategy", "type") == "OnDelete" {
			return undet("ondelete-update-strategy")
		}
	}
	// row 7: traffic routing needs a single running revision
	multi, hard, trU := revisionFacts(in)
	if hard != "" {
		return undet(hard)
	}
	if f.activeTR > 0 && trU != "" {
		return undet(trU)
	}
	if multi && f.activeTR > 0 {
		if f.activeTR != len(f.active) {
			return undet("several-active-rollouts-differ-in-traffic-routing")
		}
		if in.K.Kind == "Deployment" || in.K.Kind == "CloneSet" {
			return unchanged("traffic-routing-multi-revision")
		}
		return undet("traffic-routing-multi-revision-" + in.K.Tag)
	}
	// row 8: hold it back and mark it
	e.Class, e.Reason, e.Names = clsHeld, "release-change", f.active
	return e
}

// ---- judging the admitted object -----------------------------------------------------------------

var (
	pMark     = "/metadata/annotations/" + esc(keyInProgress)
	pStable   = "/metadata/labels/" + esc(keyStableRev)
	pDepStrat = "/metadata/annotations/" + esc(keyDepStrategy)
)

func holdPaths(k kindInfo) []string {
	switch k.Kind {
	case "Deployment":
		return []string{"/spec/paused"}
	case "CloneSet":
		return []string{"/spec/updateStrategy/partition"}
	case "DaemonSet":
		return []string{"/spec/updateStrategy/rollingUpdate/partition"}
	}
	return []string{"/spec/updateStrategy/rollingUpdate/partition", "/spec/updateStrategy/type"}
}

func isStrategyPath(p string) bool {
	return p == pDepStrat || p == "/spec/strategy" || strings.HasPrefix(p, "/spec/strategy/")
}

// heldBack judges semantically: can the native controller touch a pod of the admitted object?
func heldBack(k kindInfo, adm obj) (bool, string) {
	switch k.Kind {
	case "Deployment":
		p, _ := sub(adm, "spec")["paused"].(bool)
		return p, "paused"
	case "CloneSet":
		replicas := specReplicas(adm)
		us := sub(adm, "spec", "updateStrategy")
		if us == nil {
			return false, "partition"
		}
		switch v := us["partition"].(type) {
		case string:
			if !strings.HasSuffix(v, "%") {
				return false, "partition"
			}
			pct, err := strconv.Atoi(strings.TrimSuffix(v, "%"))
			if err != nil {
				return false, "partition"
			}
			return math.Ceil(replicas*float64(pct)/100) >= replicas, "partition"
		case float64:
			return v >= replicas, "partition"
		}
		return false, "partition"
	case "DaemonSet":
		d, _ := numAt(adm, "status", "desiredNumberScheduled")
		p, ok := numAt(adm, "spec", "updateStrategy", "rollingUpdate", "partition")
		return ok && p >= math.Max(d, 1), "partition"
	default:
		t := strAt(adm, "spec", "updateStrategy", "type")
		p, ok := numAt(adm, "spec", "updateStrategy", "rollingUpdate", "partition")
		return ok && (t == "" || t == "RollingUpdate") && p >= specReplicas(adm), "partition"
	}
}

type verdict struct {
	fp, msg string
}

// judge compares the admitted object with the expectation; observed is what the handler did in the table's vocabulary.
func judge(in *caseIn, e *expectation, sub0, adm obj) (observed string, diffs []string, vs []verdict) {
	diffPaths("", sub0, adm, &diffs)
	k := in.K
	tag := k.Tag
	markBefore := strMap(sub0, "metadata", "annotations")[keyInProgress]
	markAfter := strMap(adm, "metadata", "annotations")[keyInProgress]
	held, knob := heldBack(k, adm)
	hp := holdPaths(k)
	touchedHold := false
	for _, d := range diffs {
		if contains(hp, d) || d == pMark {
			touchedHold = true
		}
	}
	switch {
	case len(diffs) == 0 && e.Class == clsHeld && held && contains(e.Names, parseMark(markAfter)):
		observed = "already-held"
	case len(diffs) == 0:
		observed = clsUnchanged
	case markAfter != markBefore && held:
		observed = clsHeld
	case e.InProgDep && e.Class == clsHeld && held:
		observed = "held-in-progress"
	case k.Kind == "Deployment" && markAfter == markBefore && contains(diffs, "/spec/paused") && held:
		observed = clsRepaused
	case !touchedHold:
		observed = "bookkeeping-only"
	default:
		observed = "other"
	}

	allowed := func(p string) bool {
		switch e.Class {
		case clsUnchanged:
			return e.InProgDep && isStrategyPath(p)
		case clsRepaused:
			return p == "/spec/paused" || isStrategyPath(p)
		case clsHeld:
			return contains(hp, p) || p == pMark || (k.Kind == "Deployment" && p == pStable) || (e.InProgDep && isStrategyPath(p))
		}
		return contains(hp, p) || p == pMark || (k.Kind == "Deployment" && (p == pStable || isStrategyPath(p)))
	}
	for _, d := range diffs {
		ok := allowed(d)
		if ok && d == "/spec/updateStrategy/type" {
			// only "absent -> RollingUpdate" (the default written out) is bookkeeping
			ok = strAt(sub0, "spec", "updateStrategy", "type") == "" && strAt(adm, "spec", "updateStrategy", "type") == "RollingUpdate"
		}
		if ok {
			continue
		}
		if e.Class == clsUnchanged && (contains(hp, d) || d == pMark || d == pStable) {
			vs = append(vs, verdict{"c08:not-unchanged:" + tag + ":" + e.Reason,
				fmt.Sprintf("%s: expected admitted unchanged (%s) but the handler changed %s", tag, e.Reason, d)})
		} else {
			vs = append(vs, verdict{"c08:frame:" + tag + ":" + d,
				fmt.Sprintf("%s: frame condition broken: admitted object differs from the submitted one at %s (expected class %s)", tag, d, e.Class)})
		}
	}

	switch e.Class {
	case clsHeld:
		// judged on the admitted object (an object that was already held and marked for R needs no patch)
		name := parseMark(markAfter)
		if e.InProgDep {
			// a Deployment in the middle of a release: the mark stays; the hold is spec.paused, for partition style also
			// `paused` inside the deployment-strategy annotation (what the partition-style deployment controller obeys)
			if !held {
				if e.Style == "partition" {
					vs = append(vs, verdict{"c08:not-repaused:partition", "Deployment in a partition-style release was admitted with spec.paused=false"})
				} else {
					vs = append(vs, verdict{"c08:not-held:" + tag + ":in-progress-" + e.Style + ":paused", "Deployment: new release change during a " + e.Style + " release admitted with spec.paused=false"})
				}
			}
			if e.Style == "partition" {
				var st struct {
					Paused bool `json:"paused"`
				}
				_ = json.Unmarshal([]byte(strMap(adm, "metadata", "annotations")[keyDepStrategy]), &st)
				if !st.Paused {
					vs = append(vs, verdict{"c08:not-held:" + tag + ":in-progress-partition:strategy-annotation-paused",
						"Deployment: new release change during a partition-style release, but the admitted deployment-strategy annotation is not paused"})
				}
			}
			if !contains(e.Names, name) {
				vs = append(vs, verdict{"c08:wrong-mark:" + tag, fmt.Sprintf("%s: in-progress mark names %q, expected one of %v", tag, name, e.Names)})
			}
			break
		}
		switch {
		case len(diffs) == 0 && (!held || !contains(e.Names, name)):
			// the handler did nothing at all: one fingerprint, whatever the submitted object already carried
			vs = append(vs, verdict{"c08:not-held:" + tag + ":admitted-as-submitted", fmt.Sprintf("%s: release change under an active Rollout admitted as submitted: held back (%s)=%v, mark names %q, expected one of %v", tag, knob, held, name, e.Names)})
		case !held && name == "":
			vs = append(vs, verdict{"c08:not-held:" + tag + ":" + knob + "+no-mark", fmt.Sprintf("%s: release change under an active Rollout: admitted object is neither held back (%s) nor marked", tag, knob)})
		case !held:
			vs = append(vs, verdict{"c08:not-held:" + tag + ":" + knob, fmt.Sprintf("%s: admitted object is not held back (%s)", tag, knob)})
		case name == "":
			vs = append(vs, verdict{"c08:not-held:" + tag + ":no-mark", tag + ": admitted object carries no readable in-progress mark"})
		case !contains(e.Names, name):
			vs = append(vs, verdict{"c08:wrong-mark:" + tag, fmt.Sprintf("%s: in-progress mark names %q, expected one of %v", tag, name, e.Names)})
		}
	case clsRepaused:
		if p, _ := sub(adm, "spec")["paused"].(bool); !p {
			vs = append(vs, verdict{"c08:not-repaused:" + e.Style, "Deployment un-paused in the middle of a " + e.Style + "-style release was admitted un-paused"})
		}
	case clsUndetermined:
		if markAfter != markBefore {
			if name := parseMark(markAfter); !contains(e.Names, name) {
				vs = append(vs, verdict{"c08:wrong-mark:" + tag, fmt.Sprintf("%s: in-progress mark names %q which does not reference the workload (referencing: %v)", tag, name, e.Names)})
			}
		}
	}
	return
}
