package env

func (e *Env) stepStatefulSets() string { return "" }
func (e *Env) stepDaemonSets() string   { return "" }
